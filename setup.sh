#!/bin/bash
# MANIFEST.setup_cmd: build everything the checks need from files on disk only (offline).
set -uo pipefail
cd "$(dirname "$0")"
./stub/build.sh || exit 1
export GOFLAGS=-mod=mod GOPROXY=off GOSUMDB=off GOTOOLCHAIN=local PKG_CONFIG_PATH=$PWD/stub/pkgconfig CGO_ENABLED=1
GO=$(command -v go1.26.8 || echo /opt/veriftools/go1.26.8/bin/go)
# warm the build cache (best effort: each check rebuilds what it needs anyway)
( cd harness && $GO test -tags verif -vet=off -count=1 -run '^$' ./... >/dev/null 2>&1 ) || echo "setup: warm-up build reported errors (checks rebuild on demand)"
echo "setup done"
