package c10_fields

import (
	"testing"

	"verifharness/internal/ev"
)

func TestMain(m *testing.M) { ev.Main(m) }
