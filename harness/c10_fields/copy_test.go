package c10_fields

import (
	"io"
	"os"
	"path/filepath"
)

// copyTree copies a directory tree as it is on disk right now (a process-crash image), like
// fix.CopyTree, but keeps all-zero 64 KiB blocks as holes: the series file pre-allocates 32 MiB
// of zeros per store, which dominates the cost of a byte-for-byte copy.
func copyTree(src, dst string) error {
	buf := make([]byte, 64<<10)
	return filepath.Walk(src, func(p string, info os.FileInfo, err error) error {
		if err != nil {
			if os.IsNotExist(err) {
				return nil // vanished while walking (concurrent rename/remove)
			}
			return err
		}
		rel, _ := filepath.Rel(src, p)
		target := filepath.Join(dst, rel)
		if info.IsDir() {
			return os.MkdirAll(target, 0o777)
		}
		if !info.Mode().IsRegular() {
			return nil
		}
		in, err := os.Open(p)
		if err != nil {
			if os.IsNotExist(err) {
				return nil
			}
			return err
		}
		defer in.Close()
		out, err := os.Create(target)
		if err != nil {
			return err
		}
		defer out.Close()
		var off int64
		for {
			n, rerr := io.ReadFull(in, buf)
			if n > 0 {
				if !allZero(buf[:n]) {
					if _, err := out.WriteAt(buf[:n], off); err != nil {
						return err
					}
				}
				off += int64(n)
			}
			if rerr == io.EOF || rerr == io.ErrUnexpectedEOF {
				break
			}
			if rerr != nil {
				return rerr
			}
		}
		return out.Truncate(off)
	})
}

func allZero(b []byte) bool {
	for len(b) >= 8 {
		if b[0]|b[1]|b[2]|b[3]|b[4]|b[5]|b[6]|b[7] != 0 {
			return false
		}
		b = b[8:]
	}
	for _, x := range b {
		if x != 0 {
			return false
		}
	}
	return true
}
