// C10 — A field keeps a single type, persistently.
//
// A state machine on a real shard (fix.ShardFix): writes whose fields pick types freely (so
// conflicts with the existing schema arise constantly), DeleteMeasurement, range deletes that
// empty a measurement, cache snapshots, clean reopen, crash-reopen (byte copy of the live
// directories without Close, opened with a fresh store), crash images taken from inside the
// field-index persistence code (verifhook points tsdb.fields.after-append / after-tmp-write /
// after-rename), fields.idxl cut at every byte offset of its last record, and concurrent writers
// racing on a new field.
//
// Model: measurement -> field -> type, updated in point order (fields are visited in sorted key
// order, as models.NewPoint serialises them); dropped measurements forget their fields.
package c10_fields

import (
	"context"
	"errors"
	"fmt"
	"os"
	"path/filepath"
	"sort"
	"strings"
	"sync"
	"time"

	"github.com/influxdata/influxdb/v2/models"
	"github.com/influxdata/influxdb/v2/pkg/verifhook"
	"github.com/influxdata/influxdb/v2/tsdb"
	"github.com/influxdata/influxql"
	"pgregory.net/rapid"

	"verifharness/internal/ev"
	"verifharness/internal/fix"
	"verifharness/internal/model"
	"verifharness/internal/scratch"
)

const (
	prop     = "C10"
	knownKey = "measurement-drop-not-logged"
)

var rec = ev.For(prop, "fault_enumeration",
	"case = one generated history on a real shard of typed writes (types picked freely, so conflicts arise), DeleteMeasurement / emptying range deletes, snapshots, clean reopens, crash-reopens (directory copy without Close), crash images at the fields.idx/fields.idxl hook points, fields.idxl cut at every offset of its last record, and concurrent writers racing on a new field; non-trivial = the history contains >=1 rejected type conflict, >=1 measurement drop that removed a schema, >=1 accepted write re-creating a dropped field with another type, and >=1 crash image examined after the drop; distinct by rendered history")

var (
	measurements = []string{"m", "m1", "cpu load"}
	tagVals      = []string{"a", "b"}
	fieldNames   = []string{"f0", "f1", "f2", "f3", "v0"} // sorted; "time" (illegal, stripped) sorts between f3 and v0
	kinds        = []model.Kind{model.Float, model.Integer, model.Unsigned, model.Boolean, model.String}
)

// ---------------------------------------------------------------------------------------------
// schema model

type schema map[string]map[string]model.Kind

func (s schema) clone() schema {
	o := schema{}
	for m, fs := range s {
		o[m] = map[string]model.Kind{}
		for f, k := range fs {
			o[m][f] = k
		}
	}
	return o
}

func (s schema) get(m, f string) (model.Kind, bool) {
	k, ok := s[m][f]
	return k, ok
}

func (s schema) set(m, f string, k model.Kind) {
	if s[m] == nil {
		s[m] = map[string]model.Kind{}
	}
	s[m][f] = k
}

func (s schema) del(m, f string) {
	delete(s[m], f)
	if len(s[m]) == 0 {
		delete(s, m)
	}
}

func (s schema) fieldCount() int {
	n := 0
	for _, fs := range s {
		n += len(fs)
	}
	return n
}

func kindName(k model.Kind) string {
	if k < 0 || int(k) > int(model.String) {
		return fmt.Sprintf("type(%d)", int(k))
	}
	return k.String()
}

func (s schema) String() string {
	var ms []string
	for m, fs := range s {
		if len(fs) > 0 {
			ms = append(ms, m)
		}
	}
	sort.Strings(ms)
	var sb strings.Builder
	sb.WriteString("{")
	for i, m := range ms {
		if i > 0 {
			sb.WriteString("; ")
		}
		var fs []string
		for f := range s[m] {
			fs = append(fs, f)
		}
		sort.Strings(fs)
		fmt.Fprintf(&sb, "%q:", m)
		for _, f := range fs {
			fmt.Fprintf(&sb, " %s=%s", f, kindName(s[m][f]))
		}
	}
	sb.WriteString("}")
	return sb.String()
}

func kindOf(dt influxql.DataType) model.Kind {
	switch dt {
	case influxql.Float:
		return model.Float
	case influxql.Integer:
		return model.Integer
	case influxql.Unsigned:
		return model.Unsigned
	case influxql.Boolean:
		return model.Boolean
	case influxql.String:
		return model.String
	}
	return model.Kind(100 + int(dt))
}

func fieldSetSchema(fs *tsdb.MeasurementFieldSet) schema {
	out := schema{}
	for _, name := range fs.MeasurementNames() {
		mf := fs.FieldsByString(name)
		if mf == nil {
			continue
		}
		for f, dt := range mf.FieldSet() {
			out.set(name, f, kindOf(dt))
		}
	}
	return out
}

// observe reads the shard's recorded field types without creating anything.
func observe(f *fix.ShardFix) (schema, error) {
	e, err := f.Engine()
	if err != nil {
		return nil, err
	}
	return fieldSetSchema(e.MeasurementFieldSet()), nil
}

// ---------------------------------------------------------------------------------------------
// points

const timeField = "time"

type wfield struct {
	Name string    `json:"name"`
	V    model.Val `json:"v"`
}

type wpoint struct {
	M      string   `json:"m"`
	Tag    string   `json:"tag"`
	T      int64    `json:"t"`
	Fields []wfield `json:"fields"` // sorted by name, unique names
}

func seriesKey(m, tag string) string {
	return string(models.MakeKey([]byte(m), models.NewTags(map[string]string{"host": tag})))
}

func (p wpoint) series() string { return seriesKey(p.M, p.Tag) }

func (p wpoint) toPoint() (models.Point, error) {
	fs := models.Fields{}
	for _, f := range p.Fields {
		fs[f.Name] = f.V.Interface()
	}
	return models.NewPoint(p.M, models.NewTags(map[string]string{"host": p.Tag}), fs, time.Unix(0, p.T))
}

func (p wpoint) String() string {
	var sb strings.Builder
	fmt.Fprintf(&sb, "[%s@%d", p.series(), p.T)
	for _, f := range p.Fields {
		fmt.Fprintf(&sb, " %s=%s", f.Name, f.V)
	}
	sb.WriteString("]")
	return sb.String()
}

func seqValue(k model.Kind, seq int) model.Val {
	switch k {
	case model.Float:
		return model.Val{K: k, F: float64(seq) + 0.5}
	case model.Integer:
		return model.Val{K: k, I: int64(seq)}
	case model.Unsigned:
		return model.Val{K: k, U: uint64(seq)}
	case model.Boolean:
		return model.Val{K: k, B: seq%2 == 0}
	default:
		return model.Val{K: k, S: fmt.Sprintf("v%d", seq)}
	}
}

// ---------------------------------------------------------------------------------------------
// machine

type op struct {
	Kind   string     `json:"kind"`
	Points []wpoint   `json:"points,omitempty"`
	Conc   [][]wpoint `json:"conc,omitempty"`
	M      string     `json:"m,omitempty"`
	Arg    string     `json:"arg,omitempty"`
	Min    int64      `json:"min,omitempty"`
	Max    int64      `json:"max,omitempty"`
}

func renderOps(ops []op) string {
	var sb strings.Builder
	for i, o := range ops {
		if i > 0 {
			sb.WriteString(" ; ")
		}
		sb.WriteString(o.Kind)
		if o.M != "" {
			fmt.Fprintf(&sb, "(%q)", o.M)
		}
		if o.Arg != "" {
			fmt.Fprintf(&sb, "<%s>", o.Arg)
		}
		if o.Kind == "deleteRange" {
			fmt.Fprintf(&sb, "[%d,%d]", o.Min, o.Max)
		}
		for _, p := range o.Points {
			sb.WriteString(p.String())
		}
		for _, b := range o.Conc {
			sb.WriteString("{")
			for _, p := range b {
				sb.WriteString(p.String())
			}
			sb.WriteString("}")
		}
	}
	return sb.String()
}

// image is a crash image: heavy = the whole store tree (opened with a fresh store), otherwise
// only the shard's fields.idx / fields.idx.tmp / fields.idxl (loaded with NewMeasurementFieldSet).
type image struct {
	point string
	dir   string
	heavy bool
}

type machine struct {
	t    *rapid.T
	test string
	f    *fix.ShardFix

	roots []string
	extra []*fix.ShardFix // fixtures opened on images (closed at the end if a failure left them open)

	sch  schema
	data map[string]map[int64]model.Val // series + "\x00" + field -> ts -> value
	seen map[string]map[string]bool     // measurement -> series keys that reached the index

	// ghosts: schemas removed by an acknowledged drop since the fields index was last consolidated
	// by a clean close — exactly the state in which the open known finding makes them come back.
	ghosts        schema
	ghostConflict bool   // a ghost field was re-created with another type (known finding: load aborts)
	dropped       schema // fields removed by a drop and not re-created since ("stays removed" probes)

	ops []op
	seq int

	snapshots                                                 int
	nConflict, nDrop, nRetype, nCrashAfterDrop, nTorn, nImage int
	dropSeen                                                  bool
}

func newMachine(t *rapid.T, test string) *machine {
	root, err := scratch.Dir("c10-")
	if err != nil {
		t.Fatalf("scratch: %v", err)
	}
	f, err := fix.NewShardFix(root)
	if err != nil {
		os.RemoveAll(root)
		t.Fatalf("fixture: %v", err)
	}
	return &machine{t: t, test: test, f: f, roots: []string{root}, sch: schema{}, data: map[string]map[int64]model.Val{},
		seen: map[string]map[string]bool{}, ghosts: schema{}, dropped: schema{}}
}

func (mc *machine) close() {
	verifhook.Set(nil)
	if mc.f != nil {
		mc.f.Close()
	}
	for _, fx := range mc.extra {
		fx.Close()
	}
	for _, r := range mc.roots {
		os.RemoveAll(r)
	}
}

func (mc *machine) newRoot(prefix string) string {
	d, err := scratch.Dir(prefix)
	if err != nil {
		mc.t.Fatalf("scratch: %v", err)
	}
	mc.roots = append(mc.roots, d)
	return d
}

func (mc *machine) dropRoot(d string) {
	os.RemoveAll(d)
	for i, r := range mc.roots {
		if r == d {
			mc.roots = append(mc.roots[:i], mc.roots[i+1:]...)
			return
		}
	}
}

func (mc *machine) fail(key, detail string) {
	rec.Fail(mc.t, mc.test, key, detail+"\nhistory: "+renderOps(mc.ops), map[string]any{"ops": mc.ops})
}

func dkey(series, field string) string { return series + "\x00" + field }

func measurementOfSeries(series string) string {
	name, _ := models.ParseKeyBytes([]byte(series))
	return string(name)
}

func (mc *machine) hasData(m string) bool {
	for k, pts := range mc.data {
		if len(pts) > 0 && measurementOfSeries(k[:strings.IndexByte(k, 0)]) == m {
			return true
		}
	}
	return false
}

// ---------------------------------------------------------------------------------------------
// model of one batch

type tentative struct {
	m, f string
	k    model.Kind
}

// apply updates the model with a batch in point order and returns, per point, whether the model
// rejects it. Fields that a rejected point introduced before its offending field are "tentative":
// the validator creates them (documented in ValidateAndCreateFields), the statement is silent,
// so the caller resolves them against the observed schema.
func (mc *machine) apply(batch []wpoint) (rejected []bool, tent []tentative) {
	rejected = make([]bool, len(batch))
	for i, p := range batch {
		var created []tentative
		for _, f := range p.Fields {
			if f.Name == timeField {
				continue
			}
			if k, ok := mc.sch.get(p.M, f.Name); ok {
				if k != f.V.K {
					rejected[i] = true
					break
				}
				continue
			}
			mc.sch.set(p.M, f.Name, f.V.K)
			created = append(created, tentative{p.M, f.Name, f.V.K})
		}
		if mc.seen[p.M] == nil {
			mc.seen[p.M] = map[string]bool{}
		}
		mc.seen[p.M][p.series()] = true
		if rejected[i] {
			tent = append(tent, created...)
			continue
		}
		for _, c := range created {
			mc.noteCreated(c)
		}
		for _, f := range p.Fields {
			if f.Name == timeField {
				continue
			}
			k := dkey(p.series(), f.Name)
			if mc.data[k] == nil {
				mc.data[k] = map[int64]model.Val{}
			}
			mc.data[k][p.T] = f.V
		}
	}
	return rejected, tent
}

// noteCreated maintains the bookkeeping around dropped / ghost fields when a field is (re)created.
func (mc *machine) noteCreated(c tentative) {
	if old, ok := mc.dropped.get(c.m, c.f); ok {
		if old != c.k {
			mc.nRetype++
			rec.Class("write:recreates-dropped-field-with-other-type")
		}
		mc.dropped.del(c.m, c.f)
	}
	if g, ok := mc.ghosts.get(c.m, c.f); ok && g != c.k {
		mc.ghostConflict = true
	}
}

// ---------------------------------------------------------------------------------------------
// reads

func (mc *machine) readCompare(fx *fix.ShardFix, where string, keys map[string]bool) {
	ks := make([]string, 0, len(keys))
	for k := range keys {
		ks = append(ks, k)
	}
	sort.Strings(ks)
	for _, k := range ks {
		i := strings.IndexByte(k, 0)
		series, field := k[:i], k[i+1:]
		got, err := fx.Read(series, field, models.MinNanoTime, models.MaxNanoTime, true)
		if err != nil {
			mc.fail("read-error", fmt.Sprintf("%s: reading %s %s: %v", where, series, field, err))
		}
		want := mc.data[k]
		ts := make([]int64, 0, len(want))
		for t := range want {
			ts = append(ts, t)
		}
		sort.Slice(ts, func(a, b int) bool { return ts[a] < ts[b] })
		ok := len(got) == len(ts)
		for j := 0; ok && j < len(ts); j++ {
			ok = got[j].T == ts[j] && got[j].V.Equal(want[ts[j]])
		}
		if !ok {
			var w []string
			for _, t := range ts {
				w = append(w, fmt.Sprintf("%d:%s", t, want[t]))
			}
			var g []string
			for _, p := range got {
				g = append(g, fmt.Sprintf("%d:%s", p.T, p.V))
			}
			key := "stored-data-mismatch"
			if len(got) > len(ts) {
				key = "rejected-or-deleted-point-readable"
			}
			mc.fail(key, fmt.Sprintf("%s: %s field %s: read %v, model %v (schema model %s)", where, series, field, g, w, mc.sch))
		}
	}
}

func (mc *machine) allKeys() map[string]bool {
	ks := map[string]bool{}
	for k := range mc.data {
		ks[k] = true
	}
	return ks
}

// ---------------------------------------------------------------------------------------------
// schema comparison

// compareSchema checks an observed schema against the model. before/after are the model schema
// around an operation that was in flight when the image was taken (equal when nothing was in
// flight): fields on which they agree must be present with that type; fields on which they differ
// may show either state or be absent; anything else is a discrepancy. Fields explained only by the
// ghosts of the open known finding are returned separately.
func compareSchema(obs, before, after, ghosts schema) (hard []string, ghostHits []string) {
	type mf struct{ m, f string }
	all := map[mf]bool{}
	for _, s := range []schema{obs, before, after} {
		for m, fs := range s {
			for f := range fs {
				all[mf{m, f}] = true
			}
		}
	}
	keys := make([]mf, 0, len(all))
	for k := range all {
		keys = append(keys, k)
	}
	sort.Slice(keys, func(i, j int) bool {
		if keys[i].m != keys[j].m {
			return keys[i].m < keys[j].m
		}
		return keys[i].f < keys[j].f
	})
	for _, k := range keys {
		b, inB := before.get(k.m, k.f)
		a, inA := after.get(k.m, k.f)
		o, inO := obs.get(k.m, k.f)
		g, inG := ghosts.get(k.m, k.f)
		stable := inB && inA && a == b
		switch {
		case stable && inO && o == a:
		case stable && !inO:
			hard = append(hard, fmt.Sprintf("%q.%s lost (recorded %s)", k.m, k.f, kindName(a)))
		case stable:
			if inG && o == g {
				ghostHits = append(ghostHits, fmt.Sprintf("%q.%s is %s again (dropped schema), recorded %s", k.m, k.f, kindName(o), kindName(a)))
			} else {
				hard = append(hard, fmt.Sprintf("%q.%s is %s, recorded %s", k.m, k.f, kindName(o), kindName(a)))
			}
		case !inO:
		case (inB && o == b) || (inA && o == a):
		case inG && o == g:
			ghostHits = append(ghostHits, fmt.Sprintf("%q.%s=%s came back after its measurement was dropped", k.m, k.f, kindName(o)))
		default:
			hard = append(hard, fmt.Sprintf("%q.%s=%s was never recorded", k.m, k.f, kindName(o)))
		}
	}
	return hard, ghostHits
}

// judge turns a comparison into violations / known-finding exclusions. It returns false when the
// image matched the open known finding (the caller must not rely on the image any further).
func (mc *machine) judge(where string, obs, before, after schema) bool {
	hard, ghostHits := compareSchema(obs, before, after, mc.ghosts)
	if len(hard) > 0 {
		mc.fail("schema-not-recovered", fmt.Sprintf("%s: %s; observed %s, model %s (in-flight from %s)", where, strings.Join(hard, ", "), obs, after, before))
	}
	if len(ghostHits) > 0 {
		if ev.KnownOpen(prop, knownKey) {
			rec.ExcludedKnown(knownKey)
			return false
		}
		mc.fail(knownKey, fmt.Sprintf("%s: %s; observed %s, model %s", where, strings.Join(ghostHits, ", "), obs, after))
	}
	return true
}

// expectLive asserts that the live shard's schema equals the model exactly.
func (mc *machine) expectLive(where string) {
	obs, err := observe(mc.f)
	if err != nil {
		mc.fail("engine-unavailable", fmt.Sprintf("%s: %v", where, err))
	}
	hard, _ := compareSchema(obs, mc.sch, mc.sch, schema{})
	if len(hard) > 0 {
		mc.fail("schema-mismatch", fmt.Sprintf("%s: %s; observed %s, model %s", where, strings.Join(hard, ", "), obs, mc.sch))
	}
}

// ---------------------------------------------------------------------------------------------
// hooks

var (
	appendPoint  = map[string]bool{"tsdb.fields.after-append": true}
	rewritePoint = map[string]bool{"tsdb.fields.after-tmp-write": true, "tsdb.fields.after-rename": true}
)

func shardDataDir(root string) string {
	return filepath.Join(root, "data", fix.DB, fix.RP, fmt.Sprint(fix.ShardID))
}

func idxlPath(root string) string { return filepath.Join(shardDataDir(root), tsdb.FieldsChangeFile) }

func fileSize(p string) int64 {
	st, err := os.Stat(p)
	if err != nil {
		return 0
	}
	return st.Size()
}

// copyFieldFiles copies fields.idx, fields.idx.tmp and fields.idxl (as far as they exist).
func copyFieldFiles(srcDir, dstDir string) error {
	for _, n := range []string{"fields.idx", "fields.idx.tmp", tsdb.FieldsChangeFile} {
		b, err := os.ReadFile(filepath.Join(srcDir, n))
		if os.IsNotExist(err) {
			continue
		}
		if err != nil {
			return err
		}
		if err := os.WriteFile(filepath.Join(dstDir, n), b, 0o666); err != nil {
			return err
		}
	}
	return nil
}

// withHook runs fn while a crash image of the live shard is taken at the first hit of each of
// the named points that concerns the live shard (heavy: the whole tree; else the field files).
func (mc *machine) withHook(points map[string]bool, heavy bool, fn func()) []image {
	root := mc.f.Root
	var mu sync.Mutex
	var imgs []image
	var copyErr error
	verifhook.Set(func(name, detail string) {
		if !points[name] || !strings.HasPrefix(detail, root+string(filepath.Separator)) {
			return
		}
		mu.Lock()
		defer mu.Unlock()
		for _, im := range imgs {
			if im.point == name {
				return
			}
		}
		d, err := scratch.Dir("c10-img-")
		if err != nil {
			copyErr = err
			return
		}
		if heavy {
			err = copyTree(root, d)
		} else {
			err = copyFieldFiles(shardDataDir(root), d)
		}
		if err != nil {
			copyErr = err
		}
		imgs = append(imgs, image{point: name, dir: d, heavy: heavy})
	})
	func() {
		defer verifhook.Set(nil)
		fn()
	}()
	mu.Lock()
	defer mu.Unlock()
	for _, im := range imgs {
		mc.roots = append(mc.roots, im.dir)
	}
	if copyErr != nil {
		mc.t.Fatalf("harness: crash image: %v", copyErr)
	}
	return imgs
}

// ---------------------------------------------------------------------------------------------
// crash images

func (mc *machine) countImage() {
	mc.nImage++
	if mc.dropSeen {
		mc.nCrashAfterDrop++
	}
}

// skipKnownConflict: a dropped field was re-created with another type while the drop is not in
// the change log; loading then aborts at the re-creation record and ignores the rest of the log
// (open known finding, wide blast radius) — excluded by construction, counted.
func (mc *machine) skipKnownConflict() bool {
	if mc.ghostConflict && ev.KnownOpen(prop, knownKey) {
		rec.ExcludedKnown(knownKey)
		rec.Class("image:skipped-known-ghost-conflict")
		return true
	}
	return false
}

// openImage opens a fresh store on a whole-tree crash image and judges its schema. It returns
// the opened fixture (caller closes) or nil when the image matched the open known finding.
func (mc *machine) openImage(where, dir string, before, after schema, dataCheck bool) *fix.ShardFix {
	mc.countImage()
	if mc.skipKnownConflict() {
		return nil
	}
	fx := &fix.ShardFix{Root: dir}
	mc.extra = append(mc.extra, fx)
	if err := fx.Open(); err != nil {
		mc.fail("open-after-crash", fmt.Sprintf("%s: opening the crash image failed: %v", where, err))
	}
	obs, err := observe(fx)
	if err != nil {
		mc.fail("open-after-crash", fmt.Sprintf("%s: %v", where, err))
	}
	if !mc.judge(where, obs, before, after) {
		rec.Class("image:matched-known-finding")
		fx.Close()
		return nil
	}
	if dataCheck {
		mc.readCompare(fx, where, mc.allKeys())
	}
	return fx
}

// loadFieldFiles loads the field set from the field files of an image (what Engine.Open does
// after removing *.tmp files) and judges it.
func (mc *machine) loadFieldFiles(where, dir string, before, after schema) {
	mc.countImage()
	if mc.skipKnownConflict() {
		return
	}
	os.Remove(filepath.Join(dir, "fields.idx.tmp")) // Engine.cleanup removes *.tmp before loading
	fs, lerr := tsdb.NewMeasurementFieldSet(filepath.Join(dir, "fields.idx"), nil)
	if fs == nil {
		mc.fail("open-after-crash", fmt.Sprintf("%s: no field set returned: %v", where, lerr))
	}
	obs := fieldSetSchema(fs)
	fs.Close()
	if !mc.judge(fmt.Sprintf("%s (load error: %v)", where, lerr), obs, before, after) {
		rec.Class("image:matched-known-finding")
	}
}

// probeStaysRemoved writes, on a recovered image, a different type for field names whose schema
// was removed by a drop: the write must be accepted ("stays removed" made observable).
func (mc *machine) probeStaysRemoved(where string, fx *fix.ShardFix) {
	var ms []string
	for m := range mc.dropped {
		ms = append(ms, m)
	}
	sort.Strings(ms)
	var pts []models.Point
	var desc []string
	for _, m := range ms {
		var fs []string
		for f := range mc.dropped[m] {
			fs = append(fs, f)
		}
		sort.Strings(fs)
		for _, f := range fs {
			k := mc.dropped[m][f]
			if _, ok := mc.sch.get(m, f); ok {
				continue
			}
			nk := kinds[(int(k)+1)%len(kinds)]
			p, err := wpoint{M: m, Tag: "a", T: 1000, Fields: []wfield{{f, seqValue(nk, 7)}}}.toPoint()
			if err != nil {
				mc.t.Fatalf("harness: %v", err)
			}
			pts = append(pts, p)
			desc = append(desc, fmt.Sprintf("%q.%s %s->%s", m, f, kindName(k), kindName(nk)))
		}
	}
	if len(pts) == 0 {
		return
	}
	rec.Class("image:probe-write-new-type-for-dropped-field")
	if err := fx.Write(pts); err != nil {
		key := "dropped-schema-back-after-restart"
		if mc.ghosts.fieldCount() > 0 {
			key = knownKey
		}
		mc.fail(key, fmt.Sprintf("%s: after the restart a write with a new type for fields of dropped measurements (%s) was rejected: %v", where, strings.Join(desc, ", "), err))
	}
}

// tornOffsets cuts the change log of an after-append image at every byte offset of its last
// record and loads the field set from (fields.idx, cut fields.idxl). dir holds the field files.
func (mc *machine) tornOffsets(dir string, prevSize int64, before, after schema) (full []byte) {
	if mc.ghostConflict && ev.KnownOpen(prop, knownKey) {
		return nil
	}
	full, err := os.ReadFile(filepath.Join(dir, tsdb.FieldsChangeFile))
	if err != nil {
		return nil
	}
	if int64(len(full)) <= prevSize {
		rec.Class("torn:no-new-record")
		return nil
	}
	idx, idxErr := os.ReadFile(filepath.Join(dir, "fields.idx"))
	work := mc.newRoot("c10-torn-")
	defer mc.dropRoot(work)
	excluded := false
	for k := prevSize; k <= int64(len(full)); k++ {
		d := filepath.Join(work, fmt.Sprint(k))
		if err := os.MkdirAll(d, 0o777); err != nil {
			mc.t.Fatalf("harness: %v", err)
		}
		if idxErr == nil {
			if err := os.WriteFile(filepath.Join(d, "fields.idx"), idx, 0o666); err != nil {
				mc.t.Fatalf("harness: %v", err)
			}
		}
		if err := os.WriteFile(filepath.Join(d, tsdb.FieldsChangeFile), full[:k], 0o666); err != nil {
			mc.t.Fatalf("harness: %v", err)
		}
		fs, lerr := tsdb.NewMeasurementFieldSet(filepath.Join(d, "fields.idx"), nil)
		if fs == nil {
			mc.fail("torn-change-log", fmt.Sprintf("fields.idxl cut at %d of %d: no field set returned: %v", k, len(full), lerr))
		}
		obs := fieldSetSchema(fs)
		fs.Close()
		mc.nTorn++
		where := fmt.Sprintf("fields.idxl cut at offset %d (last record %d..%d, load error %v)", k, prevSize, len(full), lerr)
		hard, ghostHits := compareSchema(obs, before, after, mc.ghosts)
		if len(hard) > 0 {
			mc.fail("torn-change-log", fmt.Sprintf("%s: %s; observed %s, model before %s after %s", where, strings.Join(hard, ", "), obs, before, after))
		}
		if len(ghostHits) > 0 {
			if !ev.KnownOpen(prop, knownKey) {
				mc.fail(knownKey, fmt.Sprintf("%s: %s", where, strings.Join(ghostHits, ", ")))
			}
			excluded = true
		}
		os.RemoveAll(d)
	}
	if excluded {
		rec.ExcludedKnown(knownKey)
	}
	rec.Class("torn:last-record-all-offsets")
	return full
}

// inflight examines the images taken inside an operation.
func (mc *machine) inflight(imgs []image, what string, prevSize int64, before, after schema) {
	quiet := before.String() == after.String() // nothing was in flight as far as the model goes
	for _, im := range imgs {
		where := fmt.Sprintf("crash image at %s inside %s", im.point, what)
		if !im.heavy {
			rec.Class("image:field-files:" + im.point + ":" + what)
			if im.point == "tsdb.fields.after-append" {
				mc.tornOffsets(im.dir, prevSize, before, after)
			}
			mc.loadFieldFiles(where, im.dir, before, after)
			mc.dropRoot(im.dir)
			continue
		}
		rec.Class("image:whole-store:" + im.point + ":" + what)
		if im.point == "tsdb.fields.after-append" {
			if full := mc.tornOffsets(shardDataDir(im.dir), prevSize, before, after); full != nil {
				// a whole-store open of one cut image
				k := prevSize + int64(rapid.IntRange(0, len(full)-int(prevSize)).Draw(mc.t, "tornShardOffset"))
				img2 := mc.newRoot("c10-img-")
				if err := copyTree(im.dir, img2); err != nil {
					mc.t.Fatalf("harness: %v", err)
				}
				if err := os.Truncate(idxlPath(img2), k); err != nil {
					mc.t.Fatalf("harness: %v", err)
				}
				if fx := mc.openImage(fmt.Sprintf("store opened on image of %s with fields.idxl cut at %d of %d", what, k, len(full)), img2, before, after, false); fx != nil {
					fx.Close()
				}
				mc.dropRoot(img2)
			}
		}
		if fx := mc.openImage(where, im.dir, before, after, quiet); fx != nil {
			if quiet {
				mc.probeStaysRemoved(where, fx)
			}
			fx.Close()
		}
		mc.dropRoot(im.dir)
	}
}

// ---------------------------------------------------------------------------------------------
// actions

func (mc *machine) pickKind(m, f string) model.Kind {
	mode := rapid.IntRange(0, 9).Draw(mc.t, "kmode")
	other := func(k model.Kind) model.Kind {
		return kinds[(int(k)+1+rapid.IntRange(0, len(kinds)-2).Draw(mc.t, "kother"))%len(kinds)]
	}
	if k, ok := mc.sch.get(m, f); ok {
		if mode < 8 {
			return k
		}
		return other(k)
	}
	if k, ok := mc.dropped.get(m, f); ok {
		if mode < 5 {
			return other(k)
		}
		return k
	}
	return rapid.SampledFrom(kinds).Draw(mc.t, "knew")
}

func (mc *machine) genPoint(m string) wpoint {
	p := wpoint{M: m, Tag: rapid.SampledFrom(tagVals).Draw(mc.t, "tag"), T: int64(rapid.IntRange(0, 15).Draw(mc.t, "ts")) * 10}
	nf := rapid.IntRange(1, 3).Draw(mc.t, "nf")
	picked := map[string]bool{}
	for j := 0; j < nf; j++ {
		picked[rapid.SampledFrom(fieldNames).Draw(mc.t, "fname")] = true
	}
	// the illegal field name "time": stripped from the point, never recorded, and no excuse for
	// accepting a conflicting field that comes after it
	withTime := rapid.IntRange(0, 7).Draw(mc.t, "timefield") == 0
	for _, name := range fieldNames { // sorted
		if name == "v0" && withTime {
			mc.seq++
			p.Fields = append(p.Fields, wfield{timeField, seqValue(model.Integer, mc.seq)})
			withTime = false
			rec.Class("write:point-with-time-field")
			if picked[name] {
				rec.Class("write:point-with-time-field-before-another-field")
			}
		}
		if picked[name] {
			mc.seq++
			p.Fields = append(p.Fields, wfield{name, seqValue(mc.pickKind(m, name), mc.seq)})
		}
	}
	return p
}

func (mc *machine) genBatch() []wpoint {
	n := rapid.IntRange(1, 5).Draw(mc.t, "npoints")
	var out []wpoint
	for i := 0; i < n; i++ {
		out = append(out, mc.genPoint(rapid.SampledFrom(measurements).Draw(mc.t, "m")))
	}
	return out
}

func toModels(t *rapid.T, batch []wpoint) []models.Point {
	var pts []models.Point
	for _, p := range batch {
		x, err := p.toPoint()
		if err != nil {
			t.Fatalf("harness: cannot build point %v: %v", p, err)
		}
		pts = append(pts, x)
	}
	return pts
}

func touched(batch []wpoint) map[string]bool {
	ks := map[string]bool{}
	for _, p := range batch {
		for _, f := range p.Fields {
			ks[dkey(p.series(), f.Name)] = true
		}
	}
	return ks
}

func checkWriteError(err error, nRej, nPoints int) (key, detail string) {
	var pwe tsdb.PartialWriteError
	var ppwe *tsdb.PartialWriteError
	switch {
	case err == nil:
		if nRej != 0 {
			return "conflict-not-reported", fmt.Sprintf("the model rejects %d of %d points (field type conflicts) but WritePoints returned nil", nRej, nPoints)
		}
	case errors.As(err, &pwe):
		if pwe.Dropped != nRej {
			return "dropped-count", fmt.Sprintf("PartialWriteError.Dropped=%d, the model rejects %d of %d points (%v)", pwe.Dropped, nRej, nPoints, err)
		}
	case errors.As(err, &ppwe):
		if ppwe.Dropped != nRej {
			return "dropped-count", fmt.Sprintf("PartialWriteError.Dropped=%d, the model rejects %d of %d points (%v)", ppwe.Dropped, nRej, nPoints, err)
		}
	default:
		return "unexpected-write-error", fmt.Sprintf("WritePoints returned %v (model rejects %d of %d points)", err, nRej, nPoints)
	}
	return "", ""
}

func (mc *machine) fieldHasData(m, f string) bool {
	for dk, pts := range mc.data {
		i := strings.IndexByte(dk, 0)
		if len(pts) > 0 && dk[i+1:] == f && measurementOfSeries(dk[:i]) == m {
			return true
		}
	}
	return false
}

// resolveTentative aligns the model with the observed fate of fields introduced by rejected points.
func (mc *machine) resolveTentative(where string, tent []tentative) {
	if len(tent) == 0 {
		return
	}
	obs, err := observe(mc.f)
	if err != nil {
		mc.fail("engine-unavailable", err.Error())
	}
	for _, c := range tent {
		o, ok := obs.get(c.m, c.f)
		switch {
		case !ok:
			rec.Class("write:field-of-rejected-point-not-recorded")
			// forget it unless an accepted point stored data under it
			if !mc.fieldHasData(c.m, c.f) {
				mc.sch.del(c.m, c.f)
			}
		case o == c.k:
			rec.Class("write:field-of-rejected-point-recorded")
			mc.noteCreated(c)
		default:
			mc.fail("schema-mismatch", fmt.Sprintf("%s: field %q.%s introduced as %s by a rejected point is recorded as %s", where, c.m, c.f, kindName(c.k), kindName(o)))
		}
	}
}

func (mc *machine) write(batch []wpoint, heavy bool) {
	mc.ops = append(mc.ops, op{Kind: "write", Points: batch})
	before := mc.sch.clone()
	prevSize := fileSize(idxlPath(mc.f.Root))
	rejected, tent := mc.apply(batch)
	nRej := 0
	for _, r := range rejected {
		if r {
			nRej++
		}
	}
	pts := toModels(mc.t, batch)
	var err error
	imgs := mc.withHook(appendPoint, heavy, func() { err = mc.f.Write(pts) })
	if key, detail := checkWriteError(err, nRej, len(batch)); key != "" {
		mc.fail(key, "write: "+detail)
	}
	if nRej > 0 {
		mc.nConflict++
		rec.Class("write:with-type-conflict")
		if nRej < len(batch) {
			rec.Class("write:partial(accepted+rejected)")
		}
	} else {
		rec.Class("write:all-accepted")
	}
	mc.resolveTentative("write", tent)
	mc.expectLive("after write")
	mc.readCompare(mc.f, "after write", touched(batch))
	if len(imgs) > 0 {
		mc.inflight(imgs, "write", prevSize, before, mc.sch.clone())
	}
}

// removed handles the bookkeeping of a measurement whose schema an acknowledged delete removed.
func (mc *machine) removed(m string, pre map[string]model.Kind) {
	mc.nDrop++
	mc.dropSeen = true
	for f, k := range pre {
		if g, ok := mc.ghosts.get(m, f); ok && g != k {
			// dropped twice with different types since the last consolidation: the older type is
			// what fields.idx still holds
			mc.ghostConflict = true
		} else {
			mc.ghosts.set(m, f, k)
		}
		mc.dropped.set(m, f, k)
	}
	delete(mc.sch, m)
	delete(mc.seen, m)
}

func (mc *machine) afterDelete(what, m string, hadData bool, pre map[string]model.Kind) {
	obs, err := observe(mc.f)
	if err != nil {
		mc.fail("engine-unavailable", err.Error())
	}
	if mc.hasData(m) {
		rec.Class(what + ":measurement-keeps-data")
		return
	}
	if len(pre) == 0 {
		rec.Class(what + ":no-schema")
		return
	}
	switch {
	case len(obs[m]) == 0:
		rec.Class(what + ":schema-removed")
		mc.removed(m, pre)
	case hadData:
		mc.fail("drop-left-schema", fmt.Sprintf("%s of %q removed all of its data but its field schema is still recorded: %s", what, m, obs))
	default:
		// nothing was stored for the measurement (only rejected points): the statement does not
		// say whether the drop removes such a schema; keep whatever the shard shows
		rec.Class(what + ":schema-without-data-kept")
	}
}

func (mc *machine) dropMeasurement(m string, heavy bool) {
	mc.ops = append(mc.ops, op{Kind: "drop", M: m})
	before := mc.sch.clone()
	pre := before.clone()[m]
	hadData := mc.hasData(m)
	prevSize := fileSize(idxlPath(mc.f.Root))
	var keys = map[string]bool{}
	for k := range mc.data {
		if measurementOfSeries(k[:strings.IndexByte(k, 0)]) == m {
			keys[k] = true
			delete(mc.data, k)
		}
	}
	var err error
	run := func() {
		err = mc.f.Shard().DeleteMeasurement(context.Background(), []byte(m))
		mc.f.Quiesce()
	}
	imgs := mc.withHook(appendPoint, heavy, run)
	if err != nil {
		mc.fail("drop-error", fmt.Sprintf("DeleteMeasurement(%q): %v", m, err))
	}
	mc.afterDelete("drop", m, hadData, pre)
	mc.expectLive("after drop")
	mc.readCompare(mc.f, "after drop", keys)
	if len(imgs) > 0 {
		// the drop was in flight: exclude it from the ghosts while judging its own images
		saved, savedConflict := mc.ghosts, mc.ghostConflict
		if _, ok := mc.sch[m]; !ok && len(pre) > 0 {
			g := mc.ghosts.clone()
			for f, k := range pre {
				if gk, ok := g.get(m, f); ok && gk == k {
					g.del(m, f)
				}
			}
			mc.ghosts = g
		}
		mc.inflight(imgs, "drop", prevSize, before, mc.sch.clone())
		mc.ghosts, mc.ghostConflict = saved, savedConflict
	}
}

func (mc *machine) deleteRange(m string, lo, hi int64) {
	if len(mc.seen[m]) == 0 {
		rec.Class("deleteRange:nothing-to-delete")
		return
	}
	mc.ops = append(mc.ops, op{Kind: "deleteRange", M: m, Min: lo, Max: hi})
	pre := mc.sch.clone()[m]
	hadData := mc.hasData(m)
	var series []string
	for s := range mc.seen[m] {
		series = append(series, s)
	}
	sort.Strings(series)
	keys := map[string]bool{}
	for k, pts := range mc.data {
		if measurementOfSeries(k[:strings.IndexByte(k, 0)]) != m {
			continue
		}
		keys[k] = true
		for t := range pts {
			if t >= lo && t <= hi {
				delete(pts, t)
			}
		}
		if len(pts) == 0 {
			delete(mc.data, k)
		}
	}
	if err := mc.f.DeleteRange(series, lo, hi); err != nil {
		mc.fail("delete-error", fmt.Sprintf("DeleteSeriesRange(%v,[%d,%d]): %v", series, lo, hi, err))
	}
	mc.afterDelete("deleteRange", m, hadData, pre)
	mc.expectLive("after deleteRange")
	mc.readCompare(mc.f, "after deleteRange", keys)
}

func (mc *machine) snapshot() {
	if mc.snapshots >= 3 {
		return
	}
	mc.snapshots++
	mc.ops = append(mc.ops, op{Kind: "snapshot"})
	if err := mc.f.Snapshot(); err != nil {
		mc.fail("snapshot-error", err.Error())
	}
	rec.Class("snapshot")
}

func (mc *machine) cleanReopen(heavy bool) {
	mc.ops = append(mc.ops, op{Kind: "reopen"})
	var err error
	imgs := mc.withHook(rewritePoint, heavy, func() { err = mc.f.Reopen() })
	if err != nil {
		mc.fail("reopen-error", fmt.Sprintf("clean close/open failed: %v", err))
	}
	// images taken inside the consolidating rewrite still see the un-consolidated state
	if len(imgs) > 0 {
		s := mc.sch.clone()
		mc.inflight(imgs, "close", 0, s, s)
	}
	mc.ghosts, mc.ghostConflict = schema{}, false
	rec.Class("reopen:clean")
	mc.expectLive("after clean reopen")
	mc.readCompare(mc.f, "after clean reopen", mc.allKeys())
}

func (mc *machine) crashReopen(adopt bool) {
	o := op{Kind: "crash", Arg: "probe"}
	if adopt {
		o.Arg = "adopt"
	}
	mc.ops = append(mc.ops, o)
	img := mc.newRoot("c10-img-")
	if err := copyTree(mc.f.Root, img); err != nil {
		mc.t.Fatalf("harness: %v", err)
	}
	if mc.nDrop > 0 {
		rec.Class("crash:after-a-drop")
	} else {
		rec.Class("crash:no-drop-yet")
	}
	s := mc.sch.clone()
	hadGhosts := mc.ghosts.fieldCount() > 0
	fx := mc.openImage("crash-reopen (directories copied without Close)", img, s, s, true)
	if fx == nil {
		mc.dropRoot(img)
		return
	}
	if adopt && !(hadGhosts && ev.KnownOpen(prop, knownKey)) {
		// the history continues on the recovered copy
		old := mc.f
		mc.f = fx
		old.Close()
		mc.dropRoot(old.Root)
		mc.ghosts, mc.ghostConflict = schema{}, false
		rec.Class("crash:history-continues-on-image")
		return
	}
	mc.probeStaysRemoved("crash-reopen", fx)
	fx.Close()
	mc.dropRoot(img)
}

// concurrentNewField: 2..3 goroutines write the same new field with different types.
func (mc *machine) concurrentNewField() {
	m := rapid.SampledFrom(measurements).Draw(mc.t, "cm")
	mc.seq++
	fname := fmt.Sprintf("c%d", mc.seq)
	n := rapid.IntRange(2, 3).Draw(mc.t, "cwriters")
	k0 := rapid.IntRange(0, len(kinds)-1).Draw(mc.t, "ck0")
	same := n == 3 && rapid.Bool().Draw(mc.t, "csame")
	var batches [][]wpoint
	var wk []model.Kind
	for w := 0; w < n; w++ {
		k := kinds[(k0+w)%len(kinds)]
		if same && w == 2 {
			k = kinds[k0]
		}
		wk = append(wk, k)
		np := rapid.IntRange(1, 3).Draw(mc.t, "cnp")
		var b []wpoint
		for i := 0; i < np; i++ {
			mc.seq++
			p := wpoint{M: m, Tag: rapid.SampledFrom(tagVals).Draw(mc.t, "ctag"), T: int64(2000 + w*100 + i), Fields: []wfield{{fname, seqValue(k, mc.seq)}}}
			// optionally an existing field with its recorded type ("c..." sorts before "f...")
			if ek, ok := mc.sch.get(m, "f0"); ok && rapid.Bool().Draw(mc.t, "cextra") {
				mc.seq++
				p.Fields = append(p.Fields, wfield{"f0", seqValue(ek, mc.seq)})
			}
			b = append(b, p)
		}
		batches = append(batches, b)
	}
	mc.ops = append(mc.ops, op{Kind: "concurrent", M: m, Arg: fname, Conc: batches})
	errs := make([]error, n)
	start := make(chan struct{})
	var wg sync.WaitGroup
	for w := 0; w < n; w++ {
		pts := toModels(mc.t, batches[w])
		wg.Add(1)
		go func(w int, pts []models.Point) {
			defer wg.Done()
			<-start
			errs[w] = mc.f.Write(pts)
		}(w, pts)
	}
	close(start)
	wg.Wait()
	obs, err := observe(mc.f)
	if err != nil {
		mc.fail("engine-unavailable", err.Error())
	}
	win, ok := obs.get(m, fname)
	if !ok {
		mc.fail("race-no-type-recorded", fmt.Sprintf("%d writers raced on new field %q.%s; no type is recorded afterwards (errors %v)", n, m, fname, errs))
	}
	winners := 0
	keys := map[string]bool{}
	for w := 0; w < n; w++ {
		for _, p := range batches[w] {
			for _, f := range p.Fields {
				keys[dkey(p.series(), f.Name)] = true
			}
		}
		if wk[w] == win {
			winners++
			if key, detail := checkWriteError(errs[w], 0, len(batches[w])); key != "" {
				mc.fail("race-"+key, fmt.Sprintf("writer %d wrote %q.%s as %s, the recorded type: %s", w, m, fname, kindName(win), detail))
			}
			mc.apply(batches[w])
		} else {
			if key, detail := checkWriteError(errs[w], len(batches[w]), len(batches[w])); key != "" {
				mc.fail("race-"+key, fmt.Sprintf("writer %d wrote %q.%s as %s, recorded type is %s: %s", w, m, fname, kindName(wk[w]), kindName(win), detail))
			}
			if mc.seen[m] == nil {
				mc.seen[m] = map[string]bool{}
			}
			for _, p := range batches[w] {
				mc.seen[m][p.series()] = true
			}
		}
	}
	if winners == 0 {
		mc.fail("race-foreign-type", fmt.Sprintf("recorded type %s of %q.%s was written by no writer (%v)", kindName(win), m, fname, wk))
	}
	mc.sch.set(m, fname, win)
	rec.Class("concurrent:new-field-race")
	mc.expectLive("after concurrent writers")
	mc.readCompare(mc.f, "after concurrent writers", keys)
}

func (mc *machine) finish() {
	rec.Eval()
	if mc.nConflict > 0 && mc.nDrop > 0 && mc.nRetype > 0 && mc.nCrashAfterDrop > 0 {
		rec.NonTrivial(renderOps(mc.ops))
	}
	if mc.nConflict > 0 {
		rec.Class("history:has-conflict")
	}
	if mc.nDrop > 0 {
		rec.Class("history:has-schema-removing-drop")
	}
	if mc.nRetype > 0 {
		rec.Class("history:recreates-dropped-field-with-other-type")
	}
	if mc.nCrashAfterDrop > 0 {
		rec.Class("history:crash-image-after-drop")
	}
	rec.ClassN("images-examined", mc.nImage)
	rec.ClassN("torn-offsets-examined", mc.nTorn)
	if rec.WantSample() && mc.nDrop > 0 {
		h := renderOps(mc.ops)
		if len(h) > 1500 {
			h = h[:1500] + " …"
		}
		rec.Sample(map[string]any{"history": h, "steps": len(mc.ops)})
	}
}
