package c10_fields

import (
	"context"
	"fmt"
	"os"
	"testing"

	"github.com/influxdata/influxdb/v2/models"
	"pgregory.net/rapid"

	"verifharness/internal/fix"
	"verifharness/internal/model"
	"verifharness/internal/scratch"
)

func init() {
	rec.Assume("crash model = process crash: an image holds exactly what reached write(2)/rename(2) at that instant (directory copy without Close); loss or reordering of un-fsynced data by the OS is not modelled")
	rec.Assume("fields.idxl is cut only inside its LAST record and only in images taken at tsdb.fields.after-append, i.e. before the interrupted write touched the WAL (earlier records were acknowledged after an O_SYNC write)")
	rec.Assume("fields that a rejected point introduced before its offending field (ValidateAndCreateFields creates them, the statement is silent) are resolved against the observed schema and from then on treated as recorded")
	rec.Assume("a drop of a measurement that never stored a point (only rejected points) is not required to remove the schema; whatever the live shard shows is taken over by the model")
	rec.Assume("reads use [models.MinNanoTime, models.MaxNanoTime]; at most 3 cache snapshots per history (keeps clear of known finding keycursor-cyclic-block-order)")
}

// TestPropFieldHistories: the state machine described in machine_test.go.
func TestPropFieldHistories(t *testing.T) {
	rec.CheckSteps(t, 45, 700, 26, func(t *rapid.T) {
		mc := newMachine(t, "TestPropFieldHistories")
		defer mc.close()
		defer mc.finish()
		var tt = t
		pickM := func() string {
			// prefer measurements that have a schema
			if rapid.IntRange(0, 3).Draw(tt, "mAny") == 0 || len(mc.sch) == 0 {
				return rapid.SampledFrom(measurements).Draw(tt, "m")
			}
			var have []string
			for _, m := range measurements {
				if len(mc.sch[m]) > 0 {
					have = append(have, m)
				}
			}
			if len(have) == 0 {
				return rapid.SampledFrom(measurements).Draw(tt, "m")
			}
			return rapid.SampledFrom(have).Draw(tt, "mHave")
		}
		write := func(*rapid.T) { mc.write(mc.genBatch(), false) }
		// a write aimed at field names whose schema a drop removed (new type preferred by pickKind)
		rewrite := func(*rapid.T) {
			var ms []string
			for _, m := range measurements {
				if len(mc.dropped[m]) > 0 {
					ms = append(ms, m)
				}
			}
			if len(ms) == 0 {
				mc.write(mc.genBatch(), false)
				return
			}
			m := rapid.SampledFrom(ms).Draw(tt, "rm")
			n := rapid.IntRange(1, 3).Draw(tt, "rn")
			var b []wpoint
			for i := 0; i < n; i++ {
				b = append(b, mc.genPoint(m))
			}
			mc.write(b, false)
		}
		t.Repeat(map[string]func(*rapid.T){
			"write":      write,
			"write2":     write,
			"write3":     write,
			"write4":     write,
			"rewrite":    rewrite,
			"writeHeavy": func(*rapid.T) { mc.write(mc.genBatch(), rapid.IntRange(0, 2).Draw(tt, "heavy") == 0) },
			"drop":       func(*rapid.T) { mc.dropMeasurement(pickM(), rapid.IntRange(0, 5).Draw(tt, "heavy") == 0) },
			"drop2":      func(*rapid.T) { mc.dropMeasurement(pickM(), false) },
			"deleteRange": func(*rapid.T) {
				m := pickM()
				lo, hi := int64(-1<<62), int64(1<<62)
				if rapid.IntRange(0, 2).Draw(tt, "partial") == 0 {
					a := int64(rapid.IntRange(0, 15).Draw(tt, "lo")) * 10
					b := int64(rapid.IntRange(0, 15).Draw(tt, "hi")) * 10
					if a > b {
						a, b = b, a
					}
					lo, hi = a, b
				}
				mc.deleteRange(m, lo, hi)
			},
			"snapshot":   func(*rapid.T) { mc.snapshot() },
			"reopen":     func(*rapid.T) { mc.cleanReopen(rapid.IntRange(0, 5).Draw(tt, "heavy") == 0) },
			"crash":      func(*rapid.T) { mc.crashReopen(rapid.Bool().Draw(tt, "adopt")) },
			"concurrent": func(*rapid.T) { mc.concurrentNewField() },
		})
	})
}

// TestPropConcurrentNewField: many races of 2..3 writers on a new field of one long-lived shard.
func TestPropConcurrentNewField(t *testing.T) {
	root, err := scratch.Dir("c10-conc-")
	if err != nil {
		t.Fatal(err)
	}
	defer os.RemoveAll(root)
	f, err := fix.NewShardFix(root)
	if err != nil {
		t.Fatal(err)
	}
	defer func() { f.Close() }()
	shared := &machine{test: "TestPropConcurrentNewField", f: f, sch: schema{}, data: map[string]map[int64]model.Val{},
		seen: map[string]map[string]bool{}, ghosts: schema{}, dropped: schema{}}
	dirty := false // a failed case leaves shard and model out of step: start over
	rec.Check(t, 300, 20000, func(t *rapid.T) {
		shared.t = t
		shared.ops = nil
		if shared.seq > 4000 || dirty {
			// keep the shard small: start over
			f.Close()
			os.RemoveAll(root)
			if err := f.Open(); err != nil {
				t.Fatalf("fixture: %v", err)
			}
			shared.sch, shared.data, shared.seen, shared.seq = schema{}, map[string]map[int64]model.Val{}, map[string]map[string]bool{}, 0
		}
		dirty = true
		if rapid.IntRange(0, 3).Draw(t, "seedF0") == 0 {
			// give the measurement an existing field the racers may also carry
			m := rapid.SampledFrom(measurements).Draw(t, "m")
			if _, ok := shared.sch.get(m, "f0"); !ok {
				shared.seq++
				b := []wpoint{{M: m, Tag: "a", T: 5, Fields: []wfield{{"f0", seqValue(rapid.SampledFrom(kinds).Draw(t, "k"), shared.seq)}}}}
				if err := f.Write(toModels(t, b)); err != nil {
					t.Fatalf("seed write: %v", err)
				}
				shared.apply(b)
			}
		}
		shared.concurrentNewField()
		rec.Eval()
		rec.NonTrivial(renderOps(shared.ops))
		dirty = false
	})
}

// reproDropNotLogged is the deterministic reproducer of known finding measurement-drop-not-logged.
// consolidated: the field is in fields.idx (clean reopen before the drop); otherwise it is only in
// the change log. Returns whether the defect shows and a description.
func reproDropNotLogged(t *testing.T, consolidated bool) (bool, string) {
	root, err := scratch.Dir("c10-known-")
	if err != nil {
		t.Fatal(err)
	}
	defer os.RemoveAll(root)
	img, err := scratch.Dir("c10-known-img-")
	if err != nil {
		t.Fatal(err)
	}
	defer os.RemoveAll(img)
	f, err := fix.NewShardFix(root)
	if err != nil {
		t.Fatal(err)
	}
	defer func() { f.Close() }()
	pt := func(v any, ts int64) models.Point {
		p, err := wpoint{M: "m", Tag: "a", T: ts, Fields: []wfield{{"v", valOf(v)}}}.toPoint()
		if err != nil {
			t.Fatal(err)
		}
		return p
	}
	if err := f.Write([]models.Point{pt(1.5, 10)}); err != nil {
		t.Fatalf("write float m.v: %v", err)
	}
	if consolidated {
		if err := f.Reopen(); err != nil {
			t.Fatalf("reopen: %v", err)
		}
	}
	if err := f.Shard().DeleteMeasurement(context.Background(), []byte("m")); err != nil {
		t.Fatalf("drop: %v", err)
	}
	f.Quiesce()
	live, err := observe(f)
	if err != nil {
		t.Fatal(err)
	}
	if len(live["m"]) != 0 {
		return false, fmt.Sprintf("the drop did not remove the schema on the live shard: %s", live)
	}
	// unclean restart: copy the directories as they are, open the copy
	if err := copyTree(root, img); err != nil {
		t.Fatal(err)
	}
	g := &fix.ShardFix{Root: img}
	if err := g.Open(); err != nil {
		t.Fatalf("open crash image: %v", err)
	}
	defer g.Close()
	obs, err := observe(g)
	if err != nil {
		t.Fatal(err)
	}
	werr := g.Write([]models.Point{pt("now a string", 20)})
	_, back := obs.get("m", "v")
	if back || werr != nil {
		return true, fmt.Sprintf("schema after unclean restart %s; write of string m.v: %v", obs, werr)
	}
	return false, ""
}

func valOf(v any) model.Val {
	switch x := v.(type) {
	case float64:
		return model.Val{K: model.Float, F: x}
	case string:
		return model.Val{K: model.String, S: x}
	}
	panic("valOf")
}

func TestKnown_measurement_drop_not_logged(t *testing.T) {
	r1, d1 := reproDropNotLogged(t, true)
	r2, d2 := reproDropNotLogged(t, false)
	rec.Known(t, "TestKnown_measurement_drop_not_logged", knownKey, r1 || r2,
		"write float m.v, [clean reopen,] DeleteMeasurement(m) (schema gone on the live shard), copy the directories without Close, open the copy: m.v is float again and a string write to m.v is rejected — the DeleteMeasurement change is never written to fields.idxl (marshalFieldChanges appends a change only when it has a Field). "+d1+" | "+d2,
		map[string]any{"after_clean_reopen": d1, "field_only_in_change_log": d2})
}
