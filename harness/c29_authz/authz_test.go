// C29 — Authorization wrappers never leak or modify unauthorized resources.
//
// Real services on the in-memory KV store (after all migrations): the tenant service (organizations,
// buckets, users) and the authorization (token) service. Set-up runs unwrapped: two organizations,
// user buckets, users, memberships and tokens. Then a rapid-generated caller permission set (0-6
// permissions over the relevant resource types, type-wide / organization-scoped / naming one
// resource, plus decoys and the instance-wide type) is bound to the context and a random sequence
// of calls goes through the authorizing wrappers
//
//	authorizer.NewOrgService, authorizer.NewBucketService, authorizer.NewUserService,
//	authorizer.NewAuthorizationService, authorization.NewAuthedAuthorizationService.
//
// Oracle. The reference decision is the permission-matching rule of C28 (wantMatch, copied from
// c28_permissions) applied to the caller's set; the reference data is what the UNWRAPPED service
// returns in the same state.
//   - single reads: the wrapped call returns the unwrapped record iff the reference grants read on
//     it, otherwise an error and no record;
//   - list reads: the wrapped list is the unwrapped list with exactly the records the reference does
//     not grant removed (same order), and the count is the length of that list;
//   - mutating calls: when the reference does not grant the required write permission(s) — for token
//     creation additionally every permission being granted — the call must fail and a full dump of
//     the KV store (every bucket, every key and value) taken before and after is identical; when the
//     reference grants them the call must not be rejected as unauthorized/forbidden;
//   - no read changes the store.
package c29_authz

import (
	"context"
	"fmt"
	"sort"
	"strings"
	"testing"

	"github.com/influxdata/influxdb/v2"
	"github.com/influxdata/influxdb/v2/authorization"
	"github.com/influxdata/influxdb/v2/authorizer"
	icontext "github.com/influxdata/influxdb/v2/context"
	"github.com/influxdata/influxdb/v2/inmem"
	"github.com/influxdata/influxdb/v2/kit/platform"
	ierrors "github.com/influxdata/influxdb/v2/kit/platform/errors"
	"github.com/influxdata/influxdb/v2/kv"
	"github.com/influxdata/influxdb/v2/kv/migration/all"
	"github.com/influxdata/influxdb/v2/task/taskmodel"
	"github.com/influxdata/influxdb/v2/tenant"
	"go.uber.org/zap"
	"pgregory.net/rapid"

	"verifharness/internal/ev"
)

const propName = "TestPropWrappedServices"

var rec = ev.For("C29", "exploration",
	"case = (caller permission set: 0-6 random permissions, optionally on top of an owner/member-of-one-organization set or a token-admin set, sequence of 10-20 calls through the authorizing wrappers of the organization, bucket, user and token services over a generated population of 2 organizations, 4-8 buckets, 3-4 users, 3-5 tokens); "+
		"NON-TRIVIAL when the permission set is partial (over the case it grants at least one and denies at least one of the decisions taken) and the sequence contains a denied mutating call and a list call from which some but not all records were removed; distinct by (permission set, executed call list)")

// ---- the reference decision (C28's formula, copied from c28_permissions/permissions_test.go) ----

func idEq(a, b *platform.ID) bool { return a != nil && b != nil && *a == *b }

func wantMatch(p, r influxdb.Permission) bool {
	instanceWide := p.Resource.Type == influxdb.InstanceResourceType
	sameType := p.Resource.Type == r.Resource.Type
	typeWide := p.Resource.OrgID == nil && p.Resource.ID == nil
	orgScoped := p.Resource.ID == nil && idEq(p.Resource.OrgID, r.Resource.OrgID)
	namesResource := idEq(p.Resource.ID, r.Resource.ID)
	return p.Action == r.Action && (instanceWide || (sameType && (typeWide || orgScoped || namesResource)))
}

func wantAllowed(set []influxdb.Permission, r influxdb.Permission) bool {
	for _, p := range set {
		if wantMatch(p, r) {
			return true
		}
	}
	return false
}

func idp(id platform.ID) *platform.ID { return &id }

func req(a influxdb.Action, rt influxdb.ResourceType, org, id *platform.ID) influxdb.Permission {
	return influxdb.Permission{Action: a, Resource: influxdb.Resource{Type: rt, OrgID: org, ID: id}}
}

// ---- fixture --------------------------------------------------------------------------------

type seqGen struct{ next uint64 }

func (g *seqGen) ID() platform.ID { g.next++; return platform.ID(g.next) }

type noTasks struct{ taskmodel.TaskService }

func (noTasks) FindTasks(context.Context, taskmodel.TaskFilter) ([]*taskmodel.Task, int, error) {
	return nil, 0, nil
}

type sys struct {
	bg  context.Context // no authorizer: used for the unwrapped services
	ctx context.Context // carries the caller
	kv  *inmem.KVStore
	set []influxdb.Permission

	ten   *tenant.Service
	auths influxdb.AuthorizationService

	orgW   influxdb.OrganizationService
	bktW   influxdb.BucketService
	userW  influxdb.UserService
	authWs []influxdb.AuthorizationService
	authWn []string

	caller platform.ID // user id of the caller
	nextN  int

	calls []string

	granted, denied        int
	deniedMutation         bool
	partialList            bool
	deniedTokenByGrantOnly bool
}

// uniform draws an index in [0,n) without rapid's bias towards small indices.
func uniform(t *rapid.T, label string, n int) int {
	x := rapid.Uint64().Draw(t, label) + 0x9e3779b97f4a7c15
	x = (x ^ (x >> 30)) * 0xbf58476d1ce4e5b9
	x = (x ^ (x >> 27)) * 0x94d049bb133111eb
	x ^= x >> 31
	return int(x % uint64(n))
}

func (s *sys) logf(format string, a ...any) { s.calls = append(s.calls, fmt.Sprintf(format, a...)) }

func permStr(p influxdb.Permission) string {
	f := func(id *platform.ID) string {
		if id == nil {
			return "-"
		}
		return id.String()
	}
	return fmt.Sprintf("%s:%s/org=%s/id=%s", p.Action, p.Resource.Type, f(p.Resource.OrgID), f(p.Resource.ID))
}

func setStr(ps []influxdb.Permission) string {
	var out []string
	for _, p := range ps {
		out = append(out, permStr(p))
	}
	return "{" + strings.Join(out, " ; ") + "}"
}

func (s *sys) fail(t *rapid.T, key, format string, a ...any) {
	detail := fmt.Sprintf(format, a...)
	rec.Fail(t, propName, key, detail+" | caller "+setStr(s.set)+" | calls: "+strings.Join(s.calls, " ; "),
		map[string]any{"permissions": setStr(s.set), "calls": s.calls})
}

func (s *sys) must(t *rapid.T, err error, what string) {
	if err != nil {
		t.Fatalf("fixture: %s: %v", what, err)
	}
}

func newSys(t *rapid.T) *sys {
	bg := context.Background()
	store := inmem.NewKVStore()
	if err := all.Up(bg, zap.NewNop(), store); err != nil {
		t.Fatalf("migrations: %v", err)
	}
	g := &seqGen{next: rapid.SampledFrom([]uint64{0x100, 0x0fffffffffffff00}).Draw(t, "idbase")}
	st := tenant.NewStore(store)
	st.IDGen, st.OrgIDGen, st.BucketIDGen = g, g, g
	ten := tenant.NewService(st)
	ten.Apply(tenant.WithTaskService(noTasks{}))
	ast, err := authorization.NewStore(bg, store, false)
	if err != nil {
		t.Fatalf("authorization store: %v", err)
	}
	ast.IDGen = g
	auths := authorization.NewService(ast, ten)
	s := &sys{bg: bg, kv: store, ten: ten, auths: auths}
	s.orgW = authorizer.NewOrgService(ten.OrganizationService)
	s.bktW = authorizer.NewBucketService(ten.BucketService)
	s.userW = authorizer.NewUserService(ten.UserService)
	s.authWs = []influxdb.AuthorizationService{authorizer.NewAuthorizationService(auths), authorization.NewAuthedAuthorizationService(auths, ten)}
	s.authWn = []string{"authorizer.AuthorizationService", "authorization.AuthedAuthorizationService"}

	// population (unwrapped)
	var users []*influxdb.User
	for i := 0; i < 3+uniform(t, "extra-user", 2); i++ {
		u := &influxdb.User{Name: fmt.Sprintf("user%d", i), Status: influxdb.Active}
		s.must(t, ten.CreateUser(bg, u), "create user")
		users = append(users, u)
	}
	s.caller = users[0].ID
	var orgs []*influxdb.Organization
	for i := 0; i < 2; i++ {
		o := &influxdb.Organization{Name: fmt.Sprintf("org%d", i)}
		s.must(t, ten.CreateOrganization(bg, o), "create org")
		orgs = append(orgs, o)
		for j := 0; j < 1+uniform(t, "extra-bucket", 2); j++ {
			s.must(t, ten.CreateBucket(bg, &influxdb.Bucket{OrgID: o.ID, Name: fmt.Sprintf("bucket%d", j)}), "create bucket")
		}
	}
	// the caller is a member of org0 (and sometimes of org1): FindOrganizations falls back to the
	// caller's memberships when the caller may not read all organizations
	for i, o := range orgs {
		if i == 0 || uniform(t, "member-of-org1", 2) == 0 {
			s.must(t, ten.CreateUserResourceMapping(bg, &influxdb.UserResourceMapping{UserID: s.caller, UserType: influxdb.Member,
				MappingType: influxdb.UserMappingType, ResourceType: influxdb.OrgsResourceType, ResourceID: o.ID}), "create urm")
		}
	}
	for i := 0; i < 3+uniform(t, "extra-token", 3); i++ {
		o := orgs[uniform(t, "token-org", len(orgs))]
		u := users[uniform(t, "token-user", len(users))]
		a := &influxdb.Authorization{OrgID: o.ID, UserID: u.ID, Token: fmt.Sprintf("setup-token-%d", i), Status: influxdb.Active,
			Description: fmt.Sprintf("t%d", i), Permissions: []influxdb.Permission{req(influxdb.ReadAction, influxdb.BucketsResourceType, idp(o.ID), nil)}}
		s.must(t, auths.CreateAuthorization(bg, a), "create token")
	}
	s.nextN = 100

	// the caller
	s.set = s.genSet(t)
	s.ctx = icontext.SetAuthorizer(bg, &influxdb.Authorization{ID: platform.ID(0xabcdef), UserID: s.caller, OrgID: orgs[0].ID,
		Status: influxdb.Active, Permissions: s.set})
	return s
}

// ---- current population (read through the unwrapped services, sorted by id) -------------------

func (s *sys) orgs(t *rapid.T) []*influxdb.Organization {
	os, _, err := s.ten.FindOrganizations(s.bg, influxdb.OrganizationFilter{})
	s.must(t, err, "list orgs")
	sort.Slice(os, func(i, j int) bool { return os[i].ID < os[j].ID })
	return os
}

func (s *sys) buckets(t *rapid.T) []*influxdb.Bucket {
	bs, _, err := s.ten.FindBuckets(s.bg, influxdb.BucketFilter{})
	s.must(t, err, "list buckets")
	sort.Slice(bs, func(i, j int) bool { return bs[i].ID < bs[j].ID })
	return bs
}

func (s *sys) users(t *rapid.T) []*influxdb.User {
	us, _, err := s.ten.FindUsers(s.bg, influxdb.UserFilter{})
	s.must(t, err, "list users")
	sort.Slice(us, func(i, j int) bool { return us[i].ID < us[j].ID })
	return us
}

func (s *sys) tokens(t *rapid.T) []*influxdb.Authorization {
	as, _, err := s.auths.FindAuthorizations(s.bg, influxdb.AuthorizationFilter{})
	s.must(t, err, "list tokens")
	sort.Slice(as, func(i, j int) bool { return as[i].ID < as[j].ID })
	return as
}

// ---- the caller's permission set ------------------------------------------------------------

var permTypes = []influxdb.ResourceType{
	influxdb.OrgsResourceType, influxdb.OrgsResourceType,
	influxdb.BucketsResourceType, influxdb.BucketsResourceType, influxdb.BucketsResourceType,
	influxdb.UsersResourceType, influxdb.UsersResourceType,
	influxdb.AuthorizationsResourceType, influxdb.AuthorizationsResourceType,
	influxdb.DashboardsResourceType, // decoy
}

func (s *sys) idsOf(t *rapid.T, rt influxdb.ResourceType) (ids []platform.ID, orgOf map[platform.ID]platform.ID) {
	orgOf = map[platform.ID]platform.ID{}
	switch rt {
	case influxdb.OrgsResourceType:
		for _, o := range s.orgs(t) {
			ids = append(ids, o.ID)
		}
	case influxdb.BucketsResourceType:
		for _, b := range s.buckets(t) {
			ids = append(ids, b.ID)
			orgOf[b.ID] = b.OrgID
		}
	case influxdb.UsersResourceType:
		for _, u := range s.users(t) {
			ids = append(ids, u.ID)
		}
	case influxdb.AuthorizationsResourceType:
		for _, a := range s.tokens(t) {
			ids = append(ids, a.ID)
			orgOf[a.ID] = a.OrgID
		}
	}
	return ids, orgOf
}

func (s *sys) genPerm(t *rapid.T, label string, allowInstance bool) influxdb.Permission {
	action := influxdb.ReadAction
	if uniform(t, label+"-action", 2) == 0 {
		action = influxdb.WriteAction
	}
	if allowInstance && uniform(t, label+"-instance", 25) == 0 {
		return req(action, influxdb.InstanceResourceType, nil, nil)
	}
	rt := permTypes[uniform(t, label+"-type", len(permTypes))]
	orgs := s.orgs(t)
	switch uniform(t, label+"-scope", 7) {
	case 0, 6: // type-wide
		return req(action, rt, nil, nil)
	case 1, 2: // organization-scoped
		return req(action, rt, idp(orgs[uniform(t, label+"-org", len(orgs))].ID), nil)
	default: // names one resource (with or without its organization)
		ids, orgOf := s.idsOf(t, rt)
		if len(ids) == 0 {
			return req(action, rt, nil, nil)
		}
		id := ids[uniform(t, label+"-id", len(ids))]
		if org, ok := orgOf[id]; ok && uniform(t, label+"-with-org", 2) == 0 {
			return req(action, rt, idp(org), idp(id))
		}
		return req(action, rt, nil, idp(id))
	}
}

func (s *sys) genSet(t *rapid.T) []influxdb.Permission {
	var set []influxdb.Permission
	orgs := s.orgs(t)
	both := []influxdb.Action{influxdb.ReadAction, influxdb.WriteAction}
	mode := uniform(t, "set-mode", 4)
	switch mode {
	case 1:
		// owner or member of one organization (the shape of OwnerPermissions / MemberPermissions +
		// MePermissions, restricted to the resource types exercised here), minus one random entry
		o := orgs[uniform(t, "set-org", len(orgs))].ID
		acts := both
		if uniform(t, "set-member-only", 3) == 0 {
			acts = both[:1]
		}
		for _, a := range acts {
			set = append(set, req(a, influxdb.OrgsResourceType, nil, idp(o)),
				req(a, influxdb.BucketsResourceType, idp(o), nil),
				req(a, influxdb.AuthorizationsResourceType, idp(o), nil),
				req(a, influxdb.DashboardsResourceType, idp(o), nil))
		}
		set = append(set, influxdb.MePermissions(s.caller)...)
		if i := uniform(t, "set-drop", len(set)+1); i < len(set) {
			set = append(set[:i:i], set[i+1:]...)
		}
		rec.Class("set:owner-or-member-of-one-org")
	case 2:
		// may manage tokens and users everywhere; what it may GRANT is decided by the rest of the set
		set = append(set, req(influxdb.WriteAction, influxdb.AuthorizationsResourceType, nil, nil),
			req(influxdb.WriteAction, influxdb.UsersResourceType, nil, nil))
		if uniform(t, "set-also-read", 2) == 0 {
			set = append(set, req(influxdb.ReadAction, influxdb.AuthorizationsResourceType, nil, nil))
		}
		rec.Class("set:token-admin-plus-random")
	default:
		rec.Class("set:random")
	}
	n := uniform(t, "set-size", 7)
	for i := 0; i < n; i++ {
		set = append(set, s.genPerm(t, fmt.Sprintf("perm%d", i), true))
	}
	return set
}

// ---- decisions ------------------------------------------------------------------------------

func (s *sys) allowed(a influxdb.Action, rt influxdb.ResourceType, org, id *platform.ID) bool {
	ok := wantAllowed(s.set, req(a, rt, org, id))
	if ok {
		s.granted++
	} else {
		s.denied++
	}
	return ok
}

// mayReadBucket: user buckets need read on the bucket; AuthorizeReadBucket documents that system
// buckets are a special case readable by whoever may read their organization.
func (s *sys) mayReadBucket(b *influxdb.Bucket) bool {
	if b.Type == influxdb.BucketTypeSystem {
		return s.allowed(influxdb.ReadAction, influxdb.OrgsResourceType, nil, idp(b.OrgID))
	}
	return s.allowed(influxdb.ReadAction, influxdb.BucketsResourceType, idp(b.OrgID), idp(b.ID))
}

func (s *sys) mayReadOrg(o *influxdb.Organization) bool {
	return s.allowed(influxdb.ReadAction, influxdb.OrgsResourceType, nil, idp(o.ID))
}

func (s *sys) mayReadUser(u *influxdb.User) bool {
	return s.allowed(influxdb.ReadAction, influxdb.UsersResourceType, nil, idp(u.ID))
}

// a token is readable / writable by whoever may read / write both the token and its user
func (s *sys) mayToken(action influxdb.Action, a *influxdb.Authorization) bool {
	x := s.allowed(action, influxdb.AuthorizationsResourceType, idp(a.OrgID), idp(a.ID))
	y := s.allowed(action, influxdb.UsersResourceType, nil, idp(a.UserID))
	return x && y
}

// ---- rendering ------------------------------------------------------------------------------

func orgStr(o *influxdb.Organization) string {
	return fmt.Sprintf("org#%v %q %q", o.ID, o.Name, o.Description)
}
func bktStr(b *influxdb.Bucket) string {
	return fmt.Sprintf("bucket#%v org=%v %q %v %q", b.ID, b.OrgID, b.Name, b.Type, b.Description)
}
func userStr(u *influxdb.User) string { return fmt.Sprintf("user#%v %q %s", u.ID, u.Name, u.Status) }
func tokStr(a *influxdb.Authorization) string {
	return fmt.Sprintf("token#%v org=%v user=%v %q %s %q %s", a.ID, a.OrgID, a.UserID, a.Token, a.Status, a.Description, setStr(a.Permissions))
}

// dump renders the complete KV store.
func (s *sys) dump(t *rapid.T) string {
	names := s.kv.Buckets(s.bg)
	sort.Slice(names, func(i, j int) bool { return string(names[i]) < string(names[j]) })
	var sb strings.Builder
	for _, name := range names {
		fmt.Fprintf(&sb, "[%s]\n", name)
		err := s.kv.View(s.bg, func(tx kv.Tx) error {
			b, err := tx.Bucket(name)
			if err != nil {
				return err
			}
			cur, err := b.ForwardCursor(nil)
			if err != nil {
				return err
			}
			defer cur.Close()
			for k, v := cur.Next(); k != nil; k, v = cur.Next() {
				fmt.Fprintf(&sb, "%x=%x\n", k, v)
			}
			return cur.Err()
		})
		s.must(t, err, "dump")
	}
	return sb.String()
}

func diffLine(a, b string) string {
	la, lb := strings.Split(a, "\n"), strings.Split(b, "\n")
	for i := 0; i < len(la) || i < len(lb); i++ {
		var x, y string
		if i < len(la) {
			x = la[i]
		}
		if i < len(lb) {
			y = lb[i]
		}
		if x != y {
			if len(x) > 160 {
				x = x[:160] + "..."
			}
			if len(y) > 160 {
				y = y[:160] + "..."
			}
			return fmt.Sprintf("line %d: before %q after %q", i, x, y)
		}
	}
	return "no difference"
}

func denialCode(err error) bool {
	c := ierrors.ErrorCode(err)
	return err != nil && (c == ierrors.EUnauthorized || c == ierrors.EForbidden)
}

// ---- the three call shapes --------------------------------------------------------------------

// single: a read of one record. found/want come from the unwrapped service in the same state.
func (s *sys) single(t *rapid.T, op string, found bool, want string, readable bool, got string, gotOK bool, err error, before string) {
	switch {
	case !found:
		if err == nil {
			s.fail(t, "read-of-missing-record-succeeds", "%s: the unwrapped service finds nothing but the wrapped call returned %s", op, got)
		}
		rec.Class("read-one:missing")
	case readable:
		if err != nil || !gotOK || got != want {
			s.fail(t, "authorized-read-differs", "%s: the caller may read %s but the wrapped call returned %s, %v", op, want, got, err)
		}
		rec.Class("read-one:granted")
	default:
		if err == nil || gotOK {
			s.fail(t, "unauthorized-read-leaks", "%s: the caller may not read %s but the wrapped call returned %s, %v", op, want, got, err)
		}
		if !denialCode(err) {
			s.fail(t, "unauthorized-read-wrong-error", "%s: the caller may not read %s; want an unauthorized error, got %v", op, want, err)
		}
		rec.Class("read-one:denied")
	}
	if after := s.dump(t); after != before {
		s.fail(t, "read-modifies-store", "%s changed the store: %s", op, diffLine(before, after))
	}
}

type item struct {
	str      string
	readable bool
}

// list: a read of many records.
func (s *sys) list(t *rapid.T, op string, underErr error, under []item, got []string, n int, err error, before string) {
	if underErr != nil {
		if err == nil {
			s.fail(t, "list-succeeds-where-unwrapped-fails", "%s: unwrapped fails with %v, wrapped returned %v", op, underErr, got)
		}
		rec.Class("read-many:unwrapped-error")
		return
	}
	var want []string
	for _, it := range under {
		if it.readable {
			want = append(want, it.str)
		}
	}
	if err != nil {
		s.fail(t, "list-fails", "%s: wrapped call failed with %v; the reference keeps %v", op, err, want)
	}
	for _, g := range got {
		ok := false
		for _, w := range want {
			ok = ok || g == w
		}
		if !ok {
			s.fail(t, "unauthorized-list-leaks", "%s returned %s which the caller may not read (or which the unwrapped service does not return); reference keeps %v", op, g, want)
		}
	}
	if strings.Join(got, "\n") != strings.Join(want, "\n") {
		s.fail(t, "list-differs", "%s returned %v, the unwrapped list filtered by the reference is %v", op, got, want)
	}
	if n != len(got) {
		s.fail(t, "list-count-differs", "%s returned %d records and count %d", op, len(got), n)
	}
	switch {
	case len(under) == 0:
		rec.Class("read-many:empty")
	case len(want) == 0:
		rec.Class("read-many:all-removed")
	case len(want) == len(under):
		rec.Class("read-many:all-kept")
	default:
		rec.Class("read-many:some-removed")
		s.partialList = true
	}
	if after := s.dump(t); after != before {
		s.fail(t, "read-modifies-store", "%s changed the store: %s", op, diffLine(before, after))
	}
}

// mutate: a mutating call. allowed is the reference decision.
func (s *sys) mutate(t *rapid.T, op string, allowed bool, err error, before string) {
	if allowed {
		if denialCode(err) {
			s.fail(t, "authorized-mutation-denied", "%s: the reference grants the call but it was rejected: %v", op, err)
		}
		if err == nil {
			rec.Class("mutate:granted-ok")
		} else {
			rec.Class("mutate:granted-but-failed-otherwise")
		}
		return
	}
	s.deniedMutation = true
	rec.Class("mutate:denied")
	if err == nil {
		s.fail(t, "unauthorized-mutation-succeeds", "%s: the reference denies the call but it succeeded", op)
	}
	if after := s.dump(t); after != before {
		s.fail(t, "denied-call-modifies-store", "%s was denied (%v) but changed the store: %s", op, err, diffLine(before, after))
	}
}

// ---- calls ----------------------------------------------------------------------------------

func bogus() platform.ID { return platform.ID(0x7777777777) }

func (s *sys) pickOrg(t *rapid.T) (platform.ID, *influxdb.Organization) {
	os := s.orgs(t)
	if len(os) == 0 || uniform(t, "bogus-org", 12) == 0 {
		return bogus(), nil
	}
	o := os[uniform(t, "org", len(os))]
	return o.ID, o
}

func (s *sys) pickBucket(t *rapid.T) (platform.ID, *influxdb.Bucket) {
	bs := s.buckets(t)
	if len(bs) == 0 || uniform(t, "bogus-bucket", 12) == 0 {
		return bogus(), nil
	}
	b := bs[uniform(t, "bucket", len(bs))]
	return b.ID, b
}

func (s *sys) pickUser(t *rapid.T) (platform.ID, *influxdb.User) {
	us := s.users(t)
	if len(us) == 0 || uniform(t, "bogus-user", 12) == 0 {
		return bogus(), nil
	}
	u := us[uniform(t, "user", len(us))]
	return u.ID, u
}

func (s *sys) pickToken(t *rapid.T) (platform.ID, *influxdb.Authorization) {
	as := s.tokens(t)
	if len(as) == 0 || uniform(t, "bogus-token", 12) == 0 {
		return bogus(), nil
	}
	a := as[uniform(t, "token", len(as))]
	return a.ID, a
}

func (s *sys) callOrg(t *rapid.T) {
	before := s.dump(t)
	switch uniform(t, "org-call", 7) {
	case 0:
		id, o := s.pickOrg(t)
		s.logf("FindOrganizationByID(%v)", id)
		got, err := s.orgW.FindOrganizationByID(s.ctx, id)
		var want, g string
		readable := false
		if o != nil {
			want, readable = orgStr(o), s.mayReadOrg(o)
		}
		if got != nil {
			g = orgStr(got)
		}
		s.single(t, "FindOrganizationByID", o != nil, want, readable, g, got != nil, err, before)
	case 1:
		_, o := s.pickOrg(t)
		name := "no-such-org"
		if o != nil {
			name = o.Name
		}
		s.logf("FindOrganization(name=%q)", name)
		got, err := s.orgW.FindOrganization(s.ctx, influxdb.OrganizationFilter{Name: &name})
		var want, g string
		readable := false
		if o != nil {
			want, readable = orgStr(o), s.mayReadOrg(o)
		}
		if got != nil {
			g = orgStr(got)
		}
		s.single(t, "FindOrganization", o != nil, want, readable, g, got != nil, err, before)
	case 2:
		// without a filter a caller that may not read ALL organizations is shown the organizations
		// it is a member of (org.go: "add this users id to the filter"), still filtered by permission
		f := influxdb.OrganizationFilter{}
		global := s.allowed(influxdb.ReadAction, influxdb.OrgsResourceType, nil, nil)
		s.logf("FindOrganizations({}) [may read all organizations: %v]", global)
		got, n, err := s.orgW.FindOrganizations(s.ctx, f)
		uf := f
		if !global {
			uf.UserID = &s.caller
		}
		under, _, uerr := s.ten.FindOrganizations(s.bg, uf)
		var items []item
		for _, o := range under {
			items = append(items, item{orgStr(o), s.mayReadOrg(o)})
		}
		var gs []string
		for _, o := range got {
			gs = append(gs, orgStr(o))
		}
		s.list(t, "FindOrganizations({})", uerr, items, gs, n, err, before)
	case 3:
		s.nextN++
		name := fmt.Sprintf("neworg%d", s.nextN)
		s.logf("CreateOrganization(%q)", name)
		allowed := s.allowed(influxdb.WriteAction, influxdb.OrgsResourceType, nil, nil)
		err := s.orgW.CreateOrganization(s.ctx, &influxdb.Organization{Name: name})
		s.mutate(t, "CreateOrganization", allowed, err, before)
	case 4, 5:
		id, _ := s.pickOrg(t)
		s.nextN++
		d := fmt.Sprintf("desc%d", s.nextN)
		s.logf("UpdateOrganization(%v, desc=%q)", id, d)
		allowed := s.allowed(influxdb.WriteAction, influxdb.OrgsResourceType, nil, idp(id))
		_, err := s.orgW.UpdateOrganization(s.ctx, id, influxdb.OrganizationUpdate{Description: &d})
		s.mutate(t, "UpdateOrganization", allowed, err, before)
	case 6:
		id, _ := s.pickOrg(t)
		allowed := s.allowed(influxdb.WriteAction, influxdb.OrgsResourceType, nil, idp(id))
		if allowed && len(s.orgs(t)) <= 1 {
			return // keep one organization alive for the rest of the sequence
		}
		s.logf("DeleteOrganization(%v)", id)
		err := s.orgW.DeleteOrganization(s.ctx, id)
		s.mutate(t, "DeleteOrganization", allowed, err, before)
	}
}

func (s *sys) callBucket(t *rapid.T) {
	before := s.dump(t)
	bstr := func(b *influxdb.Bucket) (string, bool) {
		if b == nil {
			return "", false
		}
		return bktStr(b), true
	}
	switch uniform(t, "bucket-call", 10) {
	case 0:
		id, b := s.pickBucket(t)
		s.logf("FindBucketByID(%v)", id)
		got, err := s.bktW.FindBucketByID(s.ctx, id)
		want, found := bstr(b)
		g, gok := bstr(got)
		s.single(t, "FindBucketByID", found, want, found && s.mayReadBucket(b), g, gok, err, before)
	case 1:
		_, b := s.pickBucket(t)
		org, name := bogus(), "no-such-bucket"
		if b != nil {
			org, name = b.OrgID, b.Name
		}
		viaFilter := uniform(t, "via-filter", 2) == 0
		s.logf("FindBucketByName(%v,%q) viaFilter=%v", org, name, viaFilter)
		var got *influxdb.Bucket
		var err error
		if viaFilter {
			got, err = s.bktW.FindBucket(s.ctx, influxdb.BucketFilter{OrganizationID: &org, Name: &name})
		} else {
			got, err = s.bktW.FindBucketByName(s.ctx, org, name)
		}
		want, found := bstr(b)
		g, gok := bstr(got)
		s.single(t, "FindBucketByName", found, want, found && s.mayReadBucket(b), g, gok, err, before)
	case 9:
		// general filter: an id together with an organization (and sometimes a name) drawn
		// independently, so the filter need not be self-consistent. Whatever the wrapped service
		// resolves it to is what has to be authorized - not what the filter claims.
		id, _ := s.pickBucket(t)
		f := influxdb.BucketFilter{ID: &id}
		what := fmt.Sprintf("{id=%v", id)
		if uniform(t, "with-org", 4) != 0 {
			org, _ := s.pickOrg(t)
			f.OrganizationID = &org
			what += fmt.Sprintf(",org=%v", org)
		}
		if uniform(t, "with-name", 3) == 0 {
			_, nb := s.pickBucket(t)
			name := "no-such-bucket"
			if nb != nil {
				name = nb.Name
			}
			f.Name = &name
			what += fmt.Sprintf(",name=%q", name)
		}
		what += "}"
		s.logf("FindBucket(%s)", what)
		under, uerr := s.ten.FindBucket(s.bg, f)
		if uerr != nil {
			under = nil
		}
		got, err := s.bktW.FindBucket(s.ctx, f)
		want, found := bstr(under)
		g, gok := bstr(got)
		if found && f.OrganizationID != nil && *f.OrganizationID != under.OrgID {
			rec.Class("bucket-filter:org-differs-from-resolved-bucket")
		}
		s.single(t, "FindBucket"+what, found, want, found && s.mayReadBucket(under), g, gok, err, before)
	case 2, 3:
		f := influxdb.BucketFilter{}
		what := "{}"
		if uniform(t, "by-org", 2) == 0 {
			id, _ := s.pickOrg(t)
			f.OrganizationID = &id
			what = fmt.Sprintf("{org=%v}", id)
		}
		s.logf("FindBuckets(%s)", what)
		got, n, err := s.bktW.FindBuckets(s.ctx, f)
		under, _, uerr := s.ten.FindBuckets(s.bg, f)
		var items []item
		for _, b := range under {
			items = append(items, item{bktStr(b), s.mayReadBucket(b)})
		}
		var gs []string
		for _, b := range got {
			gs = append(gs, bktStr(b))
		}
		s.list(t, "FindBuckets("+what+")", uerr, items, gs, n, err, before)
	case 4, 5:
		org, _ := s.pickOrg(t)
		s.nextN++
		name := fmt.Sprintf("newbucket%d", s.nextN)
		s.logf("CreateBucket(org=%v,%q)", org, name)
		allowed := s.allowed(influxdb.WriteAction, influxdb.BucketsResourceType, idp(org), nil)
		err := s.bktW.CreateBucket(s.ctx, &influxdb.Bucket{OrgID: org, Name: name})
		s.mutate(t, "CreateBucket", allowed, err, before)
	case 6, 7:
		id, b := s.pickBucket(t)
		s.nextN++
		d := fmt.Sprintf("desc%d", s.nextN)
		s.logf("UpdateBucket(%v, desc=%q)", id, d)
		allowed := b != nil && s.allowed(influxdb.WriteAction, influxdb.BucketsResourceType, idp(b.OrgID), idp(id))
		_, err := s.bktW.UpdateBucket(s.ctx, id, influxdb.BucketUpdate{Description: &d})
		s.mutate(t, "UpdateBucket", allowed, err, before)
	case 8:
		id, b := s.pickBucket(t)
		s.logf("DeleteBucket(%v)", id)
		allowed := b != nil && s.allowed(influxdb.WriteAction, influxdb.BucketsResourceType, idp(b.OrgID), idp(id))
		err := s.bktW.DeleteBucket(s.ctx, id)
		s.mutate(t, "DeleteBucket", allowed, err, before)
	}
}

func (s *sys) callUser(t *rapid.T) {
	before := s.dump(t)
	ustr := func(u *influxdb.User) (string, bool) {
		if u == nil {
			return "", false
		}
		return userStr(u), true
	}
	switch uniform(t, "user-call", 7) {
	case 0:
		id, u := s.pickUser(t)
		s.logf("FindUserByID(%v)", id)
		got, err := s.userW.FindUserByID(s.ctx, id)
		want, found := ustr(u)
		g, gok := ustr(got)
		s.single(t, "FindUserByID", found, want, found && s.mayReadUser(u), g, gok, err, before)
	case 1:
		_, u := s.pickUser(t)
		name := "no-such-user"
		if u != nil {
			name = u.Name
		}
		s.logf("FindUser(name=%q)", name)
		got, err := s.userW.FindUser(s.ctx, influxdb.UserFilter{Name: &name})
		want, found := ustr(u)
		g, gok := ustr(got)
		s.single(t, "FindUser", found, want, found && s.mayReadUser(u), g, gok, err, before)
	case 2, 3:
		s.logf("FindUsers({})")
		got, n, err := s.userW.FindUsers(s.ctx, influxdb.UserFilter{})
		under, _, uerr := s.ten.FindUsers(s.bg, influxdb.UserFilter{})
		var items []item
		for _, u := range under {
			items = append(items, item{userStr(u), s.mayReadUser(u)})
		}
		var gs []string
		for _, u := range got {
			gs = append(gs, userStr(u))
		}
		s.list(t, "FindUsers({})", uerr, items, gs, n, err, before)
	case 4:
		s.nextN++
		name := fmt.Sprintf("newuser%d", s.nextN)
		s.logf("CreateUser(%q)", name)
		allowed := s.allowed(influxdb.WriteAction, influxdb.UsersResourceType, nil, nil)
		err := s.userW.CreateUser(s.ctx, &influxdb.User{Name: name, Status: influxdb.Active})
		s.mutate(t, "CreateUser", allowed, err, before)
	case 5:
		id, _ := s.pickUser(t)
		s.nextN++
		name := fmt.Sprintf("renamed%d", s.nextN)
		s.logf("UpdateUser(%v, name=%q)", id, name)
		allowed := s.allowed(influxdb.WriteAction, influxdb.UsersResourceType, nil, idp(id))
		_, err := s.userW.UpdateUser(s.ctx, id, influxdb.UserUpdate{Name: &name})
		s.mutate(t, "UpdateUser", allowed, err, before)
	case 6:
		id, _ := s.pickUser(t)
		allowed := s.allowed(influxdb.WriteAction, influxdb.UsersResourceType, nil, idp(id))
		if id == s.caller && allowed {
			return // keep the caller's own user
		}
		s.logf("DeleteUser(%v)", id)
		err := s.userW.DeleteUser(s.ctx, id)
		s.mutate(t, "DeleteUser", allowed, err, before)
	}
}

func (s *sys) callToken(t *rapid.T) {
	before := s.dump(t)
	wi := uniform(t, "token-wrapper", len(s.authWs))
	w, wn := s.authWs[wi], s.authWn[wi]
	astr := func(a *influxdb.Authorization) (string, bool) {
		if a == nil {
			return "", false
		}
		return tokStr(a), true
	}
	switch uniform(t, "token-call", 10) {
	case 0:
		id, a := s.pickToken(t)
		s.logf("%s.FindAuthorizationByID(%v)", wn, id)
		got, err := w.FindAuthorizationByID(s.ctx, id)
		want, found := astr(a)
		g, gok := astr(got)
		s.single(t, "FindAuthorizationByID", found, want, found && s.mayToken(influxdb.ReadAction, a), g, gok, err, before)
	case 1:
		_, a := s.pickToken(t)
		tok := "no-such-token"
		if a != nil {
			tok = a.Token
		}
		s.logf("%s.FindAuthorizationByToken(%q)", wn, tok)
		got, err := w.FindAuthorizationByToken(s.ctx, tok)
		want, found := astr(a)
		g, gok := astr(got)
		s.single(t, "FindAuthorizationByToken", found, want, found && s.mayToken(influxdb.ReadAction, a), g, gok, err, before)
	case 2, 3:
		f := influxdb.AuthorizationFilter{}
		what := "{}"
		switch uniform(t, "token-filter", 3) {
		case 0:
			id, _ := s.pickUser(t)
			f.UserID = &id
			what = fmt.Sprintf("{user=%v}", id)
		case 1:
			id, _ := s.pickOrg(t)
			f.OrgID = &id
			what = fmt.Sprintf("{org=%v}", id)
		}
		s.logf("%s.FindAuthorizations(%s)", wn, what)
		got, n, err := w.FindAuthorizations(s.ctx, f)
		under, _, uerr := s.auths.FindAuthorizations(s.bg, f)
		var items []item
		for _, a := range under {
			items = append(items, item{tokStr(a), s.mayToken(influxdb.ReadAction, a)})
		}
		var gs []string
		for _, a := range got {
			gs = append(gs, tokStr(a))
		}
		s.list(t, "FindAuthorizations("+what+")", uerr, items, gs, n, err, before)
	case 4, 5, 6:
		org, _ := s.pickOrg(t)
		user, _ := s.pickUser(t)
		// the permissions to grant: drawn like the caller's set (so often not covered by it), or copied
		// from the caller's set (always covered), restricted to the token's organization where scoped
		var perms []influxdb.Permission
		for i, n := 0, uniform(t, "grant-n", 4); i < n; i++ {
			var p influxdb.Permission
			if len(s.set) > 0 && uniform(t, fmt.Sprintf("grant%d-copy", i), 2) == 0 {
				p = s.set[uniform(t, fmt.Sprintf("grant%d-of", i), len(s.set))]
			} else {
				p = s.genPerm(t, fmt.Sprintf("grant%d", i), false)
			}
			if p.Resource.Type == influxdb.InstanceResourceType {
				continue
			}
			perms = append(perms, p)
		}
		s.nextN++
		tok := fmt.Sprintf("new-token-%d", s.nextN)
		s.logf("%s.CreateAuthorization(org=%v,user=%v,grant=%s)", wn, org, user, setStr(perms))
		base := s.allowed(influxdb.WriteAction, influxdb.AuthorizationsResourceType, idp(org), nil)
		base = s.allowed(influxdb.WriteAction, influxdb.UsersResourceType, nil, idp(user)) && base
		grants := true
		for _, p := range perms {
			if !wantAllowed(s.set, p) {
				grants = false
			}
		}
		if base && !grants {
			s.deniedTokenByGrantOnly = true
			rec.Class("token-create:denied-only-because-of-a-granted-permission")
		}
		err := w.CreateAuthorization(s.ctx, &influxdb.Authorization{OrgID: org, UserID: user, Token: tok, Status: influxdb.Active, Permissions: perms})
		s.mutate(t, "CreateAuthorization", base && grants, err, before)
	case 7, 8:
		id, a := s.pickToken(t)
		s.nextN++
		d := fmt.Sprintf("desc%d", s.nextN)
		st := influxdb.Inactive
		s.logf("%s.UpdateAuthorization(%v, desc=%q, inactive)", wn, id, d)
		allowed := a != nil && s.mayToken(influxdb.WriteAction, a)
		_, err := w.UpdateAuthorization(s.ctx, id, &influxdb.AuthorizationUpdate{Description: &d, Status: &st})
		s.mutate(t, "UpdateAuthorization", allowed, err, before)
	case 9:
		id, a := s.pickToken(t)
		s.logf("%s.DeleteAuthorization(%v)", wn, id)
		allowed := a != nil && s.mayToken(influxdb.WriteAction, a)
		err := w.DeleteAuthorization(s.ctx, id)
		s.mutate(t, "DeleteAuthorization", allowed, err, before)
	}
}

// ---- the property ---------------------------------------------------------------------------

func TestPropWrappedServices(t *testing.T) {
	rec.Assume("the reference decision is C28's matching rule; data reference = the unwrapped service in the same state")
	rec.Assume("system buckets are readable by whoever may read their organization (documented special case of AuthorizeReadBucket); an unfiltered FindOrganizations by a caller that may not read all organizations is computed from the caller's memberships (documented in authorizer/org.go)")
	rec.Assume("not covered: the URM, label, task, dashboard ... wrappers, the tenant package's own middleware, pagination options, inactive caller tokens, token permissions of the instance type")
	rec.Check(t, 700, 10000, func(t *rapid.T) {
		s := newSys(t)
		n := 10 + uniform(t, "calls", 11)
		for i := 0; i < n; i++ {
			switch uniform(t, "service", 9) {
			case 0, 1:
				s.callOrg(t)
			case 2, 3, 4:
				s.callBucket(t)
			case 5, 6:
				s.callUser(t)
			default:
				s.callToken(t)
			}
		}
		rec.Eval()
		rec.ClassN("calls", len(s.calls))
		partial := s.granted > 0 && s.denied > 0
		switch {
		case len(s.set) == 0:
			rec.Class("caller:no-permissions")
		case !partial && s.denied == 0:
			rec.Class("caller:everything-granted")
		case !partial:
			rec.Class("caller:nothing-granted")
		default:
			rec.Class("caller:partial")
		}
		if s.deniedMutation {
			rec.Class("case:has-denied-mutation")
		}
		if s.partialList {
			rec.Class("case:has-partially-filtered-list")
		}
		if partial && s.deniedMutation && s.partialList {
			rec.Class("case:NON-TRIVIAL")
			rec.NonTrivial(setStr(s.set) + "|" + strings.Join(s.calls, ";"))
			if rec.WantSample() {
				rec.Sample(map[string]any{"permissions": setStr(s.set), "calls": s.calls})
			}
		}
	})
}
