package c29_authz

import (
	"testing"

	"verifharness/internal/ev"
)

func TestMain(m *testing.M) { ev.Main(m) }
