package c24_scheduler

import (
	"errors"
	"fmt"
	"os"
	"sort"
	"strings"
	"time"

	"github.com/benbjohnson/clock"
	"github.com/influxdata/influxdb/v2/pkg/verifhook"
	"github.com/influxdata/influxdb/v2/task/backend/scheduler"

	"verifharness/internal/ev"
)

const keyNegReset = "negative-timer-reset-busy-loop"

// ---- vocabulary of a history -----------------------------------------------------------------

var idPool = []scheduler.ID{1, 2, 3, 7, 100, 1<<40 + 5}

type specT struct {
	Cron   string
	Period time.Duration // nominal distance of two runs (used to size LastScheduled and advances)
}

var specPool = []specT{
	{"@every 1s", time.Second}, {"@every 5s", 5 * time.Second}, {"@every 1m", time.Minute}, {"@every 1h", time.Hour},
	{"* * * * * *", time.Second}, {"*/7 * * * * *", 7 * time.Second}, {"0 */5 * * * *", 5 * time.Minute},
}

var offsetPool = []time.Duration{0, 3 * time.Second, 90 * time.Second}

var backPool = []int{0, 0, 1, 2, 5, 12} // LastScheduled = now - back periods: at now / before / far before

type op struct {
	K       string `json:"k"`             // sched | release | advance | close | open
	Mid     bool   `json:"mid,omitempty"` // sched / release: the clock advances by D / Periods while the call is in flight
	ID      int    `json:"id"`
	Spec    int    `json:"spec,omitempty"`
	Off     int    `json:"off,omitempty"`
	Back    int    `json:"back,omitempty"`    // index into backPool
	Raw     bool   `json:"raw,omitempty"`     // LastScheduled not aligned by scheduler.NewSchedule
	Behav   int    `json:"behav,omitempty"`   // executor: 0 ok, 1 returns an error, 2 panics
	D       int64  `json:"d_ns,omitempty"`    // advance by D ...
	Periods int    `json:"periods,omitempty"` // ... or by Periods nominal periods of task ID when it is scheduled
}

func (o op) String() string {
	switch o.K {
	case "sched":
		if o.Mid {
			return fmt.Sprintf("sched(%d,%q,off=%s,back=%d,raw=%v,behav=%d,mid-advance=%d|%s)", idPool[o.ID], specPool[o.Spec].Cron, offsetPool[o.Off], backPool[o.Back], o.Raw, o.Behav, o.Periods, time.Duration(o.D))
		}
		return fmt.Sprintf("sched(%d,%q,off=%s,back=%d,raw=%v,behav=%d)", idPool[o.ID], specPool[o.Spec].Cron, offsetPool[o.Off], backPool[o.Back], o.Raw, o.Behav)
	case "release":
		if o.Mid {
			return fmt.Sprintf("release(%d,mid-advance=%d|%s)", idPool[o.ID], o.Periods, time.Duration(o.D))
		}
	case "advance":
		if o.Periods > 0 {
			return fmt.Sprintf("advance(%d periods of %d | %s)", o.Periods, idPool[o.ID], time.Duration(o.D))
		}
		return fmt.Sprintf("advance(%s)", time.Duration(o.D))
	case "open":
		return "open"
	}
	return fmt.Sprintf("%s(%d)", o.K, idPool[o.ID])
}

type config struct {
	Workers int   `json:"workers"`
	BaseSec int64 `json:"base_s"`  // seconds after 2020-04-01T00:00:00Z
	BaseMs  int   `json:"base_ms"` // sub-second part of the start time
}

var epoch = time.Date(2020, 4, 1, 0, 0, 0, 0, time.UTC)

// ---- model -----------------------------------------------------------------------------------

type mtask struct {
	active bool
	s      scheduler.Schedule
	off    time.Duration
	last   time.Time // scheduledFor of the last expected run (or the Schedulable's LastScheduled)
	period time.Duration
	exp    []runRec // runs of this id that must have started, over all its generations
}

func (t *mtask) pendingWhen() (time.Time, bool) {
	nx, err := t.s.Next(t.last)
	if err != nil {
		return time.Time{}, false
	}
	return nx.Add(t.off), true
}

// extend appends the runs that are due at now; it returns how many were added.
func (t *mtask) extend(now time.Time) int {
	n := 0
	for t.active {
		nx, err := t.s.Next(t.last)
		if err != nil || nx.Add(t.off).After(now) {
			break
		}
		t.exp = append(t.exp, runRec{For: nx, RunAt: nx.Add(t.off)})
		t.last = nx
		n++
	}
	return n
}

func (t *mtask) countDue(now time.Time, limit int) int {
	n, last := 0, t.last
	for t.active && n <= limit {
		nx, err := t.s.Next(last)
		if err != nil || nx.Add(t.off).After(now) {
			break
		}
		last = nx
		n++
	}
	return n
}

type failure struct {
	key    string
	detail string
	timing bool // decided by a bounded real-time wait: must be confirmed by replaying the history
}

type stats struct {
	classes      map[string]int
	twoPeriods   bool // >= 2 tasks with different periods scheduled at the same time
	multiDue     bool // one advance made >= 2 runs of one task due
	releaseDue   bool // release / re-schedule of a task that still had due runs that had not started
	knownStale   bool // When() showed the known stale-time signature
	knownSpin    bool // repeated wake-ups with nothing due (known signature in its mock-clock form)
	runs         int
	wakeups      int
	spurious     int
	stopTimeout  bool
	whenChecks   int
	staleAllowed int
	midDispatch  bool // a Release / Schedule was in flight while the loop dispatched a run of its task
	midZombie    bool // ... and a later advance passed the time at which the released task would have run next
}

type hist struct {
	cfg    config
	mock   *clock.Mock
	sch    *scheduler.TreeScheduler
	in     internals
	w      *world
	now    time.Time
	tasks  map[scheduler.ID]*mtask
	stale  []time.Time // former head due times that When() may lag on (Release does not re-arm, by design)
	st     stats
	syncTO time.Duration

	hooked  int                        // metric counters wrapped (mid-call schedule points)
	skipLag *scheduler.ID              // settledLocked ignores this task (its Release / Schedule is in flight)
	alsoDue *mtask                     // the task a Schedule call in flight is about to install (sizes the mid-call advance)
	cut     bool                       // the history ends here without further assertions
	zombie  map[scheduler.ID]time.Time // released while a dispatch was in flight: when it would run next
}

const maxNewDue = 150

var debugTrace = os.Getenv("VERIF_DEBUG") != ""

func newHist(cfg config) (*hist, error) {
	h := &hist{cfg: cfg, w: newWorld(), tasks: map[scheduler.ID]*mtask{}, syncTO: 3 * time.Second}
	h.st.classes = map[string]int{}
	h.now = epoch.Add(time.Duration(cfg.BaseSec)*time.Second + time.Duration(cfg.BaseMs)*time.Millisecond)
	h.mock = clock.NewMock()
	h.mock.Set(h.now)
	verifhook.Set(func(name, detail string) {
		if name == "scheduler.loop" {
			h.w.onLoop()
		}
	})
	s, sm, err := scheduler.NewScheduler(h.w, h.w, scheduler.WithTime(h.mock), scheduler.WithMaxConcurrentWorkers(cfg.Workers))
	if err != nil {
		return nil, err
	}
	h.sch = s
	h.hooked = hookMetrics(sm, h.w)
	h.zombie = map[scheduler.ID]time.Time{}
	h.in = peek(s)
	for _, id := range idPool {
		h.tasks[id] = &mtask{}
	}
	return h, nil
}

func (h *hist) close() {
	h.w.mu.Lock()
	h.w.dead = true
	h.w.mu.Unlock()
	h.w.openGates()
	done := make(chan struct{})
	go func() { h.sch.Stop(); close(done) }()
	select {
	case <-done:
	case <-time.After(5 * time.Second):
		h.st.stopTimeout = true
	}
	verifhook.Set(nil)
	h.w.mu.Lock()
	h.st.wakeups, h.st.spurious = h.w.wakeups, h.w.spurious
	for _, r := range h.w.runs {
		h.st.runs += len(r)
	}
	h.w.mu.Unlock()
}

func (h *hist) class(c string) { h.st.classes[c]++ }

// publish makes the model's expectation visible to the hook.
func (h *hist) publish() {
	h.w.mu.Lock()
	n := 0
	for id, t := range h.tasks {
		h.w.expLen[id] = len(t.exp)
		if t.active {
			n++
		}
	}
	h.w.active = n
	h.w.mu.Unlock()
}

func (h *hist) trueMin() (time.Time, bool) {
	var m time.Time
	ok := false
	for _, t := range h.tasks {
		if !t.active {
			continue
		}
		if w, has := t.pendingWhen(); has && (!ok || w.Before(m)) {
			m, ok = w, true
		}
	}
	return m, ok
}

func ts(t time.Time) string {
	if t.IsZero() {
		return "zero"
	}
	return t.UTC().Format("2006-01-02T15:04:05.000Z")
}

// safetyLocked compares what has started so far with the model. Caller holds w.mu.
func (h *hist) safetyLocked() *failure {
	if len(h.w.overlaps) > 0 {
		return &failure{key: "concurrent-runs-of-one-task", detail: h.w.overlaps[0]}
	}
	for _, id := range idPool {
		t := h.tasks[id]
		got := h.w.runs[id]
		for i, r := range got {
			if i >= len(t.exp) {
				switch {
				case !t.active:
					return &failure{key: "run-after-release", detail: fmt.Sprintf("task %d: a run for %s started after Release(%d) had returned (runs started before: %d)", id, ts(r.For), id, len(t.exp))}
				case i > 0 && r.For.Equal(got[i-1].For):
					return &failure{key: "duplicate-run", detail: fmt.Sprintf("task %d: the run for %s was dispatched twice", id, ts(r.For))}
				default:
					nx, _ := t.pendingWhen()
					return &failure{key: "run-before-due", detail: fmt.Sprintf("task %d: a run for %s started at clock %s, the next run is only due at %s", id, ts(r.For), ts(h.now), ts(nx))}
				}
			}
			e := t.exp[i]
			if !r.For.Equal(e.For) {
				switch {
				case i > 0 && r.For.Equal(got[i-1].For):
					return &failure{key: "duplicate-run", detail: fmt.Sprintf("task %d: the run for %s was dispatched twice (expected next: %s)", id, ts(r.For), ts(e.For))}
				case i > 0 && r.For.Before(got[i-1].For) && !e.For.Before(t.exp[i-1].For):
					return &failure{key: "out-of-order-run", detail: fmt.Sprintf("task %d: run for %s started after the run for %s", id, ts(r.For), ts(got[i-1].For))}
				default:
					return &failure{key: "wrong-scheduled-time", detail: fmt.Sprintf("task %d: run #%d started for %s, the schedule gives %s", id, i, ts(r.For), ts(e.For))}
				}
			}
			if !r.RunAt.Equal(e.RunAt) {
				return &failure{key: "wrong-run-at", detail: fmt.Sprintf("task %d: run for %s has runAt %s, scheduledFor+offset is %s", id, ts(r.For), ts(r.RunAt), ts(e.RunAt))}
			}
		}
		ck := h.w.ckpt[id]
		if len(ck) > h.w.exits[id] {
			return &failure{key: "checkpoint-mismatch", detail: fmt.Sprintf("task %d: %d UpdateLastScheduled calls for %d finished runs", id, len(ck), h.w.exits[id])}
		}
		for i, c := range ck {
			if !c.Equal(got[i].For) {
				return &failure{key: "checkpoint-mismatch", detail: fmt.Sprintf("task %d: UpdateLastScheduled #%d got %s, the run was for %s", id, i, ts(c), ts(got[i].For))}
			}
		}
	}
	return nil
}

// settledLocked: nothing more can happen until the harness acts. A worker whose executor waits
// at a gate is settled as it is; on every other worker all expected runs must have started,
// finished and been checkpointed. full = no executor waits and everything is caught up.
func (h *hist) settledLocked() (settled, full bool, lag string) {
	blockedW := map[int]bool{}
	for _, id := range idPool {
		if h.w.blocked[id] {
			blockedW[workerOf(id, h.cfg.Workers)] = true
		}
	}
	settled, full = true, len(blockedW) == 0
	for _, id := range idPool {
		if h.skipLag != nil && *h.skipLag == id {
			continue
		}
		t := h.tasks[id]
		n := len(h.w.runs[id])
		caught := n == len(t.exp) && h.w.exits[id] == n && len(h.w.ckpt[id]) == n
		if caught {
			continue
		}
		full = false
		if !blockedW[workerOf(id, h.cfg.Workers)] {
			settled = false
			lag = fmt.Sprintf("task %d: %d runs expected by %s, %d started, %d finished, %d checkpointed (next expected: %s)",
				id, len(t.exp), ts(h.now), n, h.w.exits[id], len(h.w.ckpt[id]), func() string {
					if n < len(t.exp) {
						return ts(t.exp[n].For)
					}
					return "-"
				}())
		}
	}
	return
}

// sync waits (bounded) until the scheduler has done everything the model says it must.
func (h *hist) sync() (full bool, f *failure) {
	deadline := time.Now().Add(h.syncTO)
	for {
		h.w.mu.Lock()
		f := h.safetyLocked()
		settled, fl, lag := h.settledLocked()
		h.w.mu.Unlock()
		if f != nil {
			return false, f
		}
		if settled {
			return fl, nil
		}
		if time.Now().After(deadline) {
			return false, &failure{key: "missed-run", timing: true, detail: "not dispatched within " + h.syncTO.String() + ": " + lag}
		}
		select {
		case <-h.w.notify:
		case <-time.After(200 * time.Microsecond):
		}
	}
}

var errTickPending = errors.New("timer tick pending")

// setClock moves the mock clock to target the way the scheduler's own tests do: holding the
// scheduler's mutex, so that the main loop sees one consistent time per pass. It refuses to
// deliver a tick while an earlier one is still unconsumed (the mock would block forever).
func (h *hist) setClock(target time.Time, patience time.Duration) error {
	deadline := time.Now().Add(patience)
	for {
		h.in.mu.Lock()
		if h.in.timerC.Len() == 0 {
			break
		}
		h.in.mu.Unlock()
		if time.Now().After(deadline) {
			return errTickPending
		}
		time.Sleep(50 * time.Microsecond)
	}
	h.mock.Set(target)
	h.in.mu.Unlock()
	return nil
}

func (h *hist) anyBlocked() bool {
	h.w.mu.Lock()
	defer h.w.mu.Unlock()
	for _, b := range h.w.blocked {
		if b {
			return true
		}
	}
	return false
}

// tickDelivered waits until the main loop has consumed the last timer tick.
func (h *hist) tickDelivered(patience time.Duration) bool {
	deadline := time.Now().Add(patience)
	for h.in.timerC.Len() != 0 {
		if time.Now().After(deadline) {
			return false
		}
		time.Sleep(50 * time.Microsecond)
	}
	return true
}

// readyClock makes sure the clock can be moved: no undelivered tick. A main loop that is busy
// retrying a blocked worker never returns to its timer, so the slow executors are let go first
// (the model must still describe the OLD clock value while this waits).
func (h *hist) readyClock() *failure {
	if h.tickDelivered(300 * time.Millisecond) {
		return nil
	}
	if h.anyBlocked() {
		h.class("advance:forced-open")
		h.w.openGates()
		if _, f := h.sync(); f != nil {
			return f
		}
	}
	if !h.tickDelivered(2 * time.Second) {
		return &failure{key: "loop-stalled", timing: true, detail: "the main loop did not consume its timer tick for 2s although no executor was blocked"}
	}
	return nil
}

// moveClock = readyClock + setClock.
func (h *hist) moveClock(target time.Time) *failure {
	if f := h.readyClock(); f != nil {
		return f
	}
	if err := h.setClock(target, 2*time.Second); err != nil {
		return &failure{key: "loop-stalled", timing: true, detail: "the main loop did not consume its timer tick for 2s"}
	}
	return nil
}

func (h *hist) entered(id scheduler.ID) int {
	h.w.mu.Lock()
	defer h.w.mu.Unlock()
	return len(h.w.runs[id])
}

// noteStale records the due time of the queue item of a task that is about to be released /
// re-scheduled, when that item can be what the timer is armed for: the scheduler does not re-arm
// on Release (documented), so When() may keep reporting that time until it has passed.
func (h *hist) noteStale(id scheduler.ID, t *mtask) {
	if !t.active {
		return
	}
	if n := h.entered(id); n < len(t.exp) {
		// due runs that have not started (blocked worker): the item carries the first of them
		h.stale = append(h.stale, t.exp[n].RunAt)
		return
	}
	w, ok := t.pendingWhen()
	if !ok {
		return
	}
	if m, has := h.trueMin(); has && w.After(m) {
		return
	}
	h.stale = append(h.stale, w)
}

func (h *hist) allowance() {
	h.w.mu.Lock()
	h.w.allowance++
	h.w.mu.Unlock()
}

// checkWhen: in a fully quiet state When() must report the earliest pending due time.
func (h *hist) checkWhen() *failure {
	want, has := h.trueMin()
	if !has {
		want = time.Time{}
	}
	h.st.whenChecks++
	deadline := time.Now().Add(time.Second)
	var got, knownSince time.Time
	for {
		got = h.sch.When()
		if got.Equal(want) || (got.IsZero() && want.IsZero()) {
			return nil
		}
		isStale := false
		for _, s := range h.stale {
			if got.Equal(s) {
				isStale = true
			}
		}
		if isStale && h.now.Before(got) && (!has || got.Before(want)) {
			h.st.staleAllowed++
			return nil // not re-armed yet: the former head time has not passed
		}
		if isStale && !h.now.Before(got) && (!has || want.After(h.now)) && ev.KnownOpen("C24", keyNegReset) {
			// known signature: the former head time HAS passed, the loop woke up, found the new
			// head not yet due, and left `when` (and the timer) stale (it stays so even when the
			// queue is emptied afterwards, until the next clock movement). It must persist for 10ms
			// of real time to count (a loop that is just about to correct it is not the finding).
			if knownSince.IsZero() {
				knownSince = time.Now()
			} else if time.Since(knownSince) > 10*time.Millisecond {
				h.st.knownStale = true
				return nil
			}
		} else {
			knownSince = time.Time{}
		}
		if time.Now().After(deadline) {
			break
		}
		time.Sleep(100 * time.Microsecond)
	}
	key := "when-mismatch"
	for _, s := range h.stale {
		if got.Equal(s) {
			key = keyNegReset
		}
	}
	return &failure{key: key, timing: true, detail: fmt.Sprintf("quiet scheduler at clock %s: When() = %s, earliest pending due time = %s", ts(h.now), ts(got), ts(want))}
}

func (h *hist) checkSpin() *failure {
	h.w.mu.Lock()
	ex, sp, wk := h.w.excess, h.w.spurious, h.w.wakeups
	h.w.mu.Unlock()
	if ex == 0 {
		return nil
	}
	if ev.KnownOpen("C24", keyNegReset) {
		h.st.knownSpin = true
		return nil
	}
	return &failure{key: keyNegReset, timing: true, detail: fmt.Sprintf("main loop woke up %d times (of %d) with a non-empty queue whose head was not yet due; a Schedule/Release can explain at most %d of them", sp, wk, sp-ex)}
}

// doAdvance moves the model and the mock clock forward (the body of an "advance" operation, also
// used for the clock movement in the middle of a Release / Schedule call).
func (h *hist) doAdvance(o op) *failure {
	t := h.tasks[idPool[o.ID]]
	if f := h.readyClock(); f != nil {
		return f
	}
	d := time.Duration(o.D)
	if o.Periods > 0 && t.active {
		d = time.Duration(o.Periods) * t.period
	}
	for d > time.Millisecond {
		total := 0
		for _, x := range h.tasks {
			total += x.countDue(h.now.Add(d), maxNewDue)
		}
		if h.alsoDue != nil {
			total += h.alsoDue.countDue(h.now.Add(d), maxNewDue)
		}
		if total <= maxNewDue {
			break
		}
		d /= 2
		h.class("advance:clamped")
	}
	h.now = h.now.Add(d)
	total, most := 0, 0
	for _, x := range h.tasks {
		a := x.extend(h.now)
		total += a
		if a > most {
			most = a
		}
	}
	switch {
	case total == 0:
		h.class("advance:nothing-due")
	case most >= 2:
		h.class("advance:several-runs-of-one-task")
		h.st.multiDue = true
	default:
		h.class("advance:single-runs")
	}
	h.publish()
	if f := h.moveClock(h.now); f != nil {
		return f
	}
	for zid, zw := range h.zombie {
		if !h.now.Before(zw) {
			h.st.midZombie = true
			h.class("advance:passes-next-due-time-of-task-released-during-dispatch")
			delete(h.zombie, zid)
		}
	}
	return nil
}

// mutexFree reports whether the scheduler's mutex can be taken from the calling goroutine (it
// cannot when the mid-call point is reached while Release / Schedule itself holds the mutex).
func (h *hist) mutexFree(patience time.Duration) bool {
	deadline := time.Now().Add(patience)
	for {
		if h.in.mu.TryLock() {
			h.in.mu.Unlock()
			return true
		}
		if time.Now().After(deadline) {
			return false
		}
		time.Sleep(50 * time.Microsecond)
	}
}

// midAdvance runs on the harness goroutine INSIDE h.sch.Release(id) / h.sch.Schedule(id) (at the
// call-counting metric): the clock advances and the main loop dispatches whatever is due while
// that call is in flight. The call has not returned, so the model still holds the task as it was:
// a correct scheduler behaves as if the advance had happened just before the call — or, were the
// call already effective at this point, the task's own runs do not start; that case cannot be
// told from a lost run by waiting, so the history is then cut without a verdict.
func (h *hist) midAdvance(o op) *failure {
	id := idPool[o.ID]
	t := h.tasks[id]
	if !h.mutexFree(200 * time.Millisecond) {
		h.class("mid:scheduler-mutex-held-at-hook")
		return nil
	}
	before := len(t.exp)
	ao := o
	ao.K = "advance"
	if f := h.doAdvance(ao); f != nil {
		return f
	}
	_, f := h.sync()
	if f != nil && f.key == "missed-run" {
		h.skipLag = &id
		h.w.mu.Lock()
		f2 := h.safetyLocked()
		settled, _, _ := h.settledLocked()
		h.w.mu.Unlock()
		h.skipLag = nil
		if f2 == nil && settled {
			h.cut = true
			h.class("mid:in-flight-call-already-effective-history-cut")
			return nil
		}
	}
	if f != nil {
		return f
	}
	if f := h.checkSpin(); f != nil {
		return f
	}
	h.class(o.K + ":clock-advance-mid-call")
	if len(t.exp) > before && h.entered(id) == len(t.exp) {
		h.class(o.K + ":mid-call-dispatch-of-its-own-task")
		h.st.midDispatch = true
		if o.K == "release" {
			if w, ok := t.pendingWhen(); ok {
				h.zombie[id] = w
			}
		}
	}
	return nil
}

// inFlight calls fn (h.sch.Release or h.sch.Schedule) with the mid-call action armed when the
// operation asks for it. apply is the model's transition for the call: it runs right before the
// call, or — with a mid-call advance — inside it, after the advance.
func (h *hist) inFlight(o op, apply func(), fn func() error) (error, *failure) {
	if !o.Mid {
		apply()
		return fn(), nil
	}
	var mf *failure
	fired := false
	h.w.armMid(func() {
		fired = true
		mf = h.midAdvance(o)
		apply()
	})
	err := fn()
	h.w.armMid(nil)
	if !fired {
		h.class("mid:hook-not-reached")
		apply()
	}
	return err, mf
}

// step executes one operation.
func (h *hist) step(o op) *failure {
	id := idPool[o.ID]
	t := h.tasks[id]
	switch o.K {
	case "sched":
		sp := specPool[o.Spec]
		s, aligned, err := scheduler.NewSchedule(sp.Cron, h.now.Add(-time.Duration(backPool[o.Back])*sp.Period))
		if err != nil {
			return &failure{key: "harness-spec", detail: err.Error()}
		}
		last := aligned
		if o.Raw {
			last = h.now.Truncate(time.Second).Add(-time.Duration(backPool[o.Back]) * sp.Period)
		}
		sd := sched{id: id, s: s, off: offsetPool[o.Off], last: last}
		if o.Mid {
			h.alsoDue = &mtask{active: true, s: s, off: sd.off, last: last}
		}
		apply := func() {
			h.noteStale(id, t)
			delete(h.zombie, id)
			n := h.entered(id)
			if n < len(t.exp) {
				h.st.releaseDue = true
				h.class("sched:replaces-task-with-unstarted-due-runs")
				t.exp = t.exp[:n]
			}
			if t.active {
				h.class("sched:re-schedule")
			} else {
				h.class("sched:new")
			}
			t.active, t.s, t.off, t.last, t.period = true, s, offsetPool[o.Off], last, sp.Period
			added := t.extend(h.now)
			switch {
			case added == 0:
				h.class("sched:not-yet-due")
			case added == 1:
				h.class("sched:one-run-due")
			default:
				h.class("sched:catch-up-several-runs")
				h.st.multiDue = true
			}
			h.w.mu.Lock()
			h.w.behav[id] = o.Behav
			h.w.mu.Unlock()
			h.allowance()
			h.publish()
			periods := map[time.Duration]bool{}
			for _, x := range h.tasks {
				if x.active {
					periods[x.period] = true
				}
			}
			if len(periods) >= 2 {
				h.st.twoPeriods = true
			}
		}
		err, mf := h.inFlight(o, apply, func() error { return h.sch.Schedule(sd) })
		h.alsoDue = nil
		if mf != nil {
			return mf
		}
		if h.cut {
			return nil
		}
		if err != nil {
			return &failure{key: "schedule-error", detail: fmt.Sprintf("Schedule(%s) failed: %v", o, err)}
		}
		// a mock timer that is reset to "now" only fires on the next clock movement
		if f := h.moveClock(h.now); f != nil {
			return f
		}

	case "release":
		apply := func() {
			if t.active {
				h.noteStale(id, t)
				h.class("release:scheduled-task")
			} else {
				h.class("release:unknown-task")
			}
			t.active = false
			h.allowance()
		}
		err, mf := h.inFlight(o, apply, func() error { return h.sch.Release(id) })
		if mf != nil {
			return mf
		}
		if h.cut {
			return nil
		}
		if err != nil {
			return &failure{key: "release-error", detail: fmt.Sprintf("Release(%d) failed: %v", id, err)}
		}
		// Release has returned: whatever has not started by now must never start
		if n := h.entered(id); n < len(t.exp) {
			h.st.releaseDue = true
			h.class("release:with-unstarted-due-runs")
			t.exp = t.exp[:n]
		}
		h.publish()

	case "advance":
		if f := h.doAdvance(o); f != nil {
			return f
		}

	case "close":
		h.w.closeGate(id)
		h.class("gate:close")

	case "open":
		h.w.openGates()
		h.class("gate:open")
	}

	full, f := h.sync()
	if f != nil {
		return f
	}
	if f := h.checkSpin(); f != nil {
		return f
	}
	if full {
		h.class("state:quiet")
		return h.checkWhen()
	}
	h.class("state:executor-blocked")
	return nil
}

// runHistory executes a whole history on a fresh scheduler, ending with all gates open.
func runHistory(cfg config, ops []op) (*stats, *failure, int) {
	h, err := newHist(cfg)
	if err != nil {
		return nil, &failure{key: "harness-new-scheduler", detail: err.Error()}, -1
	}
	defer h.close()
	for i, o := range ops {
		f := h.step(o)
		if debugTrace {
			m, _ := h.trueMin()
			fmt.Printf("  op %d %-70s now=%s When=%s trueMin=%s stale=%v fail=%v\n", i, o, ts(h.now), ts(h.sch.When()), ts(m), len(h.stale), f)
		}
		if f != nil {
			return &h.st, f, i
		}
		if h.cut {
			return &h.st, nil, i
		}
	}
	if f := h.step(op{K: "open"}); f != nil {
		return &h.st, f, len(ops)
	}
	// a last look after a short pause: nothing may start that the model does not know
	if err := h.setClock(h.now, time.Second); err == nil {
		time.Sleep(2 * time.Millisecond)
	}
	h.w.mu.Lock()
	f := h.safetyLocked()
	h.w.mu.Unlock()
	return &h.st, f, len(ops)
}

func canon(cfg config, ops []op) string {
	var b strings.Builder
	fmt.Fprintf(&b, "w=%d base=%d.%03d;", cfg.Workers, cfg.BaseSec, cfg.BaseMs)
	for _, o := range ops {
		b.WriteString(o.String())
		b.WriteByte(';')
	}
	return b.String()
}

func sortedKeys(m map[string]int) []string {
	ks := make([]string, 0, len(m))
	for k := range m {
		ks = append(ks, k)
	}
	sort.Strings(ks)
	return ks
}
