package c24_scheduler

import (
	"testing"

	"verifharness/internal/ev"
)

func TestMain(m *testing.M) { ev.Main(m) }
