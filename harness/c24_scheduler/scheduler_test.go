// C24 — The task scheduler dispatches each due run once, in order, and stops on release.
//
// TestPropSchedulerHistories (mock clock): a generated history of schedule / release / advance /
// close-gate / open-gates operations is applied to scheduler.NewScheduler(executor, checkpointer,
// WithTime(clock.NewMock()), WithMaxConcurrentWorkers(1|2|4)). The harness executor records every
// call and can be made slow per task (it waits at a gate). A model derives, per task, the list of
// scheduled times that have come due (Schedule.Next iterated from LastScheduled, due when
// next+offset <= clock). Oracle: per task the started runs are a prefix of that list at any time
// (no duplicate, no reordering, no run before its time, runAt = scheduledFor+offset, never two
// runs of one task at once, UpdateLastScheduled gets the same times), nothing starts after
// Release returned, and whenever no executor is blocked the started runs EQUAL the list (bounded
// wait on the predicted count) and When() reports the earliest pending due time. Main-loop
// wake-ups are counted through the verif hook "scheduler.loop".
// Release / Schedule calls may carry a "mid-call advance": the scheduler's call counters
// (SchedulerMetrics.releaseCalls / scheduleCalls) are wrapped so that the harness regains control
// inside the call, moves the clock and lets the main loop dispatch and re-queue what is due —
// including the task being released / replaced — before the call reaches its critical section.
// The model treats this as [advance; call]; afterwards nothing of a released task may start.
//
// TestPropNoSpinRealClock (real clock): a few tasks, the earliest one 150-300 ms away, the others
// >= 1 minute away; the earliest is kept / released / re-scheduled; the main loop may wake up only
// a handful of times during the following ~0.5 s.
package c24_scheduler

import (
	"fmt"
	"sync"
	"sync/atomic"
	"testing"
	"time"

	"github.com/benbjohnson/clock"
	"github.com/influxdata/influxdb/v2/pkg/verifhook"
	"github.com/influxdata/influxdb/v2/task/backend/scheduler"
	"pgregory.net/rapid"

	"verifharness/internal/ev"
)

var rec = ev.For("C24", "exploration",
	"case = (workers, start time, history of schedule/release/advance/close-gate/open-gates operations) on a TreeScheduler with a mock clock; non-trivial = at some point >= 2 tasks with different periods are scheduled, one advance (or catch-up schedule) makes >= 2 runs of one task due at once, and a task is released or re-scheduled while it still has due runs that have not started (slow executor); Release/Schedule calls optionally overlap a clock advance that dispatches tasks while the call is in flight; distinct by the canonical rendering of configuration and operations. Real-clock sub-test: case = (near task(s), far tasks, what happens to them); non-trivial = a near task is released or re-scheduled before it is due")

func genSched(t *rapid.T, id int) op {
	return op{K: "sched", ID: id,
		Spec:  rapid.IntRange(0, len(specPool)-1).Draw(t, "spec"),
		Off:   rapid.SampledFrom([]int{0, 0, 1, 2}).Draw(t, "off"),
		Back:  rapid.IntRange(0, len(backPool)-1).Draw(t, "back"),
		Raw:   rapid.Bool().Draw(t, "raw"),
		Behav: rapid.SampledFrom([]int{0, 0, 0, 0, 1, 2}).Draw(t, "behav"),
	}
}

var advancePool = []time.Duration{time.Millisecond, 20 * time.Millisecond, 500 * time.Millisecond, time.Second, 2 * time.Second,
	7 * time.Second, 30 * time.Second, time.Minute, 5 * time.Minute, 17 * time.Minute, time.Hour, 3 * time.Hour}

func genAdvance(t *rapid.T, id int) op {
	o := op{K: "advance", ID: id, D: int64(rapid.SampledFrom(advancePool).Draw(t, "d"))}
	if rapid.IntRange(0, 2).Draw(t, "byPeriods") == 0 {
		o.Periods = rapid.IntRange(1, 5).Draw(t, "periods")
	}
	return o
}

// withMid lets the clock advance while the Release / Schedule call o is in flight.
func withMid(t *rapid.T, o op) op {
	o.Mid = true
	o.D = int64(rapid.SampledFrom(advancePool[:8]).Draw(t, "midD"))
	if rapid.IntRange(0, 2).Draw(t, "midByPeriods") > 0 {
		o.Periods = rapid.IntRange(1, 3).Draw(t, "midPeriods")
	}
	return o
}

func genOps(t *rapid.T) []op {
	n := rapid.IntRange(4, 20).Draw(t, "n")
	var ops []op
	drawID := func() int { return rapid.IntRange(0, len(idPool)-1).Draw(t, "id") }
	ops = append(ops, genSched(t, drawID()))
	for len(ops) < n {
		kind := rapid.SampledFrom([]string{"sched", "sched", "sched", "sched", "advance", "advance", "advance", "advance", "advance",
			"release", "release", "close", "open", "burst", "burst", "overlap"}).Draw(t, "kind")
		switch kind {
		case "sched":
			o := genSched(t, drawID())
			if rapid.IntRange(0, 5).Draw(t, "schedMid") == 0 {
				o = withMid(t, o)
			}
			ops = append(ops, o)
		case "advance":
			ops = append(ops, genAdvance(t, drawID()))
		case "release":
			o := op{K: kind, ID: drawID()}
			if rapid.IntRange(0, 2).Draw(t, "releaseMid") == 0 {
				o = withMid(t, o)
			}
			ops = append(ops, o)
		case "close":
			ops = append(ops, op{K: kind, ID: drawID()})
		case "overlap":
			// a task's run comes due and is dispatched while a Release (or a replacing Schedule) of
			// that very task is in flight; afterwards the clock passes the following due times
			id := drawID()
			s := genSched(t, id)
			s.Back = rapid.IntRange(0, 1).Draw(t, "overlapBack")
			ops = append(ops, s)
			p := specPool[s.Spec].Period
			var call op
			if rapid.IntRange(0, 3).Draw(t, "overlapCall") == 0 {
				call = genSched(t, id)
			} else {
				call = op{K: "release", ID: id}
			}
			call.Mid = true
			call.Periods = rapid.IntRange(1, 3).Draw(t, "overlapPeriods")
			call.D = int64(p)
			ops = append(ops, call)
			ops = append(ops, op{K: "advance", ID: id, D: int64(time.Duration(rapid.IntRange(1, 3).Draw(t, "overlapAfterPeriods"))*p + offsetPool[s.Off])})
		case "open":
			ops = append(ops, op{K: "open"})
		case "burst":
			// a slow executor while several runs of its task come due, then something happens to
			// that task (or to a neighbour) before the executor is let go
			id := drawID()
			if rapid.Bool().Draw(t, "burstSched") {
				s := genSched(t, id)
				s.Back = rapid.IntRange(0, 2).Draw(t, "burstBack")
				ops = append(ops, s)
			}
			ops = append(ops, op{K: "close", ID: id},
				op{K: "advance", ID: id, D: int64(7 * time.Second), Periods: rapid.IntRange(2, 4).Draw(t, "burstPeriods")})
			switch rapid.SampledFrom([]string{"release", "release", "resched", "release-other", "advance", "nothing"}).Draw(t, "burstThen") {
			case "release":
				ops = append(ops, op{K: "release", ID: id})
			case "resched":
				ops = append(ops, genSched(t, id))
			case "release-other":
				ops = append(ops, op{K: "release", ID: drawID()})
			case "advance":
				ops = append(ops, genAdvance(t, id))
			}
			ops = append(ops, op{K: "open"})
		}
	}
	return ops
}

func TestPropSchedulerHistories(t *testing.T) {
	rec.Assume("the mock clock is moved while holding the scheduler's mutex (as the scheduler's own tests do) and never while an undelivered timer tick is pending; a clock movement is therefore atomic for the main loop")
	rec.Assume("scheduled times are derived with the same cron library (Schedule.Next iterated from LastScheduled); the cron library itself is trusted")
	rec.Assume("while an executor is blocked the harness only asserts the prefix property; the id->worker hash is mirrored solely to know what to wait for")
	rec.Assume("a run that does not start within 3s of real time is re-checked by replaying the history twice; only a reproducible miss is a violation")
	rec.Check(t, 400, 4000, func(t *rapid.T) {
		cfg := config{
			Workers: rapid.SampledFrom([]int{1, 2, 4}).Draw(t, "workers"),
			BaseSec: rapid.Int64Range(0, 7200).Draw(t, "baseSec"),
			BaseMs:  rapid.SampledFrom([]int{0, 0, 1, 250, 999}).Draw(t, "baseMs"),
		}
		ops := genOps(t)
		st, f, at := runHistory(cfg, ops)
		if st != nil && st.classes["mid:in-flight-call-already-effective-history-cut"] > 0 {
			rec.Class("history:cut-at-in-flight-call")
		}
		caseJSON := map[string]any{"config": cfg, "ops": ops}
		if f != nil && f.timing {
			// decided by a real-time wait: confirm by replaying the same history twice
			_, f2, _ := runHistory(cfg, ops)
			_, f3, _ := runHistory(cfg, ops)
			if f2 == nil || f3 == nil || f2.key != f.key || f3.key != f.key {
				rec.Inconclusive(fmt.Sprintf("TestPropSchedulerHistories: %s at op %d did not reproduce in 2 replays (%s)", f.key, at, f.detail))
				rec.Class("history:timing-failure-not-reproduced")
				return
			}
		}
		if f != nil {
			if len(f.key) > 8 && f.key[:8] == "harness-" {
				t.Fatalf("harness defect: %s: %s", f.key, f.detail)
			}
			opDesc := "final check"
			if at >= 0 && at < len(ops) {
				opDesc = ops[at].String()
			}
			rec.Fail(t, "TestPropSchedulerHistories", f.key, fmt.Sprintf("at op %d (%s): %s", at, opDesc, f.detail), caseJSON)
		}
		rec.Eval()
		for _, c := range sortedKeys(st.classes) {
			rec.ClassN(c, st.classes[c])
		}
		rec.ClassN("runs-dispatched", st.runs)
		rec.ClassN("loop-wakeups", st.wakeups)
		rec.ClassN("when-checks", st.whenChecks)
		rec.ClassN("when-lagging-on-future-stale-time", st.staleAllowed)
		rec.Class(fmt.Sprintf("workers:%d", cfg.Workers))
		if st.stopTimeout {
			rec.Class("teardown:stop-timeout")
		}
		if st.knownStale || st.knownSpin {
			rec.ExcludedKnown(keyNegReset)
			if st.knownStale {
				rec.Class("history:known-stale-when-tolerated")
			}
			if st.knownSpin {
				rec.Class("history:known-repeated-wakeups-tolerated")
			}
		}
		if st.twoPeriods {
			rec.Class("history:two-periods")
		}
		if st.multiDue {
			rec.Class("history:several-runs-due-at-once")
		}
		if st.releaseDue {
			rec.Class("history:release-with-unstarted-due-runs")
		}
		if st.midDispatch {
			rec.Class("history:dispatch-while-release-or-schedule-of-that-task-in-flight")
		}
		if st.midZombie {
			rec.Class("history:clock-passes-next-due-time-of-task-released-during-dispatch")
		}
		if st.twoPeriods && st.multiDue && st.releaseDue {
			rec.NonTrivial(canon(cfg, ops))
			rec.Class("history:non-trivial")
		}
		if rec.WantSample() && st.twoPeriods && st.multiDue {
			rec.Sample(caseJSON)
		}
	})
}

// ---------------------------------------------------------------------------------------------
// real clock: the loop must sleep while nothing is due

type rcCase struct {
	Workers  int    `json:"workers"`
	NearMs   int    `json:"near_ms"`  // the head task's first run is due this many ms after the start
	Near2Ms  int    `json:"near2_ms"` // 0 = no second near task; otherwise its due time (later than the head's)
	Far      []int  `json:"far"`      // indexes into farSpecs
	HeadAct  string `json:"head"`     // keep | release | resched-far | resched-nearer
	Near2Act string `json:"near2"`    // keep | release
	Order    int    `json:"order"`    // 0: schedule head first, 1: far tasks first
}

var farSpecs = []string{"@every 1m", "@every 1h", "@every 10m"}

type rcResult struct {
	wakeups   int64
	runs      int
	ops       int
	disturbed bool // the harness itself was descheduled for so long that the case lost its shape
}

// spinCap: once the loop has woken up this often the verdict is clear; the hook then parks the
// loop goroutine so that a busy loop does not burn a core for the rest of the observation.
const spinCap = 20000

func runRealClock(c rcCase, observe time.Duration) (rcResult, error) {
	var res rcResult
	w := newWorld()
	var wake atomic.Int64
	park := make(chan struct{})
	var once sync.Once
	verifhook.Set(func(name, detail string) {
		if name != "scheduler.loop" {
			return
		}
		if wake.Add(1) >= spinCap {
			<-park
		}
	})
	defer verifhook.Set(nil)
	s, _, err := scheduler.NewScheduler(w, w, scheduler.WithMaxConcurrentWorkers(c.Workers))
	if err != nil {
		return res, err
	}
	defer func() {
		once.Do(func() { close(park) })
		done := make(chan struct{})
		go func() { s.Stop(); close(done) }()
		select {
		case <-done:
		case <-time.After(5 * time.Second):
		}
	}()
	every1s, _, err := scheduler.NewSchedule("@every 1s", time.Now())
	if err != nil {
		return res, err
	}
	t0 := time.Now()
	near := func(id scheduler.ID, ms int) sched {
		// first run due at t0+ms: LastScheduled = t0+ms-1s
		return sched{id: id, s: every1s, last: t0.Add(time.Duration(ms)*time.Millisecond - time.Second)}
	}
	var todo []sched
	todo = append(todo, near(1, c.NearMs))
	if c.Near2Ms > 0 {
		todo = append(todo, near(2, c.Near2Ms))
	}
	var fars []sched
	for i, fi := range c.Far {
		fs, last, err := scheduler.NewSchedule(farSpecs[fi], t0)
		if err != nil {
			return res, err
		}
		fars = append(fars, sched{id: scheduler.ID(10 + i), s: fs, last: last})
	}
	if c.Order == 1 {
		todo = append(fars, todo...)
	} else {
		todo = append(todo, fars...)
	}
	for _, x := range todo {
		if err := s.Schedule(x); err != nil {
			return res, err
		}
		res.ops++
	}
	switch c.HeadAct {
	case "release":
		_ = s.Release(1)
		res.ops++
	case "resched-far":
		fs, last, _ := scheduler.NewSchedule("@every 1h", t0)
		_ = s.Schedule(sched{id: 1, s: fs, last: last})
		res.ops++
	case "resched-nearer":
		_ = s.Schedule(near(1, c.NearMs/2))
		res.ops++
	}
	if c.Near2Ms > 0 && c.Near2Act == "release" {
		_ = s.Release(2)
		res.ops++
	}
	if time.Since(t0) > 40*time.Millisecond {
		res.disturbed = true
		return res, nil
	}
	last := c.NearMs
	if c.Near2Ms > last {
		last = c.Near2Ms
	}
	time.Sleep(time.Until(t0.Add(time.Duration(last)*time.Millisecond + observe)))
	res.wakeups = wake.Load()
	w.mu.Lock()
	for _, r := range w.runs {
		res.runs += len(r)
	}
	w.mu.Unlock()
	return res, nil
}

// staleArm reports whether the case arms the timer for an instant at which the queue is not empty
// and its head is not yet due — the exact precondition of the known finding: the head is released
// or moved to a later time while other tasks stay scheduled.
func (c rcCase) staleArm() bool {
	othersRemain := len(c.Far) > 0 || (c.Near2Ms > 0 && c.Near2Act != "release")
	if c.HeadAct == "release" && othersRemain {
		return true
	}
	if c.HeadAct == "resched-far" { // the task itself stays in the queue with a later time
		return true
	}
	// the second near task becomes the head after the first one has run; releasing it beforehand
	// is harmless (the loop re-arms from the queue after each dispatch)
	return false
}

func TestPropNoSpinRealClock(t *testing.T) {
	rec.Assume("real-clock sub-test: wake-ups of the main loop are counted by the verif hook during near-due-time + 300ms; the bound is runs + operations + 10 wake-ups; a case in which the harness itself was descheduled for > 40ms before the observation started is skipped")
	const observe = 300 * time.Millisecond
	skipped := 0
	rec.Check(t, 24, 120, func(t *rapid.T) {
		c := rcCase{
			Workers:  rapid.SampledFrom([]int{1, 2, 4}).Draw(t, "workers"),
			NearMs:   rapid.IntRange(150, 260).Draw(t, "nearMs"),
			HeadAct:  rapid.SampledFrom([]string{"keep", "release", "release", "resched-far", "resched-nearer"}).Draw(t, "head"),
			Near2Act: rapid.SampledFrom([]string{"keep", "release"}).Draw(t, "near2"),
			Order:    rapid.IntRange(0, 1).Draw(t, "order"),
		}
		if rapid.Bool().Draw(t, "hasNear2") {
			c.Near2Ms = c.NearMs + rapid.IntRange(30, 120).Draw(t, "near2Delta")
		}
		nFar := rapid.IntRange(0, 2).Draw(t, "nFar")
		for i := 0; i < nFar; i++ {
			c.Far = append(c.Far, rapid.IntRange(0, len(farSpecs)-1).Draw(t, "far"))
		}
		rec.Class("realclock:head-" + c.HeadAct)
		if c.staleArm() && ev.KnownOpen("C24", keyNegReset) {
			rec.ExcludedKnown(keyNegReset)
			rec.Class("realclock:excluded-known-stale-arm")
			return
		}
		var r rcResult
		fails := 0
		for attempt := 0; attempt < 3; attempt++ {
			var err error
			r, err = runRealClock(c, observe)
			if err != nil {
				t.Fatalf("harness: %v", err)
			}
			if r.disturbed {
				break
			}
			if r.wakeups <= int64(r.runs+r.ops+10) {
				break
			}
			fails++
		}
		if r.disturbed {
			skipped++
			rec.Class("realclock:skipped-harness-descheduled")
			if skipped > 6 {
				rec.Inconclusive("TestPropNoSpinRealClock: the machine was too busy for more than 6 real-clock cases")
			}
			return
		}
		rec.Eval()
		if c.HeadAct != "keep" || (c.Near2Ms > 0 && c.Near2Act == "release") {
			rec.NonTrivial(fmt.Sprintf("rc:%+v", c))
		}
		switch {
		case fails == 3:
			rec.Fail(t, "TestPropNoSpinRealClock", "busy-loop-while-nothing-due",
				fmt.Sprintf("the main loop woke up %d times (capped at %d) within %dms although only %d runs were due and %d operations were issued", r.wakeups, spinCap, c.NearMs+int(observe/time.Millisecond), r.runs, r.ops), c)
		case fails > 0:
			rec.Inconclusive(fmt.Sprintf("TestPropNoSpinRealClock: %d of 3 attempts of %+v showed excess wake-ups", fails, c))
		}
		if rec.WantSample() {
			rec.Sample(map[string]any{"realclock": c, "wakeups": r.wakeups, "runs": r.runs})
		}
	})
}

// ---------------------------------------------------------------------------------------------
// known finding

// TestKnown_negative_timer_reset_busy_loop: A (first run in 10s) and B (@every 1h) are scheduled,
// A is released. When A's timer fires the loop finds B at the head, not yet due, and executes
// s.timer.Reset(ts.Sub(it.When())) — now-when, a NEGATIVE duration. Mock clock: When() keeps
// reporting A's time after it has passed and every further clock movement wakes the loop again.
// Real clock: the timer fires immediately again and again — a busy loop until B is due.
func TestKnown_negative_timer_reset_busy_loop(t *testing.T) {
	// --- mock clock, deterministic
	cfg := config{Workers: 2}
	h, err := newHist(cfg)
	if err != nil {
		t.Fatal(err)
	}
	h.syncTO = 3 * time.Second
	every10s, _, _ := scheduler.NewSchedule("@every 10s", h.now)
	every1h, _, _ := scheduler.NewSchedule("@every 1h", h.now)
	_ = h.sch.Schedule(sched{id: 1, s: every10s, last: h.now})
	_ = h.sch.Schedule(sched{id: 2, s: every1h, last: h.now})
	aWhen, bWhen := h.now.Add(10*time.Second), h.now.Add(time.Hour)
	_ = h.sch.Release(1)
	// model: only B is scheduled (so that the hook classifies wake-ups); one wake-up is the
	// legitimate consequence of not re-arming on Release
	h.tasks[2] = &mtask{active: true, s: every1h, last: h.now, period: time.Hour}
	h.publish()
	var whens []string
	for i := 0; i < 4; i++ {
		h.now = h.now.Add(10 * time.Second)
		if err := h.setClock(h.now, 2*time.Second); err != nil {
			t.Fatalf("harness: %v", err)
		}
		time.Sleep(5 * time.Millisecond) // let the loop handle the tick
		whens = append(whens, ts(h.sch.When()))
	}
	got := h.sch.When()
	h.w.mu.Lock()
	wake := h.w.wakeups
	h.w.mu.Unlock()
	h.close()
	mockStale := got.Equal(aWhen) && !got.Equal(bWhen)
	mockRepeated := wake >= 3

	// --- real clock
	c := rcCase{Workers: 2, NearMs: 150, Far: []int{1}, HeadAct: "release"}
	var r rcResult
	for attempt := 0; attempt < 3; attempt++ {
		r, err = runRealClock(c, 250*time.Millisecond)
		if err != nil {
			t.Fatal(err)
		}
		if !r.disturbed {
			break
		}
	}
	realSpin := !r.disturbed && r.wakeups > 1000

	rec.Known(t, "TestKnown_negative_timer_reset_busy_loop", keyNegReset, mockStale || mockRepeated || realSpin,
		fmt.Sprintf("Schedule(A first run +10s), Schedule(B @every 1h), Release(A): mock clock moved 4x10s -> When() = %v (A's released time %s, B is due %s), %d main-loop wake-ups with nothing due; real clock (A due in 150ms, released): %d main-loop wake-ups within 400ms (counting stops at %d), %d runs",
			whens, ts(aWhen), ts(bWhen), wake, r.wakeups, spinCap, r.runs),
		map[string]any{"mock": "schedule A(@every 10s) B(@every 1h); release A; set clock +10s x4", "realclock": c})
	_ = clock.New
}
