package c24_scheduler

import (
	"context"
	"encoding/binary"
	"errors"
	"fmt"
	"reflect"
	"sync"
	"time"
	"unsafe"

	"github.com/cespare/xxhash/v2"
	"github.com/influxdata/influxdb/v2/task/backend/scheduler"
	"github.com/prometheus/client_golang/prometheus"
)

// ---------------------------------------------------------------------------------------------
// world: the harness side of one scheduler instance — the Executor and the SchedulableService the
// scheduler calls, the gates that make an executor slow, and the counters the main-loop hook
// ("scheduler.loop") maintains. Everything is guarded by mu; every event pokes notify.

type runRec struct {
	For   time.Time // scheduledFor
	RunAt time.Time
}

type world struct {
	mu     sync.Mutex
	notify chan struct{}

	runs     map[scheduler.ID][]runRec      // executions that entered Execute, in entry order
	exits    map[scheduler.ID]int           // executions that returned
	ckpt     map[scheduler.ID][]time.Time   // UpdateLastScheduled calls
	inside   map[scheduler.ID]bool          // an execution of id is between entry and return
	blocked  map[scheduler.ID]bool          // ... and it waits at its gate
	gate     map[scheduler.ID]chan struct{} // non-nil: the gate of id is closed
	behav    map[scheduler.ID]int           // 0 return nil, 1 return an error, 2 panic
	overlaps []string                       // executions of one id that overlapped
	dead     bool                           // teardown: gates no longer block

	// main-loop accounting (hook)
	expLen    map[scheduler.ID]int // number of runs the model expects to have entered by now
	active    int                  // number of tasks the model holds as scheduled
	wakeups   int
	spurious  int // wake-ups with a non-empty queue and nothing due
	allowance int // spurious wake-ups that a Schedule/Release may legitimately leave behind
	excess    int // spurious wake-ups beyond the allowance

	// mid-call schedule point (see midCounter)
	midMu sync.Mutex
	mid   func()
}

// armMid installs (or, with nil, removes) the one-shot action that runs the next time Release or
// Schedule reaches its call-counting metric.
func (w *world) armMid(fn func()) {
	w.midMu.Lock()
	w.mid = fn
	w.midMu.Unlock()
}

func (w *world) fireMid() {
	w.midMu.Lock()
	fn := w.mid
	w.mid = nil
	w.midMu.Unlock()
	if fn != nil {
		fn()
	}
}

// midCounter wraps the scheduler's "release calls" / "schedule calls" counters. Release and
// Schedule bump these on the caller's goroutine while the call is in flight, so the harness gets
// a point INSIDE Release / Schedule at which it can let the clock reach a due time: the main loop
// then dispatches (and re-queues) tasks while that Release / Schedule is half done. The scheduler
// is a concurrent object (task service calls vs. the timer loop); this makes one such overlap
// reproducible instead of hoping for it.
type midCounter struct {
	prometheus.Counter
	w *world
}

func (c *midCounter) Inc() {
	c.Counter.Inc()
	c.w.fireMid()
}

// hookMetrics replaces the two counters inside *SchedulerMetrics (unexported fields; same
// reflect/unsafe technique as peek). It returns how many counters could be wrapped.
func hookMetrics(sm *scheduler.SchedulerMetrics, w *world) int {
	n := 0
	if sm == nil {
		return 0
	}
	v := reflect.ValueOf(sm).Elem()
	ct := reflect.TypeOf((*prometheus.Counter)(nil)).Elem()
	for _, name := range []string{"releaseCalls", "scheduleCalls"} {
		f := v.FieldByName(name)
		if !f.IsValid() || f.Type() != ct || f.IsNil() {
			continue
		}
		p := (*prometheus.Counter)(unsafe.Pointer(f.UnsafeAddr()))
		*p = &midCounter{Counter: *p, w: w}
		n++
	}
	return n
}

func newWorld() *world {
	return &world{
		notify: make(chan struct{}, 1),
		runs:   map[scheduler.ID][]runRec{}, exits: map[scheduler.ID]int{}, ckpt: map[scheduler.ID][]time.Time{},
		inside: map[scheduler.ID]bool{}, blocked: map[scheduler.ID]bool{}, gate: map[scheduler.ID]chan struct{}{},
		behav: map[scheduler.ID]int{}, expLen: map[scheduler.ID]int{},
	}
}

func (w *world) poke() {
	select {
	case w.notify <- struct{}{}:
	default:
	}
}

var errExec = errors.New("executor failed (harness)")

// Execute implements scheduler.Executor.
func (w *world) Execute(ctx context.Context, id scheduler.ID, scheduledFor time.Time, runAt time.Time) error {
	w.mu.Lock()
	if w.inside[id] {
		w.overlaps = append(w.overlaps, fmt.Sprintf("task %d: run for %s started while the run for %s was still executing",
			id, scheduledFor.UTC().Format(time.RFC3339), w.runs[id][len(w.runs[id])-1].For.UTC().Format(time.RFC3339)))
	}
	w.inside[id] = true
	w.runs[id] = append(w.runs[id], runRec{For: scheduledFor, RunAt: runAt})
	g := w.gate[id]
	if g != nil && !w.dead {
		w.blocked[id] = true
	} else {
		g = nil
	}
	b := w.behav[id]
	w.mu.Unlock()
	w.poke()
	if g != nil {
		<-g
	}
	w.mu.Lock()
	w.blocked[id] = false
	w.inside[id] = false
	w.exits[id]++
	w.mu.Unlock()
	w.poke()
	switch b {
	case 1:
		return errExec
	case 2:
		panic("executor panic (harness)")
	}
	return nil
}

// UpdateLastScheduled implements scheduler.SchedulableService.
func (w *world) UpdateLastScheduled(ctx context.Context, id scheduler.ID, t time.Time) error {
	w.mu.Lock()
	w.ckpt[id] = append(w.ckpt[id], t)
	w.mu.Unlock()
	w.poke()
	return nil
}

func (w *world) closeGate(id scheduler.ID) {
	w.mu.Lock()
	if w.gate[id] == nil {
		w.gate[id] = make(chan struct{})
	}
	w.mu.Unlock()
}

func (w *world) openGates() {
	w.mu.Lock()
	for id, g := range w.gate {
		if g != nil {
			close(g)
			w.gate[id] = nil
			// the waiting execution (if any) is released as of now; it clears the flag itself
			// too, but only once its goroutine runs again
			w.blocked[id] = false
		}
	}
	w.mu.Unlock()
}

// onLoop is the "scheduler.loop" hook: it runs on the scheduler's main-loop goroutine each time the
// loop is woken by its timer, before the loop looks at its queue.
func (w *world) onLoop() {
	w.mu.Lock()
	w.wakeups++
	due := false
	for id, n := range w.expLen {
		if len(w.runs[id]) < n {
			due = true
			break
		}
	}
	if !due && w.active > 0 {
		w.spurious++
		if w.allowance > 0 {
			w.allowance--
		} else {
			w.excess++
		}
	}
	w.mu.Unlock()
}

// ---------------------------------------------------------------------------------------------
// access to two unexported fields of TreeScheduler, needed to drive the mock clock the way the
// scheduler's own tests do (scheduler_test.go: `sch.mu.Lock(); mockTime.Set(...); sch.mu.Unlock()`):
// benbjohnson/clock's mock delivers timer ticks from inside Set/Add and changes Now() in steps, so
// a Set that races with the main loop makes the loop read two different "now"s in one pass, and a
// tick delivered while an earlier tick is still unconsumed blocks inside the mock forever.

type internals struct {
	mu     *sync.RWMutex
	timerC reflect.Value // the mock timer's buffered channel (capacity 1)
}

func peek(s *scheduler.TreeScheduler) internals {
	v := reflect.ValueOf(s).Elem()
	mu := (*sync.RWMutex)(unsafe.Pointer(v.FieldByName("mu").UnsafeAddr()))
	c := v.FieldByName("timer").Elem().FieldByName("c")
	if c.Kind() != reflect.Chan {
		panic("harness: clock.Timer has no channel field c")
	}
	return internals{mu: mu, timerC: c}
}

// workerOf mirrors the id -> worker distribution of TreeScheduler.iterator. It is used only to
// decide what to WAIT for while an executor is blocked (runs of tasks that share the blocked
// worker cannot start); no assertion depends on it.
func workerOf(id scheduler.ID, workers int) int {
	buf := [8]byte{}
	binary.LittleEndian.PutUint64(buf[:], uint64(id))
	return int(xxhash.Sum64(buf[:]) % uint64(workers))
}

// sched is the Schedulable handed to the scheduler.
type sched struct {
	id   scheduler.ID
	s    scheduler.Schedule
	off  time.Duration
	last time.Time
}

func (s sched) ID() scheduler.ID             { return s.id }
func (s sched) Schedule() scheduler.Schedule { return s.s }
func (s sched) Offset() time.Duration        { return s.off }
func (s sched) LastScheduled() time.Time     { return s.last }
