// Package gen holds rapid generators shared by the engine-level harnesses: a small,
// collision-rich domain of series, typed fields and timestamps (incl. extremes).
package gen

import (
	"fmt"
	"math"
	"strings"
	"time"

	"github.com/influxdata/influxdb/v2/models"
	"pgregory.net/rapid"

	"verifharness/internal/model"
)

// SeriesKeys is the series domain (every series carries exactly the tag "host").
var SeriesKeys = []string{"m0,host=a", "m0,host=b", "m1,host=a"}

// Field describes a field of the domain; the name fixes the type so that no type conflicts arise.
type Field struct {
	Name string
	Kind model.Kind
}

// Fields is the field domain.
var Fields = []Field{{"ff", model.Float}, {"fi", model.Integer}, {"fu", model.Unsigned}, {"fb", model.Boolean}, {"fs", model.String}}

// BulkField is a field no generated batch writes: histories that want a key whose only blocks are
// the ones they place deliberately (full blocks, one per file) use it.
var BulkField = Field{"fk", model.Integer}

// FieldKind returns the kind of a domain field.
func FieldKind(name string) model.Kind {
	if name == BulkField.Name {
		return BulkField.Kind
	}
	for _, f := range Fields {
		if f.Name == name {
			return f.Kind
		}
	}
	panic("unknown field " + name)
}

// GridStep spaces the timestamp grid.
const GridStep = 10

// Grid timestamps 0,10,...,(GridN-1)*10 plus extremes.
const GridN = 24

var extremeTs = []int64{models.MinNanoTime, models.MinNanoTime + 1, -1, 1, models.MaxNanoTime - 1, models.MaxNanoTime}

// Ts draws a timestamp: mostly from the grid, sometimes an extreme.
func Ts(t *rapid.T, label string) int64 {
	if rapid.IntRange(0, 11).Draw(t, label+"?x") == 0 {
		return rapid.SampledFrom(extremeTs).Draw(t, label+"x")
	}
	return int64(rapid.IntRange(0, GridN-1).Draw(t, label)) * GridStep
}

// Range draws a closed read/delete range inside [MinNanoTime, MaxNanoTime].
func Range(t *rapid.T, label string) (int64, int64) {
	switch rapid.IntRange(0, 5).Draw(t, label+"kind") {
	case 0:
		return models.MinNanoTime, models.MaxNanoTime
	case 1:
		return models.MinNanoTime, Ts(t, label+"hi")
	case 2:
		return Ts(t, label+"lo"), models.MaxNanoTime
	}
	a := int64(rapid.IntRange(-1, GridN).Draw(t, label+"a"))*GridStep + int64(rapid.IntRange(-1, 1).Draw(t, label+"ja"))
	b := int64(rapid.IntRange(-1, GridN).Draw(t, label+"b"))*GridStep + int64(rapid.IntRange(-1, 1).Draw(t, label+"jb"))
	if a > b {
		a, b = b, a
	}
	return a, b
}

var floatPool = []float64{0, math.Copysign(0, -1), 1, -1, 0.1, math.SmallestNonzeroFloat64, -math.SmallestNonzeroFloat64, math.MaxFloat64, -math.MaxFloat64, 1e-310, 3.141592653589793}
var intPool = []int64{0, 1, -1, math.MinInt64, math.MaxInt64, 1 << 40, -(1 << 40)}
var uintPool = []uint64{0, 1, math.MaxUint64, 1 << 63, 1<<63 - 1}
var stringPool = []string{"", "a", "hello world", "quote\"back\\slash", "new\nline", "ünïcödé", strings.Repeat("x", 300)}

// Value draws a value of the given kind; seq makes successive values distinct so that a stale
// read is distinguishable from the current value.
func Value(t *rapid.T, label string, k model.Kind, seq int) model.Val {
	pool := rapid.IntRange(0, 3).Draw(t, label+"?p") == 0
	switch k {
	case model.Float:
		if pool {
			return model.Val{K: k, F: rapid.SampledFrom(floatPool).Draw(t, label+"p")}
		}
		return model.Val{K: k, F: float64(seq) + 0.25}
	case model.Integer:
		if pool {
			return model.Val{K: k, I: rapid.SampledFrom(intPool).Draw(t, label+"p")}
		}
		return model.Val{K: k, I: int64(seq)}
	case model.Unsigned:
		if pool {
			return model.Val{K: k, U: rapid.SampledFrom(uintPool).Draw(t, label+"p")}
		}
		return model.Val{K: k, U: uint64(seq)}
	case model.Boolean:
		return model.Val{K: k, B: rapid.Bool().Draw(t, label+"b")}
	default:
		if pool {
			return model.Val{K: k, S: rapid.SampledFrom(stringPool).Draw(t, label+"p")}
		}
		return model.Val{K: k, S: fmt.Sprintf("v%d", seq)}
	}
}

// WPoint is one generated point: series, timestamp, and 1..n typed fields.
type WPoint struct {
	Series string               `json:"series"`
	T      int64                `json:"t"`
	Fields map[string]model.Val `json:"fields"`
}

// ToModelsPoint converts to a models.Point.
func (p WPoint) ToModelsPoint() (models.Point, error) {
	name, tags := models.ParseKeyBytes([]byte(p.Series))
	fs := models.Fields{}
	for k, v := range p.Fields {
		fs[k] = v.Interface()
	}
	return models.NewPoint(string(name), tags, fs, time.Unix(0, p.T))
}

// Batch draws 1..max points over the domain.
func Batch(t *rapid.T, label string, max int, seq *int) []WPoint {
	n := rapid.IntRange(1, max).Draw(t, label+"n")
	out := make([]WPoint, 0, n)
	for i := 0; i < n; i++ {
		p := WPoint{Series: rapid.SampledFrom(SeriesKeys).Draw(t, fmt.Sprintf("%ss%d", label, i)), T: Ts(t, fmt.Sprintf("%st%d", label, i)), Fields: map[string]model.Val{}}
		nf := rapid.IntRange(1, 3).Draw(t, fmt.Sprintf("%snf%d", label, i))
		for j := 0; j < nf; j++ {
			f := rapid.SampledFrom(Fields).Draw(t, fmt.Sprintf("%sf%d_%d", label, i, j))
			*seq++
			p.Fields[f.Name] = Value(t, fmt.Sprintf("%sv%d_%d", label, i, j), f.Kind, *seq)
		}
		out = append(out, p)
	}
	return out
}

// IntField is a one-field set holding an integer (helper for deterministic reproducers).
func IntField(name string, v int64) map[string]model.Val {
	return map[string]model.Val{name: {K: model.Integer, I: v}}
}
