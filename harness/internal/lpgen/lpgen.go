// Package lpgen is the shared generator of line-protocol points used by the C11 (round-trip)
// and C12 (parser totality / accounting) harness packages.
//
// It contains (1) a model of a point that is independent of influxdb's models package,
// (2) rapid generators for names, tag sets, typed field sets and timestamps over an alphabet
// heavy in the characters that the line protocol treats specially, and (3) an independent
// renderer of the model as line-protocol text, written from the grammar in /repo/tsdb/README.md
// (not from models.point.String): measurement escapes ',' and ' '; tag keys, tag values and field
// keys escape ',', '=' and ' '; string field values are double-quoted with '"' and '\' escaped.
//
// Documented limitations of the text format are excluded BY CONSTRUCTION and COUNTED (Excl):
//
//   - trailing-backslash: a measurement / tag key / tag value / field key that ends in a backslash
//     cannot be written: the backslash escapes the delimiter that follows it (the format has no
//     escape for the backslash itself outside string field values; upstream pins this with
//     TestParsePoint_TrailingSlash and the "backslash is literal" cases of points_test.go).
//   - leading-hash-measurement: a line whose first non-blank byte is '#' is a comment
//     (models.ParsePointsWithPrecision: "lines which start with '#' are comments").
//   - reserved-tag-key: the tag keys time, _field and _measurement are refused by the parser
//     (models: "reserved tag keys which when present cause the point to be discarded and an error returned").
//
// All randomness comes from the *rapid.T that is passed in.
package lpgen

import (
	"fmt"
	"math"
	"sort"
	"strconv"
	"strings"

	"pgregory.net/rapid"
)

const (
	// MinNanoTime / MaxNanoTime: the documented representable range (models/time.go).
	MinNanoTime = int64(math.MinInt64) + 2
	MaxNanoTime = int64(math.MaxInt64) - 1
	// MaxKeyLength: len(series key)+4+len(field key) must not exceed it (models.MaxKeyLength).
	MaxKeyLength = 65535
)

// Precisions are the supported precisions (models.ValidPrecision).
var Precisions = []string{"ns", "us", "ms", "s"}

// Mult returns the number of nanoseconds per unit of the precision.
func Mult(prec string) int64 {
	switch prec {
	case "us":
		return 1e3
	case "ms":
		return 1e6
	case "s":
		return 1e9
	}
	return 1
}

// Tag is one tag pair of the model.
type Tag struct{ K, V string }

// Field is one field of the model; V is float64, int64, uint64, string or bool.
type Field struct {
	K string
	V any
}

// Point is the model point. Tags are sorted by key bytes and unique; Fields sorted by key and unique.
type Point struct {
	Name    string
	Tags    []Tag
	Fields  []Field
	Time    int64 // ns since epoch
	HasTime bool
}

// Excl counts documented limitations that were excluded by construction.
type Excl map[string]int

func (e Excl) add(k string) {
	if e != nil {
		e[k]++
	}
}

var (
	plainAtoms   = []string{"a", "b", "c", "x", "y", "z", "A", "Z", "0", "1", "9", "_", "-", ".", "/", ":", "'", "+", "!", "~", "m", "v", "i", "u", "t", "f", "e", "n", "N"}
	specialAtoms = []string{",", "=", " ", "\"", "\\", "#"}
	unicodeAtoms = []string{"\u00e9", "\u00df", "\u03bb", "\u4e2d", "\u20ac", "\U0001F600", "e\u0301", "\u0301", "\u00f1", "\U0001D4B3", "\u00a0", "\u0457"}
)

// Needs reports which kinds of escaping-relevant bytes occur in s.
func NeedsEscape(s string) bool { return strings.ContainsAny(s, ", =\"\\") }

func atom(t *rapid.T, label string) string {
	switch k := rapid.IntRange(0, 9).Draw(t, label+"k"); {
	case k <= 3:
		return rapid.SampledFrom(plainAtoms).Draw(t, label+"p")
	case k <= 7:
		return rapid.SampledFrom(specialAtoms).Draw(t, label+"s")
	default:
		return rapid.SampledFrom(unicodeAtoms).Draw(t, label+"u")
	}
}

// rawToken draws a non-empty string over the alphabet (no newline, no control characters).
func rawToken(t *rapid.T, label string) string {
	n := rapid.IntRange(1, 6).Draw(t, label+"_n")
	if rapid.IntRange(0, 15).Draw(t, label+"_long") == 0 {
		n = rapid.IntRange(7, 24).Draw(t, label+"_n2")
	}
	var sb strings.Builder
	if rapid.IntRange(0, 4).Draw(t, label+"_plain") == 0 {
		for i := 0; i < n; i++ {
			sb.WriteString(rapid.SampledFrom(plainAtoms).Draw(t, fmt.Sprintf("%s_%d", label, i)))
		}
		return sb.String()
	}
	for i := 0; i < n; i++ {
		sb.WriteString(atom(t, fmt.Sprintf("%s_%d", label, i)))
	}
	return sb.String()
}

// Token draws a measurement-, tag- or field-key-like token that is expressible in the text format:
// non-empty and not ending in a backslash (counted exclusion).
func Token(t *rapid.T, label string, ex Excl) string {
	s := rawToken(t, label)
	if strings.HasSuffix(s, "\\") {
		ex.add("trailing-backslash")
		s += rapid.SampledFrom(plainAtoms).Draw(t, label+"_fix")
	}
	return s
}

// Measurement draws a measurement name: a Token that additionally does not start with '#'.
func Measurement(t *rapid.T, label string, ex Excl) string {
	s := Token(t, label, ex)
	if strings.HasPrefix(s, "#") {
		ex.add("leading-hash-measurement")
		s = rapid.SampledFrom(plainAtoms).Draw(t, label+"_fixh") + s
	}
	return s
}

// StringValue draws a string field value: any of the atoms plus newlines; may be empty, may end in
// a backslash (both are expressible inside double quotes).
func StringValue(t *rapid.T, label string) string {
	n := rapid.IntRange(0, 8).Draw(t, label+"_n")
	var sb strings.Builder
	for i := 0; i < n; i++ {
		if rapid.IntRange(0, 9).Draw(t, fmt.Sprintf("%s_nl%d", label, i)) == 0 {
			sb.WriteString("\n")
			continue
		}
		sb.WriteString(atom(t, fmt.Sprintf("%s_%d", label, i)))
	}
	return sb.String()
}

var (
	extremeFloats = []float64{math.MaxFloat64, -math.MaxFloat64, math.SmallestNonzeroFloat64, -math.SmallestNonzeroFloat64,
		math.Copysign(0, -1), 0, 1, -1, 0.1, 1e21, 1e-7, 123456789012345678, 2.2250738585072014e-308, 4.9406564584124654e-324 * 3}
	extremeInts  = []int64{math.MinInt64, math.MaxInt64, 0, -1, 1, 1e18, -1e18, 999999999999999999, -999999999999999999, math.MinInt64 + 1, math.MaxInt64 - 1}
	extremeUints = []uint64{math.MaxUint64, 0, 1, 1 << 63, 9999999999999999999, 10000000000000000000, math.MaxUint64 - 1, math.MaxInt64}
)

// IsExtreme reports whether v is one of the extreme numeric values.
func IsExtreme(v any) bool {
	switch x := v.(type) {
	case float64:
		a := math.Abs(x)
		return a == math.MaxFloat64 || (a != 0 && a < 2.3e-308) || (x == 0 && math.Signbit(x))
	case int64:
		return x == math.MinInt64 || x == math.MaxInt64 || x == math.MinInt64+1 || x == math.MaxInt64-1
	case uint64:
		return x >= math.MaxUint64-1 || x == 1<<63
	}
	return false
}

// Value draws a typed field value.
func Value(t *rapid.T, label string) any {
	ext := rapid.IntRange(0, 3).Draw(t, label+"_ext") == 0
	switch rapid.IntRange(0, 4).Draw(t, label+"_type") {
	case 0:
		if ext {
			return rapid.SampledFrom(extremeFloats).Draw(t, label+"_fx")
		}
		return rapid.Float64().Draw(t, label+"_f")
	case 1:
		if ext {
			return rapid.SampledFrom(extremeInts).Draw(t, label+"_ix")
		}
		return rapid.Int64().Draw(t, label+"_i")
	case 2:
		if ext {
			return rapid.SampledFrom(extremeUints).Draw(t, label+"_ux")
		}
		return rapid.Uint64().Draw(t, label+"_u")
	case 3:
		return StringValue(t, label+"_s")
	default:
		return rapid.Bool().Draw(t, label+"_b")
	}
}

// Time draws a timestamp (ns) in [MinNanoTime, MaxNanoTime] that is a multiple of the precision.
func Time(t *rapid.T, label string, prec string) int64 {
	m := Mult(prec)
	kmin, kmax := MinNanoTime/m, MaxNanoTime/m // truncation toward zero keeps both inside the range
	switch rapid.IntRange(0, 9).Draw(t, label+"_kind") {
	case 0:
		return kmin * m
	case 1:
		return kmax * m
	case 2:
		return rapid.SampledFrom([]int64{0, 1, -1}).Draw(t, label+"_small") * m
	case 3:
		return rapid.Int64Range(-40, 40).Draw(t, label+"_grid") * m
	}
	return rapid.Int64Range(kmin, kmax).Draw(t, label) * m
}

// GenTags draws 0..5 tags with unique keys, sorted by key bytes.
func GenTags(t *rapid.T, label string, ex Excl) []Tag {
	n := rapid.IntRange(0, 5).Draw(t, label+"_n")
	seen := map[string]bool{}
	var out []Tag
	for i := 0; i < n; i++ {
		k := Token(t, fmt.Sprintf("%s_k%d", label, i), ex)
		if k == "time" || k == "_field" || k == "_measurement" {
			// documented: "reserved tag keys which when present cause the point to be discarded"
			ex.add("reserved-tag-key")
			k += "_"
		}
		if seen[k] {
			continue
		}
		seen[k] = true
		out = append(out, Tag{k, Token(t, fmt.Sprintf("%s_v%d", label, i), ex)})
	}
	sort.Slice(out, func(i, j int) bool { return out[i].K < out[j].K })
	return out
}

// GenFields draws 1..6 fields with unique keys, sorted by key bytes.
func GenFields(t *rapid.T, label string, ex Excl) []Field {
	n := rapid.IntRange(1, 6).Draw(t, label+"_n")
	seen := map[string]bool{}
	var out []Field
	for i := 0; i < n; i++ {
		k := Token(t, fmt.Sprintf("%s_k%d", label, i), ex)
		if seen[k] {
			continue
		}
		seen[k] = true
		out = append(out, Field{k, Value(t, fmt.Sprintf("%s_v%d", label, i))})
	}
	sort.Slice(out, func(i, j int) bool { return out[i].K < out[j].K })
	return out
}

// GenPoint draws a point whose timestamp is a multiple of the precision.
func GenPoint(t *rapid.T, label string, prec string, ex Excl) Point {
	return Point{
		Name:    Measurement(t, label+"_m", ex),
		Tags:    GenTags(t, label+"_t", ex),
		Fields:  GenFields(t, label+"_f", ex),
		Time:    Time(t, label+"_ts", prec),
		HasTime: true,
	}
}

// ---- independent renderer -------------------------------------------------------------------

func escapeSet(s, set string) string {
	var sb strings.Builder
	for i := 0; i < len(s); i++ {
		if strings.IndexByte(set, s[i]) >= 0 {
			sb.WriteByte('\\')
		}
		sb.WriteByte(s[i])
	}
	return sb.String()
}

// EscMeasurement escapes ',' and ' '.
func EscMeasurement(s string) string { return escapeSet(s, ", ") }

// EscTag escapes ',', '=' and ' ' (tag keys, tag values, field keys).
func EscTag(s string) string { return escapeSet(s, ",= ") }

// EscFieldKey escapes ',', '=' and ' ' like a tag key. A '"' is not significant in a field key, but
// the parser reads \" in a field key as an escaped quote (pkg/escape), so a quote that follows a
// backslash must be escaped; any other quote is escaped only when escQuote is set.
func EscFieldKey(s string, escQuote bool) string {
	var sb strings.Builder
	for i := 0; i < len(s); i++ {
		c := s[i]
		if c == ',' || c == '=' || c == ' ' || (c == '"' && (escQuote || (i > 0 && s[i-1] == '\\'))) {
			sb.WriteByte('\\')
		}
		sb.WriteByte(c)
	}
	return sb.String()
}

// EscString escapes '"' and '\' (string field values).
func EscString(s string) string { return escapeSet(s, "\"\\") }

// Style fixes the free choices of the text form.
type Style struct {
	TagPerm, FieldPerm []int
	FloatFmt           []byte // per field (in model order): 'f','e','E','g'
	BoolForm           []int  // per field: index into the literal lists
	IntZeros           []int  // per field: number of leading zeros written before an integer / unsigned value
	LooseBackslash     bool   // leave a backslash in a string value unescaped where the format allows
	EscKeyQuote        bool   // write '"' in field keys as \" (as models does) instead of bare
	Sep1, Sep2         int    // spaces between sections (>= 1)
	Trail              int    // spaces after the last section
}

var (
	trueForms  = []string{"true", "t", "T", "TRUE", "True"}
	falseForms = []string{"false", "f", "F", "FALSE", "False"}
)

// PlainStyle is the canonical form: model order, 'f' floats, true/false, single spaces.
func PlainStyle(p Point) Style {
	st := Style{Sep1: 1, Sep2: 1, EscKeyQuote: true}
	for i := range p.Tags {
		st.TagPerm = append(st.TagPerm, i)
	}
	for i := range p.Fields {
		st.FieldPerm = append(st.FieldPerm, i)
		st.FloatFmt = append(st.FloatFmt, 'f')
		st.BoolForm = append(st.BoolForm, 0)
		st.IntZeros = append(st.IntZeros, 0)
	}
	return st
}

func perm(t *rapid.T, label string, n int) []int {
	p := make([]int, n)
	for i := range p {
		p[i] = i
	}
	for i := n - 1; i > 0; i-- {
		j := rapid.IntRange(0, i).Draw(t, fmt.Sprintf("%s_%d", label, i))
		p[i], p[j] = p[j], p[i]
	}
	return p
}

// GenStyle draws the free choices.
func GenStyle(t *rapid.T, label string, p Point) Style {
	st := Style{
		TagPerm:        perm(t, label+"_tp", len(p.Tags)),
		FieldPerm:      perm(t, label+"_fp", len(p.Fields)),
		LooseBackslash: rapid.Bool().Draw(t, label+"_lb"),
		EscKeyQuote:    rapid.Bool().Draw(t, label+"_kq"),
		Sep1:           1, Sep2: 1,
	}
	for i := range p.Fields {
		st.FloatFmt = append(st.FloatFmt, rapid.SampledFrom([]byte{'f', 'e', 'E', 'g'}).Draw(t, fmt.Sprintf("%s_ff%d", label, i)))
		st.BoolForm = append(st.BoolForm, rapid.IntRange(0, len(trueForms)-1).Draw(t, fmt.Sprintf("%s_bf%d", label, i)))
		z := 0
		if rapid.IntRange(0, 3).Draw(t, fmt.Sprintf("%s_z%d", label, i)) == 0 {
			z = rapid.IntRange(1, 3).Draw(t, fmt.Sprintf("%s_zn%d", label, i))
		}
		st.IntZeros = append(st.IntZeros, z)
	}
	if rapid.IntRange(0, 3).Draw(t, label+"_ws") == 0 {
		st.Sep1 = rapid.IntRange(1, 3).Draw(t, label+"_s1")
		st.Sep2 = rapid.IntRange(1, 3).Draw(t, label+"_s2")
		st.Trail = rapid.IntRange(0, 2).Draw(t, label+"_trail")
	}
	return st
}

// renderString writes a string field value. With loose, a backslash that is followed by a byte other
// than '"' and '\' (and is not the last byte) is left single: the parser documents/pins it as literal.
func renderString(s string, loose bool) string {
	var sb strings.Builder
	sb.WriteByte('"')
	for i := 0; i < len(s); i++ {
		c := s[i]
		switch {
		case c == '"':
			sb.WriteString(`\"`)
		case c == '\\':
			if loose && i+1 < len(s) && s[i+1] != '"' && s[i+1] != '\\' {
				sb.WriteByte('\\')
			} else {
				sb.WriteString(`\\`)
			}
		default:
			sb.WriteByte(c)
		}
	}
	sb.WriteByte('"')
	return sb.String()
}

// RenderValue renders a field value in the given style.
func RenderValue(v any, floatFmt byte, boolForm int, zeros int, loose bool) string {
	switch x := v.(type) {
	case float64:
		if floatFmt == 0 {
			floatFmt = 'f'
		}
		return strconv.FormatFloat(x, floatFmt, -1, 64)
	case int64:
		// leading zeros are accepted (upstream TestParsePointMaxInt64/MinInt64 "leading zeros")
		d := strconv.FormatInt(x, 10)
		if x < 0 {
			return "-" + strings.Repeat("0", zeros) + d[1:] + "i"
		}
		return strings.Repeat("0", zeros) + d + "i"
	case uint64:
		return strings.Repeat("0", zeros) + strconv.FormatUint(x, 10) + "u"
	case string:
		return renderString(x, loose)
	case bool:
		if x {
			return trueForms[boolForm%len(trueForms)]
		}
		return falseForms[boolForm%len(falseForms)]
	}
	panic(fmt.Sprintf("lpgen: unsupported value type %T", v))
}

// RenderKey renders "measurement[,k=v...]" with tags in the style's order.
func RenderKey(p Point, st Style) string {
	var sb strings.Builder
	sb.WriteString(EscMeasurement(p.Name))
	for _, i := range st.TagPerm {
		sb.WriteByte(',')
		sb.WriteString(EscTag(p.Tags[i].K))
		sb.WriteByte('=')
		sb.WriteString(EscTag(p.Tags[i].V))
	}
	return sb.String()
}

// RenderFields renders the field set in the style's order.
func RenderFields(p Point, st Style) string {
	var sb strings.Builder
	for n, i := range st.FieldPerm {
		if n > 0 {
			sb.WriteByte(',')
		}
		sb.WriteString(EscFieldKey(p.Fields[i].K, st.EscKeyQuote))
		sb.WriteByte('=')
		sb.WriteString(RenderValue(p.Fields[i].V, st.FloatFmt[i], st.BoolForm[i], st.IntZeros[i], st.LooseBackslash))
	}
	return sb.String()
}

// Render renders the point as one line of line protocol (no trailing newline) with the timestamp
// expressed in the precision.
func Render(p Point, st Style, prec string) string {
	var sb strings.Builder
	sb.WriteString(RenderKey(p, st))
	sb.WriteString(strings.Repeat(" ", st.Sep1))
	sb.WriteString(RenderFields(p, st))
	if p.HasTime {
		sb.WriteString(strings.Repeat(" ", st.Sep2))
		sb.WriteString(strconv.FormatInt(p.Time/Mult(prec), 10))
	}
	sb.WriteString(strings.Repeat(" ", st.Trail))
	return sb.String()
}

// KeySize is len(series key)+4+len(longest field key) for the canonical (sorted, escaped) key.
func KeySize(p Point) int {
	maxF := 0
	for _, f := range p.Fields {
		if n := len(EscFieldKey(f.K, true)); n > maxF {
			maxF = n
		}
	}
	return len(RenderKey(p, PlainStyle(p))) + 4 + maxF
}

// Canon renders the point canonically for distinctness hashing / samples.
func Canon(p Point, prec string) string { return Render(p, PlainStyle(p), prec) + "|" + prec }

// ValueEqual reports whether two field values have the same Go type and are bit-identical.
func ValueEqual(a, b any) bool {
	switch x := a.(type) {
	case float64:
		y, ok := b.(float64)
		return ok && math.Float64bits(x) == math.Float64bits(y)
	case int64:
		y, ok := b.(int64)
		return ok && x == y
	case uint64:
		y, ok := b.(uint64)
		return ok && x == y
	case string:
		y, ok := b.(string)
		return ok && x == y
	case bool:
		y, ok := b.(bool)
		return ok && x == y
	}
	return false
}

// ---- signatures of input classes (used for counted exclusions) ---------------------------------

// BackslashBefore reports whether s contains a backslash immediately followed by a byte of set.
func BackslashBefore(s, set string) bool {
	for i := 0; i+1 < len(s); i++ {
		if s[i] == '\\' && strings.IndexByte(set, s[i+1]) >= 0 {
			return true
		}
	}
	return false
}

// OddBackslashRunBefore reports whether s contains a byte of set that is immediately preceded by a
// maximal run of backslashes of odd length.
func OddBackslashRunBefore(s, set string) bool {
	run := 0
	for i := 0; i < len(s); i++ {
		if s[i] == '\\' {
			run++
			continue
		}
		if run%2 == 1 && strings.IndexByte(set, s[i]) >= 0 {
			return true
		}
		run = 0
	}
	return false
}

// TagOrderDiffers reports whether the tags (sorted by key bytes, as in the model) are NOT sorted when
// their keys are compared in escaped form.
func TagOrderDiffers(tags []Tag) bool {
	for i := 1; i < len(tags); i++ {
		if EscTag(tags[i-1].K) > EscTag(tags[i].K) {
			return true
		}
	}
	return false
}

// KeySectionOddBackslashSpace reports whether the measurement, a tag key or a tag value contains a
// space preceded by an odd run of backslashes (an even run >= 2 in the escaped text).
func KeySectionOddBackslashSpace(p Point) bool {
	if OddBackslashRunBefore(p.Name, " ") {
		return true
	}
	for _, tg := range p.Tags {
		if OddBackslashRunBefore(tg.K, " ") || OddBackslashRunBefore(tg.V, " ") {
			return true
		}
	}
	return false
}

// HasNewline reports whether any string field value contains a newline.
func HasNewline(p Point) bool {
	for _, f := range p.Fields {
		if s, ok := f.V.(string); ok && strings.Contains(s, "\n") {
			return true
		}
	}
	return false
}

// EscapePositions counts in how many different positions (measurement, tag key, tag value, field key,
// string value) the point contains a byte that needs escaping.
func EscapePositions(p Point) int {
	n := 0
	if strings.ContainsAny(p.Name, ", \\") {
		n++
	}
	tk, tv, fk, sv := false, false, false, false
	for _, tg := range p.Tags {
		tk = tk || strings.ContainsAny(tg.K, ",= \\")
		tv = tv || strings.ContainsAny(tg.V, ",= \\")
	}
	for _, f := range p.Fields {
		fk = fk || strings.ContainsAny(f.K, ",= \"\\")
		if s, ok := f.V.(string); ok {
			sv = sv || strings.ContainsAny(s, "\"\\\n")
		}
	}
	for _, b := range []bool{tk, tv, fk, sv} {
		if b {
			n++
		}
	}
	return n
}

// HasExtreme reports whether any numeric field value is an extreme.
func HasExtreme(p Point) bool {
	for _, f := range p.Fields {
		if IsExtreme(f.V) {
			return true
		}
	}
	return false
}
