package eng

import (
	"fmt"
	"strings"
	"time"

	"github.com/influxdata/influxdb/v2/pkg/verifhook"

	"verifharness/internal/ev"
	"verifharness/internal/gen"
)

// DeleteDuringSnapshotKey is the known-finding key for deletes landing between Cache.Snapshot()
// and the snapshot commit.
const DeleteDuringSnapshotKey = "delete-during-snapshot-window"

// RunDeleteInSnapshotWindow starts Engine.WriteSnapshot on another goroutine, holds it at the
// hook point right after Cache.Snapshot() returned (before the snapshot is deduplicated, written
// and installed), runs the range delete to completion on the calling goroutine, then releases the
// snapshot and joins it. Returns the errors of both operations.
func (mc *Machine) RunDeleteInSnapshotWindow(series []string, min, max int64) (snapErr, delErr error, reached bool) {
	root := mc.F.Root
	reachedCh := make(chan struct{}, 1)
	release := make(chan struct{})
	fired := false
	verifhook.Set(func(name, detail string) {
		if name != "tsm1.snapshot.after-cache-snapshot" || !strings.HasPrefix(detail, root) || fired {
			return
		}
		fired = true
		reachedCh <- struct{}{}
		<-release
	})
	done := make(chan error, 1)
	go func() { done <- mc.F.Snapshot() }()
	select {
	case <-reachedCh:
		reached = true
	case err := <-done:
		// snapshot finished without reaching the point (error path)
		verifhook.Set(nil)
		close(release)
		return err, mc.F.DeleteRange(series, min, max), false
	case <-time.After(30 * time.Second):
		verifhook.Set(nil)
		close(release)
		mc.Rec.Inconclusive("snapshot did not reach the hook point within 30s")
		return <-done, nil, false
	}
	delErr = mc.F.DeleteRange(series, min, max)
	close(release)
	snapErr = <-done
	verifhook.Set(nil)
	return snapErr, delErr, true
}

// DeleteDuringSnapshot is the C03 action: a delete that starts and completes while a cache
// snapshot is in progress (after Cache.Snapshot(), before the commit).
func (mc *Machine) DeleteDuringSnapshot(series []string, min, max int64) {
	mc.Ops = append(mc.Ops, Op{Kind: "deleteDuringSnapshot", Series: series, Min: min, Max: max})
	// does any deleted series have points in the cache now, i.e. in the snapshot being taken?
	// (inside the range they would survive the delete; outside the range the engine, not seeing
	// them, may conclude the series is empty and drop it from the index)
	inSnapshot := 0
	for k := range mc.InCache {
		for _, s := range series {
			if strings.HasPrefix(k, s+"|") {
				inSnapshot++
			}
		}
	}
	snapErr, delErr, reached := mc.RunDeleteInSnapshotWindow(series, min, max)
	if delErr != nil {
		mc.fail("delete-error", fmt.Sprintf("DeleteSeriesRange(%v,[%d,%d]) inside the snapshot window: %v", series, min, max, delErr))
	}
	if snapErr != nil {
		mc.fail("snapshot-error", fmt.Sprintf("WriteSnapshot around a concurrent delete: %v", snapErr))
	}
	n := applyDelete(mc.M, series, min, max)
	mc.Deletes++
	if n > 0 {
		mc.DeletesHitting++
	}
	if reached {
		mc.WindowDeletes++
		mc.Rec.Class("step:delete-inside-snapshot-window")
	}
	if reached && inSnapshot > 0 {
		mc.Rec.Class("step:window-delete-of-series-with-snapshotted-points")
		if ev.KnownOpen(mc.Prop, DeleteDuringSnapshotKey) {
			// Known finding (exact signature): the delete does not see the points held by the
			// in-progress snapshot. Those inside the range survive in the new TSM file; and because
			// the engine does not see the ones outside the range either, it may drop the series (and
			// its measurement's field schema) from the index although data remains. What is visible
			// afterwards depends on further state, so the history is abandoned here; the window
			// itself keeps being generated and counted.
			mc.Tainted = true
			mc.Rec.ExcludedKnown(DeleteDuringSnapshotKey)
		}
	}
	mc.noteSnapshot()
}

// RunInSnapshotWindow starts Engine.WriteSnapshot on another goroutine, holds it right after
// Cache.Snapshot() returned (the cache's values are in the pending snapshot, not yet in a TSM
// file), runs fn on the calling goroutine, then releases the snapshot and joins it.
func (mc *Machine) RunInSnapshotWindow(fn func()) (snapErr error, reached bool) {
	root := mc.F.Root
	reachedCh := make(chan struct{}, 1)
	release := make(chan struct{})
	fired := false
	verifhook.Set(func(name, detail string) {
		if name != "tsm1.snapshot.after-cache-snapshot" || !strings.HasPrefix(detail, root) || fired {
			return
		}
		fired = true
		reachedCh <- struct{}{}
		<-release
	})
	done := make(chan error, 1)
	go func() { done <- mc.F.Snapshot() }()
	select {
	case <-reachedCh:
		reached = true
	case err := <-done:
		verifhook.Set(nil)
		close(release)
		fn()
		return err, false
	case <-time.After(30 * time.Second):
		verifhook.Set(nil)
		close(release)
		mc.Rec.Inconclusive("snapshot did not reach the hook point within 30s")
		return <-done, false
	}
	fn()
	close(release)
	snapErr = <-done
	verifhook.Set(nil)
	return snapErr, true
}

// WriteDuringSnapshot is a write (typically overwriting timestamps the pending snapshot holds)
// and a full scan that both happen while a cache snapshot is in progress, followed by a full scan
// after its commit.
func (mc *Machine) WriteDuringSnapshot(pts []gen.WPoint) {
	mc.Ops = append(mc.Ops, Op{Kind: "snapshotWindow:begin"})
	before := make([]string, 0, len(mc.InCache))
	for k := range mc.InCache {
		before = append(before, k)
	}
	snapErr, reached := mc.RunInSnapshotWindow(func() {
		mc.Write(pts)
		mc.FullScan()
	})
	mc.Ops = append(mc.Ops, Op{Kind: "snapshotWindow:end"})
	if snapErr != nil {
		mc.fail("snapshot-error", fmt.Sprintf("WriteSnapshot around a concurrent write: %v", snapErr))
	}
	if reached {
		mc.Rec.Class("step:write-and-read-inside-snapshot-window")
		// what was in the cache before the window is in a TSM file now, the write is in the cache
		for _, k := range before {
			mc.InTSM[k] = true
		}
		if len(before) > 0 {
			mc.TSMFilesSeen = true
		}
	}
	mc.FullScan()
}
