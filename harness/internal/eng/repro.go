package eng

import (
	"fmt"
	"os"
	"time"

	"github.com/influxdata/influxdb/v2/models"
	"github.com/influxdata/influxdb/v2/toml"
	"github.com/influxdata/influxdb/v2/tsdb"

	"verifharness/internal/fix"
	"verifharness/internal/scratch"
)

func ipoint(series string, ts, v int64) models.Point {
	name, tags := models.ParseKeyBytes([]byte(series))
	p, err := models.NewPoint(string(name), tags, models.Fields{"fi": v}, time.Unix(0, ts))
	if err != nil {
		panic(err)
	}
	return p
}

// ReproCyclicBlockOrder is the deterministic reproducer of known finding
// keycursor-cyclic-block-order: 13 writes to one series field, each snapshotted to its own TSM
// file; the last write (151 at MinNanoTime+1... see below) must win. With restart=true the shard
// is closed and reopened before reading (the stale read persists: it is a property of the files).
// Returns reproduced=true when the read returns an older value than the one written last.
func ReproCyclicBlockOrder(restart bool) (bool, string, error) {
	root, err := scratch.Dir("repro-cyclic-")
	if err != nil {
		return false, "", err
	}
	defer os.RemoveAll(root)
	f, err := fix.NewShardFix(root)
	if err != nil {
		return false, "", err
	}
	defer f.Close()
	const s = "m0,host=a"
	m3 := models.MinNanoTime + 1
	batches := [][]models.Point{
		{ipoint(s, 1, -1)}, {ipoint(s, 10, 1)}, {ipoint(s, 0, 49)}, {ipoint(s, 100, 68)}, {ipoint(s, 20, 1)}, {ipoint(s, 120, 80)},
		{ipoint(s, m3, 91)}, {ipoint(s, 0, 98)}, {ipoint(s, m3, 100), ipoint(s, 10, 102)}, {ipoint(s, 150, 1)}, {ipoint(s, 30, 106)},
		{ipoint(s, 40, 125)}, {ipoint(s, m3, 151)},
	}
	for _, b := range batches {
		if err := f.Write(b); err != nil {
			return false, "", err
		}
		if err := f.Snapshot(); err != nil {
			return false, "", err
		}
	}
	if restart {
		if err := f.Reopen(); err != nil {
			return false, "", err
		}
	}
	got, err := f.Read(s, "fi", models.MinNanoTime, models.MaxNanoTime, true)
	if err != nil {
		return false, "", err
	}
	if len(got) == 0 || got[0].T != m3 {
		return true, fmt.Sprintf("unexpected read %v", got), nil
	}
	if got[0].V.I != 151 {
		return true, fmt.Sprintf("13 acknowledged one-point writes to %s fi, each snapshotted to its own TSM file; last write at t=%d was 151, read returns %d (restart=%v)", s, m3, got[0].V.I, restart), nil
	}
	return false, "", nil
}

// ReproFullPlanSkipsGeneration is the deterministic reproducer of known finding
// full-plan-skips-generation (see DESIGN.md C05/C01).
func ReproFullPlanSkipsGeneration(restart bool) (bool, string, error) {
	root, err := scratch.Dir("repro-fullplan-")
	if err != nil {
		return false, "", err
	}
	defer os.RemoveAll(root)
	f := &fix.ShardFix{Root: root, Tweak: func(o *tsdb.EngineOptions) { o.Config.CompactFullWriteColdDuration = toml.Duration(1) }}
	if err := f.Open(); err != nil {
		return false, "", err
	}
	defer f.Close()
	const s = "m0,host=a"
	ws := func(ts, v int64) error {
		if err := f.Write([]models.Point{ipoint(s, ts, v)}); err != nil {
			return err
		}
		return f.Snapshot()
	}
	for i := int64(1); i <= 8; i++ {
		if err := ws(0, i); err != nil {
			return false, "", err
		}
	}
	if _, err := f.Compact("level1"); err != nil {
		return false, "", err
	}
	for i := int64(1); i <= 8; i++ {
		if err := ws(0, 100+i); err != nil {
			return false, "", err
		}
	}
	if err := ws(10, 1); err != nil {
		return false, "", err
	}
	before := f.TSMFiles()
	g, err := f.CompactGroup("full")
	if err != nil {
		return false, "", err
	}
	nc, skipped := fix.NonContiguous(g, before)
	if restart {
		if err := f.Reopen(); err != nil {
			return false, "", err
		}
	}
	got, err := f.Read(s, "fi", 0, 0, true)
	if err != nil {
		return false, "", err
	}
	if len(got) == 1 && got[0].V.I == 108 && !nc {
		return false, "", nil
	}
	return true, fmt.Sprintf("cold shard, generations 1..8 compacted to 8-2, 9..16 overwrite fi@0 (last value 108), 17 added; one planning round's full plan compacted %d files skipping held generation %d (non-contiguous=%v); read of fi@0 returns %v, want 108 (restart=%v)", len(g), skipped, nc, got, restart), nil
}
