// Package eng is the shared state machine behind the crash (C02) and delete (C03) harnesses: a
// real tsdb.Store/Shard/tsm1.Engine with an owned snapshot/compaction schedule, driven by
// generated write / delete / snapshot / compact / reopen / crash steps and compared with the
// point model after every step.
package eng

import (
	"fmt"
	"os"
	"path/filepath"
	"sort"
	"strings"
	"sync"

	"github.com/influxdata/influxdb/v2/models"
	"github.com/influxdata/influxdb/v2/pkg/verifhook"
	"github.com/influxdata/influxdb/v2/tsdb/engine/tsm1"
	"pgregory.net/rapid"

	"verifharness/internal/ev"
	"verifharness/internal/fix"
	"verifharness/internal/gen"
	"verifharness/internal/model"
	"verifharness/internal/scratch"
)

// Op is one executed step (JSON-able; the op list is the replayable case).
type Op struct {
	Kind   string       `json:"kind"`
	Points []gen.WPoint `json:"points,omitempty"`
	Arg    string       `json:"arg,omitempty"`
	N      int          `json:"n,omitempty"`
	Series []string     `json:"series,omitempty"`
	Min    int64        `json:"min,omitempty"`
	Max    int64        `json:"max,omitempty"`
	Inner  *Op          `json:"inner,omitempty"`
	Hit    int          `json:"hit,omitempty"`
	Offset int64        `json:"offset,omitempty"`
}

// RenderOps renders a history compactly (also the canonical form for distinctness).
func RenderOps(ops []Op) string {
	var sb strings.Builder
	for _, o := range ops {
		renderOp(&sb, o)
		sb.WriteString(";")
	}
	return sb.String()
}

func renderOp(sb *strings.Builder, o Op) {
	sb.WriteString(o.Kind)
	if o.Arg != "" {
		sb.WriteString(":" + o.Arg)
	}
	if o.Kind == "compact" {
		fmt.Fprintf(sb, "(%d files)", o.N)
	}
	if o.Kind == "delete" || o.Kind == "deleteDuringSnapshot" {
		fmt.Fprintf(sb, "%v[%d,%d]", o.Series, o.Min, o.Max)
	}
	if o.Kind == "crash" {
		fmt.Fprintf(sb, "#%d", o.Hit)
	}
	if o.Kind == "tornwal" {
		fmt.Fprintf(sb, "@%d", o.Offset)
	}
	for _, p := range o.Points {
		fmt.Fprintf(sb, "[%s@%d", p.Series, p.T)
		for _, f := range gen.Fields {
			if v, ok := p.Fields[f.Name]; ok {
				fmt.Fprintf(sb, " %s=%s", f.Name, v)
			}
		}
		sb.WriteString("]")
	}
	if o.Inner != nil {
		sb.WriteString("{")
		renderOp(sb, *o.Inner)
		sb.WriteString("}")
	}
}

// Failer reports a violation (bound to a recorder, property and test name by the caller).
type Failer func(key, detail string, c any)

// Machine is the state of one generated history.
type Machine struct {
	Prop  string // property id used for known-finding lookups
	Rec   *ev.Recorder
	FailF Failer
	Fatal func(format string, args ...any)

	F   *fix.ShardFix
	M   *model.Store
	Ops []Op
	Seq int
	// ExtraKeys are (series, field) pairs outside the generated domain that FullScan also reads.
	ExtraKeys [][2]string

	InTSM   map[string]bool
	InCache map[string]bool
	// Tainted: a step matched an open known finding that invalidates later reads.
	Tainted bool
	// SkipQL: a crash interrupted a DELETE. An interrupted (unacknowledged) delete may have removed
	// series from the index while their cache-resident points come back from the WAL; the cursor
	// path (by key) and the InfluxQL iterator path (through the index) can then legitimately show
	// different allowed states of the same points, so only the cursor path is compared afterwards.
	SkipQL bool
	// Hidden: points that an interrupted (unacknowledged) delete was about to remove and that were
	// not visible on the recovered image although they may physically still be there: a delete drops
	// the series / the measurement's field schema from the index before or after its data effects
	// are durable, so such a point can be invisible now and reappear when a later write re-creates
	// the field. Until an acknowledged write or delete covers it, the point may be absent or present
	// with its old value (adopted when first seen again).
	Hidden map[string]hiddenPoint

	roots []string // scratch roots to remove

	// counters for non-trivial rules
	Deletes, DeletesHitting, SnapshotsAfterDelete, CompactsAfterDelete, ReopensAfterDelete int
	TSMFilesSeen                                                                           bool
	CrashBetweenSteps, TornInside, WindowDeletes                                           int
}

type hiddenPoint struct {
	series, field string
	ts            int64
	v             model.Val
}

func pkey(s, f string, ts int64) string { return fmt.Sprintf("%s|%s|%d", s, f, ts) }

// New creates a machine on a fresh scratch shard.
func New(prop string, rec *ev.Recorder, failf Failer, fatal func(string, ...any)) *Machine {
	root, err := scratch.Dir(strings.ToLower(prop) + "-")
	if err != nil {
		fatal("scratch: %v", err)
	}
	f, err := fix.NewShardFix(root)
	if err != nil {
		os.RemoveAll(root)
		fatal("fixture: %v", err)
	}
	return &Machine{Prop: prop, Rec: rec, FailF: failf, Fatal: fatal, F: f, M: model.NewStore(),
		InTSM: map[string]bool{}, InCache: map[string]bool{}, roots: []string{root}, Hidden: map[string]hiddenPoint{}}
}

// Close releases the fixture and removes all scratch roots.
func (mc *Machine) Close() {
	verifhook.Set(nil)
	if mc.F != nil {
		mc.F.Close()
	}
	if os.Getenv("VERIF_KEEP_SCRATCH") != "" {
		fmt.Printf("VERIF_KEEP_SCRATCH: %v\n", mc.roots)
		return
	}
	for _, r := range mc.roots {
		os.RemoveAll(r)
	}
}

func (mc *Machine) fail(key, detail string) {
	mc.FailF(key, detail+"\nhistory: "+RenderOps(mc.Ops), map[string]any{"ops": mc.Ops})
}

// ---------------------------------------------------------------------------------------------
// plain steps

func toModels(pts []gen.WPoint, fatal func(string, ...any)) []models.Point {
	var mp []models.Point
	for _, p := range pts {
		x, err := p.ToModelsPoint()
		if err != nil {
			fatal("harness bug: cannot build point %+v: %v", p, err)
		}
		mp = append(mp, x)
	}
	return mp
}

func applyWrite(m *model.Store, pts []gen.WPoint) {
	for _, p := range pts {
		for fn, v := range p.Fields {
			m.Write(p.Series, fn, p.T, v)
		}
	}
}

// Write performs an acknowledged write.
func (mc *Machine) Write(pts []gen.WPoint) {
	mc.Ops = append(mc.Ops, Op{Kind: "write", Points: pts})
	if err := mc.F.Write(toModels(pts, mc.Fatal)); err != nil {
		mc.fail("write-rejected", fmt.Sprintf("WritePoints returned %v for a well-formed batch", err))
	}
	mc.noteWrite(pts)
	applyWrite(mc.M, pts)
	mc.Rec.Class("step:write")
}

func (mc *Machine) noteWrite(pts []gen.WPoint) {
	for _, p := range pts {
		for fn := range p.Fields {
			delete(mc.Hidden, pkey(p.Series, fn, p.T))
			mc.InCache[pkey(p.Series, fn, p.T)] = true
		}
	}
}

// Snapshot writes the cache to TSM.
func (mc *Machine) Snapshot() {
	mc.Ops = append(mc.Ops, Op{Kind: "snapshot"})
	if err := mc.F.Snapshot(); err != nil {
		mc.fail("snapshot-error", fmt.Sprintf("WriteSnapshot: %v", err))
	}
	mc.noteSnapshot()
	mc.Rec.Class("step:snapshot")
}

func (mc *Machine) noteSnapshot() {
	for k := range mc.InCache {
		mc.InTSM[k] = true
	}
	if len(mc.InCache) > 0 {
		mc.TSMFilesSeen = true
		if mc.Deletes > 0 {
			mc.SnapshotsAfterDelete++
		}
	}
	mc.InCache = map[string]bool{}
}

// Compact runs one planner-driven compaction step.
func (mc *Machine) Compact(kind string) {
	before := mc.F.TSMFiles()
	g, err := mc.F.CompactGroup(kind)
	mc.Ops = append(mc.Ops, Op{Kind: "compact", Arg: kind, N: len(g)})
	if err != nil {
		mc.fail("compact-error", fmt.Sprintf("compaction step %s: %v", kind, err))
	}
	if nc, _ := fix.NonContiguous(g, before); nc && ev.KnownOpen(mc.Prop, fix.FullPlanSkipsKey) {
		mc.Rec.ExcludedKnown(fix.FullPlanSkipsKey)
		mc.Tainted = true
		return
	}
	if len(g) >= 2 || (len(g) == 1 && kind != "optimize") {
		mc.Rec.Class("step:compact-ran:" + kind)
		if mc.Deletes > 0 {
			mc.CompactsAfterDelete++
		}
	} else {
		mc.Rec.Class("step:compact-noop")
	}
}

// Reopen closes and reopens the store.
func (mc *Machine) Reopen() {
	mc.Ops = append(mc.Ops, Op{Kind: "reopen"})
	if err := mc.F.Reopen(); err != nil {
		mc.fail("reopen-error", fmt.Sprintf("close/open: %v", err))
	}
	if mc.Deletes > 0 {
		mc.ReopensAfterDelete++
	}
	mc.Rec.Class("step:reopen")
}

func applyDelete(m *model.Store, series []string, min, max int64) int {
	n := 0
	for _, s := range series {
		n += m.DeleteRange(s, min, max)
	}
	return n
}

// Delete performs an acknowledged range delete of the given series.
func (mc *Machine) Delete(series []string, min, max int64) {
	mc.Ops = append(mc.Ops, Op{Kind: "delete", Series: series, Min: min, Max: max})
	if err := mc.F.DeleteRange(series, min, max); err != nil {
		mc.fail("delete-error", fmt.Sprintf("DeleteSeriesRange(%v,[%d,%d]): %v", series, min, max, err))
	}
	n := applyDelete(mc.M, series, min, max)
	mc.clearHidden(series, min, max)
	mc.Deletes++
	if n > 0 {
		mc.DeletesHitting++
		mc.Rec.Class("step:delete-hitting-points")
	} else {
		mc.Rec.Class("step:delete-empty")
	}
}

// ClearHidden is clearHidden for step definitions outside the package.
func (mc *Machine) ClearHidden(series []string, min, max int64) { mc.clearHidden(series, min, max) }

// NoteWrite is the bookkeeping of an acknowledged write performed outside Machine.Write.
func (mc *Machine) NoteWrite(pts []gen.WPoint) { mc.noteWrite(pts) }

// HiddenSnapshot copies the hidden-point set (taken before an operation that may be torn).
func (mc *Machine) HiddenSnapshot() map[string]hiddenPoint {
	out := make(map[string]hiddenPoint, len(mc.Hidden))
	for k, v := range mc.Hidden {
		out[k] = v
	}
	return out
}

func (mc *Machine) clearHidden(series []string, min, max int64) {
	for k, h := range mc.Hidden {
		for _, s := range series {
			if h.series == s && h.ts >= min && h.ts <= max {
				delete(mc.Hidden, k)
			}
		}
	}
}

// adoptHidden: if every point of got that the model lacks is a Hidden point with its old value,
// the model adopts them (they became visible again) and true is returned.
func (mc *Machine) adoptHidden(series, field string, got, want []model.Point) bool {
	if len(mc.Hidden) == 0 {
		return false
	}
	w := map[int64]bool{}
	for _, p := range want {
		w[p.T] = true
	}
	var adopt []hiddenPoint
	for _, p := range got {
		if w[p.T] {
			continue
		}
		h, ok := mc.Hidden[pkey(series, field, p.T)]
		if !ok || !h.v.Equal(p.V) {
			return false
		}
		adopt = append(adopt, h)
	}
	if len(adopt) == 0 {
		return false
	}
	for _, h := range adopt {
		mc.M.Write(h.series, h.field, h.ts, h.v)
		delete(mc.Hidden, pkey(h.series, h.field, h.ts))
	}
	mc.Rec.Class("read:hidden-point-of-interrupted-delete-visible-again")
	return true
}

// ---------------------------------------------------------------------------------------------
// reads

// CheckRead compares one cursor read (and optionally the InfluxQL iterator path) with the model.
func (mc *Machine) CheckRead(series, field string, lo, hi int64, asc, alsoQL bool) {
	want := mc.M.Range(series, field, lo, hi, asc)
	got, err := mc.F.Read(series, field, lo, hi, asc)
	if err != nil {
		mc.fail("read-error", fmt.Sprintf("cursor read %s %s [%d,%d] asc=%v: %v", series, field, lo, hi, asc, err))
	}
	if !model.EqualPoints(got, want) && mc.adoptHidden(series, field, got, want) {
		want = mc.M.Range(series, field, lo, hi, asc)
	}
	if !model.EqualPoints(got, want) && !mc.known(series, field, lo, hi, asc, got, want) {
		mc.fail(mc.mismatchKey(series, field, got, want), fmt.Sprintf("cursor read %s %s [%d,%d] asc=%v\n got:  %s\n want: %s", series, field, lo, hi, asc, model.Render(got), model.Render(want)))
	}
	if alsoQL && !mc.SkipQL {
		got2, err := mc.F.ReadInfluxQL(series, field, gen.FieldKind(field), lo, hi, asc)
		if err != nil {
			mc.fail("iterator-read-error", fmt.Sprintf("iterator read %s %s [%d,%d] asc=%v: %v", series, field, lo, hi, asc, err))
		}
		if !model.EqualPoints(got2, want) && !mc.known(series, field, lo, hi, asc, got2, want) {
			mc.fail(mc.mismatchKey(series, field, got2, want), fmt.Sprintf("InfluxQL iterator read %s %s [%d,%d] asc=%v\n got:  %s\n want: %s", series, field, lo, hi, asc, model.Render(got2), model.Render(want)))
		}
	}
	if len(want) > 0 {
		mc.Rec.Class("read:non-empty")
	} else {
		mc.Rec.Class("read:empty")
	}
}

// mismatchKey names the kind of mismatch (root-cause-ish signature for reports).
func (mc *Machine) mismatchKey(series, field string, got, want []model.Point) string {
	w := map[int64]model.Val{}
	for _, p := range want {
		w[p.T] = p.V
	}
	g := map[int64]bool{}
	for _, p := range got {
		g[p.T] = true
		if _, ok := w[p.T]; !ok {
			if len(mc.M.Versions(series, field, p.T)) > 0 {
				return "deleted-or-unwritten-point-returned"
			}
			return "invented-point-returned"
		}
	}
	for _, p := range want {
		if !g[p.T] {
			return "point-lost"
		}
	}
	return "wrong-value-or-order"
}

func (mc *Machine) known(series, field string, lo, hi int64, asc bool, got, want []model.Point) bool {
	if !ev.KnownOpen(mc.Prop, fix.KeyCursorCyclicKey) {
		return false
	}
	if ok, _ := fix.StaleByCyclicOrder(mc.F.DataDir(), mc.M, series, field, lo, hi, asc, got, want); ok {
		mc.Rec.ExcludedKnown(fix.KeyCursorCyclicKey)
		return true
	}
	return false
}

// RandomReads issues n generated reads.
func (mc *Machine) RandomReads(t *rapid.T, n int) {
	for i := 0; i < n; i++ {
		s := rapid.SampledFrom(gen.SeriesKeys).Draw(t, "rs")
		f := rapid.SampledFrom(gen.Fields).Draw(t, "rf")
		lo, hi := gen.Range(t, "rr")
		asc := rapid.Bool().Draw(t, "asc")
		mc.CheckRead(s, f.Name, lo, hi, asc, i == 0)
	}
}

// FullScan reads every (series, field) over the whole time range in both directions.
func (mc *Machine) FullScan() {
	for _, k := range mc.ExtraKeys {
		for _, asc := range []bool{true, false} {
			mc.CheckRead(k[0], k[1], models.MinNanoTime, models.MaxNanoTime, asc, asc)
		}
	}
	for _, s := range gen.SeriesKeys {
		for _, f := range gen.Fields {
			for _, asc := range []bool{true, false} {
				mc.CheckRead(s, f.Name, models.MinNanoTime, models.MaxNanoTime, asc, asc)
			}
		}
	}
}

// ---------------------------------------------------------------------------------------------
// crash images

// Step is an operation that can be interrupted by a crash: Run executes it against the live
// engine (returning its error), After applies its effect to a model.
type Step struct {
	Op    Op
	Run   func() error
	After func(m *model.Store)
	Note  func() // bookkeeping on the machine if the step is considered done
}

// CrashPoints lists the hook points a crash image can be taken at.
var CrashPoints = []string{
	"tsm1.wal.after-write",
	"tsm1.snapshot.after-cache-snapshot", "tsm1.snapshot.after-write-files", "tsm1.snapshot.after-replace",
	"tsm1.snapshot.after-clear", "tsm1.snapshot.after-wal-remove",
	"tsm1.compact.after-write-files", "tsm1.compact.after-replace",
	"tsm1.replace.begin", "tsm1.replace.after-rename-new", "tsm1.replace.after-remove-one", "tsm1.replace.after-remove-old",
	"tsm1.tombstone.after-tmp-write", "tsm1.tombstone.after-rename",
	"tsdb.fields.after-append",
}

// BetweenCommitSteps are the points that lie strictly inside a multi-step commit.
var BetweenCommitSteps = map[string]bool{
	"tsm1.snapshot.after-write-files": true, "tsm1.snapshot.after-replace": true, "tsm1.snapshot.after-clear": true,
	"tsm1.compact.after-write-files": true, "tsm1.replace.begin": true, "tsm1.replace.after-rename-new": true, "tsm1.replace.after-remove-one": true,
	"tsm1.replace.after-remove-old": true, "tsm1.tombstone.after-tmp-write": true, "tsm1.tombstone.after-rename": true,
	"tsm1.wal.after-write": true,
}

// CrashDuring runs step on the live engine and takes a crash image (a byte copy of the data and
// WAL trees) when hook point `point` is reached for the hit-th time during it. It then abandons
// the live engine, opens a fresh store on the image and checks it: everything acknowledged before
// the step must be there; each point the interrupted step touches may show its before- or
// after-state; nothing else may differ; and a follow-up write must succeed and read back.
// The history continues on the recovered shard. Returns false if the point was not reached
// (then the step simply completed normally).
func (mc *Machine) CrashDuring(step Step, point string, hit int) bool {
	image, err := scratch.Dir(strings.ToLower(mc.Prop) + "-img-")
	if err != nil {
		mc.Fatal("scratch: %v", err)
	}
	mc.roots = append(mc.roots, image)
	var mu sync.Mutex
	count, taken := 0, false
	var copyErr error
	root := mc.F.Root
	verifhook.Set(func(name, detail string) {
		if name != point || !strings.HasPrefix(detail, root) {
			return
		}
		mu.Lock()
		defer mu.Unlock()
		count++
		if count == hit && !taken {
			taken = true
			copyErr = fix.CopyTree(root, image)
		}
	})
	before := mc.M.Clone()
	runErr := step.Run()
	verifhook.Set(nil)
	mu.Lock()
	tk := taken
	mu.Unlock()
	if runErr != nil {
		mc.Ops = append(mc.Ops, step.Op)
		mc.fail("step-error", fmt.Sprintf("%s failed: %v", step.Op.Kind, runErr))
	}
	if !tk {
		// point not reached: the step completed normally on the live engine
		mc.Ops = append(mc.Ops, step.Op)
		step.After(mc.M)
		if step.Note != nil {
			step.Note()
		}
		mc.Rec.Class("crash:point-not-reached")
		return false
	}
	if copyErr != nil {
		mc.Fatal("harness: copying crash image: %v", copyErr)
	}
	mc.Ops = append(mc.Ops, Op{Kind: "crash", Arg: point, Hit: hit, Inner: &step.Op})
	if step.Op.Kind == "delete" {
		mc.SkipQL = true
	}
	after := before.Clone()
	step.After(after)
	mc.recoverOn(image, before, after, "crash at "+point)
	mc.Rec.Class("crash:" + point)
	if BetweenCommitSteps[point] {
		mc.CrashBetweenSteps++
	}
	return true
}

// TornWAL copies the trees as they are after the last acknowledged operation and truncates the
// newest WAL segment to `size` bytes (size lies inside the last record, whose extent the caller
// measured), then recovers on that image. before/after are the model states around that last op.
func (mc *Machine) TornWAL(before *model.Store, hiddenBefore map[string]hiddenPoint, segment string, size int64, inside, ofDelete bool) {
	mc.TornFiles(before, hiddenBefore, []Cut{{segment, size}}, fmt.Sprintf("torn WAL tail (%s cut at %d)", filepath.Base(segment), size), ofDelete)
	if inside {
		mc.TornInside++
		mc.Rec.Class("tornwal:inside-record")
	} else {
		mc.Rec.Class("tornwal:at-record-boundary")
	}
}

// Cut truncates one file (path inside the live root) of a crash image to Size bytes.
type Cut struct {
	Path string
	Size int64
}

// TornFiles copies the trees as they are after the last (now unacknowledged) operation, truncates
// the given files of the copy and recovers on that image.
func (mc *Machine) TornFiles(before *model.Store, hiddenBefore map[string]hiddenPoint, cuts []Cut, what string, ofDelete bool) {
	if ofDelete {
		mc.SkipQL = true
	}
	// the torn operation counts as unacknowledged: what it would have settled about hidden points
	// (a delete clears them, a write overwrites them) is not settled
	for k, v := range hiddenBefore {
		if _, ok := mc.Hidden[k]; !ok {
			mc.Hidden[k] = v
		}
	}
	image, err := scratch.Dir(strings.ToLower(mc.Prop) + "-torn-")
	if err != nil {
		mc.Fatal("scratch: %v", err)
	}
	mc.roots = append(mc.roots, image)
	if err := fix.CopyTree(mc.F.Root, image); err != nil {
		mc.Fatal("harness: copying image: %v", err)
	}
	for i, c := range cuts {
		rel, _ := filepath.Rel(mc.F.Root, c.Path)
		if err := os.Truncate(filepath.Join(image, rel), c.Size); err != nil {
			mc.Fatal("harness: truncate: %v", err)
		}
		if i == 0 {
			mc.Ops = append(mc.Ops, Op{Kind: "tornwal", Arg: filepath.Base(c.Path), Offset: c.Size})
		} else {
			mc.Ops = append(mc.Ops, Op{Kind: "tornwal", Arg: "+" + filepath.Base(c.Path), Offset: c.Size})
		}
	}
	after := mc.M.Clone()
	mc.recoverOn(image, before, after, what)
}

// diagnoseImage describes where a key stands on a recovered image (failure reports only).
func (mc *Machine) diagnoseImage(nf *fix.ShardFix, series, field string) string {
	var sb strings.Builder
	if e, err := nf.Engine(); err == nil {
		name, _ := models.ParseKeyBytes([]byte(series))
		mf := e.MeasurementFields(name)
		if fld := mf.Field(field); fld != nil {
			fmt.Fprintf(&sb, "field known (type %v); ", fld.Type)
		} else {
			fmt.Fprintf(&sb, "field NOT in the shard's field set (known fields of %s: %v); ", name, mf.FieldKeys())
		}
		key := tsm1.SeriesFieldKeyBytes(series, field)
		fmt.Fprintf(&sb, "cache values: %d; ", e.Cache.Values(key).Len())
	}
	blocks, err := fix.KeyBlocks(nf.DataDir(), tsm1.SeriesFieldKeyBytes(series, field), models.MinNanoTime, true)
	fmt.Fprintf(&sb, "tsm blocks not fully tombstoned: %v (%v); ", blocks, err)
	m, _ := filepath.Glob(filepath.Join(nf.DataDir(), "*"))
	for i := range m {
		m[i] = filepath.Base(m[i])
	}
	fmt.Fprintf(&sb, "files: %v", m)
	return sb.String()
}

// NewestWALSegment returns the newest WAL segment file and its size.
func (mc *Machine) NewestWALSegment() (string, int64) {
	m, _ := filepath.Glob(filepath.Join(mc.F.WALDir(), "_*.wal"))
	if len(m) == 0 {
		return "", 0
	}
	sort.Strings(m)
	st, err := os.Stat(m[len(m)-1])
	if err != nil {
		return "", 0
	}
	return m[len(m)-1], st.Size()
}

// recoverOn abandons the live engine, opens the image and checks it against before/after.
func (mc *Machine) recoverOn(image string, before, after *model.Store, what string) {
	old := mc.F
	nf := &fix.ShardFix{Root: image, Tweak: old.Tweak}
	if os.Getenv("VERIF_KEEP_SCRATCH") != "" {
		for _, n := range []string{"fields.idx", "fields.idxl"} {
			b, err := os.ReadFile(filepath.Join(nf.DataDir(), n))
			fmt.Printf("IMAGE %s %s: %v %q\n", what, n, err, b)
		}
	}
	if err := nf.Open(); err != nil {
		old.Close()
		mc.F = nil
		mc.fail("recovery-open-failed", fmt.Sprintf("%s: opening the crash image failed: %v", what, err))
	}
	old.Close()
	mc.F = nf
	// reconcile: per point, before or after is acceptable when they differ
	rec := before.Clone()
	var hidden []hiddenPoint
	for _, s := range gen.SeriesKeys {
		for _, f := range gen.Fields {
			b := before.Range(s, f.Name, models.MinNanoTime, models.MaxNanoTime, true)
			a := after.Range(s, f.Name, models.MinNanoTime, models.MaxNanoTime, true)
			got, err := nf.Read(s, f.Name, models.MinNanoTime, models.MaxNanoTime, true)
			if err != nil {
				mc.fail("read-error", fmt.Sprintf("%s: read %s %s after recovery: %v", what, s, f.Name, err))
			}
			bm, am, gm := toMap(b), toMap(a), toMap(got)
			if len(gm) != len(got) {
				mc.fail("duplicate-timestamps", fmt.Sprintf("%s: %s %s returned duplicate timestamps: %s", what, s, f.Name, model.Render(got)))
			}
			for i := 1; i < len(got); i++ {
				if got[i-1].T >= got[i].T {
					mc.fail("wrong-value-or-order", fmt.Sprintf("%s: %s %s not ascending: %s", what, s, f.Name, model.Render(got)))
				}
			}
			ts := map[int64]bool{}
			for k := range bm {
				ts[k] = true
			}
			for k := range am {
				ts[k] = true
			}
			for k := range gm {
				ts[k] = true
			}
			for t := range ts {
				bv, bok := bm[t]
				av, aok := am[t]
				gv, gok := gm[t]
				okBefore := bok == gok && (!bok || bv.Equal(gv))
				okAfter := aok == gok && (!aok || av.Equal(gv))
				// An interrupted delete is applied file by file (one tombstone commit per TSM file, then
				// the cache): a crash in the middle can have hidden the newest version of a point while
				// an older version in a not-yet-tombstoned file is visible again. The property promises
				// nothing about the atomicity of an unacknowledged delete, so for points INSIDE the
				// interrupted delete's range any version that was once written is accepted.
				okPartialDelete := bok && !aok && gok && before.WasWritten(s, f.Name, t, gv)
				if okPartialDelete && !okBefore {
					mc.Rec.Class("crash:interrupted-delete-exposed-older-version")
				}
				if okBefore || okAfter || okPartialDelete {
					// adopt what the image shows
					if gok {
						if !(bok && bv.Equal(gv)) {
							rec.Write(s, f.Name, t, gv)
						}
					} else if bok {
						rec.DeleteRange1(s, f.Name, t)
						if !aok {
							hidden = append(hidden, hiddenPoint{s, f.Name, t, bv})
						}
					}
					continue
				}
				if h, ok := mc.Hidden[pkey(s, f.Name, t)]; ok && gok && !bok && h.v.Equal(gv) {
					// a point left behind by an earlier interrupted delete became visible again (also
					// when the interrupted step would have overwritten it: the step created the field
					// or series again, its own value did not reach the image)
					rec.Write(s, f.Name, t, gv)
					delete(mc.Hidden, pkey(s, f.Name, t))
					mc.Rec.Class("read:hidden-point-of-interrupted-delete-visible-again")
					continue
				}
				if mc.known(s, f.Name, models.MinNanoTime, models.MaxNanoTime, true, got, b) {
					continue
				}
				key := "acknowledged-point-lost"
				switch {
				case gok && !bok && !aok:
					key = "unwritten-or-deleted-point-appeared"
				case gok:
					key = "wrong-value-after-recovery"
				}
				mc.fail(key, fmt.Sprintf("%s: %s %s @%d: recovered=%v(%v) acknowledged-before=%v(%v) if-step-completed=%v(%v)\n recovered: %s\n before:    %s\n after:     %s\n image:     %s",
					what, s, f.Name, t, gv, gok, bv, bok, av, aok, model.Render(got), model.Render(b), model.Render(a), mc.diagnoseImage(nf, s, f.Name)))
			}
		}
	}
	mc.M = rec
	for _, h := range hidden {
		mc.Hidden[pkey(h.series, h.field, h.ts)] = h
	}
	// what is in cache/TSM is unknown after recovery; keep InTSM as an over-approximation
	for k := range mc.InCache {
		mc.InTSM[k] = true
	}
	mc.InCache = map[string]bool{}
	// the shard must accept further writes
	mc.Seq++
	probe := []gen.WPoint{{Series: gen.SeriesKeys[0], T: 5, Fields: map[string]model.Val{"fi": {K: model.Integer, I: int64(1000000 + mc.Seq)}}}}
	if err := mc.F.Write(toModels(probe, mc.Fatal)); err != nil {
		mc.fail("write-after-recovery-rejected", fmt.Sprintf("%s: write after recovery failed: %v", what, err))
	}
	applyWrite(mc.M, probe)
	mc.noteWrite(probe)
	mc.CheckRead(gen.SeriesKeys[0], "fi", 0, 10, true, false)
}

func toMap(ps []model.Point) map[int64]model.Val {
	m := make(map[int64]model.Val, len(ps))
	for _, p := range ps {
		m[p.T] = p.V
	}
	return m
}
