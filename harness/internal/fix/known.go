package fix

import (
	"fmt"

	"verifharness/internal/model"
)

// KeyCursorCyclicKey is the known-finding key for the non-transitive block-location comparator.
const KeyCursorCyclicKey = "keycursor-cyclic-block-order"

// StaleByCyclicOrder decides whether a read mismatch is exactly the signature of the known
// finding keycursor-cyclic-block-order: (1) the returned timestamps are exactly the expected
// ones, in order; (2) every differing value is an OLDER version that was once written at that
// timestamp (never an invented value, never a deleted/missing/duplicated point); (3) the blocks
// of this key that the cursor sorts (for this seek position and direction) make the location
// comparator cyclic, so that sort order — and thereby which file wins the merge — is unspecified.
// Anything else is not this finding.
func StaleByCyclicOrder(dataDir string, m *model.Store, series, field string, lo, hi int64, asc bool, got, want []model.Point) (bool, string) {
	if len(got) != len(want) || len(got) == 0 {
		return false, ""
	}
	diff := 0
	for i := range got {
		if got[i].T != want[i].T {
			return false, ""
		}
		if !got[i].V.Equal(want[i].V) {
			if !m.WasWritten(series, field, got[i].T, got[i].V) {
				return false, ""
			}
			diff++
		}
	}
	if diff == 0 {
		return false, ""
	}
	seek := lo
	if !asc {
		seek = hi
	}
	blocks, err := KeyBlocks(dataDir, []byte(series+"#!~#"+field), seek, asc)
	if err != nil {
		return false, ""
	}
	cyc, w := CyclicOrder(blocks, asc)
	if !cyc {
		return false, ""
	}
	return true, fmt.Sprintf("%d blocks for key; comparator cycle %s[%d,%d] < %s[%d,%d] < %s[%d,%d] < first", len(blocks), w[0].File, w[0].Min, w[0].Max, w[1].File, w[1].Min, w[1].Max, w[2].File, w[2].Min, w[2].Max)
}
