package fix

import (
	"context"
	"fmt"
	"path/filepath"
	"sort"
	"time"

	"github.com/influxdata/influxdb/v2"
	"github.com/influxdata/influxdb/v2/inmem"
	"github.com/influxdata/influxdb/v2/kit/platform"
	"github.com/influxdata/influxdb/v2/models"
	"github.com/influxdata/influxdb/v2/storage"
	"github.com/influxdata/influxdb/v2/storage/reads"
	"github.com/influxdata/influxdb/v2/storage/reads/datatypes"
	"github.com/influxdata/influxdb/v2/tsdb"
	"github.com/influxdata/influxdb/v2/tsdb/cursors"
	"github.com/influxdata/influxdb/v2/tsdb/engine/tsm1"
	"github.com/influxdata/influxdb/v2/v1/services/meta"
	storagev1 "github.com/influxdata/influxdb/v2/v1/services/storage"
	"google.golang.org/protobuf/types/known/anypb"

	"verifharness/internal/model"
)

// Stack is the full storage stack the product runs: storage.Engine (points writer, meta client
// on an in-memory KV store, tsdb.Store with one shard per shard group) plus the v1 storage read
// service. The retention and precreation services are disabled; background snapshot/compaction
// loops are off unless Background is set.
type Stack struct {
	Root       string
	KV         *inmem.KVStore
	Meta       *meta.Client
	Eng        *storage.Engine
	Store      *tsdb.Store
	Reads      *storagev1.Store
	Org        platform.ID
	Bucket     platform.ID
	ShardDur   time.Duration
	Background bool
	// Tweak may adjust the storage config before the engine is built.
	Tweak func(*storage.Config)
}

// NewStack creates a stack under root with one bucket whose shard groups span shardDur.
func NewStack(root string, shardDur time.Duration) (*Stack, error) {
	s := &Stack{Root: root, ShardDur: shardDur, Org: platform.ID(0x1000), Bucket: platform.ID(0x2000)}
	return s, s.Open(true)
}

// Open builds and opens the engine; with create it also creates the bucket.
func (s *Stack) Open(create bool) error {
	ctx := context.Background()
	if s.KV == nil {
		s.KV = inmem.NewKVStore()
		if err := s.KV.CreateBucket(ctx, meta.BucketName); err != nil {
			return err
		}
	}
	mc := meta.NewClient(meta.NewConfig(), s.KV)
	if err := mc.Open(); err != nil {
		return fmt.Errorf("meta open: %w", err)
	}
	s.Meta = mc
	cfg := storage.NewConfig()
	cfg.RetentionService.Enabled = false
	cfg.PrecreatorConfig.Enabled = false
	if s.Tweak != nil {
		s.Tweak(&cfg)
	}
	eng := storage.NewEngine(s.Root, cfg, storage.WithMetaClient(mc))
	st := eng.TSDBStore().(*tsdb.Store)
	st.EngineOptions.CompactionDisabled = !s.Background
	st.EngineOptions.MonitorDisabled = true
	if err := eng.Open(ctx); err != nil {
		return fmt.Errorf("engine open: %w", err)
	}
	s.Eng, s.Store = eng, st
	s.Reads = storagev1.NewStore(eng.TSDBStore(), eng.MetaClient())
	if create {
		if err := eng.CreateBucket(ctx, &influxdb.Bucket{ID: s.Bucket, OrgID: s.Org, ShardGroupDuration: s.ShardDur}); err != nil {
			return fmt.Errorf("create bucket: %w", err)
		}
	}
	return nil
}

// Close closes the engine (the KV store, i.e. the metadata, is kept for Reopen).
func (s *Stack) Close() error {
	if s.Eng == nil {
		return nil
	}
	err := s.Eng.Close()
	s.Eng = nil
	return err
}

// Reopen closes and reopens the engine on the same directory and metadata.
func (s *Stack) Reopen() error {
	if err := s.Close(); err != nil {
		return err
	}
	return s.Open(false)
}

// DB is the database name the bucket maps to in the tsdb layer.
func (s *Stack) DB() string { return s.Bucket.String() }

// Write writes points through Engine.WritePoints (points writer, shard mapping, all shards).
func (s *Stack) Write(pts []models.Point) error {
	return s.Eng.WritePoints(context.Background(), s.Org, s.Bucket, pts)
}

// ShardIDs lists the shards of the bucket, ascending.
func (s *Stack) ShardIDs() []uint64 {
	ids := s.Store.ShardIDs()
	sort.Slice(ids, func(i, j int) bool { return ids[i] < ids[j] })
	return ids
}

// ShardEngine returns the tsm1 engine of a shard.
func (s *Stack) ShardEngine(id uint64) (*tsm1.Engine, error) {
	sh := s.Store.Shard(id)
	if sh == nil {
		return nil, fmt.Errorf("no shard %d", id)
	}
	e, err := sh.Engine()
	if err != nil {
		return nil, err
	}
	return e.(*tsm1.Engine), nil
}

// SnapshotShard writes the cache of one shard to TSM.
func (s *Stack) SnapshotShard(id uint64) error {
	e, err := s.ShardEngine(id)
	if err != nil {
		return err
	}
	return e.WriteSnapshot()
}

// CompactShard runs one planner-driven compaction step on a shard ("forcefull" forces a full plan).
func (s *Stack) CompactShard(id uint64, kind string) (int, error) {
	e, err := s.ShardEngine(id)
	if err != nil {
		return 0, err
	}
	if kind == "forcefull" {
		e.VerifForceFull()
		kind = "full"
	}
	g, err := e.VerifCompactStep(kind)
	return len(g), err
}

// Quiesce stops background loops that a delete may have started (see ShardFix.Quiesce).
func (s *Stack) Quiesce() {
	if s.Background {
		return
	}
	for _, id := range s.ShardIDs() {
		if e, err := s.ShardEngine(id); err == nil {
			e.SetCompactionsEnabled(false)
			e.Compactor.EnableCompactions()
			e.Compactor.EnableSnapshots()
		}
	}
}

// Delete performs a bucket delete (Engine.DeleteBucketRangePredicate).
func (s *Stack) Delete(min, max int64, pred influxdb.Predicate) error {
	err := s.Eng.DeleteBucketRangePredicate(context.Background(), s.Org, s.Bucket, min, max, pred, nil)
	s.Quiesce()
	return err
}

// Source returns the ReadSource for the bucket.
func (s *Stack) Source() (*anypb.Any, error) {
	return anypb.New(s.Reads.GetSource(uint64(s.Org), uint64(s.Bucket)))
}

// SeriesRows is one series (tags include _measurement and _field) with its points.
type SeriesRows struct {
	Tags   models.Tags
	Points []model.Point
}

// Key renders the series identity ("m,tag=v" + "#" + field) for comparison with the model.
func (r SeriesRows) Key() (seriesKey, field string) {
	var name []byte
	var tags models.Tags
	for _, t := range r.Tags {
		switch string(t.Key) {
		case "_measurement", "\x00":
			name = t.Value
		case "_field", "\xff":
			field = string(t.Value)
		default:
			tags = append(tags, t)
		}
	}
	return string(models.MakeKey(name, tags)), field
}

// DrainCursor reads a typed array cursor to exhaustion.
func DrainCursor(cur cursors.Cursor) ([]model.Point, error) {
	var out []model.Point
	if cur == nil {
		return nil, nil
	}
	defer cur.Close()
	switch c := cur.(type) {
	case cursors.FloatArrayCursor:
		for a := c.Next(); a.Len() > 0; a = c.Next() {
			for i := range a.Timestamps {
				out = append(out, model.Point{T: a.Timestamps[i], V: model.Val{K: model.Float, F: a.Values[i]}})
			}
		}
	case cursors.IntegerArrayCursor:
		for a := c.Next(); a.Len() > 0; a = c.Next() {
			for i := range a.Timestamps {
				out = append(out, model.Point{T: a.Timestamps[i], V: model.Val{K: model.Integer, I: a.Values[i]}})
			}
		}
	case cursors.UnsignedArrayCursor:
		for a := c.Next(); a.Len() > 0; a = c.Next() {
			for i := range a.Timestamps {
				out = append(out, model.Point{T: a.Timestamps[i], V: model.Val{K: model.Unsigned, U: a.Values[i]}})
			}
		}
	case cursors.BooleanArrayCursor:
		for a := c.Next(); a.Len() > 0; a = c.Next() {
			for i := range a.Timestamps {
				out = append(out, model.Point{T: a.Timestamps[i], V: model.Val{K: model.Boolean, B: a.Values[i]}})
			}
		}
	case cursors.StringArrayCursor:
		for a := c.Next(); a.Len() > 0; a = c.Next() {
			for i := range a.Timestamps {
				out = append(out, model.Point{T: a.Timestamps[i], V: model.Val{K: model.String, S: a.Values[i]}})
			}
		}
	default:
		return nil, fmt.Errorf("unexpected cursor type %T", cur)
	}
	return out, cur.Err()
}

// DrainResultSet reads a filter result set into series rows (in the order returned).
func DrainResultSet(rs reads.ResultSet) ([]SeriesRows, error) {
	if rs == nil {
		return nil, nil
	}
	defer rs.Close()
	var out []SeriesRows
	for rs.Next() {
		tags := rs.Tags().Clone()
		pts, err := DrainCursor(rs.Cursor())
		if err != nil {
			return out, err
		}
		out = append(out, SeriesRows{Tags: tags, Points: pts})
	}
	return out, rs.Err()
}

// ReadFilter runs a filter read over [start, end) — the storage read service's range is
// half-open: Start inclusive, End exclusive — with an optional predicate.
func (s *Stack) ReadFilter(start, end int64, pred *datatypes.Predicate) ([]SeriesRows, error) {
	src, err := s.Source()
	if err != nil {
		return nil, err
	}
	rs, err := s.Reads.ReadFilter(context.Background(), &datatypes.ReadFilterRequest{
		ReadSource: src, Range: &datatypes.TimestampRange{Start: start, End: end}, Predicate: pred})
	if err != nil {
		return nil, err
	}
	return DrainResultSet(rs)
}

// DataDir returns the tsdb data directory of shard id.
func (s *Stack) DataDir(id uint64) string {
	return filepath.Join(s.Root, "data", s.DB(), meta.DefaultRetentionPolicyName, fmt.Sprint(id))
}
