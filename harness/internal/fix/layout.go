package fix

import (
	"os"
	"path/filepath"
	"sort"

	"github.com/influxdata/influxdb/v2/tsdb/engine/tsm1"
)

// Block is one index entry of a key in one TSM file.
type Block struct {
	File     string
	Min, Max int64
}

// KeyBlocks returns, in file-name (generation) order, the blocks that FileStore.locations would
// hand to a KeyCursor for key (series key + "#!~#" + field) seeking to t: blocks fully covered
// by one of the file's tombstones are skipped, as are blocks wholly before t (ascending) / after
// t (descending).
func KeyBlocks(dataDir string, key []byte, t int64, ascending bool) ([]Block, error) {
	files, _ := filepath.Glob(filepath.Join(dataDir, "*.tsm"))
	sort.Strings(files)
	var out []Block
	for _, fn := range files {
		fd, err := os.Open(fn)
		if err != nil {
			return nil, err
		}
		r, err := tsm1.NewTSMReader(fd)
		if err != nil {
			fd.Close()
			return nil, err
		}
		tombs := r.TombstoneRange(key)
	ENTRIES:
		for _, e := range r.Entries(key) {
			for _, ts := range tombs {
				if ts.Min <= e.MinTime && ts.Max >= e.MaxTime {
					continue ENTRIES
				}
			}
			if ascending && e.MaxTime < t {
				continue
			}
			if !ascending && e.MinTime > t {
				continue
			}
			out = append(out, Block{File: filepath.Base(fn), Min: e.MinTime, Max: e.MaxTime})
		}
		r.Close()
	}
	return out, nil
}

func overlaps(a, b Block) bool { return a.Min <= b.Max && a.Max >= b.Min }

// lessLoc mirrors the comparator KeyCursor sorts block locations with (ascLocations /
// descLocations in file_store.go): overlapping blocks order by file path, others by MinTime
// (ascending) or MaxTime (descending).
func lessLoc(a, b Block, ascending bool) bool {
	if overlaps(a, b) {
		return a.File < b.File
	}
	if ascending {
		return a.Min < b.Min
	}
	return a.Max < b.Max
}

// CyclicOrder reports whether the location comparator is NOT a consistent order on these blocks,
// i.e. there are blocks a<b, b<c with c<a. In that situation the result of sort.Sort — and with
// it which file's value wins in KeyCursor's merge — is unspecified (known finding
// keycursor-cyclic-block-order). Returns one witness triple.
func CyclicOrder(blocks []Block, ascending bool) (bool, [3]Block) {
	n := len(blocks)
	for i := 0; i < n; i++ {
		for j := 0; j < n; j++ {
			if i == j || !lessLoc(blocks[i], blocks[j], ascending) {
				continue
			}
			for k := 0; k < n; k++ {
				if k == i || k == j {
					continue
				}
				if lessLoc(blocks[j], blocks[k], ascending) && lessLoc(blocks[k], blocks[i], ascending) {
					return true, [3]Block{blocks[i], blocks[j], blocks[k]}
				}
			}
		}
	}
	return false, [3]Block{}
}
