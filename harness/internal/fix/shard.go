// Package fix holds fixtures shared by the engine-level harnesses: a real tsdb.Store with one
// shard on a temp directory whose snapshot/compaction schedule is owned by the harness, read-back
// through the public cursor path, and crash-image helpers.
package fix

import (
	"context"
	"errors"
	"fmt"
	"io"
	"os"
	"path/filepath"
	"sort"

	"github.com/influxdata/influxdb/v2/influxql/query"
	"github.com/influxdata/influxdb/v2/models"
	"github.com/influxdata/influxdb/v2/tsdb"
	"github.com/influxdata/influxdb/v2/tsdb/cursors"
	"github.com/influxdata/influxdb/v2/tsdb/engine/tsm1"
	_ "github.com/influxdata/influxdb/v2/tsdb/index/tsi1"
	"github.com/influxdata/influxql"
	"go.uber.org/zap"

	"verifharness/internal/model"
)

const (
	DB      = "db0"
	RP      = "rp0"
	ShardID = uint64(1)
)

// ShardFix is a tsdb.Store holding a single shard. Background snapshot/compaction loops are
// off (EngineOptions.CompactionDisabled), the Compactor itself stays enabled, so snapshots and
// compactions are explicit harness actions going through the real planner/compactor/file store.
type ShardFix struct {
	Root  string
	Store *tsdb.Store
	// Tweak, if set before Open, may adjust engine options (e.g. tiny cache sizes).
	Tweak func(*tsdb.EngineOptions)
	// Background enables the engine's own background loops (wall-clock tiers).
	Background bool
	// Logger, if set, receives the store's and engine's log output (diagnostics).
	Logger *zap.Logger
}

// DataDir / WALDir of the single shard.
func (f *ShardFix) DataDir() string {
	return filepath.Join(f.Root, "data", DB, RP, fmt.Sprint(ShardID))
}
func (f *ShardFix) WALDir() string    { return filepath.Join(f.Root, "wal", DB, RP, fmt.Sprint(ShardID)) }
func (f *ShardFix) SeriesDir() string { return filepath.Join(f.Root, "data", DB, "_series") }

// Open opens (creating if necessary) the store and shard under f.Root.
func (f *ShardFix) Open() error {
	st := tsdb.NewStore(filepath.Join(f.Root, "data"))
	st.EngineOptions.Config.WALDir = filepath.Join(f.Root, "wal")
	st.EngineOptions.Config.Dir = filepath.Join(f.Root, "data")
	st.EngineOptions.CompactionDisabled = !f.Background
	st.EngineOptions.MonitorDisabled = true
	if f.Tweak != nil {
		f.Tweak(&st.EngineOptions)
	}
	if f.Logger != nil {
		st.WithLogger(f.Logger)
	}
	if err := st.Open(context.Background()); err != nil {
		return fmt.Errorf("store open: %w", err)
	}
	f.Store = st
	if st.Shard(ShardID) == nil {
		if err := st.CreateShard(context.Background(), DB, RP, ShardID, true); err != nil {
			return fmt.Errorf("create shard: %w", err)
		}
	}
	if st.Shard(ShardID) == nil {
		return errors.New("shard missing after open")
	}
	return nil
}

// NewShardFix creates a fixture on a fresh temp directory.
func NewShardFix(root string) (*ShardFix, error) {
	f := &ShardFix{Root: root}
	return f, f.Open()
}

// Close closes the store.
func (f *ShardFix) Close() error {
	if f.Store == nil {
		return nil
	}
	err := f.Store.Close()
	f.Store = nil
	return err
}

// Reopen closes and opens again.
func (f *ShardFix) Reopen() error {
	if err := f.Close(); err != nil {
		return fmt.Errorf("close: %w", err)
	}
	return f.Open()
}

// Shard returns the shard.
func (f *ShardFix) Shard() *tsdb.Shard {
	if f.Store == nil {
		return nil
	}
	return f.Store.Shard(ShardID)
}

// Engine returns the concrete tsm1 engine.
func (f *ShardFix) Engine() (*tsm1.Engine, error) {
	sh := f.Shard()
	if sh == nil {
		return nil, errors.New("shard not open")
	}
	e, err := sh.Engine()
	if err != nil {
		return nil, err
	}
	te, ok := e.(*tsm1.Engine)
	if !ok {
		return nil, fmt.Errorf("engine is %T", e)
	}
	return te, nil
}

// Quiesce stops the engine's background loops if something (e.g. the enable call at the end of
// a delete) started them, and leaves the Compactor enabled, so the schedule stays owned.
func (f *ShardFix) Quiesce() {
	if f.Background {
		return
	}
	if e, err := f.Engine(); err == nil {
		e.SetCompactionsEnabled(false)
		e.Compactor.EnableCompactions()
		e.Compactor.EnableSnapshots()
	}
}

// Write writes points through Shard.WritePoints.
func (f *ShardFix) Write(pts []models.Point) error {
	return f.Shard().WritePoints(context.Background(), pts)
}

// Snapshot writes the cache to a TSM file (Engine.WriteSnapshot).
func (f *ShardFix) Snapshot() error {
	e, err := f.Engine()
	if err != nil {
		return err
	}
	return e.WriteSnapshot()
}

// Compact runs one planner-driven compaction step of the given kind; returns #files compacted.
func (f *ShardFix) Compact(kind string) (int, error) {
	g, err := f.CompactGroup(kind)
	return len(g), err
}

// CompactGroup is Compact returning the compacted group (file paths).
func (f *ShardFix) CompactGroup(kind string) ([]string, error) {
	e, err := f.Engine()
	if err != nil {
		return nil, err
	}
	if kind == "forcefull" {
		e.VerifForceFull()
		kind = "full"
	}
	g, err := e.VerifCompactStep(kind)
	return []string(g), err
}

// Generation parses the generation number out of a TSM file name (000000012-000000003.tsm -> 12).
func Generation(path string) int {
	var g, s int
	fmt.Sscanf(filepath.Base(path), "%d-%d.tsm", &g, &s)
	return g
}

// NonContiguous reports whether group (file paths) skips a generation that exists in `existing`
// (file paths present when the group was planned): some existing generation lies strictly between
// the group's lowest and highest generation without being part of the group. Merging such a group
// places older data after a newer intermediate generation (known finding full-plan-skips-generation).
func NonContiguous(group, existing []string) (bool, int) {
	if len(group) == 0 {
		return false, 0
	}
	in := map[int]bool{}
	lo, hi := 1<<62, -1
	for _, p := range group {
		g := Generation(p)
		in[g] = true
		if g < lo {
			lo = g
		}
		if g > hi {
			hi = g
		}
	}
	for _, p := range existing {
		g := Generation(p)
		if g > lo && g < hi && !in[g] {
			return true, g
		}
	}
	return false, 0
}

// FullPlanSkipsKey is the known-finding key for non-contiguous full/optimize compaction groups.
const FullPlanSkipsKey = "full-plan-skips-generation"

// TSMFiles lists the shard's .tsm files (sorted).
func (f *ShardFix) TSMFiles() []string {
	m, _ := filepath.Glob(filepath.Join(f.DataDir(), "*.tsm"))
	sort.Strings(m)
	return m
}

// seriesIter is a tsdb.SeriesIterator over explicit series keys.
type seriesIter struct {
	keys [][]byte
	i    int
}
type seriesElem struct {
	name []byte
	tags models.Tags
}

func (e seriesElem) Name() []byte        { return e.name }
func (e seriesElem) Tags() models.Tags   { return e.tags }
func (e seriesElem) Deleted() bool       { return false }
func (e seriesElem) Expr() influxql.Expr { return nil }
func (it *seriesIter) Close() error      { return nil }
func (it *seriesIter) Next() (tsdb.SeriesElem, error) {
	if it.i >= len(it.keys) {
		return nil, nil
	}
	name, tags := models.ParseKeyBytes(it.keys[it.i])
	it.i++
	return seriesElem{name: name, tags: tags}, nil
}

// NewSeriesIter returns a tsdb.SeriesIterator over explicit series keys (sorted first).
func NewSeriesIter(seriesKeys []string) tsdb.SeriesIterator {
	ks := append([]string(nil), seriesKeys...)
	sort.Strings(ks)
	it := &seriesIter{}
	for _, k := range ks {
		it.keys = append(it.keys, []byte(k))
	}
	return it
}

// DeleteRange deletes [min,max] (inclusive) of the given series keys ("m,tag=v" form) through
// Shard.DeleteSeriesRange. Keys are sorted first (the engine requires sorted input).
func (f *ShardFix) DeleteRange(seriesKeys []string, min, max int64) error {
	ks := append([]string(nil), seriesKeys...)
	sort.Strings(ks)
	it := &seriesIter{}
	for _, k := range ks {
		it.keys = append(it.keys, []byte(k))
	}
	err := f.Shard().DeleteSeriesRange(context.Background(), it, min, max)
	f.Quiesce()
	return err
}

// Read returns the points of (series key, field) in [start,end] through the public cursor path
// (Shard.CreateCursorIterator). start/end must lie within [models.MinNanoTime, models.MaxNanoTime].
func (f *ShardFix) Read(seriesKey, field string, start, end int64, asc bool) ([]model.Point, error) {
	return ReadShard(f.Shard(), seriesKey, field, start, end, asc)
}

// ReadShard is Read for any shard.
func ReadShard(sh *tsdb.Shard, seriesKey, field string, start, end int64, asc bool) ([]model.Point, error) {
	ctx := context.Background()
	ci, err := sh.CreateCursorIterator(ctx)
	if err != nil {
		return nil, err
	}
	name, tags := models.ParseKeyBytes([]byte(seriesKey))
	cur, err := ci.Next(ctx, &cursors.CursorRequest{Name: name, Tags: tags, Field: field, Ascending: asc, StartTime: start, EndTime: end})
	if err != nil {
		return nil, err
	}
	if cur == nil {
		return nil, nil
	}
	defer cur.Close()
	var out []model.Point
	switch c := cur.(type) {
	case cursors.FloatArrayCursor:
		for {
			a := c.Next()
			if a.Len() == 0 {
				break
			}
			for i := range a.Timestamps {
				out = append(out, model.Point{T: a.Timestamps[i], V: model.Val{K: model.Float, F: a.Values[i]}})
			}
		}
	case cursors.IntegerArrayCursor:
		for {
			a := c.Next()
			if a.Len() == 0 {
				break
			}
			for i := range a.Timestamps {
				out = append(out, model.Point{T: a.Timestamps[i], V: model.Val{K: model.Integer, I: a.Values[i]}})
			}
		}
	case cursors.UnsignedArrayCursor:
		for {
			a := c.Next()
			if a.Len() == 0 {
				break
			}
			for i := range a.Timestamps {
				out = append(out, model.Point{T: a.Timestamps[i], V: model.Val{K: model.Unsigned, U: a.Values[i]}})
			}
		}
	case cursors.BooleanArrayCursor:
		for {
			a := c.Next()
			if a.Len() == 0 {
				break
			}
			for i := range a.Timestamps {
				out = append(out, model.Point{T: a.Timestamps[i], V: model.Val{K: model.Boolean, B: a.Values[i]}})
			}
		}
	case cursors.StringArrayCursor:
		for {
			a := c.Next()
			if a.Len() == 0 {
				break
			}
			for i := range a.Timestamps {
				out = append(out, model.Point{T: a.Timestamps[i], V: model.Val{K: model.String, S: a.Values[i]}})
			}
		}
	default:
		return nil, fmt.Errorf("unexpected cursor type %T", cur)
	}
	if err := cur.Err(); err != nil {
		return out, err
	}
	return out, nil
}

// ReadInfluxQL reads the same range through the InfluxQL iterator path (Shard.CreateIterator),
// a second, independent reader. Returns points in the requested order.
func (f *ShardFix) ReadInfluxQL(seriesKey, field string, kind model.Kind, start, end int64, asc bool) ([]model.Point, error) {
	name, tags := models.ParseKeyBytes([]byte(seriesKey))
	var cond influxql.Expr
	for _, t := range tags {
		e := &influxql.BinaryExpr{Op: influxql.EQ, LHS: &influxql.VarRef{Val: string(t.Key), Type: influxql.Tag}, RHS: &influxql.StringLiteral{Val: string(t.Value)}}
		if cond == nil {
			cond = e
		} else {
			cond = &influxql.BinaryExpr{Op: influxql.AND, LHS: cond, RHS: e}
		}
	}
	typ := map[model.Kind]influxql.DataType{model.Float: influxql.Float, model.Integer: influxql.Integer, model.Unsigned: influxql.Unsigned, model.Boolean: influxql.Boolean, model.String: influxql.String}[kind]
	var dims []string
	for _, t := range tags {
		dims = append(dims, string(t.Key))
	}
	opt := query.IteratorOptions{
		Expr:       &influxql.VarRef{Val: field, Type: typ},
		Dimensions: dims,
		Condition:  cond,
		StartTime:  start, EndTime: end, Ascending: asc, Ordered: true,
	}
	sh := f.Shard()
	if sh == nil {
		return nil, errors.New("shard not open")
	}
	itr, err := sh.CreateIterator(context.Background(), &influxql.Measurement{Name: string(name)}, opt)
	if err != nil {
		return nil, err
	}
	if itr == nil {
		return nil, nil
	}
	defer itr.Close()
	wantTags := tags.String()
	var out []model.Point
	keep := func(ptTags query.Tags) bool {
		// the condition selects series having these tag values; series with EXTRA tags are
		// grouped separately through Dimensions only if the extra key is a dimension. Filter by
		// exact tag-set identity on the dimension keys.
		_ = wantTags
		for _, t := range tags {
			if ptTags.Value(string(t.Key)) != string(t.Value) {
				return false
			}
		}
		return true
	}
	switch it := itr.(type) {
	case query.FloatIterator:
		for {
			p, err := it.Next()
			if err != nil {
				return out, err
			}
			if p == nil {
				break
			}
			if keep(p.Tags) && !p.Nil {
				out = append(out, model.Point{T: p.Time, V: model.Val{K: model.Float, F: p.Value}})
			}
		}
	case query.IntegerIterator:
		for {
			p, err := it.Next()
			if err != nil {
				return out, err
			}
			if p == nil {
				break
			}
			if keep(p.Tags) && !p.Nil {
				out = append(out, model.Point{T: p.Time, V: model.Val{K: model.Integer, I: p.Value}})
			}
		}
	case query.UnsignedIterator:
		for {
			p, err := it.Next()
			if err != nil {
				return out, err
			}
			if p == nil {
				break
			}
			if keep(p.Tags) && !p.Nil {
				out = append(out, model.Point{T: p.Time, V: model.Val{K: model.Unsigned, U: p.Value}})
			}
		}
	case query.BooleanIterator:
		for {
			p, err := it.Next()
			if err != nil {
				return out, err
			}
			if p == nil {
				break
			}
			if keep(p.Tags) && !p.Nil {
				out = append(out, model.Point{T: p.Time, V: model.Val{K: model.Boolean, B: p.Value}})
			}
		}
	case query.StringIterator:
		for {
			p, err := it.Next()
			if err != nil {
				return out, err
			}
			if p == nil {
				break
			}
			if keep(p.Tags) && !p.Nil {
				out = append(out, model.Point{T: p.Time, V: model.Val{K: model.String, S: p.Value}})
			}
		}
	default:
		return nil, fmt.Errorf("unexpected iterator type %T", itr)
	}
	return out, nil
}

// CopyTree copies a directory tree byte-for-byte as it is on disk right now (a crash image:
// exactly what a kill -9 at this instant would leave; user-space buffers are not included).
func CopyTree(src, dst string) error {
	return filepath.Walk(src, func(p string, info os.FileInfo, err error) error {
		if err != nil {
			if os.IsNotExist(err) {
				return nil // file vanished while walking (concurrent rename/remove)
			}
			return err
		}
		rel, _ := filepath.Rel(src, p)
		target := filepath.Join(dst, rel)
		if info.IsDir() {
			return os.MkdirAll(target, 0o777)
		}
		if !info.Mode().IsRegular() {
			return nil
		}
		in, err := os.Open(p)
		if err != nil {
			if os.IsNotExist(err) {
				return nil
			}
			return err
		}
		defer in.Close()
		out, err := os.Create(target)
		if err != nil {
			return err
		}
		if _, err := io.Copy(out, in); err != nil {
			out.Close()
			return err
		}
		return out.Close()
	})
}
