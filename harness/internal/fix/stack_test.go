package fix

import (
	"os"
	"testing"
	"time"

	"github.com/influxdata/influxdb/v2/models"

	"verifharness/internal/scratch"
)

func TestStackSmoke(t *testing.T) {
	dir, _ := scratch.Dir("stack-")
	defer os.RemoveAll(dir)
	s, err := NewStack(dir, time.Hour)
	if err != nil {
		t.Fatal(err)
	}
	defer s.Close()
	var pts []models.Point
	for i := 0; i < 5; i++ {
		p, _ := models.NewPoint("m", models.NewTags(map[string]string{"host": "a"}), models.Fields{"v": float64(i)}, time.Unix(int64(i)*3000, 0))
		pts = append(pts, p)
	}
	if err := s.Write(pts); err != nil {
		t.Fatal(err)
	}
	rows, err := s.ReadFilter(0, 1<<62, nil)
	if err != nil {
		t.Fatal(err)
	}
	if len(rows) != 1 || len(rows[0].Points) != 5 {
		t.Fatalf("rows %+v", rows)
	}
	k, f := rows[0].Key()
	if k != "m,host=a" || f != "v" {
		t.Fatalf("key %q field %q tags %v", k, f, rows[0].Tags)
	}
	if len(s.ShardIDs()) < 2 {
		t.Fatalf("shards %v", s.ShardIDs())
	}
	if err := s.Reopen(); err != nil {
		t.Fatal(err)
	}
	rows, _ = s.ReadFilter(0, 1<<62, nil)
	if len(rows) != 1 || len(rows[0].Points) != 5 {
		t.Fatalf("after reopen rows %+v", rows)
	}
}
