package refwin

import (
	"math"
	"testing"
	"time"
)

func ts(s string) int64 {
	t, err := time.Parse(time.RFC3339Nano, s)
	if err != nil {
		panic(err)
	}
	return t.UnixNano()
}

// Hand-computed examples (number lines of the interval.Window documentation, Flux window() docs).
func TestBoundsHandComputed(t *testing.T) {
	cases := []struct {
		w           Window
		t           int64
		start, stop int64
	}{
		{Window{Every: Ns(5), Offset: Ns(3)}, 14, 13, 18},
		{Window{Every: Ns(5), Offset: Ns(3)}, 13, 13, 18},
		{Window{Every: Ns(5), Offset: Ns(3)}, -9, -12, -7},
		{Window{Every: Ns(5), Offset: Ns(3)}, -7, -7, -2},
		{Window{Every: Ns(10)}, 0, 0, 10},
		{Window{Every: Ns(10)}, -1, -10, 0},
		{Window{Every: Ns(10), Offset: Ns(-3)}, 7, 7, 17},
		{Window{Every: Ns(10), Offset: Ns(27)}, 6, -3, 7},
		{Window{Every: Mo(1)}, ts("2021-02-15T10:00:00Z"), ts("2021-02-01T00:00:00Z"), ts("2021-03-01T00:00:00Z")},
		{Window{Every: Mo(1)}, ts("1969-12-31T23:59:59.999999999Z"), ts("1969-12-01T00:00:00Z"), ts("1970-01-01T00:00:00Z")},
		{Window{Every: Mo(3)}, ts("2020-05-31T00:00:00Z"), ts("2020-04-01T00:00:00Z"), ts("2020-07-01T00:00:00Z")},
		{Window{Every: Mo(12)}, ts("2020-02-29T12:00:00Z"), ts("2020-01-01T00:00:00Z"), ts("2021-01-01T00:00:00Z")},
		{Window{Every: Mo(1), Offset: Duration{Nsecs: int64(5 * 24 * time.Hour)}}, ts("2021-03-05T23:00:00Z"), ts("2021-02-06T00:00:00Z"), ts("2021-03-06T00:00:00Z")},
		{Window{Every: Mo(2), Offset: Mo(1)}, ts("2021-01-15T00:00:00Z"), ts("2020-12-01T00:00:00Z"), ts("2021-02-01T00:00:00Z")},
		{Window{Every: Mo(1), Offset: Mo(-1)}, ts("1970-01-15T00:00:00Z"), ts("1970-01-01T00:00:00Z"), ts("1970-02-01T00:00:00Z")},
	}
	for i, c := range cases {
		b, ok := c.w.Bounds(c.t)
		if !ok || b.Start != c.start || b.Stop != c.stop {
			t.Errorf("case %d: got %+v ok=%v, want [%d,%d)", i, b, ok, c.start, c.stop)
		}
	}
}

func TestBoundsRefusals(t *testing.T) {
	if _, ok := (Window{Every: Ns(10)}).Bounds(math.MaxInt64); ok {
		t.Error("stop beyond MaxInt64 must be refused")
	}
	if _, ok := (Window{Every: Ns(10), Offset: Ns(5)}).Bounds(math.MinInt64); ok {
		t.Error("t-offset overflow must be refused")
	}
	if _, ok := (Window{Every: Mo(1), Offset: Ns(int64(29 * 24 * time.Hour))}).Bounds(0); ok {
		t.Error("anchor on day 30 must be refused")
	}
	for _, w := range []Window{{}, {Every: Duration{Months: 1, Nsecs: 1}}, {Every: Duration{Nsecs: 1, Negative: true}}} {
		if w.Check() == nil {
			t.Errorf("%+v must be invalid", w)
		}
	}
}

func TestEnumerateAndGroup(t *testing.T) {
	w := Window{Every: Ns(10), Offset: Ns(3)}
	bs, ok := w.Enumerate(0, 25, 0)
	want := []Bound{{-7, 3}, {3, 13}, {13, 23}, {23, 33}}
	if !ok || len(bs) != len(want) {
		t.Fatalf("got %v", bs)
	}
	for i := range bs {
		if bs[i] != want[i] {
			t.Fatalf("got %v", bs)
		}
	}
	if c := bs[0].Clip(0, 25); c != (Bound{0, 3}) {
		t.Fatalf("clip %v", c)
	}
	pts := []Point[int64]{{1, 5}, {2, -1}, {3, 7}, {12, 7}, {40, 2}}
	g, ok := Group(w, pts)
	if !ok || len(g) != 3 || g[0].Start != -7 || len(g[0].Points) != 2 || g[1].Start != 3 || g[2].Start != 33 {
		t.Fatalf("group %+v", g)
	}
	if Count(g[1].Points) != 2 || Sum(g[1].Points) != 14 {
		t.Fatal("count/sum")
	}
	if m, _ := Mean(g[0].Points); m != 2 {
		t.Fatal("mean")
	}
	if v, at, _ := Max(g[1].Points); v != 7 || len(at) != 2 {
		t.Fatal("max ties")
	}
	if v, at, _ := Min(g[0].Points); v != -1 || len(at) != 1 || at[0] != 2 {
		t.Fatal("min")
	}
	if f, _ := First(g[0].Points); f.T != 1 {
		t.Fatal("first")
	}
	if l, _ := Last(g[1].Points); l.T != 12 {
		t.Fatal("last")
	}
}
