// Package refwin is the reference windowing / aggregation model shared by the window-aggregate
// properties (C20: storage/reads window aggregates, C41: Flux storage reader tables).
//
// It is written from the documented definition of tumbling windows only
// (flux `window()` / interval.Window doc comment: "the i-th window start is zero + every*i,
// zero = epoch + offset, windows are [start, start+every)") and shares no code with
// github.com/influxdata/flux/interval or storage/reads:
//
//   - nanosecond windows: start = floor((t-offset)/every)*every + offset, checked int64 arithmetic;
//   - calendar (month) windows: the k-th boundary is the anchor (1970-01-01T00:00:00Z plus the
//     offset) moved by k*every calendar months in UTC; the window containing t is found by
//     searching k with boundary(k) <= t < boundary(k+1) (no closed formula, on purpose).
//
// Everything that the definition leaves open is reported as ok=false instead of being guessed:
// bounds not representable as int64 nanoseconds, and month windows whose anchor falls on a day of
// month > 28 (adding months would need a day-clamping rule that the documentation does not fix).
//
// API overview:
//
//	w := refwin.Window{Every: refwin.Ns(10), Offset: refwin.Ns(-3)}      // or Duration{Months: 1}
//	if err := w.Check(); err != nil { ... }                              // zero / negative / mixed every
//	b, ok := w.Bounds(t)                                                  // window [b.Start,b.Stop) containing t
//	bs, ok := w.Enumerate(lo, hi)                                         // all windows intersecting [lo,hi), ascending
//	b.Clip(lo, hi)                                                        // intersection with query bounds
//	buckets, ok := refwin.Group(w, points)                                // non-empty windows, ascending, with their points
//	refwin.Count(pts) / Sum / SumAbs / Mean / Min / Max / First / Last    // per-window aggregates
package refwin

import (
	"errors"
	"math"
	"math/big"
	"sort"
	"time"
)

// Duration mirrors the wire form of a Flux duration (datatypes.Duration): a number of calendar
// months and a number of nanoseconds that share one sign.
type Duration struct {
	Months   int64
	Nsecs    int64
	Negative bool
}

// Ns returns the nanosecond-only duration n (n may be negative). n must not be math.MinInt64.
func Ns(n int64) Duration {
	if n < 0 {
		return Duration{Nsecs: -n, Negative: true}
	}
	return Duration{Nsecs: n}
}

// Mo returns the months-only duration m (m may be negative).
func Mo(m int64) Duration {
	if m < 0 {
		return Duration{Months: -m, Negative: true}
	}
	return Duration{Months: m}
}

// IsZero reports whether the duration has no months and no nanoseconds.
func (d Duration) IsZero() bool { return d.Months == 0 && d.Nsecs == 0 }

func (d Duration) signedMonths() int64 {
	if d.Negative {
		return -d.Months
	}
	return d.Months
}

func (d Duration) signedNsecs() int64 {
	if d.Negative {
		return -d.Nsecs
	}
	return d.Nsecs
}

// Window is a set of tumbling windows (period == every): boundaries at
// epoch + Offset + k*Every for every integer k.
type Window struct {
	Every  Duration
	Offset Duration
}

// Check reports whether Every is usable as an interval, following the documented restrictions:
// not zero, not negative, not a mix of months and nanoseconds.
func (w Window) Check() error {
	switch {
	case w.Every.IsZero():
		return errors.New("refwin: every is zero")
	case w.Every.Negative:
		return errors.New("refwin: every is negative")
	case w.Every.Months != 0 && w.Every.Nsecs != 0:
		return errors.New("refwin: every mixes months and nanoseconds")
	case w.Every.Months < 0 || w.Every.Nsecs < 0 || w.Offset.Months < 0 || w.Offset.Nsecs < 0:
		return errors.New("refwin: negative magnitude (use the Negative flag)")
	}
	return nil
}

// Calendar reports whether the window is a calendar-month window.
func (w Window) Calendar() bool { return w.Every.Months != 0 }

// Bound is one window [Start, Stop) in nanoseconds since the Unix epoch.
type Bound struct {
	Start int64
	Stop  int64
}

// Contains reports Start <= t < Stop.
func (b Bound) Contains(t int64) bool { return b.Start <= t && t < b.Stop }

// Clip returns the intersection of the window with [lo, hi) (possibly empty: Start >= Stop).
func (b Bound) Clip(lo, hi int64) Bound {
	if b.Start < lo {
		b.Start = lo
	}
	if b.Stop > hi {
		b.Stop = hi
	}
	return b
}

// ---------------------------------------------------------------------------------------------
// checked arithmetic

func addOK(a, b int64) (int64, bool) {
	c := a + b
	if (b > 0 && c < a) || (b < 0 && c > a) {
		return 0, false
	}
	return c, true
}

func subOK(a, b int64) (int64, bool) {
	c := a - b
	if (b > 0 && c > a) || (b < 0 && c < a) {
		return 0, false
	}
	return c, true
}

func mulOK(a, b int64) (int64, bool) {
	if a == 0 || b == 0 {
		return 0, true
	}
	c := a * b
	if c/b != a || (a == -1 && b == math.MinInt64) || (b == -1 && a == math.MinInt64) {
		return 0, false
	}
	return c, true
}

func floorDiv(a, b int64) int64 { // b > 0
	q := a / b
	if a%b != 0 && a < 0 {
		q--
	}
	return q
}

// ---------------------------------------------------------------------------------------------
// bounds

// Bounds returns the window that contains t. ok is false when the window is invalid, when a
// bound does not fit into int64 nanoseconds, or when the calendar anchor is ambiguous (see the
// package comment); callers must then not assert anything about t's window.
func (w Window) Bounds(t int64) (Bound, bool) {
	if w.Check() != nil {
		return Bound{}, false
	}
	if !w.Calendar() {
		return w.nsBounds(t)
	}
	return w.calBounds(t)
}

func (w Window) nsBounds(t int64) (Bound, bool) {
	if w.Offset.Months != 0 {
		// a calendar offset on a nanosecond window: anchor = epoch moved by the months, then ns
		z, ok := w.anchor()
		if !ok {
			return Bound{}, false
		}
		return nsBoundsFrom(z, w.Every.Nsecs, t)
	}
	return nsBoundsFrom(w.Offset.signedNsecs(), w.Every.Nsecs, t)
}

func nsBoundsFrom(zero, every, t int64) (Bound, bool) {
	d, ok := subOK(t, zero)
	if !ok {
		return Bound{}, false
	}
	q := floorDiv(d, every)
	m, ok := mulOK(q, every)
	if !ok {
		return Bound{}, false
	}
	start, ok := addOK(zero, m)
	if !ok {
		return Bound{}, false
	}
	stop, ok := addOK(start, every)
	if !ok {
		return Bound{}, false
	}
	return Bound{start, stop}, true
}

var (
	minT = time.Unix(0, math.MinInt64).UTC()
	maxT = time.Unix(0, math.MaxInt64).UTC()
)

// anchor returns epoch + offset (months first, in calendar arithmetic, then nanoseconds).
func (w Window) anchor() (int64, bool) {
	z := time.Unix(0, 0).UTC()
	if m := w.Offset.signedMonths(); m != 0 {
		var ok bool
		z, ok = addMonths(z, m)
		if !ok {
			return 0, false
		}
	}
	zn, ok := unixNanoOK(z)
	if !ok {
		return 0, false
	}
	return addOK(zn, w.Offset.signedNsecs())
}

func unixNanoOK(t time.Time) (int64, bool) {
	if t.Before(minT) || t.After(maxT) {
		return 0, false
	}
	return t.UnixNano(), true
}

// addMonths moves t by m calendar months keeping day of month and clock time. It refuses
// (ok=false) when the day of month is > 28: the result would depend on a clamping rule.
func addMonths(t time.Time, m int64) (time.Time, bool) {
	y, mo, d := t.Date()
	if d > 28 {
		return time.Time{}, false
	}
	if m > 12*600 || m < -12*600 {
		return time.Time{}, false // far outside the int64-nanosecond range anyway
	}
	h, mi, s := t.Clock()
	total := int64(y)*12 + int64(mo-1) + m
	ny := floorDiv(total, 12)
	nm := total - ny*12
	return time.Date(int(ny), time.Month(nm+1), d, h, mi, s, t.Nanosecond(), time.UTC), true
}

func (w Window) calBoundary(anchor time.Time, k int64) (int64, bool) {
	m, ok := mulOK(k, w.Every.Months)
	if !ok {
		return 0, false
	}
	b, ok := addMonths(anchor, m)
	if !ok {
		return 0, false
	}
	return unixNanoOK(b)
}

func (w Window) calBounds(t int64) (Bound, bool) {
	zn, ok := w.anchor()
	if !ok {
		return Bound{}, false
	}
	anchor := time.Unix(0, zn).UTC()
	tt := time.Unix(0, t).UTC()
	ay, am, _ := anchor.Date()
	ty, tm, _ := tt.Date()
	// rough estimate, then search: the result is the k with boundary(k) <= t < boundary(k+1)
	k := floorDiv((int64(ty)*12+int64(tm))-(int64(ay)*12+int64(am)), w.Every.Months)
	for i := 0; i < 8; i++ {
		lo, ok := w.calBoundary(anchor, k)
		if !ok {
			return Bound{}, false
		}
		if lo > t {
			k--
			continue
		}
		hi, ok := w.calBoundary(anchor, k+1)
		if !ok {
			return Bound{}, false
		}
		if hi <= t {
			k++
			continue
		}
		return Bound{lo, hi}, true
	}
	return Bound{}, false
}

// Enumerate returns every window that intersects [lo, hi), ascending and unclipped (use Clip).
// ok is false when any of them is not representable (see Bounds) or when there are more than
// max windows (max <= 0 means 1<<20).
func (w Window) Enumerate(lo, hi int64, max int) ([]Bound, bool) {
	if max <= 0 {
		max = 1 << 20
	}
	if lo >= hi {
		return nil, true
	}
	var out []Bound
	b, ok := w.Bounds(lo)
	if !ok {
		return nil, false
	}
	for {
		out = append(out, b)
		if len(out) > max {
			return nil, false
		}
		if b.Stop >= hi {
			return out, true
		}
		nb, ok := w.Bounds(b.Stop)
		if !ok || nb.Start != b.Stop {
			return nil, false
		}
		b = nb
	}
}

// ---------------------------------------------------------------------------------------------
// grouping

// Point is one raw point.
type Point[V any] struct {
	T int64
	V V
}

// Bucket is one non-empty window together with its points (in input order).
type Bucket[V any] struct {
	Bound
	Points []Point[V]
}

// Group assigns every point to its window and returns the non-empty windows in ascending order
// of Start. The points of a bucket keep their input order (feed ascending points to get
// ascending buckets). ok is false when the window of any point is not defined (see Bounds).
func Group[V any](w Window, pts []Point[V]) ([]Bucket[V], bool) {
	idx := map[int64]int{}
	var out []Bucket[V]
	for _, p := range pts {
		b, ok := w.Bounds(p.T)
		if !ok {
			return nil, false
		}
		i, seen := idx[b.Start]
		if !seen {
			i = len(out)
			idx[b.Start] = i
			out = append(out, Bucket[V]{Bound: b})
		}
		out[i].Points = append(out[i].Points, p)
	}
	sort.SliceStable(out, func(i, j int) bool { return out[i].Start < out[j].Start })
	return out, true
}

// ---------------------------------------------------------------------------------------------
// aggregates (over the points of one window; callers handle the empty window themselves)

// Number is the set of value types that have sum / mean / min / max.
type Number interface {
	~int64 | ~uint64 | ~float64
}

// Count is the number of points.
func Count[V any](pts []Point[V]) int64 { return int64(len(pts)) }

// Sum adds the values in input order in the value's own type (integers wrap like Go's).
func Sum[V Number](pts []Point[V]) V {
	var s V
	for _, p := range pts {
		s += p.V
	}
	return s
}

// SumAbs is the sum of |v| as float64: the scale against which a floating-point sum or mean
// computed in a different order may legitimately differ.
func SumAbs[V Number](pts []Point[V]) float64 {
	var s float64
	for _, p := range pts {
		s += math.Abs(float64(p.V))
	}
	return s
}

// SumExact returns the mathematically exact sum (no wrap-around, no rounding) when every value is
// finite; ok is false otherwise.
func SumExact[V Number](pts []Point[V]) (*big.Float, bool) {
	s := new(big.Float).SetPrec(2200)
	for _, p := range pts {
		var x *big.Float
		switch v := any(p.V).(type) {
		case int64:
			x = new(big.Float).SetPrec(2200).SetInt64(v)
		case uint64:
			x = new(big.Float).SetPrec(2200).SetUint64(v)
		case float64:
			if math.IsInf(v, 0) || math.IsNaN(v) {
				return nil, false
			}
			x = new(big.Float).SetPrec(2200).SetFloat64(v)
		default:
			return nil, false
		}
		s.Add(s, x)
	}
	return s, true
}

// Mean is the arithmetic mean as float64: the exact sum divided by the count, rounded once.
// ok is false for an empty window or non-finite values.
func Mean[V Number](pts []Point[V]) (float64, bool) {
	if len(pts) == 0 {
		return 0, false
	}
	s, ok := SumExact(pts)
	if !ok {
		return 0, false
	}
	q := new(big.Float).SetPrec(2200).Quo(s, new(big.Float).SetPrec(2200).SetInt64(int64(len(pts))))
	f, _ := q.Float64()
	return f, true
}

// Min returns the smallest value and the timestamps of all points that carry it (ties are not
// ordered by the definition). Float NaN values are not supported (ok=false).
func Min[V Number](pts []Point[V]) (v V, at []int64, ok bool) {
	return extreme(pts, func(a, b V) bool { return a < b })
}

// Max returns the largest value and the timestamps of all points that carry it.
func Max[V Number](pts []Point[V]) (v V, at []int64, ok bool) {
	return extreme(pts, func(a, b V) bool { return a > b })
}

func extreme[V Number](pts []Point[V], better func(a, b V) bool) (v V, at []int64, ok bool) {
	if len(pts) == 0 {
		return v, nil, false
	}
	for _, p := range pts {
		if p.V != p.V { // NaN
			return v, nil, false
		}
	}
	v = pts[0].V
	for _, p := range pts[1:] {
		if better(p.V, v) {
			v = p.V
		}
	}
	for _, p := range pts {
		if p.V == v {
			at = append(at, p.T)
		}
	}
	return v, at, true
}

// First returns the point with the smallest timestamp (the earliest in input order among equal
// timestamps). ok is false for an empty window.
func First[V any](pts []Point[V]) (Point[V], bool) {
	if len(pts) == 0 {
		return Point[V]{}, false
	}
	f := pts[0]
	for _, p := range pts[1:] {
		if p.T < f.T {
			f = p
		}
	}
	return f, true
}

// Last returns the point with the largest timestamp (the latest in input order among equal
// timestamps). ok is false for an empty window.
func Last[V any](pts []Point[V]) (Point[V], bool) {
	if len(pts) == 0 {
		return Point[V]{}, false
	}
	l := pts[0]
	for _, p := range pts[1:] {
		if p.T >= l.T {
			l = p
		}
	}
	return l, true
}
