// Package model holds the reference models shared by the engine-level harnesses.
//
// Store is the point-store model: (series key, field) -> timestamp -> value with
// last-write-wins on equal timestamps and closed-range deletes. It knows nothing about caches,
// WAL, TSM files, shards or compactions.
package model

import (
	"fmt"
	"math"
	"sort"
	"strings"
)

// Kind is a field value type.
type Kind int

const (
	Float Kind = iota
	Integer
	Unsigned
	Boolean
	String
)

func (k Kind) String() string {
	return [...]string{"float", "integer", "unsigned", "boolean", "string"}[k]
}

// Val is a typed field value.
type Val struct {
	K Kind
	F float64
	I int64
	U uint64
	B bool
	S string
}

// Equal compares two values; floats bit-for-bit.
func (v Val) Equal(o Val) bool {
	if v.K != o.K {
		return false
	}
	switch v.K {
	case Float:
		return math.Float64bits(v.F) == math.Float64bits(o.F)
	case Integer:
		return v.I == o.I
	case Unsigned:
		return v.U == o.U
	case Boolean:
		return v.B == o.B
	default:
		return v.S == o.S
	}
}

// Interface returns the Go value as models.Fields expects it.
func (v Val) Interface() any {
	switch v.K {
	case Float:
		return v.F
	case Integer:
		return v.I
	case Unsigned:
		return v.U
	case Boolean:
		return v.B
	default:
		return v.S
	}
}

func (v Val) String() string {
	switch v.K {
	case Float:
		return fmt.Sprintf("f:%v(%#x)", v.F, math.Float64bits(v.F))
	case Integer:
		return fmt.Sprintf("i:%d", v.I)
	case Unsigned:
		return fmt.Sprintf("u:%d", v.U)
	case Boolean:
		return fmt.Sprintf("b:%v", v.B)
	default:
		if len(v.S) > 24 {
			return fmt.Sprintf("s:%q…(%d)", v.S[:24], len(v.S))
		}
		return fmt.Sprintf("s:%q", v.S)
	}
}

// Point is one (timestamp, value) pair.
type Point struct {
	T int64
	V Val
}

// Store is the reference point store.
type Store struct {
	data map[string]map[string]map[int64]Val
	// hist keeps every value ever written per (series, field, ts), also after deletes; used only to
	// classify a wrong read as "stale older version" when matching known-finding signatures.
	hist map[string][]Val
}

// NewStore returns an empty model.
func NewStore() *Store {
	return &Store{data: map[string]map[string]map[int64]Val{}, hist: map[string][]Val{}}
}

func histKey(series, field string, ts int64) string {
	return fmt.Sprintf("%s\x00%s\x00%d", series, field, ts)
}

// Versions returns every value ever written at (series, field, ts), oldest first.
func (s *Store) Versions(series, field string, ts int64) []Val {
	return s.hist[histKey(series, field, ts)]
}

// WasWritten reports whether v was at some time written at (series, field, ts).
func (s *Store) WasWritten(series, field string, ts int64, v Val) bool {
	for _, o := range s.Versions(series, field, ts) {
		if o.Equal(v) {
			return true
		}
	}
	return false
}

// Write stores v at (series, field, ts), overwriting any earlier value.
func (s *Store) Write(series, field string, ts int64, v Val) {
	f := s.data[series]
	if f == nil {
		f = map[string]map[int64]Val{}
		s.data[series] = f
	}
	m := f[field]
	if m == nil {
		m = map[int64]Val{}
		f[field] = m
	}
	m[ts] = v
	hk := histKey(series, field, ts)
	s.hist[hk] = append(s.hist[hk], v)
}

// DeleteRange removes all points of every field of series with min <= ts <= max. It returns
// the number of points removed.
func (s *Store) DeleteRange(series string, min, max int64) int {
	n := 0
	for _, m := range s.data[series] {
		for ts := range m {
			if ts >= min && ts <= max {
				delete(m, ts)
				n++
			}
		}
	}
	return n
}

// DeleteRange1 removes a single point of one field.
func (s *Store) DeleteRange1(series, field string, ts int64) {
	if m := s.data[series][field]; m != nil {
		delete(m, ts)
	}
}

// DeleteSeries removes the series entirely.
func (s *Store) DeleteSeries(series string) { delete(s.data, series) }

// Range returns the points of (series, field) with start <= ts <= end in the given order.
func (s *Store) Range(series, field string, start, end int64, asc bool) []Point {
	m := s.data[series][field]
	out := make([]Point, 0, len(m))
	for ts, v := range m {
		if ts >= start && ts <= end {
			out = append(out, Point{ts, v})
		}
	}
	sort.Slice(out, func(i, j int) bool {
		if asc {
			return out[i].T < out[j].T
		}
		return out[i].T > out[j].T
	})
	return out
}

// Has reports whether a point exists.
func (s *Store) Has(series, field string, ts int64) (Val, bool) {
	v, ok := s.data[series][field][ts]
	return v, ok
}

// SeriesKeys returns all series that were ever written (even if now empty), sorted.
func (s *Store) SeriesKeys() []string {
	out := make([]string, 0, len(s.data))
	for k := range s.data {
		out = append(out, k)
	}
	sort.Strings(out)
	return out
}

// LiveSeries returns the series that have at least one remaining point, sorted.
func (s *Store) LiveSeries() []string {
	var out []string
	for k, f := range s.data {
		for _, m := range f {
			if len(m) > 0 {
				out = append(out, k)
				break
			}
		}
	}
	sort.Strings(out)
	return out
}

// Fields returns the field names ever written for series, sorted.
func (s *Store) Fields(series string) []string {
	out := make([]string, 0, len(s.data[series]))
	for k := range s.data[series] {
		out = append(out, k)
	}
	sort.Strings(out)
	return out
}

// Count returns the number of live points.
func (s *Store) Count() int {
	n := 0
	for _, f := range s.data {
		for _, m := range f {
			n += len(m)
		}
	}
	return n
}

// Clone returns a deep copy.
func (s *Store) Clone() *Store {
	c := NewStore()
	for sk, f := range s.data {
		cf := map[string]map[int64]Val{}
		for fk, m := range f {
			cm := make(map[int64]Val, len(m))
			for ts, v := range m {
				cm[ts] = v
			}
			cf[fk] = cm
		}
		c.data[sk] = cf
	}
	for k, v := range s.hist {
		c.hist[k] = append([]Val(nil), v...)
	}
	return c
}

// Render renders points compactly for messages.
func Render(ps []Point) string {
	var sb strings.Builder
	for i, p := range ps {
		if i > 0 {
			sb.WriteByte(' ')
		}
		if i >= 40 {
			fmt.Fprintf(&sb, "…(+%d)", len(ps)-i)
			break
		}
		fmt.Fprintf(&sb, "%d=%s", p.T, p.V)
	}
	return sb.String()
}

// EqualPoints compares two point lists exactly (order, timestamps, bit-identical values).
func EqualPoints(a, b []Point) bool {
	if len(a) != len(b) {
		return false
	}
	for i := range a {
		if a[i].T != b[i].T || !a[i].V.Equal(b[i].V) {
			return false
		}
	}
	return true
}
