// Package refql is an independent reference evaluator for a subset of InfluxQL SELECT.
//
// It is written from the InfluxQL documentation (Explore data: the basic SELECT statement, the
// WHERE clause, GROUP BY tags, GROUP BY time intervals with offset, fill(), ORDER BY time DESC,
// LIMIT/OFFSET/SLIMIT/SOFFSET; Functions: COUNT SUM MEAN MIN MAX FIRST LAST) over an in-memory
// list of points. It shares no code with influxql/query, the influxql parser, tsdb or models:
// it has its own query representation, renders it to InfluxQL text (so that the real parser is
// used on the product side only) and evaluates the representation directly.
//
// Where the documentation leaves a choice open the result keeps every admissible answer
// (Slot.Alts for selector ties between points with equal timestamps, permutable runs of equal timestamps in a merged raw series, a
// closed integer range for integer fill(linear)); Check accepts exactly those.
package refql

import (
	"fmt"
	"sort"
	"strconv"
	"strings"
	"time"
)

// Kind is a field value type.
type Kind int

const (
	Float Kind = iota
	Integer
	Unsigned
	String
	Boolean
)

func (k Kind) String() string {
	return [...]string{"float", "integer", "unsigned", "string", "boolean"}[k]
}

// Value is a typed field value.
type Value struct {
	K Kind
	F float64
	I int64
	U uint64
	S string
	B bool
}

func (v Value) String() string {
	switch v.K {
	case Float:
		return "f:" + strconv.FormatFloat(v.F, 'g', -1, 64)
	case Integer:
		return "i:" + strconv.FormatInt(v.I, 10)
	case Unsigned:
		return "u:" + strconv.FormatUint(v.U, 10)
	case String:
		return "s:" + strconv.Quote(v.S)
	default:
		return "b:" + strconv.FormatBool(v.B)
	}
}

// Point is one point of the measurement: a tag set, a timestamp and the fields present.
// The caller guarantees at most one Point per (tag set, timestamp).
type Point struct {
	Tags   map[string]string
	T      int64
	Fields map[string]Value
}

// Data is the content of one measurement.
type Data struct {
	Points []Point
}

// Op is a comparison operator.
type Op int

const (
	EQ Op = iota
	NEQ
	LT
	LTE
	GT
	GTE
	EQREGEX
	NEQREGEX
)

func (o Op) String() string {
	return [...]string{"=", "!=", "<", "<=", ">", ">=", "=~", "!~"}[o]
}

// Cond is a WHERE condition over tags and fields (time bounds are kept apart in Query.Times).
type Cond interface{ render(sb *strings.Builder) }

// And is a conjunction.
type And struct{ L, R Cond }

// Or is a disjunction.
type Or struct{ L, R Cond }

// TagCmp compares a tag with a string (EQ, NEQ) or a regular expression (EQREGEX, NEQREGEX).
type TagCmp struct {
	Key string
	Op  Op
	Val string
}

// FieldCmp compares a field with a literal (or a regular expression, string fields only).
type FieldCmp struct {
	Field string
	Op    Op
	Lit   Value
	Regex string
}

// ProjKind says what a projection item is.
type ProjKind int

const (
	ProjField ProjKind = iota
	ProjTag
	ProjCall
)

// Proj is one item of the SELECT list: a field, a tag, or a call func(field).
type Proj struct {
	Kind ProjKind
	Name string // field or tag name; for a call the argument field
	Func string // count sum mean min max first last
	// Alias, when not empty, renames the output column (AS "alias"). Without an alias a call's
	// column is named after the function, which is only unambiguous when the function occurs once.
	Alias string
}

// Column is the name of the output column of the projection item.
func (p Proj) Column() string {
	switch {
	case p.Alias != "":
		return p.Alias
	case p.Kind == ProjCall:
		return p.Func
	}
	return p.Name
}

// Calls returns the indices of the calls in the SELECT list.
func (q *Query) Calls() []int {
	var out []int
	for i, p := range q.Proj {
		if p.Kind == ProjCall {
			out = append(out, i)
		}
	}
	return out
}

// TimeBound is one comparison of time with an absolute instant. Style selects the literal form.
type TimeBound struct {
	Op    Op // GT GTE LT LTE
	T     int64
	Style int // 0 RFC3339Nano string, 1 integer nanoseconds, 2 integer with the largest exact unit
}

// FillMode is the fill() option.
type FillMode int

const (
	FillDefault FillMode = iota // no fill() clause: same as fill(null)
	FillNull
	FillNone
	FillValue
	FillPrevious
	FillLinear
)

func (f FillMode) String() string {
	return [...]string{"default", "null", "none", "value", "previous", "linear"}[f]
}

// Query is a SELECT statement of the supported subset over one measurement.
type Query struct {
	Measurement string
	Proj        []Proj
	Times       []TimeBound
	Cond        Cond
	TimeLast    bool // render the time bounds after the tag/field condition

	GroupBy   []string // tag dimensions
	GroupAll  bool     // GROUP BY *
	Interval  int64    // GROUP BY time(Interval[, Offset]); 0 = none
	Offset    int64
	HasOffset bool
	Fill      FillMode
	FillInt   int64

	Desc                       bool
	Limit, RowOffset           int
	SLimit, SOffset            int
	PreviousFollowsOutputOrder bool // not InfluxQL: evaluate fill(previous) in output order (models a known engine behaviour)
}

// IsCall reports whether the query projects an aggregate/selector call.
func (q *Query) IsCall() bool {
	for _, p := range q.Proj {
		if p.Kind == ProjCall {
			return true
		}
	}
	return false
}

func quoteIdent(s string) string {
	return `"` + strings.NewReplacer(`\`, `\\`, `"`, `\"`, "\n", `\n`).Replace(s) + `"`
}

func quoteString(s string) string {
	return `'` + strings.NewReplacer(`\`, `\\`, `'`, `\'`, "\n", `\n`).Replace(s) + `'`
}

func quoteRegex(s string) string {
	return `/` + strings.ReplaceAll(s, `/`, `\/`) + `/`
}

// RenderDuration renders d (nanoseconds) as an InfluxQL duration literal with the largest unit
// that divides it.
func RenderDuration(d int64) string {
	neg := ""
	if d < 0 {
		neg, d = "-", -d
	}
	units := []struct {
		n int64
		s string
	}{{7 * 24 * 3600e9, "w"}, {24 * 3600e9, "d"}, {3600e9, "h"}, {60e9, "m"}, {1e9, "s"}, {1e6, "ms"}, {1e3, "u"}, {1, "ns"}}
	if d == 0 {
		return "0s"
	}
	for _, u := range units {
		if d%u.n == 0 {
			return neg + strconv.FormatInt(d/u.n, 10) + u.s
		}
	}
	return neg + strconv.FormatInt(d, 10) + "ns"
}

func renderTime(b TimeBound) string {
	switch b.Style {
	case 1:
		return strconv.FormatInt(b.T, 10)
	case 2:
		if b.T > 0 {
			return RenderDuration(b.T)
		}
		return strconv.FormatInt(b.T, 10)
	default:
		return "'" + time.Unix(0, b.T).UTC().Format(time.RFC3339Nano) + "'"
	}
}

func renderLit(v Value) string {
	switch v.K {
	case Float:
		s := strconv.FormatFloat(v.F, 'f', -1, 64)
		if !strings.Contains(s, ".") {
			s += ".0"
		}
		return s
	case Integer:
		return strconv.FormatInt(v.I, 10)
	case Unsigned:
		return strconv.FormatUint(v.U, 10)
	case String:
		return quoteString(v.S)
	default:
		return strconv.FormatBool(v.B)
	}
}

func (c And) render(sb *strings.Builder) {
	sb.WriteString("(")
	c.L.render(sb)
	sb.WriteString(" AND ")
	c.R.render(sb)
	sb.WriteString(")")
}

func (c Or) render(sb *strings.Builder) {
	sb.WriteString("(")
	c.L.render(sb)
	sb.WriteString(" OR ")
	c.R.render(sb)
	sb.WriteString(")")
}

func (c TagCmp) render(sb *strings.Builder) {
	sb.WriteString(quoteIdent(c.Key))
	sb.WriteString(" " + c.Op.String() + " ")
	if c.Op == EQREGEX || c.Op == NEQREGEX {
		sb.WriteString(quoteRegex(c.Val))
	} else {
		sb.WriteString(quoteString(c.Val))
	}
}

func (c FieldCmp) render(sb *strings.Builder) {
	sb.WriteString(quoteIdent(c.Field))
	sb.WriteString(" " + c.Op.String() + " ")
	if c.Op == EQREGEX || c.Op == NEQREGEX {
		sb.WriteString(quoteRegex(c.Regex))
	} else {
		sb.WriteString(renderLit(c.Lit))
	}
}

// String renders the query as InfluxQL text.
func (q *Query) String() string {
	var sb strings.Builder
	sb.WriteString("SELECT ")
	for i, p := range q.Proj {
		if i > 0 {
			sb.WriteString(", ")
		}
		switch p.Kind {
		case ProjCall:
			sb.WriteString(p.Func + "(" + quoteIdent(p.Name) + ")")
		default:
			sb.WriteString(quoteIdent(p.Name))
		}
		if p.Alias != "" {
			sb.WriteString(" AS " + quoteIdent(p.Alias))
		}
	}
	sb.WriteString(" FROM " + quoteIdent(q.Measurement))
	var conj []string
	for _, b := range q.Times {
		conj = append(conj, "time "+b.Op.String()+" "+renderTime(b))
	}
	if q.Cond != nil {
		var cb strings.Builder
		q.Cond.render(&cb)
		if q.TimeLast {
			conj = append([]string{cb.String()}, conj...)
		} else {
			conj = append(conj, cb.String())
		}
	}
	if len(conj) > 0 {
		sb.WriteString(" WHERE " + strings.Join(conj, " AND "))
	}
	var gb []string
	if q.Interval > 0 {
		if q.HasOffset {
			gb = append(gb, "time("+RenderDuration(q.Interval)+", "+RenderDuration(q.Offset)+")")
		} else {
			gb = append(gb, "time("+RenderDuration(q.Interval)+")")
		}
	}
	if q.GroupAll {
		gb = append(gb, "*")
	}
	for _, g := range q.GroupBy {
		gb = append(gb, quoteIdent(g))
	}
	if len(gb) > 0 {
		sb.WriteString(" GROUP BY " + strings.Join(gb, ", "))
	}
	switch q.Fill {
	case FillNull:
		sb.WriteString(" fill(null)")
	case FillNone:
		sb.WriteString(" fill(none)")
	case FillValue:
		sb.WriteString(" fill(" + strconv.FormatInt(q.FillInt, 10) + ")")
	case FillPrevious:
		sb.WriteString(" fill(previous)")
	case FillLinear:
		sb.WriteString(" fill(linear)")
	}
	if q.Desc {
		sb.WriteString(" ORDER BY time DESC")
	}
	if q.Limit > 0 {
		sb.WriteString(" LIMIT " + strconv.Itoa(q.Limit))
	}
	if q.RowOffset > 0 {
		sb.WriteString(" OFFSET " + strconv.Itoa(q.RowOffset))
	}
	if q.SLimit > 0 {
		sb.WriteString(" SLIMIT " + strconv.Itoa(q.SLimit))
	}
	if q.SOffset > 0 {
		sb.WriteString(" SOFFSET " + strconv.Itoa(q.SOffset))
	}
	return sb.String()
}

// TimeRange returns the inclusive nanosecond range selected by the time bounds.
func (q *Query) TimeRange() (lo, hi int64, hasLo, hasHi bool) {
	for _, b := range q.Times {
		switch b.Op {
		case GTE, GT:
			t := b.T
			if b.Op == GT {
				t++
			}
			if !hasLo || t > lo {
				lo = t
			}
			hasLo = true
		case LTE, LT:
			t := b.T
			if b.Op == LT {
				t--
			}
			if !hasHi || t < hi {
				hi = t
			}
			hasHi = true
		default:
			panic(fmt.Sprintf("refql: unsupported time operator %v", b.Op))
		}
	}
	return
}

// TagKeys returns the sorted tag keys present in the data.
func (d *Data) TagKeys() []string {
	seen := map[string]bool{}
	for _, p := range d.Points {
		for k := range p.Tags {
			seen[k] = true
		}
	}
	out := make([]string, 0, len(seen))
	for k := range seen {
		out = append(out, k)
	}
	sort.Strings(out)
	return out
}
