package refql

import (
	"strings"
	"testing"
	"time"
)

// The examples below are the ones the InfluxQL documentation ("Explore data using InfluxQL":
// SELECT, WHERE, GROUP BY tags, GROUP BY time intervals — basic and advanced syntax, the
// "unexpected timestamps" discussion —, fill(), ORDER BY time DESC, LIMIT/OFFSET/SLIMIT;
// "InfluxQL functions": COUNT and fill(), selectors and timestamps) gives over the NOAA sample
// data, restricted to the rows the documentation prints, with the printed results as the
// expected output. They validate the reference evaluator before a class of generated queries is
// compared with the engine.

func ts(s string) int64 {
	t, err := time.Parse(time.RFC3339, s)
	if err != nil {
		panic(err)
	}
	return t.UnixNano()
}

func fv(f float64) Value { return Value{K: Float, F: f} }
func sv(s string) Value  { return Value{K: String, S: s} }
func iv(i int64) Value   { return Value{K: Integer, I: i} }

// h2o_feet, 2015-08-18T00:00:00Z … 00:54:00Z as printed in the documentation.
func noaa() *Data {
	cc := []float64{8.12, 8.005, 7.887, 7.762, 7.635, 7.5, 7.372, 7.234, 7.11, 6.982}
	sm := []float64{2.064, 2.116, 2.028, 2.126, 2.041, 2.051, 2.067, 2.057, 1.991, 2.054}
	d := &Data{}
	base := ts("2015-08-18T00:00:00Z")
	for i := range cc {
		t := base + int64(i)*6*60e9
		desc := "between 6 and 9 feet"
		d.Points = append(d.Points, Point{Tags: map[string]string{"location": "coyote_creek"}, T: t,
			Fields: map[string]Value{"water_level": fv(cc[i]), "level description": sv(desc)}})
		d.Points = append(d.Points, Point{Tags: map[string]string{"location": "santa_monica"}, T: t,
			Fields: map[string]Value{"water_level": fv(sm[i]), "level description": sv("below 3 feet")}})
	}
	return d
}

type wantSeries struct {
	tags map[string]string
	rows [][]any // time string, values…
}

func toGot(cols []string, ws []wantSeries) []GotSeries {
	var out []GotSeries
	for _, w := range ws {
		g := GotSeries{Tags: w.tags, Columns: cols}
		for _, r := range w.rows {
			var t int64
			switch x := r[0].(type) {
			case string:
				t = ts(x)
			case int64:
				t = x
			}
			g.Rows = append(g.Rows, GotRow{T: t, Vals: r[1:]})
		}
		out = append(out, g)
	}
	return out
}

func mustEval(t *testing.T, d *Data, q *Query) *Result {
	t.Helper()
	r, err := Eval(d, q)
	if err != nil {
		t.Fatalf("%s: %v", q, err)
	}
	return r
}

func expectOK(t *testing.T, d *Data, q *Query, text string, cols []string, ws []wantSeries) {
	t.Helper()
	if q.String() != text {
		t.Fatalf("rendering:\n got %s\nwant %s", q.String(), text)
	}
	r := mustEval(t, d, q)
	if err := r.Check(toGot(cols, ws)); err != nil {
		t.Fatalf("%s: documented output rejected: %v", text, err)
	}
}

func expectReject(t *testing.T, d *Data, q *Query, cols []string, ws []wantSeries, why string) {
	t.Helper()
	r := mustEval(t, d, q)
	if err := r.Check(toGot(cols, ws)); err == nil {
		t.Fatalf("%s: wrong output accepted (%s)", q, why)
	}
}

func bounds(lo string, loOp Op, hi string, hiOp Op) []TimeBound {
	return []TimeBound{{Op: loOp, T: ts(lo)}, {Op: hiOp, T: ts(hi)}}
}

var cc = map[string]string{"location": "coyote_creek"}
var sm = map[string]string{"location": "santa_monica"}

func TestDocSelectFieldsAndTags(t *testing.T) {
	// SELECT "level description","location","water_level" FROM "h2o_feet" (first rows) with LIMIT
	q := &Query{Measurement: "h2o_feet", Proj: []Proj{{Kind: ProjField, Name: "water_level"}, {Kind: ProjTag, Name: "location"}}, Limit: 3}
	expectOK(t, noaa(), q, `SELECT "water_level", "location" FROM "h2o_feet" LIMIT 3`, []string{"time", "water_level", "location"},
		[]wantSeries{{nil, [][]any{
			{"2015-08-18T00:00:00Z", 8.12, "coyote_creek"},
			{"2015-08-18T00:00:00Z", 2.064, "santa_monica"},
			{"2015-08-18T00:06:00Z", 8.005, "coyote_creek"}}}})
	// the two rows at 00:00 may come in either order
	expectOK(t, noaa(), q, q.String(), []string{"time", "water_level", "location"},
		[]wantSeries{{nil, [][]any{
			{"2015-08-18T00:00:00Z", 2.064, "santa_monica"},
			{"2015-08-18T00:00:00Z", 8.12, "coyote_creek"},
			{"2015-08-18T00:06:00Z", 8.005, "coyote_creek"}}}})
	// LIMIT 3 OFFSET 3 (documented pagination example)
	q2 := *q
	q2.RowOffset = 3
	expectOK(t, noaa(), &q2, `SELECT "water_level", "location" FROM "h2o_feet" LIMIT 3 OFFSET 3`, []string{"time", "water_level", "location"},
		[]wantSeries{{nil, [][]any{
			{"2015-08-18T00:06:00Z", 2.116, "santa_monica"},
			{"2015-08-18T00:12:00Z", 7.887, "coyote_creek"},
			{"2015-08-18T00:12:00Z", 2.028, "santa_monica"}}}})
	// a window that cuts a run of equal timestamps: either row of 00:06 is admissible at position 0 …
	expectOK(t, noaa(), &q2, q2.String(), []string{"time", "water_level", "location"},
		[]wantSeries{{nil, [][]any{
			{"2015-08-18T00:06:00Z", 8.005, "coyote_creek"},
			{"2015-08-18T00:12:00Z", 7.887, "coyote_creek"},
			{"2015-08-18T00:12:00Z", 2.028, "santa_monica"}}}})
	// … but not a row of another timestamp, a repeated row, or a missing row
	expectReject(t, noaa(), &q2, []string{"time", "water_level", "location"},
		[]wantSeries{{nil, [][]any{
			{"2015-08-18T00:00:00Z", 8.12, "coyote_creek"},
			{"2015-08-18T00:12:00Z", 7.887, "coyote_creek"},
			{"2015-08-18T00:12:00Z", 2.028, "santa_monica"}}}}, "row before the offset")
	expectReject(t, noaa(), &q2, []string{"time", "water_level", "location"},
		[]wantSeries{{nil, [][]any{
			{"2015-08-18T00:06:00Z", 2.116, "santa_monica"},
			{"2015-08-18T00:12:00Z", 7.887, "coyote_creek"},
			{"2015-08-18T00:12:00Z", 7.887, "coyote_creek"}}}}, "duplicate row")
	expectReject(t, noaa(), &q2, []string{"time", "water_level", "location"},
		[]wantSeries{{nil, [][]any{
			{"2015-08-18T00:06:00Z", 2.116, "santa_monica"},
			{"2015-08-18T00:12:00Z", 7.887, "coyote_creek"}}}}, "short")
}

func TestDocWhere(t *testing.T) {
	// SELECT "water_level" FROM "h2o_feet" WHERE "location" = 'santa_monica' AND "water_level" > 2.1 (restricted to the sample)
	q := &Query{Measurement: "h2o_feet", Proj: []Proj{{Kind: ProjField, Name: "water_level"}},
		Cond: And{TagCmp{"location", EQ, "santa_monica"}, FieldCmp{Field: "water_level", Op: GT, Lit: fv(2.1)}}}
	expectOK(t, noaa(), q, `SELECT "water_level" FROM "h2o_feet" WHERE ("location" = 'santa_monica' AND "water_level" > 2.1)`,
		[]string{"time", "water_level"},
		[]wantSeries{{nil, [][]any{{"2015-08-18T00:06:00Z", 2.116}, {"2015-08-18T00:18:00Z", 2.126}}}})
	// WHERE "location" <> 'santa_monica' AND (water_level < 7.2 OR water_level > 8.1)
	q = &Query{Measurement: "h2o_feet", Proj: []Proj{{Kind: ProjField, Name: "water_level"}},
		Cond: And{TagCmp{"location", NEQ, "santa_monica"}, Or{FieldCmp{Field: "water_level", Op: LT, Lit: fv(7.2)}, FieldCmp{Field: "water_level", Op: GT, Lit: fv(8.1)}}}}
	expectOK(t, noaa(), q, q.String(), []string{"time", "water_level"},
		[]wantSeries{{nil, [][]any{{"2015-08-18T00:00:00Z", 8.12}, {"2015-08-18T00:48:00Z", 7.11}, {"2015-08-18T00:54:00Z", 6.982}}}})
	// string field value and regular expressions
	q = &Query{Measurement: "h2o_feet", Proj: []Proj{{Kind: ProjField, Name: "water_level"}},
		Times: []TimeBound{{Op: LTE, T: ts("2015-08-18T00:06:00Z")}},
		Cond:  FieldCmp{Field: "level description", Op: EQ, Lit: sv("below 3 feet")}}
	expectOK(t, noaa(), q, `SELECT "water_level" FROM "h2o_feet" WHERE time <= '2015-08-18T00:06:00Z' AND "level description" = 'below 3 feet'`,
		[]string{"time", "water_level"},
		[]wantSeries{{nil, [][]any{{"2015-08-18T00:00:00Z", 2.064}, {"2015-08-18T00:06:00Z", 2.116}}}})
	q.Cond = And{TagCmp{"location", EQREGEX, "^santa"}, FieldCmp{Field: "level description", Op: EQREGEX, Regex: "below"}}
	expectOK(t, noaa(), q, q.String(), []string{"time", "water_level"},
		[]wantSeries{{nil, [][]any{{"2015-08-18T00:00:00Z", 2.064}, {"2015-08-18T00:06:00Z", 2.116}}}})
	q.Cond = TagCmp{"location", NEQREGEX, "creek$"}
	expectOK(t, noaa(), q, q.String(), []string{"time", "water_level"},
		[]wantSeries{{nil, [][]any{{"2015-08-18T00:00:00Z", 2.064}, {"2015-08-18T00:06:00Z", 2.116}}}})
	// a tag that no series has compares like the empty string (FAQ: querying for missing tags)
	q.Cond = TagCmp{"randomtag", EQ, ""}
	if r := mustEval(t, noaa(), q); r.Rows() != 4 {
		t.Fatalf("missing tag = '': %d rows", r.Rows())
	}
	q.Cond = TagCmp{"randomtag", NEQ, ""}
	if r := mustEval(t, noaa(), q); r.Rows() != 0 {
		t.Fatalf("missing tag != '': %d rows", r.Rows())
	}
}

func TestDocGroupByTags(t *testing.T) {
	// SELECT MEAN("water_level") FROM "h2o_feet" GROUP BY "location": one series per tag value, epoch 0
	q := &Query{Measurement: "h2o_feet", Proj: []Proj{{Kind: ProjCall, Func: "mean", Name: "water_level"}}, GroupBy: []string{"location"}}
	mcc := (8.12 + 8.005 + 7.887 + 7.762 + 7.635 + 7.5 + 7.372 + 7.234 + 7.11 + 6.982) / 10
	msm := (2.064 + 2.116 + 2.028 + 2.126 + 2.041 + 2.051 + 2.067 + 2.057 + 1.991 + 2.054) / 10
	expectOK(t, noaa(), q, `SELECT mean("water_level") FROM "h2o_feet" GROUP BY "location"`, []string{"time", "mean"},
		[]wantSeries{{cc, [][]any{{int64(0), mcc}}}, {sm, [][]any{{int64(0), msm}}}})
	// GROUP BY * is the same here
	q2 := &Query{Measurement: "h2o_feet", Proj: q.Proj, GroupAll: true}
	expectOK(t, noaa(), q2, `SELECT mean("water_level") FROM "h2o_feet" GROUP BY *`, []string{"time", "mean"},
		[]wantSeries{{sm, [][]any{{int64(0), msm}}}, {cc, [][]any{{int64(0), mcc}}}})
	expectReject(t, noaa(), q, []string{"time", "mean"},
		[]wantSeries{{cc, [][]any{{int64(0), msm}}}, {sm, [][]any{{int64(0), mcc}}}}, "values swapped between series")
	// SLIMIT 1: every point from one series
	q3 := &Query{Measurement: "h2o_feet", Proj: []Proj{{Kind: ProjField, Name: "water_level"}}, GroupAll: true, SLimit: 1,
		Times: []TimeBound{{Op: LT, T: ts("2015-08-18T00:12:00Z")}}}
	expectOK(t, noaa(), q3, `SELECT "water_level" FROM "h2o_feet" WHERE time < '2015-08-18T00:12:00Z' GROUP BY * SLIMIT 1`, []string{"time", "water_level"},
		[]wantSeries{{cc, [][]any{{"2015-08-18T00:00:00Z", 8.12}, {"2015-08-18T00:06:00Z", 8.005}}}})
	expectReject(t, noaa(), q3, []string{"time", "water_level"},
		[]wantSeries{{cc, [][]any{{"2015-08-18T00:00:00Z", 8.12}, {"2015-08-18T00:06:00Z", 8.005}}}, {sm, [][]any{{"2015-08-18T00:00:00Z", 2.064}, {"2015-08-18T00:06:00Z", 2.116}}}}, "two series for SLIMIT 1")
	q3.SOffset = 1
	expectOK(t, noaa(), q3, q3.String(), []string{"time", "water_level"},
		[]wantSeries{{sm, [][]any{{"2015-08-18T00:00:00Z", 2.064}, {"2015-08-18T00:06:00Z", 2.116}}}})
}

func TestDocGroupByTime(t *testing.T) {
	count := []Proj{{Kind: ProjCall, Func: "count", Name: "water_level"}}
	// basic: 12m intervals
	q := &Query{Measurement: "h2o_feet", Proj: count, Cond: TagCmp{"location", EQ, "coyote_creek"}, TimeLast: true,
		Times: bounds("2015-08-18T00:00:00Z", GTE, "2015-08-18T00:30:00Z", LTE), Interval: 12 * 60e9}
	expectOK(t, noaa(), q, `SELECT count("water_level") FROM "h2o_feet" WHERE "location" = 'coyote_creek' AND time >= '2015-08-18T00:00:00Z' AND time <= '2015-08-18T00:30:00Z' GROUP BY time(12m)`,
		[]string{"time", "count"},
		[]wantSeries{{nil, [][]any{{"2015-08-18T00:00:00Z", int64(2)}, {"2015-08-18T00:12:00Z", int64(2)}, {"2015-08-18T00:24:00Z", int64(2)}}}})
	// 12m intervals and a tag
	q = &Query{Measurement: "h2o_feet", Proj: count, Times: bounds("2015-08-18T00:00:00Z", GTE, "2015-08-18T00:30:00Z", LTE), Interval: 12 * 60e9, GroupBy: []string{"location"}}
	rows := [][]any{{"2015-08-18T00:00:00Z", int64(2)}, {"2015-08-18T00:12:00Z", int64(2)}, {"2015-08-18T00:24:00Z", int64(2)}}
	expectOK(t, noaa(), q, `SELECT count("water_level") FROM "h2o_feet" WHERE time >= '2015-08-18T00:00:00Z' AND time <= '2015-08-18T00:30:00Z' GROUP BY time(12m), "location"`,
		[]string{"time", "count"}, []wantSeries{{cc, rows}, {sm, rows}})
	// "unexpected timestamps and values": the first bucket starts before the range and counts only the points in range
	q = &Query{Measurement: "h2o_feet", Proj: count, Cond: TagCmp{"location", EQ, "coyote_creek"}, TimeLast: true,
		Times: bounds("2015-08-18T00:06:00Z", GTE, "2015-08-18T00:18:00Z", LT), Interval: 12 * 60e9}
	expectOK(t, noaa(), q, q.String(), []string{"time", "count"},
		[]wantSeries{{nil, [][]any{{"2015-08-18T00:00:00Z", int64(1)}, {"2015-08-18T00:12:00Z", int64(1)}}}})
	// the offset interval shifts the boundaries: one bucket with both points
	q.Offset, q.HasOffset = 6*60e9, true
	expectOK(t, noaa(), q, `SELECT count("water_level") FROM "h2o_feet" WHERE "location" = 'coyote_creek' AND time >= '2015-08-18T00:06:00Z' AND time < '2015-08-18T00:18:00Z' GROUP BY time(12m, 6m)`,
		[]string{"time", "count"}, []wantSeries{{nil, [][]any{{"2015-08-18T00:06:00Z", int64(2)}}}})

	// advanced syntax: 18m intervals, without offset, shifted forward by 6m, shifted back by 12m
	mean := []Proj{{Kind: ProjCall, Func: "mean", Name: "water_level"}}
	q = &Query{Measurement: "h2o_feet", Proj: mean, Cond: TagCmp{"location", EQ, "coyote_creek"}, TimeLast: true,
		Times: bounds("2015-08-18T00:06:00Z", GTE, "2015-08-18T00:54:00Z", LTE), Interval: 18 * 60e9}
	expectOK(t, noaa(), q, q.String(), []string{"time", "mean"},
		[]wantSeries{{nil, [][]any{{"2015-08-18T00:00:00Z", 7.946}, {"2015-08-18T00:18:00Z", 7.6323333333333325}, {"2015-08-18T00:36:00Z", 7.238666666666667}, {"2015-08-18T00:54:00Z", 6.982}}}})
	shifted := []wantSeries{{nil, [][]any{{"2015-08-18T00:06:00Z", 7.884666666666667}, {"2015-08-18T00:24:00Z", 7.502333333333333}, {"2015-08-18T00:42:00Z", 7.108666666666667}}}}
	q.Offset, q.HasOffset = 6*60e9, true
	expectOK(t, noaa(), q, q.String(), []string{"time", "mean"}, shifted)
	q.Offset = -12 * 60e9
	expectOK(t, noaa(), q, `SELECT mean("water_level") FROM "h2o_feet" WHERE "location" = 'coyote_creek' AND time >= '2015-08-18T00:06:00Z' AND time <= '2015-08-18T00:54:00Z' GROUP BY time(18m, -12m)`,
		[]string{"time", "mean"}, shifted)
	expectReject(t, noaa(), q, []string{"time", "mean"},
		[]wantSeries{{nil, [][]any{{"2015-08-18T00:06:00Z", 7.884666666666667}, {"2015-08-18T00:24:00Z", 7.502333333333333}, {"2015-08-18T00:42:00Z", 7.1087}}}}, "value off by 3e-5")

	// aggregate over a bounded range without GROUP BY time: the row carries the lower bound
	q = &Query{Measurement: "h2o_feet", Proj: count, Times: bounds("2015-08-18T00:06:00Z", GTE, "2015-08-18T00:18:00Z", LT)}
	expectOK(t, noaa(), q, q.String(), []string{"time", "count"}, []wantSeries{{nil, [][]any{{"2015-08-18T00:06:00Z", int64(4)}}}})
	// without a lower bound: epoch 0
	q = &Query{Measurement: "h2o_feet", Proj: count}
	expectOK(t, noaa(), q, `SELECT count("water_level") FROM "h2o_feet"`, []string{"time", "count"}, []wantSeries{{nil, [][]any{{int64(0), int64(20)}}}})
}

// the fill() examples: a series with a gap (the documentation uses 2015-09-18T16:00 … 16:42, one
// value per 12m bucket and none in the last bucket)
func gap() *Data {
	d := &Data{}
	add := func(at string, v float64) {
		d.Points = append(d.Points, Point{Tags: cc, T: ts(at), Fields: map[string]Value{"water_level": fv(v)}})
	}
	add("2015-09-18T16:00:00Z", 3.599)
	add("2015-09-18T16:06:00Z", 3.53)
	add("2015-09-18T16:12:00Z", 3.402)
	add("2015-09-18T16:18:00Z", 3.314)
	add("2015-09-18T16:24:00Z", 3.235)
	return d
}

func TestDocFill(t *testing.T) {
	max := []Proj{{Kind: ProjCall, Func: "max", Name: "water_level"}}
	q := &Query{Measurement: "h2o_feet", Proj: max, Cond: TagCmp{"location", EQ, "coyote_creek"}, TimeLast: true,
		Times: bounds("2015-09-18T16:00:00Z", GTE, "2015-09-18T16:42:00Z", LTE), Interval: 12 * 60e9}
	cols := []string{"time", "max"}
	head := [][]any{{"2015-09-18T16:00:00Z", 3.599}, {"2015-09-18T16:12:00Z", 3.402}, {"2015-09-18T16:24:00Z", 3.235}}
	with := func(last ...any) []wantSeries {
		return []wantSeries{{nil, append(append([][]any{}, head...), append([]any{"2015-09-18T16:36:00Z"}, last...))}}
	}
	expectOK(t, gap(), q, q.String(), cols, with(nil)) // default: null
	q.Fill = FillNull
	expectOK(t, gap(), q, q.String(), cols, with(nil))
	q.Fill, q.FillInt = FillValue, 100
	expectOK(t, gap(), q, `SELECT max("water_level") FROM "h2o_feet" WHERE "location" = 'coyote_creek' AND time >= '2015-09-18T16:00:00Z' AND time <= '2015-09-18T16:42:00Z' GROUP BY time(12m) fill(100)`, cols, with(100.0))
	q.Fill = FillPrevious
	expectOK(t, gap(), q, q.String(), cols, with(3.235))
	q.Fill = FillNone
	expectOK(t, gap(), q, q.String(), cols, []wantSeries{{nil, head}})
	q.Fill = FillLinear
	expectOK(t, gap(), q, q.String(), cols, with(nil)) // no later value inside the range: null
	// fill(previous) when the previous value is outside the queried range: null
	q.Fill = FillPrevious
	q.Times = bounds("2015-09-18T16:36:00Z", GTE, "2015-09-18T16:48:00Z", LTE)
	if r := mustEval(t, gap(), q); len(r.Series) != 0 {
		t.Fatalf("no data in range must give no result, got %d series", len(r.Series))
	}
	d := gap()
	d.Points = append(d.Points, Point{Tags: cc, T: ts("2015-09-18T16:48:00Z"), Fields: map[string]Value{"water_level": fv(4)}})
	expectOK(t, d, q, q.String(), cols, []wantSeries{{nil, [][]any{{"2015-09-18T16:36:00Z", nil}, {"2015-09-18T16:48:00Z", 4.0}}}})
	// fill(linear) when a neighbour is outside the range: null; inside: interpolated
	q.Fill = FillLinear
	expectOK(t, d, q, q.String(), cols, []wantSeries{{nil, [][]any{{"2015-09-18T16:36:00Z", nil}, {"2015-09-18T16:48:00Z", 4.0}}}})
	q.Times = bounds("2015-09-18T16:24:00Z", GTE, "2015-09-18T16:48:00Z", LTE)
	expectOK(t, d, q, q.String(), cols, []wantSeries{{nil, [][]any{{"2015-09-18T16:24:00Z", 3.235}, {"2015-09-18T16:36:00Z", (3.235 + 4) / 2}, {"2015-09-18T16:48:00Z", 4.0}}}})
	// ORDER BY time DESC returns the same rows, newest first
	q.Desc = true
	expectOK(t, d, q, q.String(), cols, []wantSeries{{nil, [][]any{{"2015-09-18T16:48:00Z", 4.0}, {"2015-09-18T16:36:00Z", (3.235 + 4) / 2}, {"2015-09-18T16:24:00Z", 3.235}}}})
	q.Fill = FillPrevious
	expectOK(t, d, q, q.String(), cols, []wantSeries{{nil, [][]any{{"2015-09-18T16:48:00Z", 4.0}, {"2015-09-18T16:36:00Z", 3.235}, {"2015-09-18T16:24:00Z", 3.235}}}})
}

// the fill(linear) example of the documentation (measurement pond, field tadpoles): values
// 1, _, 3, _, _, 6 in 12m buckets
func TestDocFillLinear(t *testing.T) {
	d := &Data{}
	add := func(at string, v int64, f float64) {
		d.Points = append(d.Points, Point{T: ts(at), Fields: map[string]Value{"tadpoles": iv(v), "ftad": fv(f)}})
	}
	add("2016-11-11T21:00:00Z", 1, 1)
	add("2016-11-11T21:24:00Z", 3, 3)
	add("2016-11-11T22:00:00Z", 6, 6)
	q := &Query{Measurement: "pond", Proj: []Proj{{Kind: ProjCall, Func: "mean", Name: "tadpoles"}},
		Times: bounds("2016-11-11T21:00:00Z", GTE, "2016-11-11T22:06:00Z", LTE), Interval: 12 * 60e9, Fill: FillLinear}
	expectOK(t, d, q, `SELECT mean("tadpoles") FROM "pond" WHERE time >= '2016-11-11T21:00:00Z' AND time <= '2016-11-11T22:06:00Z' GROUP BY time(12m) fill(linear)`,
		[]string{"time", "mean"},
		[]wantSeries{{nil, [][]any{{"2016-11-11T21:00:00Z", 1.0}, {"2016-11-11T21:12:00Z", 2.0}, {"2016-11-11T21:24:00Z", 3.0},
			{"2016-11-11T21:36:00Z", 4.0}, {"2016-11-11T21:48:00Z", 5.0}, {"2016-11-11T22:00:00Z", 6.0}}}})
	// integer result: 1, _, _, 3 → 1 + 2/3 and 1 + 4/3: any rounding to a neighbouring integer is accepted, nothing else
	d2 := &Data{}
	d2.Points = append(d2.Points, Point{T: ts("2016-11-11T21:00:00Z"), Fields: map[string]Value{"tadpoles": iv(1)}},
		Point{T: ts("2016-11-11T21:36:00Z"), Fields: map[string]Value{"tadpoles": iv(3)}})
	q = &Query{Measurement: "pond", Proj: []Proj{{Kind: ProjCall, Func: "sum", Name: "tadpoles"}},
		Times: bounds("2016-11-11T21:00:00Z", GTE, "2016-11-11T21:40:00Z", LTE), Interval: 12 * 60e9, Fill: FillLinear}
	for _, ok := range [][2]int64{{1, 2}, {2, 2}, {1, 3}, {2, 3}} {
		expectOK(t, d2, q, q.String(), []string{"time", "sum"}, []wantSeries{{nil, [][]any{{"2016-11-11T21:00:00Z", int64(1)}, {"2016-11-11T21:12:00Z", ok[0]}, {"2016-11-11T21:24:00Z", ok[1]}, {"2016-11-11T21:36:00Z", int64(3)}}}})
	}
	expectReject(t, d2, q, []string{"time", "sum"}, []wantSeries{{nil, [][]any{{"2016-11-11T21:00:00Z", int64(1)}, {"2016-11-11T21:12:00Z", int64(0)}, {"2016-11-11T21:24:00Z", int64(2)}, {"2016-11-11T21:36:00Z", int64(3)}}}}, "0 is not between 1 and 3")
	expectReject(t, d2, q, []string{"time", "sum"}, []wantSeries{{nil, [][]any{{"2016-11-11T21:00:00Z", int64(1)}, {"2016-11-11T21:12:00Z", 2.0}, {"2016-11-11T21:24:00Z", int64(2)}, {"2016-11-11T21:36:00Z", int64(3)}}}}, "float in an integer column")
}

func TestDocCountAndFill(t *testing.T) {
	// COUNT() reports 0 for intervals without data, and fill(x) replaces the 0
	count := []Proj{{Kind: ProjCall, Func: "count", Name: "water_level"}}
	q := &Query{Measurement: "h2o_feet", Proj: count, Times: bounds("2015-09-18T16:00:00Z", GTE, "2015-09-18T16:42:00Z", LTE), Interval: 12 * 60e9}
	cols := []string{"time", "count"}
	mk := func(last any) []wantSeries {
		return []wantSeries{{nil, [][]any{{"2015-09-18T16:00:00Z", int64(2)}, {"2015-09-18T16:12:00Z", int64(2)}, {"2015-09-18T16:24:00Z", int64(1)}, {"2015-09-18T16:36:00Z", last}}}}
	}
	expectOK(t, gap(), q, q.String(), cols, mk(int64(0)))
	q.Fill, q.FillInt = FillValue, 800000
	expectOK(t, gap(), q, q.String(), cols, mk(int64(800000)))
	q.Fill = FillPrevious
	expectOK(t, gap(), q, q.String(), cols, mk(int64(1)))
	q.Fill = FillNone
	expectOK(t, gap(), q, q.String(), cols, []wantSeries{{nil, mk(nil)[0].rows[:3]}})
}

func TestDocSelectors(t *testing.T) {
	// selectors without GROUP BY time return the timestamp of the selected point
	q := &Query{Measurement: "h2o_feet", Proj: []Proj{{Kind: ProjCall, Func: "max", Name: "water_level"}, {Kind: ProjTag, Name: "location"}}}
	expectOK(t, noaa(), q, `SELECT max("water_level"), "location" FROM "h2o_feet"`, []string{"time", "max", "location"},
		[]wantSeries{{nil, [][]any{{"2015-08-18T00:00:00Z", 8.12, "coyote_creek"}}}})
	q.Proj[0].Func = "min"
	expectOK(t, noaa(), q, q.String(), []string{"time", "min", "location"},
		[]wantSeries{{nil, [][]any{{"2015-08-18T00:48:00Z", 1.991, "santa_monica"}}}})
	// FIRST / LAST with a tag: the oldest / newest point of each series
	q = &Query{Measurement: "h2o_feet", Proj: []Proj{{Kind: ProjCall, Func: "last", Name: "level description"}}, GroupBy: []string{"location"}}
	expectOK(t, noaa(), q, q.String(), []string{"time", "last"},
		[]wantSeries{{cc, [][]any{{"2015-08-18T00:54:00Z", "between 6 and 9 feet"}}}, {sm, [][]any{{"2015-08-18T00:54:00Z", "below 3 feet"}}}})
	// with GROUP BY time the rows carry the bucket start
	q = &Query{Measurement: "h2o_feet", Proj: []Proj{{Kind: ProjCall, Func: "first", Name: "water_level"}}, GroupBy: []string{"location"},
		Times: bounds("2015-08-18T00:00:00Z", GTE, "2015-08-18T00:24:00Z", LT), Interval: 12 * 60e9, Limit: 1, RowOffset: 1}
	expectOK(t, noaa(), q, `SELECT first("water_level") FROM "h2o_feet" WHERE time >= '2015-08-18T00:00:00Z' AND time < '2015-08-18T00:24:00Z' GROUP BY time(12m), "location" LIMIT 1 OFFSET 1`,
		[]string{"time", "first"},
		[]wantSeries{{cc, [][]any{{"2015-08-18T00:12:00Z", 7.887}}}, {sm, [][]any{{"2015-08-18T00:12:00Z", 2.028}}}})
	// a tie between the two series merged into one group: either value is admissible, nothing else
	q = &Query{Measurement: "h2o_feet", Proj: []Proj{{Kind: ProjCall, Func: "first", Name: "water_level"}}}
	expectOK(t, noaa(), q, q.String(), []string{"time", "first"}, []wantSeries{{nil, [][]any{{"2015-08-18T00:00:00Z", 8.12}}}})
	expectOK(t, noaa(), q, q.String(), []string{"time", "first"}, []wantSeries{{nil, [][]any{{"2015-08-18T00:00:00Z", 2.064}}}})
	expectReject(t, noaa(), q, []string{"time", "first"}, []wantSeries{{nil, [][]any{{"2015-08-18T00:00:00Z", 8.005}}}}, "not a first value")
	// sum of integers stays an integer, mean of integers is a float
	d := &Data{Points: []Point{{T: 1, Fields: map[string]Value{"n": iv(1)}}, {T: 2, Fields: map[string]Value{"n": iv(2)}}}}
	q = &Query{Measurement: "m", Proj: []Proj{{Kind: ProjCall, Func: "mean", Name: "n"}}}
	expectOK(t, d, q, q.String(), []string{"time", "mean"}, []wantSeries{{nil, [][]any{{int64(0), 1.5}}}})
	expectReject(t, d, q, []string{"time", "mean"}, []wantSeries{{nil, [][]any{{int64(0), 1.0}}}}, "truncated mean")
	q.Proj[0].Func = "sum"
	expectOK(t, d, q, q.String(), []string{"time", "sum"}, []wantSeries{{nil, [][]any{{int64(0), int64(3)}}}})
}

func TestDocOrderDescAndNullColumns(t *testing.T) {
	d := &Data{Points: []Point{
		{Tags: map[string]string{"host": "a"}, T: 10, Fields: map[string]Value{"x": fv(1)}},
		{Tags: map[string]string{"host": "a"}, T: 20, Fields: map[string]Value{"y": iv(2)}},
		{Tags: map[string]string{"host": "b"}, T: 30, Fields: map[string]Value{"x": fv(3), "y": iv(4)}},
		{Tags: map[string]string{"host": "b"}, T: 40, Fields: map[string]Value{"z": sv("only z")}},
	}}
	q := &Query{Measurement: "m", Proj: []Proj{{Kind: ProjField, Name: "x"}, {Kind: ProjField, Name: "y"}, {Kind: ProjTag, Name: "host"}}, Desc: true}
	// the point that has neither x nor y is not returned; missing fields are null
	expectOK(t, d, q, `SELECT "x", "y", "host" FROM "m" ORDER BY time DESC`, []string{"time", "x", "y", "host"},
		[]wantSeries{{nil, [][]any{{int64(30), 3.0, int64(4), "b"}, {int64(20), nil, int64(2), "a"}, {int64(10), 1.0, nil, "a"}}}})
	// time bounds in the three literal forms
	q = &Query{Measurement: "m", Proj: []Proj{{Kind: ProjField, Name: "x"}}, Times: []TimeBound{{Op: GT, T: 10, Style: 1}, {Op: LTE, T: 3000, Style: 2}}}
	if !strings.Contains(q.String(), "time > 10 AND time <= 3u") {
		t.Fatal(q.String())
	}
	expectOK(t, d, q, q.String(), []string{"time", "x"}, []wantSeries{{nil, [][]any{{int64(30), 3.0}}}})
}

// Several functions in one SELECT clause (documentation: "Specify multiple functions in the
// SELECT clause"; selectors: "a selector with another function returns epoch 0 or the lower
// bound of the time range / the start of the GROUP BY time interval").
func TestDocSeveralCalls(t *testing.T) {
	q := &Query{Measurement: "h2o_feet", Proj: []Proj{{Kind: ProjCall, Func: "max", Name: "water_level"}, {Kind: ProjCall, Func: "min", Name: "water_level"}}}
	expectOK(t, noaa(), q, `SELECT max("water_level"), min("water_level") FROM "h2o_feet"`, []string{"time", "max", "min"},
		[]wantSeries{{nil, [][]any{{int64(0), 8.12, 1.991}}}})
	expectReject(t, noaa(), q, []string{"time", "max", "min"}, []wantSeries{{nil, [][]any{{"2015-08-18T00:00:00Z", 8.12, 1.991}}}}, "time of a selected point")
	// the same function twice needs aliases
	q = &Query{Measurement: "h2o_feet", Proj: []Proj{{Kind: ProjCall, Func: "first", Name: "water_level"}, {Kind: ProjCall, Func: "first", Name: "level description"}}, GroupBy: []string{"location"}}
	if _, err := Eval(noaa(), q); err == nil {
		t.Fatal("duplicate column accepted")
	}
	q.Proj[0].Alias, q.Proj[1].Alias = "w", "d"
	expectOK(t, noaa(), q, `SELECT first("water_level") AS "w", first("level description") AS "d" FROM "h2o_feet" GROUP BY "location"`, []string{"time", "w", "d"},
		[]wantSeries{{cc, [][]any{{int64(0), 8.12, "between 6 and 9 feet"}}}, {sm, [][]any{{int64(0), 2.064, "below 3 feet"}}}})

	// fields with different coverage: a in buckets 0 and 3, b in all four; x only in series h=2
	d := &Data{}
	add := func(h string, sec int64, f string, v Value) {
		d.Points = append(d.Points, Point{Tags: map[string]string{"h": h}, T: sec * 1e9, Fields: map[string]Value{f: v}})
	}
	add("1", 5, "b", fv(10))
	add("1", 6, "a", fv(1))
	add("1", 15, "b", fv(20))
	add("1", 25, "b", fv(30))
	add("1", 35, "a", fv(7))
	add("1", 36, "b", fv(40))
	add("2", 15, "x", iv(3))
	tb := []TimeBound{{Op: GTE, T: 0, Style: 1}, {Op: LT, T: 40e9, Style: 2}}
	q = &Query{Measurement: "m", Proj: []Proj{{Kind: ProjCall, Func: "min", Name: "a"}, {Kind: ProjCall, Func: "max", Name: "b"}, {Kind: ProjCall, Func: "count", Name: "x"}},
		Times: tb, Interval: 10e9, Fill: FillNone, Desc: true, GroupBy: []string{"h"}}
	h1, h2 := map[string]string{"h": "1"}, map[string]string{"h": "2"}
	cols := []string{"time", "min", "max", "count"}
	// fill(none): an interval is reported when one of the calls has data in it; COUNT() of nothing: 0 or null
	expectOK(t, d, q, `SELECT min("a"), max("b"), count("x") FROM "m" WHERE time >= 0 AND time < 40s GROUP BY time(10s), "h" fill(none) ORDER BY time DESC`, cols,
		[]wantSeries{{h1, [][]any{{int64(30e9), 7.0, 40.0, nil}, {int64(20e9), nil, 30.0, int64(0)}, {int64(10e9), nil, 20.0, nil}, {int64(0), 1.0, 10.0, nil}}},
			{h2, [][]any{{int64(10e9), nil, nil, int64(1)}}}})
	// rows of one interval split in two, out of time order (what a wrong head selection in the join produces)
	expectReject(t, d, q, cols, []wantSeries{{h1, [][]any{{int64(30e9), 7.0, 40.0, nil}, {int64(0), 1.0, nil, nil}, {int64(20e9), nil, 30.0, nil}, {int64(10e9), nil, 20.0, nil}, {int64(0), nil, 10.0, nil}}},
		{h2, [][]any{{int64(10e9), nil, nil, int64(1)}}}}, "split rows")
	expectReject(t, d, q, cols, []wantSeries{{h1, [][]any{{int64(30e9), 7.0, 40.0, nil}, {int64(20e9), nil, 30.0, nil}, {int64(10e9), nil, 20.0, nil}, {int64(0), 1.0, 10.0, nil}}},
		{h2, [][]any{{int64(10e9), nil, nil, nil}}}}, "count of one point reported as null")
	// fill(<number>): every call is filled on its own, also the one without points in the series
	q.Fill, q.FillInt, q.Desc = FillValue, 9, false
	expectOK(t, d, q, q.String(), cols,
		[]wantSeries{{h1, [][]any{{int64(0), 1.0, 10.0, int64(9)}, {int64(10e9), 9.0, 20.0, int64(9)}, {int64(20e9), 9.0, 30.0, int64(9)}, {int64(30e9), 7.0, 40.0, int64(9)}}},
			{h2, [][]any{{int64(0), 9.0, 9.0, int64(9)}, {int64(10e9), 9.0, 9.0, int64(1)}, {int64(20e9), 9.0, 9.0, int64(9)}, {int64(30e9), 9.0, 9.0, int64(9)}}}})
	// fill(previous) per call
	q.Fill = FillPrevious
	expectOK(t, d, q, q.String(), cols,
		[]wantSeries{{h1, [][]any{{int64(0), 1.0, 10.0, nil}, {int64(10e9), 1.0, 20.0, nil}, {int64(20e9), 1.0, 30.0, nil}, {int64(30e9), 7.0, 40.0, nil}}},
			{h2, [][]any{{int64(0), nil, nil, nil}, {int64(10e9), nil, nil, int64(1)}, {int64(20e9), nil, nil, int64(1)}, {int64(30e9), nil, nil, int64(1)}}}})
	// LIMIT/OFFSET count joined rows
	q.Fill, q.Limit, q.RowOffset = FillNone, 2, 1
	expectOK(t, d, q, q.String(), cols,
		[]wantSeries{{h1, [][]any{{int64(10e9), nil, 20.0, nil}, {int64(20e9), nil, 30.0, nil}}}})
	if r := mustEval(t, d, q); r.Misaligned != 2 || r.AbsentCalls != 3 {
		t.Fatalf("statistics: misaligned %d absent %d", r.Misaligned, r.AbsentCalls)
	}
}

// MIN()/MAX() ties: the earliest of the tied points is the selected one, whatever the order of
// the series or of the output; tied points sharing the earliest timestamp stay interchangeable.
func TestMinMaxTieEarliest(t *testing.T) {
	d := &Data{Points: []Point{
		{Tags: map[string]string{"host": "a"}, T: 10, Fields: map[string]Value{"x": iv(3)}},
		{Tags: map[string]string{"host": "b"}, T: 50, Fields: map[string]Value{"x": iv(9)}},
		{Tags: map[string]string{"host": "c"}, T: 50, Fields: map[string]Value{"x": iv(9)}},
		{Tags: map[string]string{"host": "a"}, T: 70, Fields: map[string]Value{"x": iv(9)}},
		{Tags: map[string]string{"host": "b"}, T: 90, Fields: map[string]Value{"x": iv(3)}},
	}}
	cols := []string{"time", "max", "host"}
	for _, desc := range []bool{false, true} {
		q := &Query{Measurement: "m", Proj: []Proj{{Kind: ProjCall, Func: "max", Name: "x"}, {Kind: ProjTag, Name: "host"}}, Desc: desc}
		r := mustEval(t, d, q)
		if r.MinMaxTies != 1 || r.MinMaxTiesDecided != 1 || r.MinMaxTiesAcrossSeries != 1 {
			t.Fatalf("tie statistics: %+v", r)
		}
		for _, h := range []string{"b", "c"} {
			if err := r.Check(toGot(cols, []wantSeries{{nil, [][]any{{int64(50), int64(9), h}}}})); err != nil {
				t.Fatalf("earliest tied point (host %s) rejected: %v", h, err)
			}
		}
		expectReject(t, d, q, cols, []wantSeries{{nil, [][]any{{int64(70), int64(9), "a"}}}}, "later tied point")
		q.Proj[0].Func = "min"
		cols2 := []string{"time", "min", "host"}
		expectReject(t, d, q, cols2, []wantSeries{{nil, [][]any{{int64(90), int64(3), "b"}}}}, "later tied point")
		if err := mustEval(t, d, q).Check(toGot(cols2, []wantSeries{{nil, [][]any{{int64(10), int64(3), "a"}}}})); err != nil {
			t.Fatal(err)
		}
	}
	// with GROUP BY time the row carries the bucket start: a tie is decided only through tag columns
	q := &Query{Measurement: "m", Proj: []Proj{{Kind: ProjCall, Func: "max", Name: "x"}}, Times: []TimeBound{{Op: GTE, T: 0}, {Op: LT, T: 100}}, Interval: 100}
	if r := mustEval(t, d, q); r.MinMaxTies != 1 || r.MinMaxTiesDecided != 0 {
		t.Fatalf("tie statistics under GROUP BY time: %+v", r)
	}
}
