package refql

import (
	"fmt"
	"math"
	"math/big"
	"regexp"
	"sort"
	"strings"
)

// Cell is one expected output value.
type Cell struct {
	Null   bool
	V      Value
	Approx bool // float computed by arithmetic: compared with a relative tolerance
	// Ranged: integer fill(linear) — the documentation does not say how the interpolated value is
	// rounded; any integer in [Lo, Hi] (floor and ceiling of the exact interpolation) is accepted.
	Ranged bool
	Lo, Hi int64
	// Any: any non-null value of kind V.K is accepted (interpolation between ambiguous neighbours).
	Any bool
	// OrNull: null is accepted as well as the value. Used for COUNT() in a statement with several
	// calls at a position where only another call has data: the documentation says that COUNT()
	// reports 0 for intervals without data, but not what it reports where it has no row of its own.
	OrNull bool
}

// Row is one expected output row.
type Row struct {
	T     int64
	Cells []Cell
}

// Slot is one output position; Alts lists every admissible row (more than one only for selector
// ties that no rule resolves: FIRST()/LAST() over points with equal timestamps, MIN()/MAX() over
// tied points that also share the earliest timestamp).
type Slot struct {
	Alts []Row
}

// Series is one output series, with ALL its rows in output order before LIMIT/OFFSET.
type Series struct {
	Tags  map[string]string // dimension → value ("" when the series has no such tag)
	Slots []Slot
}

// Result is the expected result of a query before LIMIT/OFFSET/SLIMIT/SOFFSET; Check applies them.
type Result struct {
	Q       *Query
	Columns []string
	Series  []Series // ascending by dimension values (dimension names sorted)

	// Statistics of a statement with several calls (for generator-distribution reports):
	// AbsentCalls counts (series, call) pairs where the call has no point at all in the series;
	// Misaligned counts rows in which a call that has points in the series has no row of its own
	// while another call has one (only possible under fill(none)).
	AbsentCalls int
	Misaligned  int

	// Statistics about MIN()/MAX() ties (for generator-distribution reports): MinMaxTies counts
	// the buckets in which more than one point attains the extremum; MinMaxTiesDecided those of
	// them in which the tied points would give different output rows (time, tag columns), so that
	// the rule "the earliest tied point is selected" decides what is returned;
	// MinMaxTiesAcrossSeries those decided ties whose tied points belong to different stored series.
	MinMaxTies             int
	MinMaxTiesDecided      int
	MinMaxTiesAcrossSeries int
}

type tri int

const (
	no tri = iota
	yes
	unknown
)

func triAnd(a, b tri) tri {
	if a == no || b == no {
		return no
	}
	if a == yes && b == yes {
		return yes
	}
	return unknown
}

func triOr(a, b tri) tri {
	if a == yes || b == yes {
		return yes
	}
	if a == no && b == no {
		return no
	}
	return unknown
}

var reCache = map[string]*regexp.Regexp{}

func compileRe(s string) *regexp.Regexp {
	if r, ok := reCache[s]; ok {
		return r
	}
	r := regexp.MustCompile(s)
	reCache[s] = r
	return r
}

func cmpOrdered(c int, op Op) bool {
	switch op {
	case EQ:
		return c == 0
	case NEQ:
		return c != 0
	case LT:
		return c < 0
	case LTE:
		return c <= 0
	case GT:
		return c > 0
	case GTE:
		return c >= 0
	}
	return false
}

func cmpFloat(a, b float64) int {
	switch {
	case a < b:
		return -1
	case a > b:
		return 1
	}
	return 0
}

func cmpBig(a, b *big.Int) int { return a.Cmp(b) }

// compareNumeric compares a field value with a numeric literal.
func compareNumeric(v, lit Value, op Op) bool {
	if v.K == Float || lit.K == Float {
		var a, b float64
		switch v.K {
		case Float:
			a = v.F
		case Integer:
			a = float64(v.I)
		case Unsigned:
			a = float64(v.U)
		}
		switch lit.K {
		case Float:
			b = lit.F
		case Integer:
			b = float64(lit.I)
		case Unsigned:
			b = float64(lit.U)
		}
		return cmpOrdered(cmpFloat(a, b), op)
	}
	toBig := func(x Value) *big.Int {
		if x.K == Unsigned {
			return new(big.Int).SetUint64(x.U)
		}
		return big.NewInt(x.I)
	}
	return cmpOrdered(cmpBig(toBig(v), toBig(lit)), op)
}

func isNumeric(k Kind) bool { return k == Float || k == Integer || k == Unsigned }

func evalFieldCmp(c FieldCmp, fields map[string]Value) bool {
	v, ok := fields[c.Field]
	if !ok {
		// A point that does not have the field has no value to compare: it does not match.
		return false
	}
	switch c.Op {
	case EQREGEX, NEQREGEX:
		if v.K != String {
			return false
		}
		m := compileRe(c.Regex).MatchString(v.S)
		return m == (c.Op == EQREGEX)
	}
	switch {
	case isNumeric(v.K) && isNumeric(c.Lit.K):
		return compareNumeric(v, c.Lit, c.Op)
	case v.K == String && c.Lit.K == String:
		return cmpOrdered(strings.Compare(v.S, c.Lit.S), c.Op)
	case v.K == Boolean && c.Lit.K == Boolean:
		switch c.Op {
		case EQ:
			return v.B == c.Lit.B
		case NEQ:
			return v.B != c.Lit.B
		}
	}
	return false
}

func evalTagCmp(c TagCmp, tags map[string]string) bool {
	v := tags[c.Key] // a series without the tag behaves as if the tag value were the empty string
	switch c.Op {
	case EQ:
		return v == c.Val
	case NEQ:
		return v != c.Val
	case EQREGEX:
		return compileRe(c.Val).MatchString(v)
	case NEQREGEX:
		return !compileRe(c.Val).MatchString(v)
	}
	panic("refql: bad tag operator")
}

func evalCond(c Cond, tags map[string]string, fields map[string]Value, fieldsKnown bool) tri {
	switch c := c.(type) {
	case nil:
		return yes
	case And:
		return triAnd(evalCond(c.L, tags, fields, fieldsKnown), evalCond(c.R, tags, fields, fieldsKnown))
	case Or:
		return triOr(evalCond(c.L, tags, fields, fieldsKnown), evalCond(c.R, tags, fields, fieldsKnown))
	case TagCmp:
		if evalTagCmp(c, tags) {
			return yes
		}
		return no
	case FieldCmp:
		if !fieldsKnown {
			return unknown
		}
		if evalFieldCmp(c, fields) {
			return yes
		}
		return no
	}
	panic(fmt.Sprintf("refql: unknown condition %T", c))
}

// PossiblyMatches reports whether a series with these tags can satisfy the condition for some
// field values (false only when the tag comparisons alone make the condition false).
func PossiblyMatches(c Cond, tags map[string]string) bool {
	return evalCond(c, tags, nil, false) != no
}

// Dims returns the sorted dimension tag keys of the query over the data.
func (q *Query) Dims(d *Data) []string {
	seen := map[string]bool{}
	if q.GroupAll {
		for _, k := range d.TagKeys() {
			seen[k] = true
		}
	}
	for _, k := range q.GroupBy {
		seen[k] = true
	}
	out := make([]string, 0, len(seen))
	for k := range seen {
		out = append(out, k)
	}
	sort.Strings(out)
	return out
}

// GroupKey renders the dimension values of a tag set (dimension names sorted).
func GroupKey(dims []string, tags map[string]string) string {
	var sb strings.Builder
	for _, k := range dims {
		sb.WriteString(tags[k])
		sb.WriteByte(0)
	}
	return sb.String()
}

type group struct {
	tags map[string]string
	pts  []*Point
}

func floorDiv(a, b int64) int64 {
	q := a / b
	if a%b != 0 && (a < 0) != (b < 0) {
		q--
	}
	return q
}

// Eval computes the expected result of q over d.
func Eval(d *Data, q *Query) (*Result, error) {
	lo, hi, hasLo, hasHi := q.TimeRange()
	if !hasLo {
		lo = math.MinInt64
	}
	if !hasHi {
		hi = math.MaxInt64
	}
	call := -1
	calls := q.Calls()
	if len(calls) > 0 {
		call = calls[0]
	}
	var kinds map[string]Kind
	if len(calls) > 1 {
		// several calls: the SELECT list holds nothing else (calls cannot be mixed with fields or tags)
		if len(calls) != len(q.Proj) {
			return nil, fmt.Errorf("refql: several calls mixed with fields or tags")
		}
		kinds = map[string]Kind{}
		for i := range d.Points {
			for f, v := range d.Points[i].Fields {
				kinds[f] = v.K
			}
		}
		for _, ci := range calls {
			if _, ok := kinds[q.Proj[ci].Name]; !ok {
				return nil, fmt.Errorf("refql: call on field %q that no point has, among several calls, is not modelled", q.Proj[ci].Name)
			}
		}
	}
	if q.Interval > 0 {
		if call < 0 {
			return nil, fmt.Errorf("refql: GROUP BY time requires a call")
		}
		if !hasLo || !hasHi {
			return nil, fmt.Errorf("refql: GROUP BY time without explicit bounds is not modelled")
		}
	}
	if q.Fill != FillDefault && q.Interval == 0 {
		return nil, fmt.Errorf("refql: fill without GROUP BY time is not modelled")
	}
	res := &Result{Q: q, Columns: []string{"time"}}
	for _, p := range q.Proj {
		res.Columns = append(res.Columns, p.Column())
	}
	seenCol := map[string]bool{}
	for _, c := range res.Columns {
		if seenCol[c] {
			// the documentation does not say how equal column names are told apart
			return nil, fmt.Errorf("refql: duplicate output column %q (use an alias)", c)
		}
		seenCol[c] = true
	}
	dims := q.Dims(d)

	// WHERE: time range and condition, per point.
	groups := map[string]*group{}
	for i := range d.Points {
		p := &d.Points[i]
		if p.T < lo || p.T > hi {
			continue
		}
		if evalCond(q.Cond, p.Tags, p.Fields, true) != yes {
			continue
		}
		if call >= 0 {
			// a point takes part when it has the argument field of (one of) the call(s)
			any := false
			for _, ci := range calls {
				if _, ok := p.Fields[q.Proj[ci].Name]; ok {
					any = true
				}
			}
			if !any {
				continue
			}
		} else {
			any := false
			for _, pr := range q.Proj {
				if pr.Kind == ProjField {
					if _, ok := p.Fields[pr.Name]; ok {
						any = true
					}
				}
			}
			if !any {
				// a row is returned only if at least one selected field has a value at that point
				continue
			}
		}
		k := GroupKey(dims, p.Tags)
		g := groups[k]
		if g == nil {
			g = &group{tags: map[string]string{}}
			for _, dk := range dims {
				g.tags[dk] = p.Tags[dk]
			}
			groups[k] = g
		}
		g.pts = append(g.pts, p)
	}
	keys := make([]string, 0, len(groups))
	for k := range groups {
		keys = append(keys, k)
	}
	sort.Strings(keys)

	for _, k := range keys {
		g := groups[k]
		sort.SliceStable(g.pts, func(i, j int) bool { return g.pts[i].T < g.pts[j].T })
		var slots []Slot
		var err error
		if call < 0 {
			slots = rawSlots(q, g)
		} else if len(calls) > 1 {
			slots, err = multiCallSlots(res, calls, kinds, g, lo, hi, hasLo)
			if err != nil {
				return nil, err
			}
		} else {
			slots, err = callSlots(res, q, call, g, lo, hi, hasLo, false)
			if err != nil {
				return nil, err
			}
		}
		if q.Desc {
			for i, j := 0, len(slots)-1; i < j; i, j = i+1, j-1 {
				slots[i], slots[j] = slots[j], slots[i]
			}
		}
		if len(slots) == 0 {
			continue
		}
		res.Series = append(res.Series, Series{Tags: g.tags, Slots: slots})
	}
	return res, nil
}

func projCells(q *Query, p *Point, callIdx int, callCell Cell) []Cell {
	cells := make([]Cell, len(q.Proj))
	for i, pr := range q.Proj {
		switch pr.Kind {
		case ProjField:
			if v, ok := p.Fields[pr.Name]; ok {
				cells[i] = Cell{V: v}
			} else {
				cells[i] = Cell{Null: true}
			}
		case ProjTag:
			if v, ok := p.Tags[pr.Name]; ok {
				cells[i] = Cell{V: Value{K: String, S: v}}
			} else {
				cells[i] = Cell{Null: true}
			}
		case ProjCall:
			cells[i] = callCell
		}
	}
	return cells
}

func rawSlots(q *Query, g *group) []Slot {
	slots := make([]Slot, 0, len(g.pts))
	for _, p := range g.pts {
		slots = append(slots, Slot{Alts: []Row{{T: p.T, Cells: projCells(q, p, -1, Cell{})}}})
	}
	return slots
}

func numAsFloat(v Value) float64 {
	switch v.K {
	case Float:
		return v.F
	case Integer:
		return float64(v.I)
	case Unsigned:
		return float64(v.U)
	}
	panic("refql: not numeric")
}

func cmpValues(a, b Value) int {
	switch a.K {
	case Float:
		return cmpFloat(a.F, b.F)
	case Integer:
		switch {
		case a.I < b.I:
			return -1
		case a.I > b.I:
			return 1
		}
		return 0
	case Unsigned:
		switch {
		case a.U < b.U:
			return -1
		case a.U > b.U:
			return 1
		}
		return 0
	}
	panic("refql: not ordered")
}

// CompareValues orders two numeric values of the same kind (-1, 0, 1).
func CompareValues(a, b Value) int { return cmpValues(a, b) }

// bucketValue computes the call over the points of one bucket (all have the field). For an
// aggregate it returns one row; for a selector every admissible (point) choice.
// rowT < 0 is never used: fixedT says whether the output time is rowT (bucket start / range
// start) or the time of the selected point.
func bucketValue(res *Result, q *Query, call int, pts []*Point, fixedT bool, rowT int64) ([]Row, error) {
	fn, field := q.Proj[call].Func, q.Proj[call].Name
	kind := pts[0].Fields[field].K
	for _, p := range pts {
		if p.Fields[field].K != kind {
			return nil, fmt.Errorf("refql: field %q has mixed types", field)
		}
	}
	emptyPoint := &Point{} // aggregates carry no tags/fields of any particular point
	one := func(c Cell) []Row {
		return []Row{{T: rowT, Cells: projCells(q, emptyPoint, call, c)}}
	}
	switch fn {
	case "count":
		return one(Cell{V: Value{K: Integer, I: int64(len(pts))}}), nil
	case "sum", "mean":
		if !isNumeric(kind) {
			return nil, fmt.Errorf("refql: %s of %v", fn, kind)
		}
		if fn == "sum" {
			switch kind {
			case Float:
				s := 0.0
				for _, p := range pts {
					s += p.Fields[field].F
				}
				return one(Cell{V: Value{K: Float, F: s}, Approx: true}), nil
			case Integer:
				var s int64
				for _, p := range pts {
					s += p.Fields[field].I
				}
				return one(Cell{V: Value{K: Integer, I: s}}), nil
			default:
				var s uint64
				for _, p := range pts {
					s += p.Fields[field].U
				}
				return one(Cell{V: Value{K: Unsigned, U: s}}), nil
			}
		}
		s := 0.0
		for _, p := range pts {
			s += numAsFloat(p.Fields[field])
		}
		return one(Cell{V: Value{K: Float, F: s / float64(len(pts))}, Approx: true}), nil
	case "min", "max", "first", "last":
		if (fn == "min" || fn == "max") && !isNumeric(kind) {
			return nil, fmt.Errorf("refql: %s of %v", fn, kind)
		}
		// the selected points: every point that attains the extremum
		var best []*Point
		better := func(a, b *Point) int { // >0: a is a better choice than b
			switch fn {
			case "first":
				return -cmpInt(a.T, b.T)
			case "last":
				return cmpInt(a.T, b.T)
			case "min":
				return -cmpValues(a.Fields[field], b.Fields[field])
			default:
				return cmpValues(a.Fields[field], b.Fields[field])
			}
		}
		for _, p := range pts {
			switch {
			case len(best) == 0:
				best = []*Point{p}
			case better(p, best[0]) > 0:
				best = []*Point{p}
			case better(p, best[0]) == 0:
				best = append(best, p)
			}
		}
		rowsOf := func(sel []*Point) []Row {
			var rows []Row
			seen := map[string]bool{}
			for _, p := range sel {
				t := p.T
				if fixedT {
					t = rowT
				}
				r := Row{T: t, Cells: projCells(q, p, call, Cell{V: p.Fields[field]})}
				k := rowKey(r)
				if !seen[k] {
					seen[k] = true
					rows = append(rows, r)
				}
			}
			return rows
		}
		if (fn == "min" || fn == "max") && len(best) > 1 {
			// MIN()/MAX() ties: the point with the earliest timestamp among those that attain the
			// extremum is the selected one (the rule the documentation states for TOP()/BOTTOM(), of
			// which MAX()/MIN() are the N=1 case, and the one the product's reducers spell out); the
			// result must not depend on the order in which shards, series or blocks are read. Tied
			// points of different series with the same earliest timestamp stay interchangeable.
			earliest := best[0].T
			for _, p := range best {
				if p.T < earliest {
					earliest = p.T
				}
			}
			var sel []*Point
			for _, p := range best {
				if p.T == earliest {
					sel = append(sel, p)
				}
			}
			if res != nil {
				res.MinMaxTies++
				if len(rowsOf(best)) > len(rowsOf(sel)) {
					res.MinMaxTiesDecided++
					for _, p := range best[1:] {
						if fmt.Sprint(p.Tags) != fmt.Sprint(best[0].Tags) {
							res.MinMaxTiesAcrossSeries++
							break
						}
					}
				}
			}
			best = sel
		}
		return rowsOf(best), nil
	}
	return nil, fmt.Errorf("refql: unknown function %q", fn)
}

func cmpInt(a, b int64) int {
	switch {
	case a < b:
		return -1
	case a > b:
		return 1
	}
	return 0
}

func isSelector(fn string) bool {
	return fn == "min" || fn == "max" || fn == "first" || fn == "last"
}

// OutputKind is the type of the call's result for an input field of kind k.
func OutputKind(fn string, k Kind) Kind {
	switch fn {
	case "count":
		return Integer
	case "mean":
		return Float
	}
	return k
}

// callSlots computes the rows of one call over one group. fixedT: the call is not the only one of
// the statement, so that even a selector does not return the timestamp of the selected point.
func callSlots(res *Result, q *Query, call int, g *group, lo, hi int64, hasLo bool, fixedT bool) ([]Slot, error) {
	fn := q.Proj[call].Func
	if q.Interval == 0 {
		// One row per series. An aggregate has no timestamp of its own: the row carries the lower
		// bound of the queried range, or epoch 0 when there is none. A selector returns the
		// timestamp of the selected point (unless it shares the statement with other calls).
		t := int64(0)
		if hasLo {
			t = lo
		}
		rows, err := bucketValue(res, q, call, g.pts, fixedT || !isSelector(fn), t)
		if err != nil {
			return nil, err
		}
		return []Slot{{Alts: rows}}, nil
	}
	// GROUP BY time(interval, offset): boundaries are the multiples of interval shifted by offset;
	// the buckets returned are those that intersect the queried range; each row carries the start
	// of its bucket (which can precede the range's lower bound).
	iv, off := q.Interval, q.Offset
	first := floorDiv(lo-off, iv)
	last := floorDiv(hi-off, iv)
	n := int(last - first + 1)
	if n <= 0 {
		return nil, nil
	}
	buckets := make([][]*Point, n)
	for _, p := range g.pts {
		b := int(floorDiv(p.T-off, iv) - first)
		buckets[b] = append(buckets[b], p)
	}
	inKind := g.pts[0].Fields[q.Proj[call].Name].K
	outKind := OutputKind(fn, inKind)
	slots := make([]Slot, n)
	filled := make([]bool, n) // has data
	for b := range buckets {
		t := (first+int64(b))*iv + off
		if len(buckets[b]) > 0 {
			rows, err := bucketValue(res, q, call, buckets[b], true, t)
			if err != nil {
				return nil, err
			}
			slots[b] = Slot{Alts: rows}
			filled[b] = true
		}
	}
	emptyPoint := &Point{}
	mk := func(b int, c Cell) Slot {
		t := (first+int64(b))*iv + off
		return Slot{Alts: []Row{{T: t, Cells: projCells(q, emptyPoint, call, c)}}}
	}
	nullCell := Cell{Null: true}
	if fn == "count" {
		// COUNT() reports 0 for intervals with no data; fill(x) replaces that 0.
		nullCell = Cell{V: Value{K: Integer, I: 0}}
	}
	var out []Slot
	switch q.Fill {
	case FillNone:
		for b := range slots {
			if filled[b] {
				out = append(out, slots[b])
			}
		}
		return out, nil
	case FillDefault, FillNull:
		for b := range slots {
			if !filled[b] {
				slots[b] = mk(b, nullCell)
			}
		}
	case FillValue:
		var c Cell
		switch outKind {
		case Float:
			c = Cell{V: Value{K: Float, F: float64(q.FillInt)}}
		case Integer:
			c = Cell{V: Value{K: Integer, I: q.FillInt}}
		case Unsigned:
			if q.FillInt < 0 {
				return nil, fmt.Errorf("refql: negative fill for unsigned")
			}
			c = Cell{V: Value{K: Unsigned, U: uint64(q.FillInt)}}
		default:
			return nil, fmt.Errorf("refql: fill(value) for %v output", outKind)
		}
		for b := range slots {
			if !filled[b] {
				slots[b] = mk(b, c)
			}
		}
	case FillPrevious:
		// the value of the previous time interval; null when there is none inside the range
		order := make([]int, n)
		for i := range order {
			order[i] = i
		}
		if q.PreviousFollowsOutputOrder && q.Desc {
			for i := range order {
				order[i] = n - 1 - i
			}
		}
		prev := -1
		for _, b := range order {
			if filled[b] {
				prev = b
				continue
			}
			if prev < 0 {
				slots[b] = mk(b, Cell{Null: true})
				continue
			}
			var alts []Row
			seen := map[string]bool{}
			for _, r := range slots[prev].Alts {
				nr := mk(b, r.Cells[call]).Alts[0]
				if k := rowKey(nr); !seen[k] {
					seen[k] = true
					alts = append(alts, nr)
				}
			}
			slots[b] = Slot{Alts: alts}
		}
	case FillLinear:
		if !isNumeric(outKind) {
			return nil, fmt.Errorf("refql: fill(linear) for %v output", outKind)
		}
		prev := -1
		for b := 0; b < n; b++ {
			if filled[b] {
				prev = b
				continue
			}
			next := -1
			for j := b + 1; j < n; j++ {
				if filled[j] {
					next = j
					break
				}
			}
			if prev < 0 || next < 0 {
				// no value on one side inside the queried range: null
				slots[b] = mk(b, Cell{Null: true})
				continue
			}
			if len(slots[prev].Alts) > 1 || len(slots[next].Alts) > 1 {
				slots[b] = mk(b, Cell{V: Value{K: outKind}, Any: true})
				continue
			}
			a, z := slots[prev].Alts[0].Cells[call].V, slots[next].Alts[0].Cells[call].V
			num, den := int64(b-prev), int64(next-prev)
			switch outKind {
			case Float:
				v := a.F + (z.F-a.F)*float64(num)/float64(den)
				slots[b] = mk(b, Cell{V: Value{K: Float, F: v}, Approx: true})
			case Integer:
				// exact: a + (z-a)*num/den, floor and ceiling
				d := new(big.Int).Mul(big.NewInt(z.I-a.I), big.NewInt(num))
				fl := new(big.Int).Div(d, big.NewInt(den)) // Euclidean: floor for positive den
				exact := new(big.Int).Mod(d, big.NewInt(den)).Sign() == 0
				l := a.I + fl.Int64()
				h := l
				if !exact {
					h = l + 1
				}
				slots[b] = mk(b, Cell{V: Value{K: Integer}, Ranged: true, Lo: l, Hi: h})
			default:
				slots[b] = mk(b, Cell{V: Value{K: outKind}, Any: true})
			}
		}
	}
	return slots, nil
}

// multiCallSlots computes the rows of a statement with several calls over one group: every call
// is evaluated on its own over the points that have its argument field (exactly as if it were
// the only call, except that a selector does not return the time of the selected point) and the
// per-call rows are joined on their timestamps. A call that has no row at a timestamp where
// another call has one shows null there (the fill value under fill(<number>); for COUNT() 0 or
// null). With fill(none) a time interval is reported when at least one call has data in it.
func multiCallSlots(res *Result, calls []int, kinds map[string]Kind, g *group, lo, hi int64, hasLo bool) ([]Slot, error) {
	q := res.Q
	per := make([][]Slot, len(calls))
	absent := make([]Cell, len(calls))
	for k, ci := range calls {
		pr := q.Proj[ci]
		qi := *q
		qi.Proj = []Proj{pr}
		gi := &group{tags: g.tags}
		for _, p := range g.pts {
			if _, ok := p.Fields[pr.Name]; ok {
				gi.pts = append(gi.pts, p)
			}
		}
		// what the call's column holds where the call has no row of its own
		absent[k] = Cell{Null: true}
		outKind := OutputKind(pr.Func, kinds[pr.Name])
		switch {
		case q.Interval > 0 && q.Fill == FillValue:
			switch outKind {
			case Float:
				absent[k] = Cell{V: Value{K: Float, F: float64(q.FillInt)}}
			case Integer:
				absent[k] = Cell{V: Value{K: Integer, I: q.FillInt}}
			case Unsigned:
				if q.FillInt < 0 {
					return nil, fmt.Errorf("refql: negative fill for unsigned")
				}
				absent[k] = Cell{V: Value{K: Unsigned, U: uint64(q.FillInt)}}
			default:
				return nil, fmt.Errorf("refql: fill(value) for %v output", outKind)
			}
		case q.Interval > 0 && q.Fill == FillLinear:
			if !isNumeric(outKind) {
				return nil, fmt.Errorf("refql: fill(linear) for %v output", outKind)
			}
		case q.Interval > 0 && q.Fill == FillPrevious:
		case pr.Func == "count":
			absent[k] = Cell{V: Value{K: Integer, I: 0}, OrNull: true}
		}
		if len(gi.pts) == 0 {
			res.AbsentCalls++
			continue
		}
		sl, err := callSlots(res, &qi, 0, gi, lo, hi, hasLo, true)
		if err != nil {
			return nil, err
		}
		per[k] = sl
	}
	// join on the timestamp (all alternatives of a slot carry the same one)
	var times []int64
	seen := map[int64]bool{}
	at := make([]map[int64]*Slot, len(calls))
	for k := range per {
		at[k] = map[int64]*Slot{}
		for i := range per[k] {
			t := per[k][i].Alts[0].T
			for _, a := range per[k][i].Alts {
				if a.T != t {
					return nil, fmt.Errorf("refql: alternatives with different timestamps in a statement with several calls")
				}
			}
			if at[k][t] != nil {
				return nil, fmt.Errorf("refql: two rows of one call at the same timestamp")
			}
			at[k][t] = &per[k][i]
			if !seen[t] {
				seen[t] = true
				times = append(times, t)
			}
		}
	}
	sort.Slice(times, func(i, j int) bool { return times[i] < times[j] })
	out := make([]Slot, 0, len(times))
	for _, t := range times {
		rows := []Row{{T: t}}
		gap := false
		for k := range calls {
			var cells []Cell
			if s := at[k][t]; s != nil {
				for _, a := range s.Alts {
					cells = append(cells, a.Cells[0])
				}
			} else {
				cells = []Cell{absent[k]}
				if len(per[k]) > 0 {
					gap = true
				}
			}
			var next []Row
			for _, r := range rows {
				for _, c := range cells {
					nr := Row{T: t, Cells: append(append([]Cell(nil), r.Cells...), c)}
					next = append(next, nr)
				}
			}
			rows = next
		}
		var alts []Row
		dedup := map[string]bool{}
		for _, r := range rows {
			if k := rowKey(r); !dedup[k] {
				dedup[k] = true
				alts = append(alts, r)
			}
		}
		out = append(out, Slot{Alts: alts})
		if gap {
			res.Misaligned++
		}
	}
	return out, nil
}

func cellKey(c Cell) string {
	if c.OrNull {
		c.OrNull = false
		return "ornull:" + cellKey(c)
	}
	switch {
	case c.Null:
		return "null"
	case c.Any:
		return "any:" + c.V.K.String()
	case c.Ranged:
		return fmt.Sprintf("range:%d..%d", c.Lo, c.Hi)
	}
	if c.V.K == Float {
		return fmt.Sprintf("f:%#x", math.Float64bits(c.V.F))
	}
	return c.V.String()
}

func rowKey(r Row) string {
	var sb strings.Builder
	fmt.Fprintf(&sb, "%d", r.T)
	for _, c := range r.Cells {
		sb.WriteByte('|')
		sb.WriteString(cellKey(c))
	}
	return sb.String()
}
