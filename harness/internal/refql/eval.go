package refql

import (
	"fmt"
	"math"
	"math/big"
	"regexp"
	"sort"
	"strings"
)

// Cell is one expected output value.
type Cell struct {
	Null   bool
	V      Value
	Approx bool // float computed by arithmetic: compared with a relative tolerance
	// Ranged: integer fill(linear) — the documentation does not say how the interpolated value is
	// rounded; any integer in [Lo, Hi] (floor and ceiling of the exact interpolation) is accepted.
	Ranged bool
	Lo, Hi int64
	// Any: any non-null value of kind V.K is accepted (interpolation between ambiguous neighbours).
	Any bool
}

// Row is one expected output row.
type Row struct {
	T     int64
	Cells []Cell
}

// Slot is one output position; Alts lists every admissible row (more than one only for selector
// ties, which the documentation does not resolve).
type Slot struct {
	Alts []Row
}

// Series is one output series, with ALL its rows in output order before LIMIT/OFFSET.
type Series struct {
	Tags  map[string]string // dimension → value ("" when the series has no such tag)
	Slots []Slot
}

// Result is the expected result of a query before LIMIT/OFFSET/SLIMIT/SOFFSET; Check applies them.
type Result struct {
	Q       *Query
	Columns []string
	Series  []Series // ascending by dimension values (dimension names sorted)
}

type tri int

const (
	no tri = iota
	yes
	unknown
)

func triAnd(a, b tri) tri {
	if a == no || b == no {
		return no
	}
	if a == yes && b == yes {
		return yes
	}
	return unknown
}

func triOr(a, b tri) tri {
	if a == yes || b == yes {
		return yes
	}
	if a == no && b == no {
		return no
	}
	return unknown
}

var reCache = map[string]*regexp.Regexp{}

func compileRe(s string) *regexp.Regexp {
	if r, ok := reCache[s]; ok {
		return r
	}
	r := regexp.MustCompile(s)
	reCache[s] = r
	return r
}

func cmpOrdered(c int, op Op) bool {
	switch op {
	case EQ:
		return c == 0
	case NEQ:
		return c != 0
	case LT:
		return c < 0
	case LTE:
		return c <= 0
	case GT:
		return c > 0
	case GTE:
		return c >= 0
	}
	return false
}

func cmpFloat(a, b float64) int {
	switch {
	case a < b:
		return -1
	case a > b:
		return 1
	}
	return 0
}

func cmpBig(a, b *big.Int) int { return a.Cmp(b) }

// compareNumeric compares a field value with a numeric literal.
func compareNumeric(v, lit Value, op Op) bool {
	if v.K == Float || lit.K == Float {
		var a, b float64
		switch v.K {
		case Float:
			a = v.F
		case Integer:
			a = float64(v.I)
		case Unsigned:
			a = float64(v.U)
		}
		switch lit.K {
		case Float:
			b = lit.F
		case Integer:
			b = float64(lit.I)
		case Unsigned:
			b = float64(lit.U)
		}
		return cmpOrdered(cmpFloat(a, b), op)
	}
	toBig := func(x Value) *big.Int {
		if x.K == Unsigned {
			return new(big.Int).SetUint64(x.U)
		}
		return big.NewInt(x.I)
	}
	return cmpOrdered(cmpBig(toBig(v), toBig(lit)), op)
}

func isNumeric(k Kind) bool { return k == Float || k == Integer || k == Unsigned }

func evalFieldCmp(c FieldCmp, fields map[string]Value) bool {
	v, ok := fields[c.Field]
	if !ok {
		// A point that does not have the field has no value to compare: it does not match.
		return false
	}
	switch c.Op {
	case EQREGEX, NEQREGEX:
		if v.K != String {
			return false
		}
		m := compileRe(c.Regex).MatchString(v.S)
		return m == (c.Op == EQREGEX)
	}
	switch {
	case isNumeric(v.K) && isNumeric(c.Lit.K):
		return compareNumeric(v, c.Lit, c.Op)
	case v.K == String && c.Lit.K == String:
		return cmpOrdered(strings.Compare(v.S, c.Lit.S), c.Op)
	case v.K == Boolean && c.Lit.K == Boolean:
		switch c.Op {
		case EQ:
			return v.B == c.Lit.B
		case NEQ:
			return v.B != c.Lit.B
		}
	}
	return false
}

func evalTagCmp(c TagCmp, tags map[string]string) bool {
	v := tags[c.Key] // a series without the tag behaves as if the tag value were the empty string
	switch c.Op {
	case EQ:
		return v == c.Val
	case NEQ:
		return v != c.Val
	case EQREGEX:
		return compileRe(c.Val).MatchString(v)
	case NEQREGEX:
		return !compileRe(c.Val).MatchString(v)
	}
	panic("refql: bad tag operator")
}

func evalCond(c Cond, tags map[string]string, fields map[string]Value, fieldsKnown bool) tri {
	switch c := c.(type) {
	case nil:
		return yes
	case And:
		return triAnd(evalCond(c.L, tags, fields, fieldsKnown), evalCond(c.R, tags, fields, fieldsKnown))
	case Or:
		return triOr(evalCond(c.L, tags, fields, fieldsKnown), evalCond(c.R, tags, fields, fieldsKnown))
	case TagCmp:
		if evalTagCmp(c, tags) {
			return yes
		}
		return no
	case FieldCmp:
		if !fieldsKnown {
			return unknown
		}
		if evalFieldCmp(c, fields) {
			return yes
		}
		return no
	}
	panic(fmt.Sprintf("refql: unknown condition %T", c))
}

// PossiblyMatches reports whether a series with these tags can satisfy the condition for some
// field values (false only when the tag comparisons alone make the condition false).
func PossiblyMatches(c Cond, tags map[string]string) bool {
	return evalCond(c, tags, nil, false) != no
}

// Dims returns the sorted dimension tag keys of the query over the data.
func (q *Query) Dims(d *Data) []string {
	seen := map[string]bool{}
	if q.GroupAll {
		for _, k := range d.TagKeys() {
			seen[k] = true
		}
	}
	for _, k := range q.GroupBy {
		seen[k] = true
	}
	out := make([]string, 0, len(seen))
	for k := range seen {
		out = append(out, k)
	}
	sort.Strings(out)
	return out
}

// GroupKey renders the dimension values of a tag set (dimension names sorted).
func GroupKey(dims []string, tags map[string]string) string {
	var sb strings.Builder
	for _, k := range dims {
		sb.WriteString(tags[k])
		sb.WriteByte(0)
	}
	return sb.String()
}

type group struct {
	tags map[string]string
	pts  []*Point
}

func floorDiv(a, b int64) int64 {
	q := a / b
	if a%b != 0 && (a < 0) != (b < 0) {
		q--
	}
	return q
}

// Eval computes the expected result of q over d.
func Eval(d *Data, q *Query) (*Result, error) {
	lo, hi, hasLo, hasHi := q.TimeRange()
	if !hasLo {
		lo = math.MinInt64
	}
	if !hasHi {
		hi = math.MaxInt64
	}
	call := -1
	for i, p := range q.Proj {
		if p.Kind == ProjCall {
			if call >= 0 {
				return nil, fmt.Errorf("refql: more than one call")
			}
			call = i
		}
	}
	if q.Interval > 0 {
		if call < 0 {
			return nil, fmt.Errorf("refql: GROUP BY time requires a call")
		}
		if !hasLo || !hasHi {
			return nil, fmt.Errorf("refql: GROUP BY time without explicit bounds is not modelled")
		}
	}
	if q.Fill != FillDefault && q.Interval == 0 {
		return nil, fmt.Errorf("refql: fill without GROUP BY time is not modelled")
	}
	res := &Result{Q: q, Columns: []string{"time"}}
	for _, p := range q.Proj {
		if p.Kind == ProjCall {
			res.Columns = append(res.Columns, p.Func)
		} else {
			res.Columns = append(res.Columns, p.Name)
		}
	}
	dims := q.Dims(d)

	// WHERE: time range and condition, per point.
	groups := map[string]*group{}
	for i := range d.Points {
		p := &d.Points[i]
		if p.T < lo || p.T > hi {
			continue
		}
		if evalCond(q.Cond, p.Tags, p.Fields, true) != yes {
			continue
		}
		if call >= 0 {
			if _, ok := p.Fields[q.Proj[call].Name]; !ok {
				continue
			}
		} else {
			any := false
			for _, pr := range q.Proj {
				if pr.Kind == ProjField {
					if _, ok := p.Fields[pr.Name]; ok {
						any = true
					}
				}
			}
			if !any {
				// a row is returned only if at least one selected field has a value at that point
				continue
			}
		}
		k := GroupKey(dims, p.Tags)
		g := groups[k]
		if g == nil {
			g = &group{tags: map[string]string{}}
			for _, dk := range dims {
				g.tags[dk] = p.Tags[dk]
			}
			groups[k] = g
		}
		g.pts = append(g.pts, p)
	}
	keys := make([]string, 0, len(groups))
	for k := range groups {
		keys = append(keys, k)
	}
	sort.Strings(keys)

	for _, k := range keys {
		g := groups[k]
		sort.SliceStable(g.pts, func(i, j int) bool { return g.pts[i].T < g.pts[j].T })
		var slots []Slot
		var err error
		if call < 0 {
			slots = rawSlots(q, g)
		} else {
			slots, err = callSlots(q, call, g, lo, hi, hasLo)
			if err != nil {
				return nil, err
			}
		}
		if q.Desc {
			for i, j := 0, len(slots)-1; i < j; i, j = i+1, j-1 {
				slots[i], slots[j] = slots[j], slots[i]
			}
		}
		if len(slots) == 0 {
			continue
		}
		res.Series = append(res.Series, Series{Tags: g.tags, Slots: slots})
	}
	return res, nil
}

func projCells(q *Query, p *Point, callIdx int, callCell Cell) []Cell {
	cells := make([]Cell, len(q.Proj))
	for i, pr := range q.Proj {
		switch pr.Kind {
		case ProjField:
			if v, ok := p.Fields[pr.Name]; ok {
				cells[i] = Cell{V: v}
			} else {
				cells[i] = Cell{Null: true}
			}
		case ProjTag:
			if v, ok := p.Tags[pr.Name]; ok {
				cells[i] = Cell{V: Value{K: String, S: v}}
			} else {
				cells[i] = Cell{Null: true}
			}
		case ProjCall:
			cells[i] = callCell
		}
	}
	return cells
}

func rawSlots(q *Query, g *group) []Slot {
	slots := make([]Slot, 0, len(g.pts))
	for _, p := range g.pts {
		slots = append(slots, Slot{Alts: []Row{{T: p.T, Cells: projCells(q, p, -1, Cell{})}}})
	}
	return slots
}

func numAsFloat(v Value) float64 {
	switch v.K {
	case Float:
		return v.F
	case Integer:
		return float64(v.I)
	case Unsigned:
		return float64(v.U)
	}
	panic("refql: not numeric")
}

func cmpValues(a, b Value) int {
	switch a.K {
	case Float:
		return cmpFloat(a.F, b.F)
	case Integer:
		switch {
		case a.I < b.I:
			return -1
		case a.I > b.I:
			return 1
		}
		return 0
	case Unsigned:
		switch {
		case a.U < b.U:
			return -1
		case a.U > b.U:
			return 1
		}
		return 0
	}
	panic("refql: not ordered")
}

// bucketValue computes the call over the points of one bucket (all have the field). For an
// aggregate it returns one row; for a selector every admissible (point) choice.
// rowT < 0 is never used: fixedT says whether the output time is rowT (bucket start / range
// start) or the time of the selected point.
func bucketValue(q *Query, call int, pts []*Point, fixedT bool, rowT int64) ([]Row, error) {
	fn, field := q.Proj[call].Func, q.Proj[call].Name
	kind := pts[0].Fields[field].K
	for _, p := range pts {
		if p.Fields[field].K != kind {
			return nil, fmt.Errorf("refql: field %q has mixed types", field)
		}
	}
	emptyPoint := &Point{} // aggregates carry no tags/fields of any particular point
	one := func(c Cell) []Row {
		return []Row{{T: rowT, Cells: projCells(q, emptyPoint, call, c)}}
	}
	switch fn {
	case "count":
		return one(Cell{V: Value{K: Integer, I: int64(len(pts))}}), nil
	case "sum", "mean":
		if !isNumeric(kind) {
			return nil, fmt.Errorf("refql: %s of %v", fn, kind)
		}
		if fn == "sum" {
			switch kind {
			case Float:
				s := 0.0
				for _, p := range pts {
					s += p.Fields[field].F
				}
				return one(Cell{V: Value{K: Float, F: s}, Approx: true}), nil
			case Integer:
				var s int64
				for _, p := range pts {
					s += p.Fields[field].I
				}
				return one(Cell{V: Value{K: Integer, I: s}}), nil
			default:
				var s uint64
				for _, p := range pts {
					s += p.Fields[field].U
				}
				return one(Cell{V: Value{K: Unsigned, U: s}}), nil
			}
		}
		s := 0.0
		for _, p := range pts {
			s += numAsFloat(p.Fields[field])
		}
		return one(Cell{V: Value{K: Float, F: s / float64(len(pts))}, Approx: true}), nil
	case "min", "max", "first", "last":
		if (fn == "min" || fn == "max") && !isNumeric(kind) {
			return nil, fmt.Errorf("refql: %s of %v", fn, kind)
		}
		// the selected points: every point that attains the extremum
		var best []*Point
		better := func(a, b *Point) int { // >0: a is a better choice than b
			switch fn {
			case "first":
				return -cmpInt(a.T, b.T)
			case "last":
				return cmpInt(a.T, b.T)
			case "min":
				return -cmpValues(a.Fields[field], b.Fields[field])
			default:
				return cmpValues(a.Fields[field], b.Fields[field])
			}
		}
		for _, p := range pts {
			switch {
			case len(best) == 0:
				best = []*Point{p}
			case better(p, best[0]) > 0:
				best = []*Point{p}
			case better(p, best[0]) == 0:
				best = append(best, p)
			}
		}
		var rows []Row
		seen := map[string]bool{}
		for _, p := range best {
			t := p.T
			if fixedT {
				t = rowT
			}
			r := Row{T: t, Cells: projCells(q, p, call, Cell{V: p.Fields[field]})}
			k := rowKey(r)
			if !seen[k] {
				seen[k] = true
				rows = append(rows, r)
			}
		}
		return rows, nil
	}
	return nil, fmt.Errorf("refql: unknown function %q", fn)
}

func cmpInt(a, b int64) int {
	switch {
	case a < b:
		return -1
	case a > b:
		return 1
	}
	return 0
}

func isSelector(fn string) bool {
	return fn == "min" || fn == "max" || fn == "first" || fn == "last"
}

// OutputKind is the type of the call's result for an input field of kind k.
func OutputKind(fn string, k Kind) Kind {
	switch fn {
	case "count":
		return Integer
	case "mean":
		return Float
	}
	return k
}

func callSlots(q *Query, call int, g *group, lo, hi int64, hasLo bool) ([]Slot, error) {
	fn := q.Proj[call].Func
	if q.Interval == 0 {
		// One row per series. An aggregate has no timestamp of its own: the row carries the lower
		// bound of the queried range, or epoch 0 when there is none. A selector returns the
		// timestamp of the selected point.
		t := int64(0)
		if hasLo {
			t = lo
		}
		rows, err := bucketValue(q, call, g.pts, !isSelector(fn), t)
		if err != nil {
			return nil, err
		}
		return []Slot{{Alts: rows}}, nil
	}
	// GROUP BY time(interval, offset): boundaries are the multiples of interval shifted by offset;
	// the buckets returned are those that intersect the queried range; each row carries the start
	// of its bucket (which can precede the range's lower bound).
	iv, off := q.Interval, q.Offset
	first := floorDiv(lo-off, iv)
	last := floorDiv(hi-off, iv)
	n := int(last - first + 1)
	if n <= 0 {
		return nil, nil
	}
	buckets := make([][]*Point, n)
	for _, p := range g.pts {
		b := int(floorDiv(p.T-off, iv) - first)
		buckets[b] = append(buckets[b], p)
	}
	inKind := g.pts[0].Fields[q.Proj[call].Name].K
	outKind := OutputKind(fn, inKind)
	slots := make([]Slot, n)
	filled := make([]bool, n) // has data
	for b := range buckets {
		t := (first+int64(b))*iv + off
		if len(buckets[b]) > 0 {
			rows, err := bucketValue(q, call, buckets[b], true, t)
			if err != nil {
				return nil, err
			}
			slots[b] = Slot{Alts: rows}
			filled[b] = true
		}
	}
	emptyPoint := &Point{}
	mk := func(b int, c Cell) Slot {
		t := (first+int64(b))*iv + off
		return Slot{Alts: []Row{{T: t, Cells: projCells(q, emptyPoint, call, c)}}}
	}
	nullCell := Cell{Null: true}
	if fn == "count" {
		// COUNT() reports 0 for intervals with no data; fill(x) replaces that 0.
		nullCell = Cell{V: Value{K: Integer, I: 0}}
	}
	var out []Slot
	switch q.Fill {
	case FillNone:
		for b := range slots {
			if filled[b] {
				out = append(out, slots[b])
			}
		}
		return out, nil
	case FillDefault, FillNull:
		for b := range slots {
			if !filled[b] {
				slots[b] = mk(b, nullCell)
			}
		}
	case FillValue:
		var c Cell
		switch outKind {
		case Float:
			c = Cell{V: Value{K: Float, F: float64(q.FillInt)}}
		case Integer:
			c = Cell{V: Value{K: Integer, I: q.FillInt}}
		case Unsigned:
			if q.FillInt < 0 {
				return nil, fmt.Errorf("refql: negative fill for unsigned")
			}
			c = Cell{V: Value{K: Unsigned, U: uint64(q.FillInt)}}
		default:
			return nil, fmt.Errorf("refql: fill(value) for %v output", outKind)
		}
		for b := range slots {
			if !filled[b] {
				slots[b] = mk(b, c)
			}
		}
	case FillPrevious:
		// the value of the previous time interval; null when there is none inside the range
		order := make([]int, n)
		for i := range order {
			order[i] = i
		}
		if q.PreviousFollowsOutputOrder && q.Desc {
			for i := range order {
				order[i] = n - 1 - i
			}
		}
		prev := -1
		for _, b := range order {
			if filled[b] {
				prev = b
				continue
			}
			if prev < 0 {
				slots[b] = mk(b, Cell{Null: true})
				continue
			}
			var alts []Row
			seen := map[string]bool{}
			for _, r := range slots[prev].Alts {
				nr := mk(b, r.Cells[call]).Alts[0]
				if k := rowKey(nr); !seen[k] {
					seen[k] = true
					alts = append(alts, nr)
				}
			}
			slots[b] = Slot{Alts: alts}
		}
	case FillLinear:
		if !isNumeric(outKind) {
			return nil, fmt.Errorf("refql: fill(linear) for %v output", outKind)
		}
		prev := -1
		for b := 0; b < n; b++ {
			if filled[b] {
				prev = b
				continue
			}
			next := -1
			for j := b + 1; j < n; j++ {
				if filled[j] {
					next = j
					break
				}
			}
			if prev < 0 || next < 0 {
				// no value on one side inside the queried range: null
				slots[b] = mk(b, Cell{Null: true})
				continue
			}
			if len(slots[prev].Alts) > 1 || len(slots[next].Alts) > 1 {
				slots[b] = mk(b, Cell{V: Value{K: outKind}, Any: true})
				continue
			}
			a, z := slots[prev].Alts[0].Cells[call].V, slots[next].Alts[0].Cells[call].V
			num, den := int64(b-prev), int64(next-prev)
			switch outKind {
			case Float:
				v := a.F + (z.F-a.F)*float64(num)/float64(den)
				slots[b] = mk(b, Cell{V: Value{K: Float, F: v}, Approx: true})
			case Integer:
				// exact: a + (z-a)*num/den, floor and ceiling
				d := new(big.Int).Mul(big.NewInt(z.I-a.I), big.NewInt(num))
				fl := new(big.Int).Div(d, big.NewInt(den)) // Euclidean: floor for positive den
				exact := new(big.Int).Mod(d, big.NewInt(den)).Sign() == 0
				l := a.I + fl.Int64()
				h := l
				if !exact {
					h = l + 1
				}
				slots[b] = mk(b, Cell{V: Value{K: Integer}, Ranged: true, Lo: l, Hi: h})
			default:
				slots[b] = mk(b, Cell{V: Value{K: outKind}, Any: true})
			}
		}
	}
	return slots, nil
}

func cellKey(c Cell) string {
	switch {
	case c.Null:
		return "null"
	case c.Any:
		return "any:" + c.V.K.String()
	case c.Ranged:
		return fmt.Sprintf("range:%d..%d", c.Lo, c.Hi)
	}
	if c.V.K == Float {
		return fmt.Sprintf("f:%#x", math.Float64bits(c.V.F))
	}
	return c.V.String()
}

func rowKey(r Row) string {
	var sb strings.Builder
	fmt.Fprintf(&sb, "%d", r.T)
	for _, c := range r.Cells {
		sb.WriteByte('|')
		sb.WriteString(cellKey(c))
	}
	return sb.String()
}
