package refql

import (
	"fmt"
	"math"
	"sort"
	"strings"
)

// GotSeries is one series as returned by the system under test, in a neutral representation.
type GotSeries struct {
	Tags    map[string]string
	Columns []string
	Rows    []GotRow
}

// GotRow is one returned row: Vals holds float64, int64, uint64, string, bool or nil.
type GotRow struct {
	T    int64
	Vals []any
}

// RelTol is the relative tolerance for floats computed by arithmetic (sum, mean, interpolation).
const RelTol = 1e-9

func tagsKey(t map[string]string) string {
	keys := make([]string, 0, len(t))
	for k, v := range t {
		if v != "" { // a missing dimension tag and an empty one are the same group
			keys = append(keys, k)
		}
	}
	sort.Strings(keys)
	var sb strings.Builder
	for _, k := range keys {
		fmt.Fprintf(&sb, "%q=%q,", k, t[k])
	}
	return sb.String()
}

func cellMatches(c Cell, v any) bool {
	if c.Null {
		return v == nil
	}
	if v == nil {
		return c.OrNull
	}
	switch c.V.K {
	case Float:
		f, ok := v.(float64)
		if !ok {
			return false
		}
		if c.Any {
			return true
		}
		if c.Approx {
			if f == c.V.F {
				return true
			}
			return math.Abs(f-c.V.F) <= RelTol*math.Max(math.Abs(f), math.Abs(c.V.F))+1e-12
		}
		return math.Float64bits(f) == math.Float64bits(c.V.F) || f == c.V.F
	case Integer:
		i, ok := v.(int64)
		if !ok {
			return false
		}
		if c.Any {
			return true
		}
		if c.Ranged {
			return c.Lo <= i && i <= c.Hi
		}
		return i == c.V.I
	case Unsigned:
		u, ok := v.(uint64)
		return ok && (c.Any || u == c.V.U)
	case String:
		s, ok := v.(string)
		return ok && (c.Any || s == c.V.S)
	default:
		b, ok := v.(bool)
		return ok && (c.Any || b == c.V.B)
	}
}

func rowMatches(r Row, g GotRow) bool {
	if r.T != g.T || len(r.Cells) != len(g.Vals) {
		return false
	}
	for i, c := range r.Cells {
		if !cellMatches(c, g.Vals[i]) {
			return false
		}
	}
	return true
}

func fmtGot(g GotRow) string {
	var sb strings.Builder
	fmt.Fprintf(&sb, "%d", g.T)
	for _, v := range g.Vals {
		fmt.Fprintf(&sb, "|%T:%v", v, v)
	}
	return sb.String()
}

func fmtSlot(s Slot) string {
	var a []string
	for _, r := range s.Alts {
		a = append(a, rowKey(r))
	}
	return strings.Join(a, " or ")
}

// checkRows compares the rows of one series with the window [off, off+lim) of the expected
// slots. Rows with equal timestamps in a merged raw series may come in any order; when the
// window cuts through such a run any sub-multiset of the right size is accepted.
func checkRows(slots []Slot, off, lim int, got []GotRow) error {
	lo := off
	if lo > len(slots) {
		lo = len(slots)
	}
	hi := len(slots)
	if lim > 0 && lo+lim < hi {
		hi = lo + lim
	}
	if len(got) != hi-lo {
		return fmt.Errorf("row count: got %d want %d", len(got), hi-lo)
	}
	for a := 0; a < len(slots); {
		b := a + 1
		if len(slots[a].Alts) == 1 {
			t := slots[a].Alts[0].T
			for b < len(slots) && len(slots[b].Alts) == 1 && slots[b].Alts[0].T == t {
				b++
			}
		}
		// run [a,b) ∩ [lo,hi)
		ra, rb := a, b
		if ra < lo {
			ra = lo
		}
		if rb > hi {
			rb = hi
		}
		if ra < rb {
			if b-a == 1 {
				g := got[ra-lo]
				ok := false
				for _, r := range slots[a].Alts {
					if rowMatches(r, g) {
						ok = true
						break
					}
				}
				if !ok {
					return fmt.Errorf("row %d: got %s want %s", ra-lo, fmtGot(g), fmtSlot(slots[a]))
				}
			} else {
				// multiset inclusion by greedy matching (rows of a run are concrete: one alternative each,
				// exact cells, so matching is an equivalence and greedy is complete)
				used := make([]bool, b-a)
				for i := ra; i < rb; i++ {
					g := got[i-lo]
					found := false
					for j := a; j < b && !found; j++ {
						if used[j-a] {
							continue
						}
						for _, r := range slots[j].Alts {
							if rowMatches(r, g) {
								used[j-a] = true
								found = true
								break
							}
						}
					}
					if !found {
						var want []string
						for j := a; j < b; j++ {
							want = append(want, fmtSlot(slots[j]))
						}
						return fmt.Errorf("row %d: got %s, not among the rows expected at that timestamp %v", i-lo, fmtGot(g), want)
					}
				}
			}
		}
		a = b
	}
	return nil
}

// Expected returns the expected series after LIMIT/OFFSET and SLIMIT/SOFFSET under the
// convention that series are windowed in ascending (descending = true: descending) order of
// their dimension values.
func (r *Result) Expected(descending bool) []Series {
	q := r.Q
	var list []Series
	for _, s := range r.Series {
		if q.RowOffset >= len(s.Slots) {
			continue // OFFSET beyond the series' rows: the series is not returned
		}
		list = append(list, s)
	}
	if descending {
		for i, j := 0, len(list)-1; i < j; i, j = i+1, j-1 {
			list[i], list[j] = list[j], list[i]
		}
	}
	if q.SOffset > 0 {
		if q.SOffset >= len(list) {
			return nil
		}
		list = list[q.SOffset:]
	}
	if q.SLimit > 0 && q.SLimit < len(list) {
		list = list[:q.SLimit]
	}
	return list
}

func (r *Result) checkAgainst(exp []Series, got []GotSeries) error {
	byTags := map[string]*GotSeries{}
	for i := range got {
		k := tagsKey(got[i].Tags)
		if byTags[k] != nil {
			return fmt.Errorf("series {%s} returned more than once", k)
		}
		byTags[k] = &got[i]
	}
	want := map[string]bool{}
	for _, s := range exp {
		want[tagsKey(s.Tags)] = true
	}
	for k := range byTags {
		if !want[k] {
			return fmt.Errorf("unexpected series {%s} (%d rows, first %s)", k, len(byTags[k].Rows), fmtGot(byTags[k].Rows[0]))
		}
	}
	for _, s := range exp {
		k := tagsKey(s.Tags)
		g := byTags[k]
		if g == nil {
			return fmt.Errorf("missing series {%s} (%d rows expected before LIMIT)", k, len(s.Slots))
		}
		if strings.Join(g.Columns, ",") != strings.Join(r.Columns, ",") {
			return fmt.Errorf("series {%s}: columns %v want %v", k, g.Columns, r.Columns)
		}
		if err := checkRows(s.Slots, r.Q.RowOffset, r.Q.Limit, g.Rows); err != nil {
			return fmt.Errorf("series {%s}: %v", k, err)
		}
	}
	return nil
}

// Check compares returned series with the expected result. Series are matched by their tag
// sets, not by position (the documentation does not define the order of series). With
// SLIMIT/SOFFSET the window is taken over the series in ascending order of their dimension
// values; for ORDER BY time DESC the window over the descending order is accepted as well.
func (r *Result) Check(got []GotSeries) error {
	err := r.checkAgainst(r.Expected(false), got)
	if err == nil {
		return nil
	}
	if r.Q.Desc && (r.Q.SLimit > 0 || r.Q.SOffset > 0) {
		if r.checkAgainst(r.Expected(true), got) == nil {
			return nil
		}
	}
	return err
}

// Rows counts the expected rows after LIMIT/OFFSET/SLIMIT/SOFFSET.
func (r *Result) Rows() int {
	n := 0
	for _, s := range r.Expected(false) {
		k := len(s.Slots) - r.Q.RowOffset
		if r.Q.Limit > 0 && k > r.Q.Limit {
			k = r.Q.Limit
		}
		n += k
	}
	return n
}
