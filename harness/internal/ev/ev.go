// Package ev is the evidence recorder shared by all harness packages.
//
// Every property-check process owns one Recorder per property id. The recorder counts
// evaluations (oracle reached), the set of DISTINCT non-trivial cases (64-bit hashes of a
// canonical rendering of the case), per-class counters describing what the generators actually
// produced, a few verbatim samples, known-finding exclusions and violations. At process exit
// (ev.Main) a partial evidence file is written to $VERIF_PARTS; the driver (/verif/check) merges
// the parts of all processes of a run into /verif/evidence/<id>.json.
package ev

import (
	"encoding/json"
	"flag"
	"fmt"
	"hash/fnv"
	"os"
	"path/filepath"
	"sort"
	"strconv"
	"strings"
	"sync"
	"testing"
	"time"

	"pgregory.net/rapid"
)

const maxSamples = 6

// Violation describes one falsified property (after shrinking: the last one recorded per test wins).
type Violation struct {
	Test   string `json:"test"`
	Key    string `json:"key"`
	Detail string `json:"detail"`
	Case   any    `json:"case,omitempty"`
}

// Recorder accumulates evidence for one property in one process.
type Recorder struct {
	mu           sync.Mutex
	property     string
	level        string
	rule         string
	evals        int64
	nontrivial   map[uint64]struct{}
	classes      map[string]int64
	samples      []any
	autoSamples  []any // canonical renderings of the first non-trivial cases, used when a harness records no explicit samples
	assumptions  map[string]struct{}
	excluded     map[string]int64
	knownLines   map[string]struct{}
	violations   map[string]Violation
	inconclusive []string
	extra        map[string]any
	start        time.Time
}

var (
	regMu sync.Mutex
	reg   = map[string]*Recorder{}
)

// For returns the process-wide recorder of a property, creating it on first use.
func For(property, level, rule string) *Recorder {
	regMu.Lock()
	defer regMu.Unlock()
	if r, ok := reg[property]; ok {
		if rule != "" && !strings.Contains(r.rule, rule) {
			r.rule += " || " + rule
		}
		return r
	}
	r := &Recorder{
		property: property, level: level, rule: rule,
		nontrivial: map[uint64]struct{}{}, classes: map[string]int64{},
		assumptions: map[string]struct{}{}, excluded: map[string]int64{},
		knownLines: map[string]struct{}{}, violations: map[string]Violation{},
		extra: map[string]any{}, start: time.Now(),
	}
	reg[property] = r
	return r
}

// Eval counts one case that reached the oracle.
func (r *Recorder) Eval() { r.mu.Lock(); r.evals++; r.mu.Unlock() }

// EvalN counts n cases that reached the oracle.
func (r *Recorder) EvalN(n int) { r.mu.Lock(); r.evals += int64(n); r.mu.Unlock() }

// NonTrivial records a case that satisfies the property's stated non-trivial rule; canon is a
// canonical rendering of the case used for distinctness.
func (r *Recorder) NonTrivial(canon string) {
	h := fnv.New64a()
	h.Write([]byte(canon))
	r.mu.Lock()
	if _, seen := r.nontrivial[h.Sum64()]; !seen && len(r.autoSamples) < 4 {
		c := canon
		if len(c) > 800 {
			c = c[:800] + "…"
		}
		r.autoSamples = append(r.autoSamples, map[string]any{"non_trivial_case": c})
	}
	r.nontrivial[h.Sum64()] = struct{}{}
	r.mu.Unlock()
}

// Class increments a generator-distribution counter.
func (r *Recorder) Class(name string) { r.ClassN(name, 1) }

// ClassN adds n to a generator-distribution counter.
func (r *Recorder) ClassN(name string, n int) {
	r.mu.Lock()
	r.classes[name] += int64(n)
	r.mu.Unlock()
}

// Sample keeps v (JSON-encodable) as one of the first few verbatim samples.
func (r *Recorder) Sample(v any) {
	r.mu.Lock()
	if len(r.samples) < maxSamples {
		r.samples = append(r.samples, v)
	}
	r.mu.Unlock()
}

// WantSample reports whether another sample would still be kept (lets callers avoid rendering).
func (r *Recorder) WantSample() bool {
	r.mu.Lock()
	defer r.mu.Unlock()
	return len(r.samples) < maxSamples
}

// Assume records a trusted-base / assumption sentence for the evidence file.
func (r *Recorder) Assume(s string) { r.mu.Lock(); r.assumptions[s] = struct{}{}; r.mu.Unlock() }

// Extra stores an additional coverage key (overwrites).
func (r *Recorder) Extra(k string, v any) { r.mu.Lock(); r.extra[k] = v; r.mu.Unlock() }

// Inconclusive marks the run as not having completed what it was asked to do (driver: exit 2).
func (r *Recorder) Inconclusive(why string) {
	r.mu.Lock()
	r.inconclusive = append(r.inconclusive, why)
	r.mu.Unlock()
}

// ExcludedKnown counts a generated case that was classified as exactly an OPEN known finding
// (see KnownOpen) and therefore not reported as a violation.
func (r *Recorder) ExcludedKnown(key string) { r.mu.Lock(); r.excluded[key]++; r.mu.Unlock() }

// Violate records a violation without failing the test (for use from non-test goroutines).
func (r *Recorder) Violate(test, key, detail string, c any) {
	r.mu.Lock()
	r.violations[test] = Violation{Test: test, Key: key, Detail: detail, Case: c}
	r.mu.Unlock()
}

// TB is the subset of testing.TB / *rapid.T used by Fail.
type TB interface {
	Fatalf(format string, args ...any)
	Helper()
}

// Fail records a violation for the named test (the last one recorded per test wins, so that
// after rapid's shrinking the minimal case is the one kept) and fails the test.
func (r *Recorder) Fail(t TB, test, key, detail string, c any) {
	t.Helper()
	r.Violate(test, key, detail, c)
	t.Fatalf("VIOLATION-CANDIDATE property=%s key=%s: %s", r.property, key, detail)
}

// ---------------------------------------------------------------------------------------------
// known findings

type knownEntry struct {
	Property string `json:"property"`
	Key      string `json:"key"`
	Status   string `json:"status"` // "open" | "fixed"
	Commit   string `json:"commit,omitempty"`
	What     string `json:"what"`
}

var (
	knownOnce sync.Once
	knownList []knownEntry
)

func verifRoot() string {
	if d := os.Getenv("VERIF_ROOT"); d != "" {
		return d
	}
	return "/verif"
}

func loadKnown() {
	knownOnce.Do(func() {
		path := filepath.Join(verifRoot(), "known_findings.json")
		if alt := os.Getenv("VERIF_KNOWN_FILE"); alt != "" {
			// developer override for sensitivity runs ("what if this finding were fixed/unlisted?")
			path = alt
		}
		b, err := os.ReadFile(path)
		if err != nil {
			return
		}
		var f struct {
			Findings []knownEntry `json:"findings"`
		}
		if json.Unmarshal(b, &f) == nil {
			knownList = f.Findings
		}
	})
}

// KnownOpen reports whether (property,key) is listed as an OPEN finding in
// /verif/known_findings.json. Fixed or unlisted findings suppress nothing.
func KnownOpen(property, key string) bool {
	loadKnown()
	for _, e := range knownList {
		if e.Property == property && e.Key == key && e.Status == "open" {
			return true
		}
	}
	return false
}

// Known is called by the deterministic reproducer of a finding. reproduced = the failing
// input still fails against the real code. Listed open + reproduced => KNOWN-FINDING line
// (relayed by the driver) and pass; reproduced but not listed open => violation.
func (r *Recorder) Known(t TB, test, key string, reproduced bool, what string, c any) {
	t.Helper()
	if !reproduced {
		r.Class("known_not_reproduced:" + key)
		return
	}
	if KnownOpen(r.property, key) {
		r.mu.Lock()
		r.knownLines[fmt.Sprintf("KNOWN-FINDING: property=%s %s: %s", r.property, key, what)] = struct{}{}
		r.mu.Unlock()
		return
	}
	r.Fail(t, test, key, what, c)
}

// ---------------------------------------------------------------------------------------------
// tiers, seeds, rapid glue

// Tier returns "quick" or "thorough".
func Tier() string {
	if os.Getenv("VERIF_TIER") == "thorough" {
		return "thorough"
	}
	return "quick"
}

// Thorough reports whether the thorough tier is selected.
func Thorough() bool { return Tier() == "thorough" }

// N picks a per-tier number, scaled by VERIF_SCALE (float, default 1; used for smoke runs).
func N(quick, thorough int) int {
	n := quick
	if Thorough() {
		n = thorough
	}
	if s := os.Getenv("VERIF_TSCALE"); s != "" && Thorough() {
		// per-package factor of the thorough tier (check.json "thorough_scale"): keeps a complete
		// thorough sweep of all properties inside a working day on 16 cores
		if f, err := strconv.ParseFloat(s, 64); err == nil && f > 0 {
			n = int(float64(n)*f + 0.5)
		}
	}
	if s := os.Getenv("VERIF_SCALE"); s != "" {
		if f, err := strconv.ParseFloat(s, 64); err == nil && f > 0 {
			n = int(float64(n)*f + 0.5)
		}
	}
	if n < 1 {
		n = 1
	}
	return n
}

// Seed returns the run's seed (VERIF_SEED remapped so that it is never 0), offset by the shard.
func Seed() uint64 {
	s, _ := strconv.ParseUint(os.Getenv("VERIF_RAPID_SEED"), 10, 64)
	if s == 0 {
		s = 1
	}
	return s
}

// Check runs rapid.Check with a per-test case count (rapid's -rapid.checks flag is global, so it
// is set here per test) and verifies that rapid really executed that many valid cases; a short
// count (deadline hit) marks the run inconclusive instead of passing silently.
func (r *Recorder) Check(t *testing.T, quick, thorough int, prop func(*rapid.T)) {
	t.Helper()
	r.CheckSteps(t, quick, thorough, 0, prop)
}

// CheckSteps is Check with an explicit average number of t.Repeat steps (0 = rapid default 30).
func (r *Recorder) CheckSteps(t *testing.T, quick, thorough, steps int, prop func(*rapid.T)) {
	t.Helper()
	n := N(quick, thorough)
	replaying := flag.Lookup("rapid.failfile") != nil && flag.Lookup("rapid.failfile").Value.String() != ""
	_ = flag.Set("rapid.checks", strconv.Itoa(n))
	if steps > 0 {
		_ = flag.Set("rapid.steps", strconv.Itoa(steps))
	} else {
		_ = flag.Set("rapid.steps", "30")
	}
	var ran int64
	var mu sync.Mutex
	rapid.Check(t, func(rt *rapid.T) {
		done := false
		defer func() {
			// count only cases that ran to completion (rapid signals skip/failure by panicking)
			if done {
				mu.Lock()
				ran++
				mu.Unlock()
			}
		}()
		prop(rt)
		done = true
	})
	if !t.Failed() && !replaying && ran < int64(n) {
		r.Inconclusive(fmt.Sprintf("%s: rapid ran %d of %d requested cases", t.Name(), ran, n))
	}
	r.ClassN("rapid_cases:"+t.Name(), int(ran))
}

// ---------------------------------------------------------------------------------------------
// output

type part struct {
	Property     string           `json:"property_id"`
	Level        string           `json:"level"`
	Rule         string           `json:"rule"`
	Evaluations  int64            `json:"evaluations"`
	Hashes       []uint64         `json:"hashes"`
	Classes      map[string]int64 `json:"classes"`
	Samples      []any            `json:"samples"`
	Assumptions  []string         `json:"assumptions"`
	Excluded     map[string]int64 `json:"excluded_known"`
	KnownLines   []string         `json:"known_lines"`
	Violations   []Violation      `json:"violations"`
	Inconclusive []string         `json:"inconclusive"`
	Extra        map[string]any   `json:"extra"`
	WallS        float64          `json:"wall_s"`
}

// Flush writes the partial evidence of all recorders to $VERIF_PARTS (no-op when unset).
func Flush() {
	dir := os.Getenv("VERIF_PARTS")
	regMu.Lock()
	defer regMu.Unlock()
	for _, r := range reg {
		r.mu.Lock()
		p := part{Property: r.property, Level: r.level, Rule: r.rule, Evaluations: r.evals,
			Classes: r.classes, Samples: append(append([]any(nil), r.samples...), r.autoSamples[:autoN(len(r.samples), len(r.autoSamples))]...), Excluded: r.excluded, Extra: r.extra,
			Inconclusive: r.inconclusive, WallS: time.Since(r.start).Seconds()}
		for h := range r.nontrivial {
			p.Hashes = append(p.Hashes, h)
		}
		sort.Slice(p.Hashes, func(i, j int) bool { return p.Hashes[i] < p.Hashes[j] })
		for a := range r.assumptions {
			p.Assumptions = append(p.Assumptions, a)
		}
		sort.Strings(p.Assumptions)
		for k := range r.knownLines {
			p.KnownLines = append(p.KnownLines, k)
		}
		sort.Strings(p.KnownLines)
		for _, v := range r.violations {
			p.Violations = append(p.Violations, v)
		}
		sort.Slice(p.Violations, func(i, j int) bool { return p.Violations[i].Test < p.Violations[j].Test })
		r.mu.Unlock()
		if dir == "" {
			fmt.Fprintf(os.Stderr, "[ev] %s: evaluations=%d distinct_nontrivial=%d violations=%d excluded_known=%v inconclusive=%v\n",
				p.Property, p.Evaluations, len(p.Hashes), len(p.Violations), p.Excluded, p.Inconclusive)
			keys := make([]string, 0, len(p.Classes))
			for k := range p.Classes {
				keys = append(keys, k)
			}
			sort.Strings(keys)
			for _, k := range keys {
				fmt.Fprintf(os.Stderr, "[ev]   class %-50s %d\n", k, p.Classes[k])
			}
			for _, k := range p.KnownLines {
				fmt.Fprintln(os.Stderr, k)
			}
			continue
		}
		b, err := json.Marshal(p)
		if err != nil {
			// a sample that cannot be encoded must not lose the counts
			p.Samples = []any{fmt.Sprintf("unencodable samples: %v", err)}
			for i := range p.Violations {
				p.Violations[i].Case = fmt.Sprintf("%+v", p.Violations[i].Case)
			}
			b, _ = json.Marshal(p)
		}
		name := fmt.Sprintf("%s.%d.%d.json", p.Property, os.Getpid(), time.Now().UnixNano())
		tmp := filepath.Join(dir, "."+name+".tmp")
		if err := os.WriteFile(tmp, b, 0o644); err == nil {
			_ = os.Rename(tmp, filepath.Join(dir, name))
		}
	}
}

// autoN: how many automatic samples to add (only when the harness recorded none itself).
func autoN(explicit, auto int) int {
	if explicit > 0 {
		return 0
	}
	return auto
}

// Main is the TestMain body of every harness package.
func Main(m *testing.M) {
	code := m.Run()
	Flush()
	os.Exit(code)
}
