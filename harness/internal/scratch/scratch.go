// Package scratch hands out scratch directories for harnesses. It prefers a RAM-backed
// file system (/dev/shm) because the code under test fsyncs on every write; the crash model of
// the harnesses is "process crash" (what reached write(2)/rename(2)), which tmpfs preserves.
package scratch

import (
	"os"
	"path/filepath"
)

// Base returns the directory under which scratch dirs are created (VERIF_SCRATCH overrides).
func Base() string {
	if d := os.Getenv("VERIF_SCRATCH"); d != "" {
		return d
	}
	if st, err := os.Stat("/dev/shm"); err == nil && st.IsDir() {
		probe := filepath.Join("/dev/shm", "verif-scratch")
		if err := os.MkdirAll(probe, 0o777); err == nil {
			return probe
		}
	}
	return os.TempDir()
}

// Dir creates a fresh scratch directory; the caller removes it (os.RemoveAll).
func Dir(prefix string) (string, error) { return os.MkdirTemp(Base(), prefix) }
