package c32_writeapi

import (
	"testing"

	"verifharness/internal/ev"
)

func TestMain(m *testing.M) { ev.Main(m) }
