// C32 mode (a) — http.NewWriteHandler with a recording points writer.
//
// Generator: a body of 1..6 valid lines (independent model + renderer, names that need escaping,
// string values with quotes / newlines, all five field types, with and without timestamp, four
// precisions) plus 0..2 damaged lines at random positions, fitted to a decoded size drawn from
// {L-2, L-1, L, L+1, L+2, 2L, free, empty} for a per-case limit L in 64..20000; sent plain or gzip
// (all compression levels, including stored blocks whose wire size exceeds the decoded size while
// the decoded size is <= L, and highly compressible 2L bodies whose wire size is <= L); organization /
// bucket named by name or id, or unknown / missing; the writer answers nil, a PartialWriteError with a
// drawn dropped count, or another error; the handler reaches the writer directly or - as in the
// server - through storage.LoggingPointsWriter, whose log bucket exists / is missing / cannot be looked
// up / refuses the log point (logging_test.go).
//
// Oracle (from the statement):
//   - any damaged line (size <= L, known target)  => 400, the message contains the text of every damaged
//     line and of no valid line, the writer was not called;
//   - decoded size > L (no damaged line, known target) => 413, the writer was not called;
//     both => 400 or 413, the writer was not called; unknown target => not 2xx, writer not called;
//   - otherwise the writer received exactly the model points (multiset; name, tags, typed fields,
//     time scaled by the precision) for the resolved organization and bucket, and the answer is 204
//     written after the writer returned — or, when the writer returned an error, a non-2xx answer
//     that, for a partial write, states the dropped count (behind the logging writer as well, as long
//     as the logging itself succeeds; a "write_errors" point goes to the log bucket then, and only then).
//   - in every case: a 2xx answer implies that the writer completed with all points before the status
//     line was written.
package c32_writeapi

import (
	"compress/gzip"
	"fmt"
	"sort"
	"strings"
	"testing"

	"github.com/influxdata/influxdb/v2/kit/platform"
	"github.com/influxdata/influxdb/v2/tsdb"
	"pgregory.net/rapid"

	"verifharness/internal/ev"
)

const keyAtLimit = "body-at-limit-rejected"

var recIDs = fixtureIDs{org: platform.ID(0x043e0780ee2b1000), bucket: platform.ID(0x04504b356e23b000)}

// recLogBucket is the organization's _monitoring bucket in mode (a).
const recLogBucket = platform.ID(0x04504b356e23b001)

type reqCase struct {
	B       *body
	L       int
	Class   string
	Size    int
	Gzip    bool
	Level   int
	Wire    []byte
	Tg      target
	TgKind  int
	Text    string
	WireLen int
}

func (c *reqCase) json() map[string]any {
	return map[string]any{"limit": c.L, "size_class": c.Class, "decoded_size": c.Size, "gzip": c.Gzip, "gzip_level": c.Level,
		"wire_size": c.WireLen, "precision": c.B.Prec, "org": c.Tg.Org, "bucket": c.Tg.Bucket, "body": c.Text, "pad": c.B.Pad}
}

func (c *reqCase) canon() string {
	return fmt.Sprintf("%d|%v|%d|%s|%d|%q", c.L, c.Gzip, c.Level, c.B.Prec, c.TgKind, c.Text)
}

// genLines draws the lines of a body; setTime assigns the time of valid point i.
func genLines(t *rapid.T, fancy bool, setTime func(i int, p *pt, prec string), mkValue func(label string, kind byte) fval) *body {
	b := &body{Prec: rapid.SampledFrom(precisions).Draw(t, "prec")}
	nValid := rapid.IntRange(1, 6).Draw(t, "n_valid")
	for i := 0; i < nValid; i++ {
		p := genPoint(t, fmt.Sprintf("p%d", i), fancy)
		for j := range p.Fields {
			p.Fields[j].V = mkValue(fmt.Sprintf("p%d_v%d", i, j), p.Fields[j].V.K)
		}
		setTime(i, &p, b.Prec)
		pp := p
		b.Lines = append(b.Lines, bodyLine{Kind: "valid", P: &pp})
	}
	nDmg := 0
	switch k := rapid.IntRange(0, 19).Draw(t, "n_damaged_k"); {
	case k >= 17:
		nDmg = 2
	case k >= 10:
		nDmg = 1
	}
	for i := 0; i < nDmg; i++ {
		kind, text := damagedLine(t, fmt.Sprintf("d%d", i))
		pos := rapid.IntRange(0, len(b.Lines)).Draw(t, fmt.Sprintf("d%d_pos", i))
		l := bodyLine{Kind: "damaged", Text: text, Dmg: kind}
		b.Lines = append(b.Lines[:pos], append([]bodyLine{l}, b.Lines[pos:]...)...)
	}
	if rapid.IntRange(0, 5).Draw(t, "with_comment") == 0 {
		pos := rapid.IntRange(0, len(b.Lines)).Draw(t, "comment_pos")
		l := bodyLine{Kind: "comment", Text: "# a comment, with=equals and spaces"}
		b.Lines = append(b.Lines[:pos], append([]bodyLine{l}, b.Lines[pos:]...)...)
	}
	b.rerender()
	return b
}

// finishCase fits the body to a size class and encodes it.
func finishCase(t *rapid.T, b *body, ids fixtureIDs, unknownTargets bool) *reqCase {
	c := &reqCase{B: b, L: genLimit(t)}
	c.Class = rapid.SampledFrom(sizeClasses).Draw(t, "size_class")
	c.Size = targetSize(c.Class, c.L, len(b.text()))
	b.fitTo(t, c.Size)
	c.Text = b.text()
	c.Gzip = rapid.IntRange(0, 9).Draw(t, "gzip") < 4
	c.Wire = []byte(c.Text)
	if c.Gzip {
		c.Level = rapid.SampledFrom([]int{gzip.NoCompression, gzip.BestSpeed, gzip.DefaultCompression, gzip.BestCompression}).Draw(t, "gzip_level")
		c.Wire = gzipBytes([]byte(c.Text), c.Level)
	}
	c.WireLen = len(c.Wire)
	c.TgKind = 0
	if k := rapid.IntRange(0, 19).Draw(t, "target_kind"); k < 3 {
		c.TgKind = k
	} else if k >= 16 && unknownTargets {
		c.TgKind = 3 + (k - 16)
	} else {
		c.TgKind = k % 3
	}
	c.Tg = genTargetKind(c.TgKind, ids)
	return c
}

// classify records the generator-distribution classes and the non-trivial rule; returns flags.
func (c *reqCase) classify(mode string) (oversize, hasDamaged bool) {
	dmg := c.B.damaged()
	oversize, hasDamaged = c.Size > c.L, len(dmg) > 0
	rec.Class(mode + ":size:" + c.Class)
	rec.Class(fmt.Sprintf("%s:damaged:%d", mode, len(dmg)))
	for _, d := range dmg {
		rec.Class(mode + ":damage:" + d.Dmg)
	}
	rec.Class(mode + ":pad:" + c.B.Pad)
	if c.Gzip {
		rec.Class(mode + ":gzip")
		switch {
		case c.WireLen <= c.L && c.Size > c.L:
			rec.Class(mode + ":gzip:wire<=L<decoded")
		case c.WireLen > c.L && c.Size <= c.L:
			rec.Class(mode + ":gzip:decoded<=L<wire")
		}
	} else {
		rec.Class(mode + ":plain")
	}
	rec.Class(mode + ":precision:" + c.B.Prec)
	if c.Tg.Known {
		rec.Class(mode + ":target:known")
	} else {
		rec.Class(mode + ":target:unknown")
	}
	nLines := 0
	for _, l := range c.B.Lines {
		if l.Kind == "valid" || l.Kind == "damaged" {
			nLines++
		}
	}
	near := c.Size >= c.L-2 && c.Size <= c.L+2
	if near || (len(dmg) == 1 && nLines >= 3) || c.Gzip {
		rec.NonTrivial(mode + "|" + c.canon())
	}
	if len(dmg) == 1 && nLines >= 3 {
		rec.Class(mode + ":one-damaged-among->=3")
	}
	return
}

func multisetDiff(want, got []string) string {
	w := append([]string(nil), want...)
	g := append([]string(nil), got...)
	sort.Strings(w)
	sort.Strings(g)
	if strings.Join(w, "\n") == strings.Join(g, "\n") {
		return ""
	}
	return fmt.Sprintf("want %d points %q, got %d points %q", len(w), w, len(g), g)
}

func TestPropRecordingWriter(t *testing.T) {
	rec.Assume("mode (a): organization / bucket services and the authorizer are mocks that know one organization and one bucket; the event recorder is a no-op")
	rec.Assume("both modes: the handler's points writer is the raw writer or, as in cmd/influxd/launcher, storage.LoggingPointsWriter around it; every organization has its _monitoring system bucket (tenant service creates it and refuses to delete or rename it) - when the error logging itself fails (mode (a): bucket missing, lookup error, log write refused) only 'not 2xx' is demanded of the answer, not the dropped count")
	rec.Check(t, 8000, 240000, func(t *rapid.T) {
		b := genLines(t, true,
			func(i int, p *pt, prec string) {
				if rapid.IntRange(0, 6).Draw(t, fmt.Sprintf("p%d_not", i)) == 0 {
					return
				}
				p.HasT = true
				p.Ns = rapid.Int64Range(-4e9, 4e9).Draw(t, fmt.Sprintf("p%d_t", i)) * precMult(prec)
			},
			func(label string, kind byte) fval { return genValue(t, label, kind, 0) })
		c := finishCase(t, b, recIDs, true)
		w := &recWriter{}
		wantDropped := 0
		switch k := rapid.IntRange(0, 9).Draw(t, "writer_result"); {
		case k == 0:
			w.result = fmt.Errorf("engine refused the write")
		case k <= 2:
			wantDropped = rapid.IntRange(101, 999).Draw(t, "writer_dropped")
			w.result = tsdb.PartialWriteError{Reason: "some points were refused", Dropped: wantDropped}
		}
		// the wiring between handler and writer: raw, or the server's LoggingPointsWriter (logging_test.go)
		lf := &logFinder{org: recIDs.org, logID: recLogBucket, wiring: genWiring(t, true)}
		if lf.wiring != wireRaw {
			w.logBucket = recLogBucket
		}
		if lf.wiring == wireLogWriteFail {
			if rapid.Bool().Draw(t, "log_write_partial") {
				w.logResult = tsdb.PartialWriteError{Reason: "field type conflict", Dropped: 1}
			} else {
				w.logResult = fmt.Errorf("engine refused the log write")
			}
		}
		h := newHandler(wire(w, lf), recIDs, int64(c.L))
		res := post(h, w, c.Tg, b.Prec, c.Wire, c.Gzip)

		rec.Eval()
		oversize, hasDamaged := c.classify("rec")
		rec.Class("rec:wiring:" + wiringNames[lf.wiring])
		if rec.WantSample() && (hasDamaged || oversize) && len(c.Text) < 300 {
			rec.Sample(map[string]any{"request": c.json(), "status": res.Status, "answer": res.Raw})
		}
		fail := func(key, detail string) {
			cj := c.json()
			cj["status"], cj["answer"], cj["wiring"] = res.Status, res.Raw, wiringNames[lf.wiring]
			if w.result != nil {
				cj["writer_result"] = w.result.Error()
			}
			rec.Fail(t, "TestPropRecordingWriter", key, detail, cj)
		}

		calls := w.snapshot()
		nStored := 0
		for _, call := range calls {
			nStored += len(call.points)
		}
		// known finding: a body of exactly L decoded bytes is answered 413 (nothing stored)
		if c.Size == c.L && c.Tg.Known && res.Status == 413 && len(calls) == 0 && ev.KnownOpen("C32", keyAtLimit) {
			rec.ExcludedKnown(keyAtLimit)
			return
		}

		mustNotStore := !c.Tg.Known || oversize || hasDamaged
		if mustNotStore {
			if len(calls) > 0 {
				fail("stored-despite-rejection", fmt.Sprintf("the points writer was called with %d points although the request must store nothing (oversize=%v damaged=%d known target=%v)",
					nStored, oversize, len(b.damaged()), c.Tg.Known))
			}
			if res.Status >= 200 && res.Status < 300 {
				fail("success-for-rejected-request", fmt.Sprintf("status %d for a request that must be refused (oversize=%v damaged=%d known target=%v)", res.Status, oversize, len(b.damaged()), c.Tg.Known))
			}
			if !c.Tg.Known {
				rec.Class("rec:outcome:unknown-target")
				return
			}
			switch {
			case oversize && hasDamaged:
				rec.Class("rec:outcome:oversize+damaged")
				if res.Status != 413 && res.Status != 400 {
					fail("wrong-status", fmt.Sprintf("status %d, want 413 or 400", res.Status))
				}
			case oversize:
				rec.Class("rec:outcome:413")
				if res.Status != 413 {
					fail("oversize-not-413", fmt.Sprintf("decoded size %d > limit %d answered %d, want 413", c.Size, c.L, res.Status))
				}
			default:
				rec.Class("rec:outcome:400")
				if res.Status != 400 {
					fail("malformed-not-400", fmt.Sprintf("%d damaged line(s) answered %d, want 400", len(b.damaged()), res.Status))
				}
				missing, wrong := namesAllDamaged(res.Msg, b)
				if len(missing) > 0 {
					fail("bad-line-not-named", fmt.Sprintf("the 400 answer does not name damaged line(s) %q", missing))
				}
				if len(wrong) > 0 {
					fail("good-line-named", fmt.Sprintf("the 400 answer names well-formed line(s) %q", wrong))
				}
			}
			return
		}

		// well-formed, within the limit, known target
		if res.Status == 413 {
			key := "within-limit-rejected-413"
			if c.Size == c.L {
				key = keyAtLimit
			}
			fail(key, fmt.Sprintf("well-formed body of decoded size %d with limit %d answered 413: %s", c.Size, c.L, res.Raw))
		}
		var want []string
		for _, p := range b.points() {
			want = append(want, p.canon())
		}
		var got, flat []string
		nLogCalls := 0
		for _, call := range calls {
			if lf.wiring != wireRaw && call.org == recIDs.org && call.bucket == recLogBucket && isLogPoint(call.points) {
				// the error log of the LoggingPointsWriter: only after the batch's own write failed, once
				nLogCalls++
				if w.result == nil || nLogCalls > 1 {
					fail("unexpected-error-log", fmt.Sprintf("%d write(s) of a %s point into the log bucket; the batch's own write returned %v", nLogCalls, logMeasurement, w.result))
				}
				continue
			}
			if call.org != recIDs.org || call.bucket != recIDs.bucket {
				fail("wrong-destination", fmt.Sprintf("points written to org %s bucket %s", call.org, call.bucket))
			}
			for _, p := range call.points {
				flat = append(flat, canonOf(p, true))
				got = append(got, canonOf(p, false))
			}
		}
		// points without a timestamp get the server's time: compare those without the time
		wantNoTime := make([]string, 0, len(want))
		allTimed := true
		for _, p := range b.points() {
			q := p
			if !q.HasT {
				allTimed = false
			}
			q.HasT = false
			wantNoTime = append(wantNoTime, q.canon())
		}
		if d := multisetDiff(wantNoTime, got); d != "" {
			fail("stored-points-differ", "points handed to the points writer differ from the request: "+d)
		}
		if allTimed {
			if d := multisetDiff(want, flat); d != "" {
				fail("stored-points-differ", "points handed to the points writer differ from the request (times): "+d)
			}
		}
		if lf.badFilter != "" {
			fail("log-bucket-lookup", "the log bucket was looked up with filter "+lf.badFilter)
		}
		// What the error-logging path may do to the answer. With the log bucket in place and the log
		// write succeeding, the client must get the batch's own error (LoggingPointsWriter: "Errored
		// writes from here will be logged"). When the logging itself fails (no _monitoring bucket -
		// the tenant service creates one with every organization and refuses to delete or rename it -,
		// bucket lookup error, failing log write) the product answers with the logging error; there
		// only "not 2xx" is demanded, not the dropped count.
		loggingFailed := lf.wiring == wireNoLogBucket || lf.wiring == wireFinderError || lf.wiring == wireLogWriteFail
		if w.result != nil && len(want) > 0 {
			switch {
			case lf.wiring == wireLogging:
				if wantDropped > 0 {
					rec.Class("rec:logged-write-error:partial-write")
				} else {
					rec.Class("rec:logged-write-error:other")
				}
				rec.NonTrivial("rec-logged|" + c.canon())
				if nLogCalls != 1 {
					fail("write-error-not-logged", fmt.Sprintf("the batch's write failed (%v) but %d %s points were written to the log bucket", w.result, nLogCalls, logMeasurement))
				}
			case loggingFailed:
				rec.Class("rec:logging-failed:only-non-2xx-demanded")
			}
		}
		switch {
		case w.result == nil:
			rec.Class("rec:outcome:204")
			if res.Status != 204 {
				fail("accepted-not-204", fmt.Sprintf("well-formed request of decoded size %d <= limit %d answered %d: %s", c.Size, c.L, res.Status, res.Raw))
			}
			if len(want) > 0 && res.DoneAtHeader < 1 {
				fail("204-before-stored", "the 204 status line was written before the points writer returned")
			}
		case wantDropped > 0:
			rec.Class("rec:outcome:partial-write")
			if res.Status >= 200 && res.Status < 300 && len(want) > 0 {
				fail("partial-write-reported-success", fmt.Sprintf("status %d although the writer dropped %d points", res.Status, wantDropped))
			}
			if len(want) > 0 && !loggingFailed {
				if stated, ok := statedDropped(res.Msg, wantDropped); !ok {
					fail("dropped-count-not-stated", fmt.Sprintf("the writer dropped %d points; the answer states %v: %s", wantDropped, stated, res.Raw))
				}
			}
		default:
			rec.Class("rec:outcome:writer-error")
			if res.Status >= 200 && res.Status < 300 && len(want) > 0 {
				fail("write-error-reported-success", fmt.Sprintf("status %d although the points writer failed", res.Status))
			}
		}
	})
}
