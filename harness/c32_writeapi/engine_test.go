// C32 mode (b) — http.NewWriteHandler in front of the real storage stack (fix.Stack: storage.Engine,
// meta client, coordinator points writer, tsdb.Store, one shard per hour), read back through the
// storage read service.
//
// The handler reaches the engine directly (a quarter of the cases) or, as cmd/influxd/launcher wires it,
// through storage.LoggingPointsWriter with the organization's _monitoring bucket in place: an engine
// error is logged there as a write_errors point and the client must still get the engine's error.
//
// One rapid case = one fresh stack and a sequence of 5..9 write requests. Requests are built like in
// mode (a) (damaged lines, sizes around the limit, gzip) over plain names, with every point at its own
// timestamp in one of three hourly shards of 2030 — or in 1970, outside the bucket's 30-year
// retention period — and, once a field's type is established in a shard, single-field points that
// write that field with another type (the engine drops those points: field type conflict).
//
// Oracle: the content of the bucket (every series / field / timestamp / typed value) must equal the
// model after every request: unchanged after a 400 / 413 / unknown target, all points after a 204
// (read immediately after the answer), all but the dropped points after an error answer — and that
// error answer must state the number of points of the batch that cannot be read back. With the logging
// wiring, at the end of the case the _monitoring bucket must hold one write_errors point per failed request.
package c32_writeapi

import (
	"context"
	"fmt"
	"net/http"
	"os"
	"sort"
	"strings"
	"testing"
	"time"

	"github.com/influxdata/influxdb/v2"
	"github.com/influxdata/influxdb/v2/kit/platform"
	"github.com/influxdata/influxdb/v2/models"
	"github.com/influxdata/influxdb/v2/storage/reads/datatypes"
	"google.golang.org/protobuf/types/known/anypb"
	"pgregory.net/rapid"

	"verifharness/internal/ev"
	"verifharness/internal/fix"
	"verifharness/internal/model"
	"verifharness/internal/scratch"
)

const (
	keyUndercount = "partial-write-dropped-undercount"
	baseSec       = int64(1893456000) // 2030-01-01T00:00:00Z
	retention     = 30 * 365 * 24 * time.Hour
	nHours        = 3
)

// engState is the model next to one stack.
type engState struct {
	st    *fix.Stack
	cw    *countingWriter
	types [nHours]map[string]byte   // per hourly shard: measurement "\x00" field -> kind
	data  map[string]map[int64]fval // series key "#" field -> ns -> value
	ctr   int64                     // unique counter (timestamps, values)
	ids   fixtureIDs
	hnd   map[int]http.Handler // by limit
	lf    *logFinder           // wiring between handler and engine (nil = raw)
	nErrs int                  // requests for which the engine reported an error
}

// engLogBucket is the organization's _monitoring bucket in mode (b).
const engLogBucket = platform.ID(0x3000)

func newEngState() (*engState, error) { return newEngStateWired(wireRaw) }

// newEngStateWired builds the stack; with wireLogging the handler reaches the engine through the
// server's LoggingPointsWriter and the organization gets its _monitoring bucket (7 d retention).
func newEngStateWired(wiring int) (*engState, error) {
	dir, err := scratch.Dir("c32-")
	if err != nil {
		return nil, err
	}
	s := &fix.Stack{Root: dir, ShardDur: time.Hour, Org: 0x1000, Bucket: 0x2000}
	if err := s.Open(false); err != nil {
		os.RemoveAll(dir)
		return nil, err
	}
	if err := s.Eng.CreateBucket(context.Background(), &influxdb.Bucket{ID: s.Bucket, OrgID: s.Org,
		ShardGroupDuration: time.Hour, RetentionPeriod: retention}); err != nil {
		s.Close()
		os.RemoveAll(dir)
		return nil, err
	}
	e := &engState{st: s, data: map[string]map[int64]fval{}, ids: fixtureIDs{org: s.Org, bucket: s.Bucket}}
	e.cw = &countingWriter{inner: s.Eng}
	if wiring != wireRaw {
		if err := s.Eng.CreateBucket(context.Background(), &influxdb.Bucket{ID: engLogBucket, OrgID: s.Org, Type: influxdb.BucketTypeSystem,
			Name: influxdb.MonitoringSystemBucketName, RetentionPeriod: influxdb.MonitoringSystemBucketRetention}); err != nil {
			s.Close()
			os.RemoveAll(dir)
			return nil, err
		}
		e.lf = &logFinder{org: s.Org, logID: engLogBucket, wiring: wiring}
		e.cw.inner = wire(s.Eng, e.lf)
	}
	for i := range e.types {
		e.types[i] = map[string]byte{}
	}
	return e, nil
}

func (e *engState) close() {
	e.st.Close()
	os.RemoveAll(e.st.Root)
}

func seriesKey(p pt) string {
	m := map[string]string{}
	for _, t := range p.Tags {
		m[t.K] = t.V
	}
	return string(models.MakeKey([]byte(p.M), models.NewTags(m)))
}

// hourOf returns the hourly shard of a 2030 timestamp, or -1 for a 1970 (expired) one.
func hourOf(ns int64) int {
	if ns < baseSec*1e9 {
		return -1
	}
	return int((ns/1e9 - baseSec) / 3600)
}

type batchEffect struct {
	expired   int
	conflicts [nHours]int
	droppedIx map[int]bool // index into points
}

func (b batchEffect) total() int {
	n := b.expired
	for _, c := range b.conflicts {
		n += c
	}
	return n
}

func (b batchEffect) sources() int {
	n := 0
	if b.expired > 0 {
		n++
	}
	for _, c := range b.conflicts {
		if c > 0 {
			n++
		}
	}
	return n
}

// simulate computes what the engine must do with the points (in order), against a type table.
func simulate(types *[nHours]map[string]byte, pts []pt, apply func(p pt)) batchEffect {
	eff := batchEffect{droppedIx: map[int]bool{}}
	for i, p := range pts {
		h := hourOf(p.Ns)
		if h < 0 {
			eff.expired++
			eff.droppedIx[i] = true
			continue
		}
		conflict := false
		for _, f := range p.Fields {
			k := p.M + "\x00" + f.K
			if have, ok := types[h][k]; ok && have != f.V.K {
				conflict = true
				break
			}
			types[h][k] = f.V.K // fields ahead of a conflicting one are created even when the point is dropped
		}
		if conflict {
			eff.conflicts[h]++
			eff.droppedIx[i] = true
			continue
		}
		if apply != nil {
			apply(p)
		}
	}
	return eff
}

func copyTypes(t [nHours]map[string]byte) [nHours]map[string]byte {
	var out [nHours]map[string]byte
	for i := range t {
		out[i] = map[string]byte{}
		for k, v := range t[i] {
			out[i][k] = v
		}
	}
	return out
}

func toFval(v model.Val) fval {
	switch v.K {
	case model.Float:
		return fval{K: 'f', F: v.F}
	case model.Integer:
		return fval{K: 'i', I: v.I}
	case model.Unsigned:
		return fval{K: 'u', U: v.U}
	case model.Boolean:
		return fval{K: 'b', B: v.B}
	default:
		return fval{K: 's', S: v.S}
	}
}

// readAll reads the whole bucket: series key "#" field -> ns -> value.
func (e *engState) readAll() (map[string]map[int64]fval, error) {
	rows, err := e.st.ReadFilter(0, 1<<62, nil)
	if err != nil {
		return nil, err
	}
	out := map[string]map[int64]fval{}
	for _, r := range rows {
		k, f := r.Key()
		key := k + "#" + f
		if out[key] == nil && len(r.Points) > 0 {
			out[key] = map[int64]fval{}
		}
		for _, p := range r.Points {
			out[key][p.T] = toFval(p.V)
		}
	}
	return out, nil
}

func diffStores(want, got map[string]map[int64]fval) string {
	var msgs []string
	for k, wm := range want {
		for ts, wv := range wm {
			gv, ok := got[k][ts]
			if !ok {
				msgs = append(msgs, fmt.Sprintf("missing %s@%d=%s", k, ts, wv))
			} else if gv.String() != wv.String() {
				msgs = append(msgs, fmt.Sprintf("%s@%d=%s want %s", k, ts, gv, wv))
			}
		}
	}
	for k, gm := range got {
		for ts, gv := range gm {
			if _, ok := want[k][ts]; !ok {
				msgs = append(msgs, fmt.Sprintf("unexpected %s@%d=%s", k, ts, gv))
			}
		}
	}
	sort.Strings(msgs)
	if len(msgs) > 6 {
		msgs = append(msgs[:6], fmt.Sprintf("... %d more", len(msgs)-6))
	}
	return strings.Join(msgs, "; ")
}

// unreadable counts the points of the batch that cannot be read back (any field missing or different).
func unreadable(pts []pt, got map[string]map[int64]fval) int {
	n := 0
	for _, p := range pts {
		sk := seriesKey(p)
		ok := true
		for _, f := range p.Fields {
			gv, have := got[sk+"#"+f.K][p.Ns]
			if !have || gv.String() != f.V.String() {
				ok = false
			}
		}
		if !ok {
			n++
		}
	}
	return n
}

// genEngineBody draws a body for mode (b): every point at its own timestamp; conflicting points only
// against types established before them (in earlier requests or earlier in this body).
func (e *engState) genEngineBody(t *rapid.T) *body {
	tentative := copyTypes(e.types)
	b := &body{Prec: rapid.SampledFrom(precisions).Draw(t, "prec")}
	mult := precMult(b.Prec)
	nValid := rapid.IntRange(1, 6).Draw(t, "n_valid")
	for i := 0; i < nValid; i++ {
		label := fmt.Sprintf("p%d", i)
		e.ctr++
		var p pt
		h := -1
		switch k := rapid.IntRange(0, 15).Draw(t, label+"_slot"); {
		case k <= 1:
			h = -1 // expired
		default:
			h = k % nHours
		}
		var established []string
		if h >= 0 {
			for k := range tentative[h] {
				if !strings.HasSuffix(k, "\x00pad") {
					established = append(established, k)
				}
			}
			sort.Strings(established)
		}
		if len(established) > 0 && rapid.IntRange(0, 3).Draw(t, label+"_conflict") <= 1 {
			k := rapid.SampledFrom(established).Draw(t, label+"_ck")
			parts := strings.SplitN(k, "\x00", 2)
			have := tentative[h][k]
			var other []byte
			for _, c := range kinds {
				if c != have {
					other = append(other, c)
				}
			}
			kind := rapid.SampledFrom(other).Draw(t, label+"_ckind")
			p = pt{M: parts[0], Fields: []field{{parts[1], genValue(t, label+"_cv", kind, e.ctr)}}}
			if rapid.Bool().Draw(t, label+"_ctag") {
				p.Tags = []tag{{"host", "a"}}
			}
		} else {
			p = genPoint(t, label, false)
			for j := range p.Fields {
				p.Fields[j].V = genValue(t, fmt.Sprintf("%s_v%d", label, j), p.Fields[j].V.K, e.ctr)
			}
		}
		p.HasT = true
		if h < 0 {
			p.Ns = e.ctr * mult
		} else {
			p.Ns = (baseSec+int64(h)*3600)*1e9 + e.ctr*mult
		}
		simulate(&tentative, []pt{p}, nil)
		pp := p
		b.Lines = append(b.Lines, bodyLine{Kind: "valid", P: &pp})
	}
	nDmg := 0
	switch k := rapid.IntRange(0, 19).Draw(t, "n_damaged_k"); {
	case k >= 18:
		nDmg = 2
	case k >= 14:
		nDmg = 1
	}
	for i := 0; i < nDmg; i++ {
		kind, text := damagedLine(t, fmt.Sprintf("d%d", i))
		pos := rapid.IntRange(0, len(b.Lines)).Draw(t, fmt.Sprintf("d%d_pos", i))
		l := bodyLine{Kind: "damaged", Text: text, Dmg: kind}
		b.Lines = append(b.Lines[:pos], append([]bodyLine{l}, b.Lines[pos:]...)...)
	}
	b.rerender()
	return b
}

func (e *engState) handler(limit int) http.Handler {
	if e.hnd == nil {
		e.hnd = map[int]http.Handler{}
	}
	if h, ok := e.hnd[limit]; ok {
		return h
	}
	h := newHandler(e.cw, e.ids, int64(limit))
	e.hnd[limit] = h
	return h
}

func TestPropRealEngine(t *testing.T) {
	rec.Assume("mode (b): full storage stack (storage.Engine + meta client on in-memory KV + coordinator points writer + tsdb.Store, background loops off); bucket with 1h shard groups and a 30-year retention period; points dated 2030 (stored) or 1970 (outside retention); reads through the v1 storage read service")
	rec.Assume("mode (b): after an ERROR answer the bucket is polled for up to 5 s until it equals the model (the coordinator answers on the first shard error while other shards may still be writing); after a 204 it is read once, immediately")
	rec.Check(t, 500, 9000, func(t *rapid.T) {
		wiring := genWiring(t, false)
		e, err := newEngStateWired(wiring)
		if err != nil {
			t.Fatalf("fixture: %v", err)
		}
		defer e.close()
		nReq := rapid.IntRange(5, 9).Draw(t, "n_requests")
		for r := 0; r < nReq; r++ {
			e.oneRequest(t, r)
		}
		if e.lf != nil {
			e.checkErrorLog(t)
		}
	})
}

func (e *engState) oneRequest(t *rapid.T, r int) {
	b := e.genEngineBody(t)
	c := finishCase(t, b, e.ids, true)
	res := post(e.handler(c.L), e.cw, c.Tg, b.Prec, c.Wire, c.Gzip)

	rec.Eval()
	oversize, hasDamaged := c.classify("eng")
	wiring := wireRaw
	if e.lf != nil {
		wiring = e.lf.wiring
	}
	rec.Class("eng:wiring:" + wiringNames[wiring])
	fail := func(key, detail string) {
		cj := c.json()
		cj["status"], cj["answer"], cj["request_index"], cj["wiring"] = res.Status, res.Raw, r, wiringNames[wiring]
		rec.Fail(t, "TestPropRealEngine", key, detail, cj)
	}
	pts := b.points()
	atLimit413 := c.Size == c.L && c.Tg.Known && res.Status == 413 && ev.KnownOpen("C32", keyAtLimit)
	rejected := !c.Tg.Known || oversize || hasDamaged || atLimit413

	var eff batchEffect
	if !rejected {
		eff = simulate(&e.types, pts, func(p pt) {
			sk := seriesKey(p)
			for _, f := range p.Fields {
				k := sk + "#" + f.K
				if e.data[k] == nil {
					e.data[k] = map[int64]fval{}
				}
				e.data[k][p.Ns] = f.V
			}
		})
	}

	// read back: immediately; after an error answer poll until the in-flight shard writes have landed
	got, err := e.readAll()
	if err != nil {
		t.Fatalf("read back: %v", err)
	}
	diff := diffStores(e.data, got)
	if diff != "" && res.Status != 204 && !rejected {
		deadline := time.Now().Add(5 * time.Second)
		for diff != "" && time.Now().Before(deadline) {
			time.Sleep(2 * time.Millisecond)
			if got, err = e.readAll(); err != nil {
				t.Fatalf("read back: %v", err)
			}
			diff = diffStores(e.data, got)
		}
		rec.Class("eng:settled-after-error-answer")
	}

	switch {
	case rejected:
		if atLimit413 {
			rec.ExcludedKnown(keyAtLimit)
		}
		if diff != "" {
			fail("stored-despite-rejection", fmt.Sprintf("status %d (oversize=%v damaged=%d known target=%v) but the bucket changed: %s", res.Status, oversize, len(b.damaged()), c.Tg.Known, diff))
		}
		if res.Status >= 200 && res.Status < 300 {
			fail("success-for-rejected-request", fmt.Sprintf("status %d for a request that must be refused (oversize=%v damaged=%d known target=%v)", res.Status, oversize, len(b.damaged()), c.Tg.Known))
		}
		switch {
		case !c.Tg.Known:
			rec.Class("eng:outcome:unknown-target")
		case atLimit413:
			rec.Class("eng:outcome:at-limit-413(known)")
		case oversize && hasDamaged:
			rec.Class("eng:outcome:oversize+damaged")
			if res.Status != 413 && res.Status != 400 {
				fail("wrong-status", fmt.Sprintf("status %d, want 413 or 400", res.Status))
			}
		case oversize:
			rec.Class("eng:outcome:413")
			if res.Status != 413 {
				fail("oversize-not-413", fmt.Sprintf("decoded size %d > limit %d answered %d, want 413", c.Size, c.L, res.Status))
			}
		default:
			rec.Class("eng:outcome:400")
			if res.Status != 400 {
				fail("malformed-not-400", fmt.Sprintf("%d damaged line(s) answered %d, want 400", len(b.damaged()), res.Status))
			}
			missing, wrong := namesAllDamaged(res.Msg, b)
			if len(missing) > 0 {
				fail("bad-line-not-named", fmt.Sprintf("the 400 answer does not name damaged line(s) %q", missing))
			}
			if len(wrong) > 0 {
				fail("good-line-named", fmt.Sprintf("the 400 answer names well-formed line(s) %q", wrong))
			}
		}
		return
	}

	if res.Status == 413 {
		key := "within-limit-rejected-413"
		if c.Size == c.L {
			key = keyAtLimit
		}
		fail(key, fmt.Sprintf("well-formed body of decoded size %d with limit %d answered 413: %s", c.Size, c.L, res.Raw))
	}
	total := eff.total()
	if total > 0 {
		rec.NonTrivial("eng-drop|" + c.canon())
		rec.Class(fmt.Sprintf("eng:drop-sources:%d", eff.sources()))
		if eff.expired > 0 {
			rec.Class("eng:drop:retention")
		}
		nShards := 0
		for _, k := range eff.conflicts {
			if k > 0 {
				nShards++
			}
		}
		if nShards > 0 {
			rec.Class(fmt.Sprintf("eng:drop:conflict-in-%d-shard(s)", nShards))
		}
	}
	hours := map[int]bool{}
	for _, p := range pts {
		if h := hourOf(p.Ns); h >= 0 {
			hours[h] = true
		}
	}
	rec.Class(fmt.Sprintf("eng:batch-shards:%d", len(hours)))

	if diff != "" {
		fail("bucket-differs-from-model", fmt.Sprintf("after status %d (model: %d of %d points dropped) the bucket differs: %s", res.Status, total, len(pts), diff))
	}
	if total == 0 {
		rec.Class("eng:outcome:204")
		if res.Status != 204 {
			fail("accepted-not-204", fmt.Sprintf("well-formed request of decoded size %d <= limit %d, no point to drop, answered %d: %s", c.Size, c.L, res.Status, res.Raw))
		}
		if len(pts) > 0 && res.DoneAtHeader < e.cw.completed() {
			fail("204-before-stored", "the 204 status line was written before the points writer returned")
		}
		return
	}
	rec.Class("eng:outcome:partial-write")
	e.nErrs++
	if wiring == wireLogging {
		rec.Class("eng:logged-write-error:partial-write")
	}
	if res.Status >= 200 && res.Status < 300 {
		fail("partial-write-reported-success", fmt.Sprintf("status %d although %d of %d points were not stored", res.Status, total, len(pts)))
	}
	lost := unreadable(pts, got)
	if eff.sources() >= 2 && ev.KnownOpen("C32", keyUndercount) {
		// known finding: only the first error's count is reported when points are dropped in more than
		// one place (several shards, or retention + a shard)
		if _, ok := statedDropped(res.Msg, lost); !ok {
			rec.ExcludedKnown(keyUndercount)
		}
		return
	}
	if stated, ok := statedDropped(res.Msg, lost); !ok {
		key := "dropped-count-not-stated"
		if eff.sources() >= 2 {
			key = keyUndercount
		}
		fail(key, fmt.Sprintf("%d points of the batch cannot be read back (retention %d, conflicts per shard %v); the answer states %v: %s", lost, eff.expired, eff.conflicts, stated, res.Raw))
	}
}

// checkErrorLog (logging wiring): the _monitoring bucket holds one write_errors point per request for
// which the engine reported an error, and nothing else (LoggingPointsWriter: "Errored writes from here
// will be logged"; the log point is written before the answer).
func (e *engState) checkErrorLog(t *rapid.T) {
	if e.lf.badFilter != "" {
		rec.Fail(t, "TestPropRealEngine", "log-bucket-lookup", "the log bucket was looked up with filter "+e.lf.badFilter, nil)
	}
	src, err := anypb.New(e.st.Reads.GetSource(uint64(e.st.Org), uint64(engLogBucket)))
	if err != nil {
		t.Fatalf("log bucket source: %v", err)
	}
	rs, err := e.st.Reads.ReadFilter(context.Background(), &datatypes.ReadFilterRequest{ReadSource: src,
		Range: &datatypes.TimestampRange{Start: 0, End: 1 << 62}})
	if err != nil {
		t.Fatalf("read log bucket: %v", err)
	}
	rows, err := fix.DrainResultSet(rs)
	if err != nil {
		t.Fatalf("read log bucket: %v", err)
	}
	n, other := 0, []string{}
	for _, r := range rows {
		k, f := r.Key()
		if k == logMeasurement && f == "error" {
			n += len(r.Points)
		} else if len(r.Points) > 0 {
			other = append(other, k+"#"+f)
		}
	}
	if e.nErrs > 0 {
		rec.Class("eng:error-log-checked")
	}
	if n != e.nErrs || len(other) > 0 {
		rec.Fail(t, "TestPropRealEngine", "error-log-differs", fmt.Sprintf("the engine reported an error for %d requests; the _monitoring bucket holds %d %s points and other series %q",
			e.nErrs, n, logMeasurement, other), map[string]any{"wiring": wiringNames[e.lf.wiring]})
	}
}
