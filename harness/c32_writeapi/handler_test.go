// C32 — the write handler under httptest: construction (mock organization / bucket services that
// know exactly one organization and one bucket, an authorizer allowed to write to it), a response
// writer that notes how far the points writer had got when the status line was written, and the
// decoding of error bodies.
package c32_writeapi

import (
	"bytes"
	"context"
	"encoding/json"
	"net/http"
	"net/http/httptest"
	"net/url"
	"regexp"
	"strconv"
	"strings"
	"sync"

	"github.com/influxdata/influxdb/v2"
	ihttp "github.com/influxdata/influxdb/v2/http"
	"github.com/influxdata/influxdb/v2/http/metric"
	httpmock "github.com/influxdata/influxdb/v2/http/mock"
	"github.com/influxdata/influxdb/v2/kit/platform"
	errors2 "github.com/influxdata/influxdb/v2/kit/platform/errors"
	kithttp "github.com/influxdata/influxdb/v2/kit/transport/http"
	"github.com/influxdata/influxdb/v2/mock"
	"github.com/influxdata/influxdb/v2/models"
	"github.com/influxdata/influxdb/v2/storage"
	"go.uber.org/zap"

	"verifharness/internal/ev"
)

var rec = ev.For("C32", "exploration",
	"case = one POST /api/v2/write (body lines, decoded size vs limit L, plain|gzip, precision, org/bucket) against a recording points writer or the real storage engine; non-trivial = decoded size within +-2 of L, or exactly one damaged line among >=3 lines, or a gzip body, or (engine) a batch from which the engine drops points; distinct by body text, limit, encoding, precision and target")

const (
	orgName    = "verif-org"
	bucketName = "verif-bucket"
)

// progress is implemented by both points writers: number of WritePoints calls that have returned.
type progress interface{ completed() int }

// recWriter is the recording points writer of mode (a).
type recWriter struct {
	mu     sync.Mutex
	calls  []recCall
	done   int
	result error
	// logBucket, when valid, is the organization's _monitoring bucket: writes to it answer logResult
	logBucket platform.ID
	logResult error
}

type recCall struct {
	org, bucket platform.ID
	points      []models.Point
}

func (w *recWriter) WritePoints(_ context.Context, org, bucket platform.ID, pts []models.Point) error {
	w.mu.Lock()
	defer w.mu.Unlock()
	cp := make([]models.Point, len(pts))
	copy(cp, pts)
	w.calls = append(w.calls, recCall{org, bucket, cp})
	w.done++
	if w.logBucket.Valid() && bucket == w.logBucket {
		return w.logResult
	}
	return w.result
}

func (w *recWriter) completed() int { w.mu.Lock(); defer w.mu.Unlock(); return w.done }

// snapshot returns the calls recorded so far.
func (w *recWriter) snapshot() []recCall {
	w.mu.Lock()
	defer w.mu.Unlock()
	return append([]recCall(nil), w.calls...)
}

// countingWriter wraps the real engine and counts completed calls.
type countingWriter struct {
	mu    sync.Mutex
	done  int
	calls int
	inner storage.PointsWriter
}

func (w *countingWriter) WritePoints(ctx context.Context, org, bucket platform.ID, pts []models.Point) error {
	w.mu.Lock()
	w.calls++
	w.mu.Unlock()
	err := w.inner.WritePoints(ctx, org, bucket, pts)
	w.mu.Lock()
	w.done++
	w.mu.Unlock()
	return err
}

func (w *countingWriter) completed() int { w.mu.Lock(); defer w.mu.Unlock(); return w.done }

// headerSpy notes the writer's progress at the moment the status line is written.
type headerSpy struct {
	*httptest.ResponseRecorder
	pw           progress
	doneAtHeader int
	wrote        bool
}

func (s *headerSpy) note() {
	if !s.wrote {
		s.wrote = true
		s.doneAtHeader = s.pw.completed()
	}
}
func (s *headerSpy) WriteHeader(code int)        { s.note(); s.ResponseRecorder.WriteHeader(code) }
func (s *headerSpy) Write(b []byte) (int, error) { s.note(); return s.ResponseRecorder.Write(b) }

// target is how the request names organization and bucket.
type target struct {
	Org, Bucket string // query parameter values ("" = parameter absent)
	Known       bool   // both resolve to the organization / bucket that exist
}

type fixtureIDs struct{ org, bucket platform.ID }

func newHandler(pw storage.PointsWriter, ids fixtureIDs, limit int64) http.Handler {
	notFound := func(what string) error {
		return &errors2.Error{Code: errors2.ENotFound, Msg: what + " not found"}
	}
	orgs := mock.NewOrganizationService()
	orgs.FindOrganizationF = func(_ context.Context, f influxdb.OrganizationFilter) (*influxdb.Organization, error) {
		if (f.ID != nil && *f.ID == ids.org) || (f.Name != nil && *f.Name == orgName) {
			return &influxdb.Organization{ID: ids.org, Name: orgName}, nil
		}
		return nil, notFound("organization")
	}
	buckets := mock.NewBucketService()
	buckets.FindBucketFn = func(_ context.Context, f influxdb.BucketFilter) (*influxdb.Bucket, error) {
		if f.OrganizationID != nil && *f.OrganizationID != ids.org {
			return nil, notFound("bucket")
		}
		if (f.ID != nil && *f.ID == ids.bucket) || (f.Name != nil && *f.Name == bucketName) {
			return &influxdb.Bucket{ID: ids.bucket, OrgID: ids.org, Name: bucketName}, nil
		}
		return nil, notFound("bucket")
	}
	log := zap.NewNop()
	backend := ihttp.NewWriteBackend(log, &ihttp.APIBackend{
		HTTPErrorHandler:    kithttp.NewErrorHandler(log),
		Logger:              log,
		OrganizationService: orgs,
		BucketService:       buckets,
		PointsWriter:        pw,
		WriteEventRecorder:  &metric.NopEventRecorder{},
	})
	var opts []ihttp.WriteHandlerOption
	if limit > 0 {
		opts = append(opts, ihttp.WithMaxBatchSizeBytes(limit))
	}
	wh := ihttp.NewWriteHandler(log, backend, opts...)
	oid, bid := ids.org, ids.bucket
	auth := &influxdb.Authorization{OrgID: oid, Status: influxdb.Active, Permissions: []influxdb.Permission{{
		Action:   influxdb.WriteAction,
		Resource: influxdb.Resource{Type: influxdb.BucketsResourceType, OrgID: &oid, ID: &bid},
	}}}
	return httpmock.NewAuthMiddlewareHandler(wh, auth)
}

type response struct {
	Status       int
	Raw          string
	Code, Msg    string // decoded error envelope
	DoneAtHeader int
}

// post sends one write request. wire is the bytes on the wire; gz sets Content-Encoding: gzip.
func post(h http.Handler, pw progress, tg target, prec string, wire []byte, gz bool) response {
	q := url.Values{}
	if tg.Org != "" {
		q.Set("org", tg.Org)
	}
	if tg.Bucket != "" {
		q.Set("bucket", tg.Bucket)
	}
	if prec != "" {
		q.Set("precision", prec)
	}
	r := httptest.NewRequest("POST", "http://localhost:8086/api/v2/write?"+q.Encode(), bytes.NewReader(wire))
	r.Header.Set("Content-Type", "text/plain; charset=utf-8")
	if gz {
		r.Header.Set("Content-Encoding", "gzip")
	}
	spy := &headerSpy{ResponseRecorder: httptest.NewRecorder(), pw: pw}
	h.ServeHTTP(spy, r)
	res := response{Status: spy.Code, Raw: spy.Body.String(), DoneAtHeader: spy.doneAtHeader}
	if !spy.wrote {
		res.DoneAtHeader = pw.completed()
	}
	var env struct {
		Code    string `json:"code"`
		Message string `json:"message"`
	}
	if json.Unmarshal(spy.Body.Bytes(), &env) == nil {
		res.Code, res.Msg = env.Code, env.Message
	}
	return res
}

// genTarget: mostly the existing organization and bucket (by name or by id), sometimes not.
func genTargetKind(k int, ids fixtureIDs) target {
	switch k {
	case 0:
		return target{Org: orgName, Bucket: bucketName, Known: true}
	case 1:
		return target{Org: ids.org.String(), Bucket: ids.bucket.String(), Known: true}
	case 2:
		return target{Org: orgName, Bucket: ids.bucket.String(), Known: true}
	case 3:
		return target{Org: orgName, Bucket: "no-such-bucket"}
	case 4:
		return target{Org: "no-such-org", Bucket: bucketName}
	case 5:
		return target{Org: orgName, Bucket: ""}
	default:
		return target{Org: platform.ID(0x7777).String(), Bucket: bucketName}
	}
}

var droppedRe = regexp.MustCompile(`dropped=(\d+)`)

// statedDropped extracts the dropped count an error message states. The product's wording is
// "... dropped=N"; when a message does not use it, any of its standalone decimal numbers counts.
func statedDropped(msg string, want int) (stated []int, ok bool) {
	if m := droppedRe.FindAllStringSubmatch(msg, -1); len(m) > 0 {
		for _, g := range m {
			n, _ := strconv.Atoi(g[1])
			stated = append(stated, n)
			if n == want {
				ok = true
			}
		}
		// every stated count must be the true one
		for _, n := range stated {
			if n != want {
				ok = false
			}
		}
		return stated, ok
	}
	for _, tok := range regexp.MustCompile(`\d+`).FindAllString(msg, -1) {
		n, _ := strconv.Atoi(tok)
		stated = append(stated, n)
		if n == want {
			ok = true
		}
	}
	return stated, ok
}

// namesAllDamaged reports the damaged lines whose text the message does not contain, and the valid
// lines it wrongly contains (only checked for valid lines that are not part of a damaged line's text).
func namesAllDamaged(msg string, b *body) (missing, wronglyNamed []string) {
	dmg := b.damaged()
	for _, d := range dmg {
		if !strings.Contains(msg, d.Text) {
			missing = append(missing, d.Text)
		}
	}
	for _, l := range b.Lines {
		if l.Kind != "valid" {
			continue
		}
		inDamaged := false
		for _, d := range dmg {
			if strings.Contains(d.Text, l.Text) {
				inDamaged = true
			}
		}
		if !inDamaged && strings.Contains(msg, l.Text) {
			wronglyNamed = append(wronglyNamed, l.Text)
		}
	}
	return
}
