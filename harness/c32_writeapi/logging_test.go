// C32 — the points writer as the server wires it. cmd/influxd/launcher hands the write handler not the
// engine but a storage.LoggingPointsWriter around it (storage/points_writer.go): when the engine
// reports an error for a batch, a "write_errors" point is written into the organization's
// "_monitoring" system bucket and the ORIGINAL error is handed back to the handler. Both modes draw
// this wiring for most cases, so that the answer the client gets for a failed / partial write is the
// one that has passed through the error-logging path (log bucket found and log write succeeds; log
// bucket missing; bucket lookup fails; log write itself fails).
package c32_writeapi

import (
	"context"
	"fmt"

	"github.com/influxdata/influxdb/v2"
	"github.com/influxdata/influxdb/v2/kit/platform"
	"github.com/influxdata/influxdb/v2/models"
	"github.com/influxdata/influxdb/v2/storage"
	"pgregory.net/rapid"
)

const (
	wireRaw          = iota // handler -> writer directly (as in the handler's own unit tests)
	wireLogging             // handler -> LoggingPointsWriter -> writer; log bucket exists, log write succeeds
	wireNoLogBucket         // ... the organization has no _monitoring bucket
	wireFinderError         // ... the bucket lookup fails
	wireLogWriteFail        // ... the log bucket exists but writing the log point fails
)

var wiringNames = map[int]string{
	wireRaw:          "raw-writer",
	wireLogging:      "logging-writer",
	wireNoLogBucket:  "logging-writer/no-log-bucket",
	wireFinderError:  "logging-writer/bucket-lookup-fails",
	wireLogWriteFail: "logging-writer/log-write-fails",
}

const logMeasurement = "write_errors"

// logFinder is the BucketFinder of the LoggingPointsWriter: it knows the organization's _monitoring bucket.
type logFinder struct {
	org, logID platform.ID
	wiring     int
	lookups    int
	badFilter  string
}

func (f *logFinder) FindBuckets(_ context.Context, flt influxdb.BucketFilter, _ ...influxdb.FindOptions) ([]*influxdb.Bucket, int, error) {
	f.lookups++
	if flt.OrganizationID == nil || *flt.OrganizationID != f.org || flt.Name == nil || *flt.Name != influxdb.MonitoringSystemBucketName {
		f.badFilter = fmt.Sprintf("%+v", flt)
		return nil, 0, nil
	}
	switch f.wiring {
	case wireNoLogBucket:
		return nil, 0, nil
	case wireFinderError:
		return nil, 0, fmt.Errorf("bucket service unavailable")
	}
	return []*influxdb.Bucket{{ID: f.logID, OrgID: f.org, Type: influxdb.BucketTypeSystem, Name: influxdb.MonitoringSystemBucketName,
		RetentionPeriod: influxdb.MonitoringSystemBucketRetention}}, 1, nil
}

// wire puts the points writer behind the wiring (the launcher's construction for every wiring but raw).
func wire(inner storage.PointsWriter, f *logFinder) storage.PointsWriter {
	if f == nil || f.wiring == wireRaw {
		return inner
	}
	return &storage.LoggingPointsWriter{Underlying: inner, BucketFinder: f, LogBucketName: influxdb.MonitoringSystemBucketName}
}

// genWiring: 25 % raw, 55 % the server's wiring with everything in place, 20 % with a logging path that fails.
func genWiring(t *rapid.T, withFailures bool) int {
	k := rapid.IntRange(0, 19).Draw(t, "wiring")
	switch { // (rapid favours the ends of a range: the server's wiring sits at the low end)
	case k < 11:
		return wireLogging
	case k < 16:
		return wireRaw
	case !withFailures:
		return wireLogging
	case k < 18:
		return wireNoLogBucket
	case k < 19:
		return wireFinderError
	}
	return wireLogWriteFail
}

// isLogPoint: one point of the write_errors measurement with a non-empty string field "error".
func isLogPoint(pts []models.Point) bool {
	if len(pts) != 1 || string(pts[0].Name()) != logMeasurement {
		return false
	}
	fs, err := pts[0].Fields()
	if err != nil {
		return false
	}
	s, ok := fs["error"].(string)
	return ok && s != ""
}
