// C32 — request bodies: an independent model of line-protocol points, a renderer written from the
// grammar (tsdb/README.md: measurement escapes ',' and ' '; tag keys / tag values / field keys escape
// ',', '=' and ' '; string values are double-quoted with '"' escaped), damaged lines whose
// ill-formedness is certain by construction, and a body builder that hits an exact decoded size.
//
// The alphabet never contains a raw backslash: every open line-protocol finding of C11/C12 needs one,
// so none of their signatures can be produced here (the parser itself is C11/C12's subject; this
// package is about what the HTTP layer does with the parser's verdict).
package c32_writeapi

import (
	"bytes"
	"compress/gzip"
	"fmt"
	"math"
	"sort"
	"strconv"
	"strings"

	"github.com/influxdata/influxdb/v2/models"
	"pgregory.net/rapid"
)

// ---- model ---------------------------------------------------------------------------------------

type fval struct {
	K byte // 'f' float, 'i' integer, 'u' unsigned, 's' string, 'b' boolean
	F float64
	I int64
	U uint64
	S string
	B bool
}

func (v fval) String() string {
	switch v.K {
	case 'f':
		return "f:" + strconv.FormatUint(math.Float64bits(v.F), 16)
	case 'i':
		return "i:" + strconv.FormatInt(v.I, 10)
	case 'u':
		return "u:" + strconv.FormatUint(v.U, 10)
	case 's':
		return "s:" + strconv.Quote(v.S)
	case 'b':
		return "b:" + strconv.FormatBool(v.B)
	}
	return "?"
}

func (v fval) render() string {
	switch v.K {
	case 'f':
		return strconv.FormatFloat(v.F, 'g', -1, 64)
	case 'i':
		return strconv.FormatInt(v.I, 10) + "i"
	case 'u':
		return strconv.FormatUint(v.U, 10) + "u"
	case 's':
		return `"` + strings.ReplaceAll(v.S, `"`, `\"`) + `"`
	case 'b':
		if v.B {
			return "true"
		}
		return "false"
	}
	panic("bad kind")
}

// fromAny converts a value returned by models.Point.Fields().
func fromAny(x any) fval {
	switch v := x.(type) {
	case float64:
		return fval{K: 'f', F: v}
	case int64:
		return fval{K: 'i', I: v}
	case uint64:
		return fval{K: 'u', U: v}
	case string:
		return fval{K: 's', S: v}
	case bool:
		return fval{K: 'b', B: v}
	}
	return fval{K: '?'}
}

type field struct {
	K string
	V fval
}

type tag struct{ K, V string }

// pt is one model point. Ns is the absolute time in nanoseconds (only meaningful with HasT).
type pt struct {
	M      string
	Tags   []tag // sorted by key, unique keys
	Fields []field
	Ns     int64
	HasT   bool
}

func esc(s, set string) string {
	var sb strings.Builder
	for i := 0; i < len(s); i++ {
		if strings.IndexByte(set, s[i]) >= 0 {
			sb.WriteByte('\\')
		}
		sb.WriteByte(s[i])
	}
	return sb.String()
}

// render writes the point as one logical line with the timestamp in units of mult nanoseconds.
func (p pt) render(mult int64) string {
	var sb strings.Builder
	sb.WriteString(esc(p.M, ", "))
	for _, t := range p.Tags {
		sb.WriteByte(',')
		sb.WriteString(esc(t.K, ",= "))
		sb.WriteByte('=')
		sb.WriteString(esc(t.V, ",= "))
	}
	sb.WriteByte(' ')
	for i, f := range p.Fields {
		if i > 0 {
			sb.WriteByte(',')
		}
		sb.WriteString(esc(f.K, ",= "))
		sb.WriteByte('=')
		sb.WriteString(f.V.render())
	}
	if p.HasT {
		sb.WriteByte(' ')
		sb.WriteString(strconv.FormatInt(p.Ns/mult, 10))
	}
	return sb.String()
}

// canon is the comparison form of a point: name, sorted tags, sorted typed fields, time.
func (p pt) canon() string {
	var sb strings.Builder
	sb.WriteString(strconv.Quote(p.M))
	for _, t := range p.Tags {
		fmt.Fprintf(&sb, ",%q=%q", t.K, t.V)
	}
	fs := append([]field(nil), p.Fields...)
	sort.Slice(fs, func(i, j int) bool { return fs[i].K < fs[j].K })
	for _, f := range fs {
		fmt.Fprintf(&sb, " %q=%s", f.K, f.V)
	}
	if p.HasT {
		fmt.Fprintf(&sb, " @%d", p.Ns)
	} else {
		sb.WriteString(" @default")
	}
	return sb.String()
}

// canonOf renders a point handed to the points writer in the same form (hasT: compare the time).
func canonOf(mp models.Point, hasT bool) string {
	p := pt{M: string(mp.Name()), HasT: hasT, Ns: mp.Time().UnixNano()}
	for _, t := range mp.Tags() {
		p.Tags = append(p.Tags, tag{string(t.Key), string(t.Value)})
	}
	sort.Slice(p.Tags, func(i, j int) bool { return p.Tags[i].K < p.Tags[j].K })
	fs, err := mp.Fields()
	if err != nil {
		return "fields-error:" + err.Error()
	}
	for k, v := range fs {
		p.Fields = append(p.Fields, field{k, fromAny(v)})
	}
	return p.canon()
}

// ---- generators ----------------------------------------------------------------------------------

var (
	plainMeasurements = []string{"m0", "m1", "m2", "cpu"}
	fancyMeasurements = []string{"cpu load", "a,b", "m=x", "café", "中"}
	tagKeys           = []string{"host", "region", "dc", "t x", "k,c", "é"}
	tagVals           = []string{"a", "b", "us west", "x=y", "p,q", "λ", "0"}
	strAtoms          = []string{"a", "b", " ", ",", "=", "\"", "\n", "#", "x y", "é", "1"}
	precisions        = []string{"ns", "us", "ms", "s"}
	floats            = []float64{0, 1, -1, 1.5, -2.25, 1e10, 3.0e-7, 123456.789, math.MaxFloat64, 0.1}
	ints              = []int64{0, 1, -1, 42, math.MaxInt64, math.MinInt64, 1e15}
	uints             = []uint64{0, 1, 42, math.MaxUint64, 1 << 63}
)

func precMult(prec string) int64 {
	switch prec {
	case "us":
		return 1e3
	case "ms":
		return 1e6
	case "s":
		return 1e9
	}
	return 1
}

// genValue draws a value of the given kind; uniq (>0) makes numeric / string values unique.
func genValue(t *rapid.T, label string, kind byte, uniq int64) fval {
	switch kind {
	case 'f':
		if uniq > 0 {
			return fval{K: 'f', F: float64(uniq) + 0.5}
		}
		if rapid.Bool().Draw(t, label+"_fx") {
			return fval{K: 'f', F: rapid.SampledFrom(floats).Draw(t, label+"_f")}
		}
		return fval{K: 'f', F: float64(rapid.IntRange(-1000000, 1000000).Draw(t, label+"_fn")) / 64}
	case 'i':
		if uniq > 0 {
			return fval{K: 'i', I: uniq}
		}
		if rapid.Bool().Draw(t, label+"_ix") {
			return fval{K: 'i', I: rapid.SampledFrom(ints).Draw(t, label+"_i")}
		}
		return fval{K: 'i', I: rapid.Int64().Draw(t, label+"_in")}
	case 'u':
		if uniq > 0 {
			return fval{K: 'u', U: uint64(uniq)}
		}
		if rapid.Bool().Draw(t, label+"_ux") {
			return fval{K: 'u', U: rapid.SampledFrom(uints).Draw(t, label+"_u")}
		}
		return fval{K: 'u', U: rapid.Uint64().Draw(t, label+"_un")}
	case 's':
		if uniq > 0 {
			return fval{K: 's', S: "s" + strconv.FormatInt(uniq, 10)}
		}
		n := rapid.IntRange(0, 5).Draw(t, label+"_sn")
		var sb strings.Builder
		for i := 0; i < n; i++ {
			sb.WriteString(rapid.SampledFrom(strAtoms).Draw(t, fmt.Sprintf("%s_s%d", label, i)))
		}
		return fval{K: 's', S: sb.String()}
	default:
		return fval{K: 'b', B: rapid.Bool().Draw(t, label+"_b")}
	}
}

var kinds = []byte{'f', 'i', 'u', 's', 'b'}

// fieldName: the name fixes the type ("ff1" float, "fi0" integer ...), like the shared gen package.
func fieldName(kind byte, n int) string { return "f" + string(kind) + strconv.Itoa(n) }

// genPoint draws a point. fancy allows names that need escaping; the time is left unset (callers set it).
func genPoint(t *rapid.T, label string, fancy bool) pt {
	var p pt
	if fancy && rapid.IntRange(0, 3).Draw(t, label+"_mf") == 0 {
		p.M = rapid.SampledFrom(fancyMeasurements).Draw(t, label+"_mx")
	} else {
		p.M = rapid.SampledFrom(plainMeasurements).Draw(t, label+"_m")
	}
	nt := rapid.IntRange(0, 3).Draw(t, label+"_nt")
	seen := map[string]bool{}
	for i := 0; i < nt; i++ {
		var k string
		if fancy {
			k = rapid.SampledFrom(tagKeys).Draw(t, fmt.Sprintf("%s_tk%d", label, i))
		} else {
			k = rapid.SampledFrom(tagKeys[:3]).Draw(t, fmt.Sprintf("%s_tk%d", label, i))
		}
		if seen[k] {
			continue
		}
		seen[k] = true
		var v string
		if fancy {
			v = rapid.SampledFrom(tagVals).Draw(t, fmt.Sprintf("%s_tv%d", label, i))
		} else {
			v = rapid.SampledFrom(tagVals[:2]).Draw(t, fmt.Sprintf("%s_tv%d", label, i))
		}
		p.Tags = append(p.Tags, tag{k, v})
	}
	sort.Slice(p.Tags, func(i, j int) bool { return p.Tags[i].K < p.Tags[j].K })
	nf := rapid.IntRange(1, 3).Draw(t, label+"_nf")
	seenF := map[string]bool{}
	for i := 0; i < nf; i++ {
		kind := rapid.SampledFrom(kinds).Draw(t, fmt.Sprintf("%s_fk%d", label, i))
		name := fieldName(kind, rapid.IntRange(0, 1).Draw(t, fmt.Sprintf("%s_fn%d", label, i)))
		if seenF[name] {
			continue
		}
		seenF[name] = true
		p.Fields = append(p.Fields, field{name, fval{K: kind}})
	}
	return p
}

// ---- damaged lines -------------------------------------------------------------------------------

// damageKinds: every entry yields a line that no reading of the grammar accepts. The text has no
// leading / trailing blank, no quote, no newline and no '#' at the start, so the damaged logical
// line is exactly this text and must be named as such.
var damageKinds = []string{"no-fields", "bad-number", "bad-timestamp", "missing-tag-value", "missing-field-value",
	"dup-tag", "missing-measurement", "int-overflow", "bad-bool", "no-field-set-but-timestamp"}

func damagedLine(t *rapid.T, label string) (kind, text string) {
	kind = rapid.SampledFrom(damageKinds).Draw(t, label+"_kind")
	m := rapid.SampledFrom(plainMeasurements).Draw(t, label+"_m")
	n := rapid.IntRange(0, 99).Draw(t, label+"_n") // makes the text distinctive
	ts := strconv.Itoa(1000 + n)
	switch kind {
	case "no-fields":
		text = fmt.Sprintf("%s,host=h%d", m, n)
	case "bad-number":
		text = fmt.Sprintf("%s,host=h%d ff0=1.2.3 %s", m, n, ts)
	case "bad-timestamp":
		text = fmt.Sprintf("%s,host=h%d ff0=1 %sx", m, n, ts)
	case "missing-tag-value":
		text = fmt.Sprintf("%s,host=h%d,dc= ff0=1 %s", m, n, ts)
	case "missing-field-value":
		text = fmt.Sprintf("%s,host=h%d ff0=", m, n)
	case "dup-tag":
		text = fmt.Sprintf("%s,host=h%d,host=g%d ff0=1 %s", m, n, n, ts)
	case "missing-measurement":
		text = fmt.Sprintf(",host=h%d ff0=1 %s", n, ts)
	case "int-overflow":
		text = fmt.Sprintf("%s,host=h%d fi0=9223372036854775808i %s", m, n, ts)
	case "bad-bool":
		text = fmt.Sprintf("%s,host=h%d fb0=tru %s", m, n, ts)
	case "no-field-set-but-timestamp":
		text = fmt.Sprintf("%s,host=h%d %s", m, n, ts)
	}
	return kind, text
}

// ---- bodies --------------------------------------------------------------------------------------

type bodyLine struct {
	Kind string // valid | damaged | comment | blank
	Text string
	P    *pt    // valid lines
	Dmg  string // damaged lines: the kind
}

type body struct {
	Lines []bodyLine
	Prec  string
	Pad   string // how the exact size was reached
}

func (b *body) text() string {
	parts := make([]string, len(b.Lines))
	for i, l := range b.Lines {
		parts[i] = l.Text
	}
	return strings.Join(parts, "\n")
}

func (b *body) points() []pt {
	var out []pt
	for _, l := range b.Lines {
		if l.Kind == "valid" {
			out = append(out, *l.P)
		}
	}
	return out
}

func (b *body) damaged() []bodyLine {
	var out []bodyLine
	for _, l := range b.Lines {
		if l.Kind == "damaged" {
			out = append(out, l)
		}
	}
	return out
}

func (b *body) rerender() {
	m := precMult(b.Prec)
	for i := range b.Lines {
		if b.Lines[i].Kind == "valid" {
			b.Lines[i].Text = b.Lines[i].P.render(m)
		}
	}
}

// fitTo trims and pads the body so that its text is exactly size bytes long (size >= 0). Lines are
// dropped from the end while the text is too long; the remainder is filled by (a) a string field
// "pad" appended to a valid line, (b) a trailing comment line, or (c) trailing newlines / blanks.
// keepDamaged: damaged lines are dropped last (so that a case keeps its damaged line when it can).
func (b *body) fitTo(t *rapid.T, size int) {
	for len(b.text()) > size && len(b.Lines) > 0 {
		// drop the last non-damaged line if there is one, else the last line
		idx := -1
		for i := len(b.Lines) - 1; i >= 0; i-- {
			if b.Lines[i].Kind != "damaged" {
				idx = i
				break
			}
		}
		if idx < 0 {
			idx = len(b.Lines) - 1
		}
		b.Lines = append(b.Lines[:idx], b.Lines[idx+1:]...)
	}
	gap := size - len(b.text())
	if gap == 0 {
		b.Pad = "none"
		return
	}
	var validIdx []int
	for i, l := range b.Lines {
		if l.Kind == "valid" {
			validIdx = append(validIdx, i)
		}
	}
	choice := rapid.IntRange(0, 2).Draw(t, "pad_how")
	const padOverhead = len(`,pad=""`)
	switch {
	case choice == 0 && gap >= padOverhead && len(validIdx) > 0:
		i := validIdx[rapid.IntRange(0, len(validIdx)-1).Draw(t, "pad_line")]
		p := b.Lines[i].P
		p.Fields = append(p.Fields, field{"pad", fval{K: 's', S: strings.Repeat("x", gap-padOverhead)}})
		// the pad field goes before the timestamp: re-render
		b.Lines[i].Text = p.render(precMult(b.Prec))
		b.Pad = "field"
	case choice == 1 && gap >= 2 && len(b.Lines) > 0:
		b.Lines = append(b.Lines, bodyLine{Kind: "comment", Text: "#" + strings.Repeat("c", gap-2)})
		b.Pad = "comment"
	case choice == 1 && gap >= 1 && len(b.Lines) == 0:
		b.Lines = append(b.Lines, bodyLine{Kind: "comment", Text: "#" + strings.Repeat("c", gap-1)})
		b.Pad = "comment"
	default:
		// trailing newlines: gap separators + empty lines
		if len(b.Lines) == 0 {
			// "\n" * gap is gap+1 empty lines joined
			for i := 0; i <= gap; i++ {
				b.Lines = append(b.Lines, bodyLine{Kind: "blank"})
			}
		} else {
			for i := 0; i < gap; i++ {
				b.Lines = append(b.Lines, bodyLine{Kind: "blank"})
			}
		}
		b.Pad = "newlines"
	}
	if got := len(b.text()); got != size {
		panic(fmt.Sprintf("fitTo: got %d want %d (pad %s)", got, size, b.Pad))
	}
}

// gzipBytes compresses with the given level (gzip.NoCompression gives output larger than the input).
func gzipBytes(data []byte, level int) []byte {
	var buf bytes.Buffer
	zw, err := gzip.NewWriterLevel(&buf, level)
	if err != nil {
		panic(err)
	}
	if _, err := zw.Write(data); err != nil {
		panic(err)
	}
	if err := zw.Close(); err != nil {
		panic(err)
	}
	return buf.Bytes()
}

// sizeClass names and the target size for limit L.
var sizeClasses = []string{"L-2", "L-1", "L", "L+1", "L+2", "2L", "free", "free", "free", "empty"}

func targetSize(class string, L, natural int) int {
	switch class {
	case "L-2":
		return L - 2
	case "L-1":
		return L - 1
	case "L":
		return L
	case "L+1":
		return L + 1
	case "L+2":
		return L + 2
	case "2L":
		return 2 * L
	case "empty":
		return 0
	}
	if natural > L-3 {
		return L - 3
	}
	return natural
}

func genLimit(t *rapid.T) int {
	switch k := rapid.IntRange(0, 9).Draw(t, "limit_kind"); {
	case k <= 6:
		return rapid.IntRange(64, 300).Draw(t, "limit")
	case k <= 8:
		return rapid.IntRange(301, 2000).Draw(t, "limit")
	default:
		return rapid.IntRange(2001, 20000).Draw(t, "limit")
	}
}
