// C32 — deterministic reproducers of the listed findings.
package c32_writeapi

import (
	"compress/gzip"
	"fmt"
	"testing"
	"time"
)

// TestKnown_body_at_limit_rejected: a body whose decoded size is exactly the limit is answered 413.
func TestKnown_body_at_limit_rejected(t *testing.T) {
	const text = "m v=1 1893456000"
	type obs struct {
		Encoding string `json:"encoding"`
		Limit    int    `json:"limit"`
		Size     int    `json:"decoded_size"`
		Status   int    `json:"status"`
		Stored   int    `json:"points_stored"`
		Answer   string `json:"answer"`
	}
	var seen []obs
	run := func(limit int, gz bool) obs {
		w := &recWriter{}
		wire := []byte(text)
		enc := "plain"
		if gz {
			wire, enc = gzipBytes(wire, gzip.DefaultCompression), "gzip"
		}
		res := post(newHandler(w, recIDs, int64(limit)), w, target{Org: orgName, Bucket: bucketName, Known: true}, "s", wire, gz)
		n := 0
		for _, c := range w.snapshot() {
			n += len(c.points)
		}
		o := obs{enc, limit, len(text), res.Status, n, res.Raw}
		seen = append(seen, o)
		return o
	}
	reproduced := false
	for _, gz := range []bool{false, true} {
		under := run(len(text)+1, gz) // control: one byte of room
		at := run(len(text), gz)
		over := run(len(text)-1, gz) // control: really too large
		if under.Status != 204 || under.Stored != 1 || over.Status != 413 || over.Stored != 0 {
			rec.Fail(t, "TestKnown_body_at_limit_rejected", "limit-controls-broken",
				fmt.Sprintf("controls: limit=size+1 -> %d (%d stored), limit=size-1 -> %d (%d stored)", under.Status, under.Stored, over.Status, over.Stored), seen)
		}
		if at.Status == 413 && at.Stored == 0 {
			reproduced = true
		} else if at.Status != 204 || at.Stored != 1 {
			rec.Fail(t, "TestKnown_body_at_limit_rejected", "at-limit-neither-accepted-nor-413",
				fmt.Sprintf("body of exactly the limit: status %d, %d points stored", at.Status, at.Stored), seen)
		}
	}
	rec.Known(t, "TestKnown_body_at_limit_rejected", keyAtLimit, reproduced,
		fmt.Sprintf("POST /api/v2/write, WithMaxBatchSizeBytes(%d), body %q (exactly %d bytes decoded, plain and gzip): 413 'points batch is too large', nothing stored; with limit %d the same body is accepted (204)", len(text), text, len(text), len(text)+1),
		seen)
}

// TestKnown_partial_write_dropped_undercount: points dropped in two places, only one count reported.
func TestKnown_partial_write_dropped_undercount(t *testing.T) {
	e, err := newEngState()
	if err != nil {
		t.Fatalf("fixture: %v", err)
	}
	defer e.close()
	tg := target{Org: orgName, Bucket: bucketName, Known: true}
	send := func(text string) response { return post(e.handler(0), e.cw, tg, "s", []byte(text), false) }
	H := int64(3600)
	if res := send(fmt.Sprintf("m fi=1i %d\nm fi=1i %d\nm fi=1i %d", baseSec, baseSec+H, baseSec+2*H)); res.Status != 204 {
		t.Fatalf("seeding: %d %s", res.Status, res.Raw)
	}
	type obs struct {
		Body     string `json:"body"`
		Status   int    `json:"status"`
		Answer   string `json:"answer"`
		Stated   []int  `json:"stated_dropped"`
		NotThere int    `json:"points_not_readable"`
	}
	var seen []obs
	reproduced := false
	try := func(text string, wantKeys []string, lostKeys []string) {
		res := send(text)
		// let the shard writes that were still running when the answer was sent finish
		deadline := time.Now().Add(5 * time.Second)
		for {
			got, err := e.readAll()
			if err != nil {
				t.Fatalf("read: %v", err)
			}
			stored := 0
			for _, k := range wantKeys {
				var ts int64
				fmt.Sscan(k, &ts)
				if _, ok := got["m#fi"][ts*1e9]; ok {
					stored++
				}
			}
			lost := 0
			for _, k := range lostKeys {
				var ts int64
				fmt.Sscan(k, &ts)
				if _, ok := got["m#fi"][ts*1e9]; !ok {
					lost++
				}
			}
			if stored == len(wantKeys) || time.Now().After(deadline) {
				stated, ok := statedDropped(res.Msg, lost)
				seen = append(seen, obs{text, res.Status, res.Raw, stated, lost})
				if stored != len(wantKeys) || lost != len(lostKeys) {
					rec.Fail(t, "TestKnown_partial_write_dropped_undercount", "unexpected-storage",
						fmt.Sprintf("%d of %d good points stored, %d of %d conflicting/expired points missing", stored, len(wantKeys), lost, len(lostKeys)), seen)
				}
				if res.Status >= 200 && res.Status < 300 {
					rec.Fail(t, "TestKnown_partial_write_dropped_undercount", "partial-write-reported-success",
						fmt.Sprintf("status %d although %d points were dropped", res.Status, lost), seen)
				}
				if !ok {
					reproduced = true
				}
				return
			}
			time.Sleep(2 * time.Millisecond)
		}
	}
	s := func(v int64) string { return fmt.Sprint(v) }
	// 1 conflict in shard 0, 2 in shard 1, a good point in shard 2: 3 dropped
	try(fmt.Sprintf("m fi=1.5 %d\nm fi=1.5 %d\nm fi=2.5 %d\nm fi=7i %d", baseSec+1, baseSec+H+1, baseSec+H+2, baseSec+2*H+1),
		[]string{s(baseSec + 2*H + 1)}, []string{s(baseSec + 1), s(baseSec + H + 1), s(baseSec + H + 2)})
	// 2 points outside the retention period and 1 conflict in shard 0: 3 dropped
	try(fmt.Sprintf("m fi=1.5 %d\nm fi=9i 10\nm fi=9i 20\nm fi=8i %d", baseSec+3, baseSec+4),
		[]string{s(baseSec + 4)}, []string{s(baseSec + 3), "10", "20"})
	rec.Known(t, "TestKnown_partial_write_dropped_undercount", keyUndercount, reproduced,
		"bucket with 1h shard groups, field m.fi established as integer in three shards; a batch with a float m.fi in shard A and two in shard B (and a good point in shard C) is answered 422 '... dropped=2' (or 1) although 3 points are not stored; a batch with two points outside the retention period and one conflicting point is answered 'dropped=1' although 3 points are not stored (WritePointsPrivileged returns the first shard error only)",
		seen)
}
