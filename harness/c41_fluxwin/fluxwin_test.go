// C41 — Flux window-aggregate tables have the right windows and values.
//
// Fixture: the full storage stack (storage.Engine + meta client + tsdb.Store, several shards, part
// of the data snapshotted to TSM and part in the cache) and on top of it the Flux storage reader
// storageflux.NewReader(store).ReadWindowAggregate — the call the Flux planner's pushdown rules
// end in — with generated bounds, window (every, offset; nanosecond and calendar-month units, and
// the "bare aggregate" every=MaxInt64), aggregate, CreateEmpty, TimeColumn and ForceAggregate.
//
// Oracle: exactly as the statement defines it — the rows that a filter read (ReadFilter of the same
// store, same bounds, same predicate) returns are windowed by a small reference implemented in this
// package (window i = [epoch+offset+i*every, +every), calendar months via time.Date), and every
// table / row the reader produced is compared with it: one row per non-empty window (per window
// inside the bounds with CreateEmpty), _start/_stop = window ∩ bounds (the table key without a time
// column; with a time column the key carries the query bounds and _time the chosen window bound),
// value = aggregate of the window's raw rows, null (0 for count) for empty windows.
package c41_fluxwin

import (
	"context"
	"fmt"
	"math"
	"os"
	"sort"
	"strings"
	"testing"
	"time"

	"github.com/influxdata/flux"
	"github.com/influxdata/flux/execute"
	"github.com/influxdata/flux/memory"
	"github.com/influxdata/flux/plan"
	"github.com/influxdata/flux/values"
	"github.com/influxdata/influxdb/v2/models"
	"github.com/influxdata/influxdb/v2/query"
	storageflux "github.com/influxdata/influxdb/v2/storage/flux"
	"github.com/influxdata/influxdb/v2/storage/reads/datatypes"
	"pgregory.net/rapid"

	"verifharness/internal/ev"
	"verifharness/internal/fix"
	"verifharness/internal/model"
	"verifharness/internal/scratch"
)

var rec = ev.For("C41", "exploration",
	"case = (dataset over >=2 shards, one ReadWindowAggregate spec); non-trivial = >=2 series with rows inside the bounds, the bounds clip the first and the last window (neither bound on a window boundary) and >=1 empty window lies strictly between two non-empty windows of some series; distinct by canonical rendering of dataset digest + spec")

const (
	sec  = int64(time.Second)
	min_ = int64(time.Minute)
	hour = int64(time.Hour)
	day  = 24 * hour
)

// ---------------------------------------------------------------------------------------------
// dataset

type fieldDef struct {
	Name string
	Kind model.Kind
}

var fieldDomain = []fieldDef{{"ff", model.Float}, {"fi", model.Integer}, {"fu", model.Unsigned}, {"fb", model.Boolean}, {"fs", model.String}}

var seriesDomain = []string{"m0,host=a", "m0,host=b", "m1,host=a", "m1,host=b,region=x"}

type dataset struct {
	Unit     string // "min" (30 s grid, 1 h shards) | "month" (1 d grid, 90 d shards) | "big" (30 s grid, >1000 points in one series)
	Base     int64
	Step     int64
	N        int // grid positions
	ShardDur time.Duration
	// points[series][field] -> sorted timestamps -> value
	Points map[string]map[string]map[int64]model.Val
	Digest string
}

func drawValue(t *rapid.T, k model.Kind, seq int, wide bool) model.Val {
	switch k {
	case model.Float:
		if wide && rapid.IntRange(0, 5).Draw(t, "fx") == 0 {
			return model.Val{K: k, F: rapid.SampledFrom([]float64{0, math.Copysign(0, -1), -1.5, 1e300, -1e300, math.SmallestNonzeroFloat64}).Draw(t, "fp")}
		}
		return model.Val{K: k, F: float64(rapid.IntRange(-40, 40).Draw(t, "fv")) / 4}
	case model.Integer:
		if wide && rapid.IntRange(0, 5).Draw(t, "ix") == 0 {
			return model.Val{K: k, I: rapid.SampledFrom([]int64{math.MinInt64, math.MaxInt64, 0, -1}).Draw(t, "ip")}
		}
		return model.Val{K: k, I: int64(rapid.IntRange(-50, 50).Draw(t, "iv"))}
	case model.Unsigned:
		if wide && rapid.IntRange(0, 5).Draw(t, "ux") == 0 {
			return model.Val{K: k, U: rapid.SampledFrom([]uint64{math.MaxUint64, 1 << 63, 0}).Draw(t, "up")}
		}
		return model.Val{K: k, U: uint64(rapid.IntRange(0, 100).Draw(t, "uv"))}
	case model.Boolean:
		return model.Val{K: k, B: rapid.Bool().Draw(t, "bv")}
	default:
		return model.Val{K: k, S: fmt.Sprintf("s%d", rapid.IntRange(0, 9).Draw(t, "sv"))}
	}
}

// drawDataset draws the data. wideValues allows extreme numeric values (only used with aggregates
// that cannot overflow: count, min, max, first, last).
func drawDataset(t *rapid.T, wideValues, needNumeric bool) *dataset {
	ds := &dataset{Points: map[string]map[string]map[int64]model.Val{}}
	switch k := rapid.IntRange(0, 19).Draw(t, "unit"); {
	case k >= 17:
		ds.Unit, ds.Step, ds.N, ds.ShardDur = "month", day, 430, 90*24*time.Hour
		ds.Base = time.Date(2019, 11, 15, 0, 0, 0, 0, time.UTC).UnixNano()
	case k >= 14:
		ds.Unit, ds.Step, ds.N, ds.ShardDur = "big", 30*sec, 1300, 4*time.Hour
		ds.Base = time.Date(2020, 9, 13, 12, 0, 0, 0, time.UTC).UnixNano()
	default:
		ds.Unit, ds.Step, ds.N, ds.ShardDur = "min", 30*sec, 480, time.Hour
		ds.Base = time.Date(2020, 9, 13, 12, 0, 0, 0, time.UTC).UnixNano()
		if rapid.IntRange(0, 5).Draw(t, "epoch") == 5 {
			ds.Base = -2 * hour // data straddles 1970-01-01T00:00:00Z (negative timestamps)
		}
	}
	nSeries := rapid.IntRange(2, len(seriesDomain)).Draw(t, "nseries")
	seq := 0
	for si := 0; si < nSeries; si++ {
		sk := seriesDomain[si]
		ds.Points[sk] = map[string]map[int64]model.Val{}
		nf := rapid.IntRange(1, 3).Draw(t, "nf")
		for fi := 0; fi < nf; fi++ {
			fd := rapid.SampledFrom(fieldDomain).Draw(t, "field")
			if needNumeric && fi == 0 {
				fd = rapid.SampledFrom(fieldDomain[:3]).Draw(t, "numfield")
			}
			if _, dup := ds.Points[sk][fd.Name]; dup {
				continue
			}
			pts := map[int64]model.Val{}
			var positions []int
			if ds.Unit == "big" && si == 0 && fi == 0 {
				// >1000 consecutive grid positions: more non-empty windows than one cursor array holds
				from := rapid.IntRange(0, 60).Draw(t, "bigfrom")
				n := rapid.IntRange(1001, 1200).Draw(t, "bign")
				for p := from; p < from+n; p++ {
					positions = append(positions, p)
				}
			} else {
				// a few bursts separated by gaps (so that empty windows lie inside the data)
				nb := rapid.IntRange(1, 4).Draw(t, "bursts")
				for b := 0; b < nb; b++ {
					at := rapid.IntRange(0, ds.N-1).Draw(t, "burstAt")
					ln := rapid.IntRange(1, 12).Draw(t, "burstLen")
					stride := rapid.IntRange(1, 4).Draw(t, "stride")
					for j := 0; j < ln && at+j*stride < ds.N; j++ {
						positions = append(positions, at+j*stride)
					}
				}
			}
			for _, p := range positions {
				ts := ds.Base + int64(p)*ds.Step
				if rapid.IntRange(0, 9).Draw(t, "jit?") == 0 {
					ts += rapid.SampledFrom([]int64{1, -1, ds.Step/2 - 1, ds.Step / 2}).Draw(t, "jit")
				}
				seq++
				pts[ts] = drawValue(t, fd.Kind, seq, wideValues)
			}
			ds.Points[sk][fd.Name] = pts
		}
	}
	return ds
}

// fieldNames returns the field names used by the dataset, sorted.
func (ds *dataset) fieldNames() []string {
	seen := map[string]bool{}
	var out []string
	for _, fs := range ds.Points {
		for f := range fs {
			if !seen[f] {
				seen[f] = true
				out = append(out, f)
			}
		}
	}
	sort.Strings(out)
	return out
}

// allTimes returns the distinct point timestamps of the dataset, ascending.
func (ds *dataset) allTimes() []int64 {
	seen := map[int64]bool{}
	var out []int64
	for _, fs := range ds.Points {
		for _, pts := range fs {
			for ts := range pts {
				if !seen[ts] {
					seen[ts] = true
					out = append(out, ts)
				}
			}
		}
	}
	sort.Slice(out, func(i, j int) bool { return out[i] < out[j] })
	return out
}

// load writes the dataset: first two thirds, snapshot of every other shard, rest (cache).
func (ds *dataset) load(s *fix.Stack) error {
	type wp struct {
		series, field string
		ts            int64
		v             model.Val
	}
	var all []wp
	sks := make([]string, 0, len(ds.Points))
	for sk := range ds.Points {
		sks = append(sks, sk)
	}
	sort.Strings(sks)
	var dg strings.Builder
	for _, sk := range sks {
		fks := make([]string, 0)
		for fk := range ds.Points[sk] {
			fks = append(fks, fk)
		}
		sort.Strings(fks)
		for _, fk := range fks {
			tss := make([]int64, 0)
			for ts := range ds.Points[sk][fk] {
				tss = append(tss, ts)
			}
			sort.Slice(tss, func(i, j int) bool { return tss[i] < tss[j] })
			fmt.Fprintf(&dg, "%s#%s:", sk, fk)
			for _, ts := range tss {
				all = append(all, wp{sk, fk, ts, ds.Points[sk][fk][ts]})
				fmt.Fprintf(&dg, "%d=%s,", ts-ds.Base, ds.Points[sk][fk][ts])
			}
			dg.WriteByte(';')
		}
	}
	ds.Digest = fmt.Sprintf("%s@%d|%s", ds.Unit, ds.Base, dg.String())
	write := func(ps []wp) error {
		var pts []models.Point
		for _, p := range ps {
			name, tags := models.ParseKeyBytes([]byte(p.series))
			mp, err := models.NewPoint(string(name), tags, models.Fields{p.field: p.v.Interface()}, time.Unix(0, p.ts))
			if err != nil {
				return err
			}
			pts = append(pts, mp)
		}
		if len(pts) == 0 {
			return nil
		}
		return s.Write(pts)
	}
	// interleave: every third point goes into the second (cache) batch
	var first, second []wp
	for i, p := range all {
		if i%3 == 2 {
			second = append(second, p)
		} else {
			first = append(first, p)
		}
	}
	if err := write(first); err != nil {
		return err
	}
	for i, id := range s.ShardIDs() {
		if i%2 == 0 {
			if err := s.SnapshotShard(id); err != nil {
				return err
			}
		}
	}
	return write(second)
}

// ---------------------------------------------------------------------------------------------
// spec

type wspec struct {
	Agg         string `json:"agg"`
	EveryNs     int64  `json:"every_ns"`
	EveryMo     int64  `json:"every_mo"`
	OffsetNs    int64  `json:"offset_ns"`
	OffsetMo    int64  `json:"offset_mo"`
	Bare        bool   `json:"bare"` // every = MaxInt64 ns: aggregate over the whole range
	Start       int64  `json:"start"`
	Stop        int64  `json:"stop"`
	CreateEmpty bool   `json:"create_empty"`
	TimeColumn  string `json:"time_column"`
	Force       bool   `json:"force_aggregate"`
	Pred        string `json:"pred"` // "", "field:<name>", "numeric", "meas:<m>", "host:<v>"
}

func (w wspec) isSelector() bool {
	return w.Agg == "min" || w.Agg == "max" || w.Agg == "first" || w.Agg == "last"
}
func (w wspec) numericOnly() bool {
	return w.Agg == "sum" || w.Agg == "mean" || w.Agg == "min" || w.Agg == "max"
}

func floorDiv(a, b int64) int64 {
	q := a / b
	if a%b != 0 && (a < 0) != (b < 0) {
		q--
	}
	return q
}

type win struct{ start, stop int64 }

// containing returns the reference window that contains t: window i = [zero + i*every, +every)
// with zero = epoch + offset (Flux window(): "window boundaries are aligned to the Unix epoch
// shifted by offset").
func (w wspec) containing(t int64) win {
	if w.Bare {
		return win{math.MinInt64, math.MaxInt64}
	}
	if w.EveryMo > 0 {
		tm := time.Unix(0, t).UTC()
		m := int64(tm.Year()-1970)*12 + int64(tm.Month()-1)
		k := floorDiv(m-w.OffsetMo, w.EveryMo)
		return w.monthWin(k)
	}
	off := w.OffsetNs % w.EveryNs
	k := floorDiv(t-off, w.EveryNs)
	return win{k*w.EveryNs + off, (k+1)*w.EveryNs + off}
}

func (w wspec) monthWin(k int64) win {
	at := func(k int64) int64 {
		return time.Date(1970, time.Month(1+k*w.EveryMo+w.OffsetMo), 1, 0, 0, 0, 0, time.UTC).UnixNano()
	}
	return win{at(k), at(k + 1)}
}

func (w wspec) next(x win) win {
	if w.EveryMo > 0 {
		return w.containing(x.stop)
	}
	return win{x.stop, x.stop + w.EveryNs}
}

func drawSpec(t *rapid.T, ds *dataset, agg string) wspec {
	w := wspec{Agg: agg}
	lo, hi := ds.Base, ds.Base+int64(ds.N)*ds.Step
	switch {
	case rapid.IntRange(0, 11).Draw(t, "bare") == 0:
		w.Bare = true
	case ds.Unit == "month":
		w.EveryMo = rapid.SampledFrom([]int64{1, 1, 2, 3, 6, 12}).Draw(t, "everyMo")
		w.OffsetMo = int64(rapid.IntRange(0, int(w.EveryMo)).Draw(t, "offMo")) // == every: normalised to 0
	case ds.Unit == "big":
		w.EveryNs = rapid.SampledFrom([]int64{30 * sec, 30 * sec, 45 * sec, min_, 7 * min_}).Draw(t, "every")
		w.OffsetNs = rapid.SampledFrom([]int64{0, 0, 15 * sec, 1}).Draw(t, "off")
	default:
		w.EveryNs = rapid.SampledFrom([]int64{45 * sec, min_, 5 * min_, 7 * min_, 10 * min_, 30 * min_, hour, 90 * min_, 7*min_ + 1, 3 * hour}).Draw(t, "every")
		w.OffsetNs = rapid.SampledFrom([]int64{0, 0, 0, 30 * sec, min_, 3 * min_, 1, w.EveryNs - 1, w.EveryNs + min_, w.EveryNs}).Draw(t, "off")
	}
	// bounds: mostly anchored at data timestamps (a bound equal to a point time is the interesting
	// inclusive-start / exclusive-stop case), sometimes wider than the data or somewhere on the grid
	all := ds.allTimes()
	switch k := rapid.IntRange(0, 19).Draw(t, "bkind"); {
	case k < 3 || len(all) == 0:
		w.Start, w.Stop = lo-20*ds.Step, hi+20*ds.Step
	case k < 14:
		i := rapid.IntRange(0, len(all)-1).Draw(t, "bi")
		j := rapid.IntRange(i, len(all)-1).Draw(t, "bj")
		w.Start = all[i] - rapid.SampledFrom([]int64{0, 0, 1, ds.Step / 3, 2 * ds.Step, 9 * ds.Step}).Draw(t, "bd1")
		w.Stop = all[j] + rapid.SampledFrom([]int64{0, 1, 1, ds.Step / 3, 2 * ds.Step, 9 * ds.Step}).Draw(t, "bd2")
	case k < 17:
		a := rapid.IntRange(-20, ds.N-1).Draw(t, "ba")
		b := rapid.IntRange(a+1, ds.N+20).Draw(t, "bb")
		w.Start = ds.Base + int64(a)*ds.Step
		w.Stop = ds.Base + int64(b)*ds.Step
	case k < 18:
		w.Start = lo - 20*ds.Step
		w.Stop = all[rapid.IntRange(0, len(all)-1).Draw(t, "bj2")] + 1
	default:
		w.Start = all[rapid.IntRange(0, len(all)-1).Draw(t, "bi2")]
		w.Stop = hi + 20*ds.Step
	}
	if ds.Unit == "big" && rapid.IntRange(0, 2).Draw(t, "bigall") > 0 {
		w.Start, w.Stop = lo-ds.Step, hi+ds.Step
	}
	switch rapid.IntRange(0, 3).Draw(t, "balign") {
	case 0: // aligned to window boundaries
		if !w.Bare {
			w.Start = w.containing(w.Start).start
			w.Stop = w.containing(w.Stop).stop
		}
	case 1: // unaligned by construction
		w.Start += rapid.SampledFrom([]int64{1, 7 * sec, ds.Step / 3, -1}).Draw(t, "js")
		w.Stop += rapid.SampledFrom([]int64{1, 11 * sec, ds.Step / 3, -1}).Draw(t, "je")
	}
	if w.Stop <= w.Start {
		w.Stop = w.Start + 1
	}
	if w.Bare {
		// planner: PushDownBareAggregateRule — no CreateEmpty, no time column, no ForceAggregate
		// bare aggregates are only issued for non-negative bounds here (see level_note)
		if w.Start < 0 {
			w.Start = 0
		}
		if w.Stop <= w.Start {
			w.Stop = w.Start + 4*hour
		}
	} else {
		w.CreateEmpty = rapid.Bool().Draw(t, "createEmpty")
		w.TimeColumn = rapid.SampledFrom([]string{"", "", "_start", "_stop"}).Draw(t, "timeCol")
		w.Force = rapid.IntRange(0, 2).Draw(t, "force") == 0
	}
	// predicate
	switch {
	case w.numericOnly():
		var have []string
		for _, f := range ds.fieldNames() {
			if f == "ff" || f == "fi" || f == "fu" {
				have = append(have, f)
			}
		}
		if len(have) == 0 || rapid.Bool().Draw(t, "pnum") {
			w.Pred = "numeric"
		} else {
			w.Pred = "field:" + rapid.SampledFrom(have).Draw(t, "pfield")
		}
	default:
		switch rapid.IntRange(0, 5).Draw(t, "pkind") {
		case 0:
			w.Pred = "field:" + rapid.SampledFrom(ds.fieldNames()).Draw(t, "pfield2")
		case 1:
			w.Pred = "meas:" + rapid.SampledFrom([]string{"m0", "m1"}).Draw(t, "pmeas")
		case 2:
			w.Pred = "host:" + rapid.SampledFrom([]string{"a", "b"}).Draw(t, "phost")
		}
	}
	return w
}

func cmpNode(ref, val string) *datatypes.Node {
	return &datatypes.Node{
		NodeType: datatypes.Node_TypeComparisonExpression,
		Value:    &datatypes.Node_Comparison_{Comparison: datatypes.Node_ComparisonEqual},
		Children: []*datatypes.Node{
			{NodeType: datatypes.Node_TypeTagRef, Value: &datatypes.Node_TagRefValue{TagRefValue: ref}},
			{NodeType: datatypes.Node_TypeLiteral, Value: &datatypes.Node_StringValue{StringValue: val}},
		},
	}
}

func (w wspec) predicate() *datatypes.Predicate {
	switch {
	case w.Pred == "":
		return nil
	case w.Pred == "numeric":
		or := func(a, b *datatypes.Node) *datatypes.Node {
			return &datatypes.Node{NodeType: datatypes.Node_TypeLogicalExpression, Value: &datatypes.Node_Logical_{Logical: datatypes.Node_LogicalOr}, Children: []*datatypes.Node{a, b}}
		}
		return &datatypes.Predicate{Root: or(or(cmpNode("_field", "ff"), cmpNode("_field", "fi")), cmpNode("_field", "fu"))}
	case strings.HasPrefix(w.Pred, "field:"):
		return &datatypes.Predicate{Root: cmpNode("_field", w.Pred[6:])}
	case strings.HasPrefix(w.Pred, "meas:"):
		return &datatypes.Predicate{Root: cmpNode("_measurement", w.Pred[5:])}
	default:
		return &datatypes.Predicate{Root: cmpNode("host", w.Pred[5:])}
	}
}

func (w wspec) fluxSpec(s *fix.Stack) query.ReadWindowAggregateSpec {
	var every, offset flux.Duration
	switch {
	case w.Bare:
		every = flux.ConvertDuration(math.MaxInt64 * time.Nanosecond)
	case w.EveryMo > 0:
		every = values.MakeDuration(0, w.EveryMo, false)
		offset = values.MakeDuration(0, w.OffsetMo, false)
	default:
		every = values.MakeDuration(w.EveryNs, 0, false)
		offset = values.MakeDuration(w.OffsetNs, 0, false)
	}
	return query.ReadWindowAggregateSpec{
		ReadFilterSpec: query.ReadFilterSpec{
			OrganizationID: s.Org, BucketID: s.Bucket,
			Bounds:    execute.Bounds{Start: values.Time(w.Start), Stop: values.Time(w.Stop)},
			Predicate: w.predicate(),
		},
		Window:         execute.Window{Every: every, Period: every, Offset: offset},
		Aggregates:     []plan.ProcedureKind{plan.ProcedureKind(w.Agg)},
		CreateEmpty:    w.CreateEmpty,
		TimeColumn:     w.TimeColumn,
		ForceAggregate: w.Force,
	}
}

// ---------------------------------------------------------------------------------------------
// reading the tables

type cell struct {
	Null bool
	V    any // int64 (also times), uint64, float64, string, bool
}

func (c cell) String() string {
	if c.Null {
		return "null"
	}
	if f, ok := c.V.(float64); ok {
		return fmt.Sprintf("%v(%#x)", f, math.Float64bits(f))
	}
	return fmt.Sprintf("%T(%v)", c.V, c.V)
}

type otable struct {
	Series string // tag columns of the key, rendered
	KStart int64
	KStop  int64
	HasK   bool
	Cols   []flux.ColMeta
	Rows   []map[string]cell
}

func seriesIdent(pairs [][2]string) string {
	sort.Slice(pairs, func(i, j int) bool { return pairs[i][0] < pairs[j][0] })
	var sb strings.Builder
	for _, p := range pairs {
		fmt.Fprintf(&sb, "%s=%s,", p[0], p[1])
	}
	return sb.String()
}

var errRunaway = fmt.Errorf("harness: output exceeds every possible number of windows (endless output)")

func readTable(tbl flux.Table, maxRows int) (otable, error) {
	var o otable
	key := tbl.Key()
	var pairs [][2]string
	haveS, haveE := false, false
	for j, c := range key.Cols() {
		switch {
		case c.Label == "_start" && c.Type == flux.TTime:
			o.KStart, haveS = int64(key.Value(j).Time()), true
		case c.Label == "_stop" && c.Type == flux.TTime:
			o.KStop, haveE = int64(key.Value(j).Time()), true
		case c.Type == flux.TString:
			pairs = append(pairs, [2]string{c.Label, key.Value(j).Str()})
		default:
			return o, fmt.Errorf("unexpected key column %s:%v", c.Label, c.Type)
		}
	}
	o.HasK = haveS && haveE
	o.Series = seriesIdent(pairs)
	o.Cols = append(o.Cols, tbl.Cols()...)
	err := tbl.Do(func(cr flux.ColReader) error {
		n := cr.Len()
		if len(o.Rows)+n > maxRows {
			return errRunaway
		}
		for i := 0; i < n; i++ {
			row := map[string]cell{}
			for j, c := range cr.Cols() {
				switch c.Type {
				case flux.TTime:
					a := cr.Times(j)
					if a.Len() != n {
						return fmt.Errorf("column %s has %d values, buffer length %d", c.Label, a.Len(), n)
					}
					row[c.Label] = cell{Null: a.IsNull(i), V: a.Value(i)}
				case flux.TInt:
					a := cr.Ints(j)
					if a.Len() != n {
						return fmt.Errorf("column %s has %d values, buffer length %d", c.Label, a.Len(), n)
					}
					row[c.Label] = cell{Null: a.IsNull(i), V: a.Value(i)}
				case flux.TUInt:
					a := cr.UInts(j)
					if a.Len() != n {
						return fmt.Errorf("column %s has %d values, buffer length %d", c.Label, a.Len(), n)
					}
					row[c.Label] = cell{Null: a.IsNull(i), V: a.Value(i)}
				case flux.TFloat:
					a := cr.Floats(j)
					if a.Len() != n {
						return fmt.Errorf("column %s has %d values, buffer length %d", c.Label, a.Len(), n)
					}
					row[c.Label] = cell{Null: a.IsNull(i), V: a.Value(i)}
				case flux.TBool:
					a := cr.Bools(j)
					if a.Len() != n {
						return fmt.Errorf("column %s has %d values, buffer length %d", c.Label, a.Len(), n)
					}
					row[c.Label] = cell{Null: a.IsNull(i), V: a.Value(i)}
				case flux.TString:
					a := cr.Strings(j)
					if a.Len() != n {
						return fmt.Errorf("column %s has %d values, buffer length %d", c.Label, a.Len(), n)
					}
					row[c.Label] = cell{Null: a.IsNull(i), V: a.Value(i)}
				default:
					return fmt.Errorf("unexpected column type %v", c.Type)
				}
			}
			o.Rows = append(o.Rows, row)
		}
		return nil
	})
	return o, err
}

// runWindowAggregate calls the Flux storage reader and drains all tables.
func runWindowAggregate(s *fix.Stack, w wspec, maxRows int) (tables []otable, leaked int64, err error, panicked any) {
	defer func() {
		if r := recover(); r != nil {
			panicked = r
		}
	}()
	alloc := &memory.ResourceAllocator{}
	rd := storageflux.NewReader(s.Reads)
	it, err := rd.ReadWindowAggregate(context.Background(), w.fluxSpec(s), alloc)
	if err != nil {
		return nil, 0, err, nil
	}
	total := 0
	err = it.Do(func(tbl flux.Table) error {
		o, err := readTable(tbl, maxRows-total)
		if err != nil {
			return err
		}
		total += len(o.Rows) + 1
		if total > maxRows {
			return errRunaway
		}
		tables = append(tables, o)
		return nil
	})
	return tables, alloc.Allocated(), err, nil
}

// ---------------------------------------------------------------------------------------------
// reference

type xwin struct {
	W      win // unclipped
	CS, CE int64
	Rows   []model.Point
}

// expectedWindows windows the filter-read rows of one series.
func expectedWindows(w wspec, rows []model.Point) []xwin {
	clip := func(x win) xwin {
		cs, ce := x.start, x.stop
		if cs < w.Start {
			cs = w.Start
		}
		if ce > w.Stop {
			ce = w.Stop
		}
		return xwin{W: x, CS: cs, CE: ce}
	}
	var out []xwin
	if w.CreateEmpty {
		i := 0
		for x := w.containing(w.Start); x.start < w.Stop; x = w.next(x) {
			xw := clip(x)
			for i < len(rows) && rows[i].T < x.stop {
				if rows[i].T >= x.start {
					xw.Rows = append(xw.Rows, rows[i])
				}
				i++
			}
			out = append(out, xw)
		}
		return out
	}
	for _, r := range rows {
		x := w.containing(r.T)
		if n := len(out); n > 0 && out[n-1].W == x {
			out[n-1].Rows = append(out[n-1].Rows, r)
			continue
		}
		xw := clip(x)
		xw.Rows = []model.Point{r}
		out = append(out, xw)
	}
	return out
}

func less(a, b model.Val) bool {
	switch a.K {
	case model.Float:
		return a.F < b.F
	case model.Integer:
		return a.I < b.I
	case model.Unsigned:
		return a.U < b.U
	}
	return false
}

func valCell(v model.Val) cell {
	switch v.K {
	case model.Float:
		return cell{V: v.F}
	case model.Integer:
		return cell{V: v.I}
	case model.Unsigned:
		return cell{V: v.U}
	case model.Boolean:
		return cell{V: v.B}
	}
	return cell{V: v.S}
}

// aggregate computes the expected value cell of a window and, for selectors, the set of row times
// that may be reported as the selected point.
func aggregate(agg string, rows []model.Point) (cell, map[int64]bool) {
	if agg == "count" {
		return cell{V: int64(len(rows))}, nil
	}
	if len(rows) == 0 {
		return cell{Null: true}, nil
	}
	k := rows[0].V.K
	switch agg {
	case "sum":
		switch k {
		case model.Float:
			var s float64
			for _, r := range rows {
				s += r.V.F
			}
			return cell{V: s}, nil
		case model.Integer:
			var s int64
			for _, r := range rows {
				s += r.V.I
			}
			return cell{V: s}, nil
		default:
			var s uint64
			for _, r := range rows {
				s += r.V.U
			}
			return cell{V: s}, nil
		}
	case "mean":
		var s float64
		for _, r := range rows {
			switch k {
			case model.Float:
				s += r.V.F
			case model.Integer:
				s += float64(r.V.I)
			default:
				s += float64(r.V.U)
			}
		}
		return cell{V: s / float64(len(rows))}, nil
	case "first":
		return valCell(rows[0].V), map[int64]bool{rows[0].T: true}
	case "last":
		return valCell(rows[len(rows)-1].V), map[int64]bool{rows[len(rows)-1].T: true}
	}
	best := rows[0].V
	for _, r := range rows[1:] {
		if (agg == "min" && less(r.V, best)) || (agg == "max" && less(best, r.V)) {
			best = r.V
		}
	}
	times := map[int64]bool{}
	for _, r := range rows {
		if r.V.Equal(best) || (k == model.Float && r.V.F == best.F) {
			times[r.T] = true
		}
	}
	return valCell(best), times
}

func cellsEqual(agg string, got, want cell) bool {
	if got.Null || want.Null {
		return got.Null == want.Null
	}
	gf, gok := got.V.(float64)
	wf, wok := want.V.(float64)
	if gok != wok {
		return false
	}
	if gok {
		if math.Float64bits(gf) == math.Float64bits(wf) || gf == wf {
			return true
		}
		if agg == "sum" || agg == "mean" {
			// summation order is not part of the contract
			return math.Abs(gf-wf) <= 1e-9*(math.Abs(gf)+math.Abs(wf))
		}
		return false
	}
	return got.V == want.V
}

type mismatch struct {
	Key    string
	Detail string
}

// compare checks all tables against the reference built from the filter-read rows.
func compare(w wspec, filt []fix.SeriesRows, tables []otable) *mismatch {
	type sref struct {
		ident string
		rows  []model.Point
	}
	refs := map[string]*sref{}
	for _, r := range filt {
		var pairs [][2]string
		for _, tg := range r.Tags {
			k := string(tg.Key)
			switch k {
			case "\x00":
				k = "_measurement"
			case "\xff":
				k = "_field"
			}
			pairs = append(pairs, [2]string{k, string(tg.Value)})
		}
		id := seriesIdent(pairs)
		if refs[id] != nil {
			return &mismatch{"harness-duplicate-filter-series", "filter read returned series twice: " + id}
		}
		refs[id] = &sref{ident: id, rows: r.Points}
	}
	bySeries := map[string][]otable{}
	for _, tb := range tables {
		if _, ok := refs[tb.Series]; !ok {
			return &mismatch{"table-for-unknown-series", fmt.Sprintf("table for series %q which the filter read does not return", tb.Series)}
		}
		if !tb.HasK {
			return &mismatch{"key-without-bounds", fmt.Sprintf("table key of %q has no _start/_stop", tb.Series)}
		}
		bySeries[tb.Series] = append(bySeries[tb.Series], tb)
	}
	ids := make([]string, 0, len(refs))
	for id := range refs {
		ids = append(ids, id)
	}
	sort.Strings(ids)
	for _, id := range ids {
		ref := refs[id]
		tbs := bySeries[id]
		if len(ref.rows) == 0 {
			// no raw rows inside the bounds: the statement does not say whether a series without any
			// row yields tables; whatever is produced must not carry a value
			for _, tb := range tbs {
				for _, row := range tb.Rows {
					v := row["_value"]
					if !v.Null && !(w.Agg == "count" && v.V == int64(0)) {
						return &mismatch{"value-without-rows", fmt.Sprintf("series %q has no rows in the bounds but a table carries value %s", id, v)}
					}
				}
			}
			continue
		}
		xs := expectedWindows(w, ref.rows)
		// rows the reader must produce
		type xrow struct {
			xw    xwin
			want  cell
			times map[int64]bool
		}
		var must []xrow
		optional := map[[2]int64]bool{} // windows that may appear as an empty table / not at all
		for _, xw := range xs {
			c, times := aggregate(w.Agg, xw.Rows)
			if len(xw.Rows) == 0 && w.isSelector() && !w.Force {
				optional[[2]int64{xw.CS, xw.CE}] = true
				continue
			}
			must = append(must, xrow{xw, c, times})
		}
		if w.TimeColumn == "" {
			// one table per window, key = window ∩ bounds
			got := map[[2]int64]otable{}
			for _, tb := range tbs {
				k := [2]int64{tb.KStart, tb.KStop}
				if _, dup := got[k]; dup {
					return &mismatch{"duplicate-window-table", fmt.Sprintf("series %q: two tables with key [%d,%d)", id, tb.KStart, tb.KStop)}
				}
				got[k] = tb
			}
			for _, m := range must {
				k := [2]int64{m.xw.CS, m.xw.CE}
				tb, ok := got[k]
				if !ok {
					return &mismatch{"missing-window", fmt.Sprintf("series %q: no table for window [%d,%d) clipped [%d,%d) with %d raw rows (want %s); got keys %v", id, m.xw.W.start, m.xw.W.stop, m.xw.CS, m.xw.CE, len(m.xw.Rows), m.want, keysOf(got))}
				}
				delete(got, k)
				if len(tb.Rows) != 1 {
					return &mismatch{"window-table-rows", fmt.Sprintf("series %q window [%d,%d): %d rows, want 1", id, m.xw.CS, m.xw.CE, len(tb.Rows))}
				}
				row := tb.Rows[0]
				if s, e := row["_start"], row["_stop"]; s.Null || e.Null || s.V != m.xw.CS || e.V != m.xw.CE {
					return &mismatch{"row-bounds", fmt.Sprintf("series %q window [%d,%d): row _start/_stop = %s/%s", id, m.xw.CS, m.xw.CE, s, e)}
				}
				if !cellsEqual(w.Agg, row["_value"], m.want) {
					return &mismatch{"wrong-value", fmt.Sprintf("series %q window [%d,%d) (%d raw rows %s): %s = %s, want %s", id, m.xw.CS, m.xw.CE, len(m.xw.Rows), model.Render(m.xw.Rows), w.Agg, row["_value"], m.want)}
				}
				if tc, has := row["_time"]; has && m.times != nil && !tc.Null {
					if ts, _ := tc.V.(int64); !m.times[ts] {
						return &mismatch{"selector-time", fmt.Sprintf("series %q window [%d,%d): %s reports _time %s which is not a row holding the selected value (rows %s)", id, m.xw.CS, m.xw.CE, w.Agg, tc, model.Render(m.xw.Rows))}
					}
				}
			}
			for k, tb := range got {
				if optional[k] && len(tb.Rows) == 0 {
					continue
				}
				return &mismatch{"unexpected-window", fmt.Sprintf("series %q: unexpected table with key [%d,%d) and %d rows (expected windows: %s)", id, k[0], k[1], len(tb.Rows), renderX(xs))}
			}
			continue
		}
		// with a time column: the key carries the query bounds; one row per window
		var rows []map[string]cell
		for _, tb := range tbs {
			if tb.KStart != w.Start || tb.KStop != w.Stop {
				return &mismatch{"key-bounds", fmt.Sprintf("series %q: table key [%d,%d), query bounds [%d,%d)", id, tb.KStart, tb.KStop, w.Start, w.Stop)}
			}
			rows = append(rows, tb.Rows...)
		}
		got := map[int64]map[string]cell{}
		for _, row := range rows {
			tc := row["_time"]
			if tc.Null {
				return &mismatch{"null-time", fmt.Sprintf("series %q: row with null _time", id)}
			}
			ts := tc.V.(int64)
			if _, dup := got[ts]; dup {
				return &mismatch{"duplicate-window-row", fmt.Sprintf("series %q: two rows with _time %d", id, ts)}
			}
			got[ts] = row
			if s, e := row["_start"], row["_stop"]; s.Null || e.Null || s.V != w.Start || e.V != w.Stop {
				return &mismatch{"row-bounds", fmt.Sprintf("series %q: row _start/_stop = %s/%s, query bounds [%d,%d)", id, s, e, w.Start, w.Stop)}
			}
		}
		for _, m := range must {
			ts := m.xw.CE
			if w.TimeColumn == "_start" {
				ts = m.xw.CS
			}
			row, ok := got[ts]
			if !ok {
				return &mismatch{"missing-window", fmt.Sprintf("series %q: no row with _time %d for window [%d,%d) clipped [%d,%d) with %d raw rows (want %s); got times %v", id, ts, m.xw.W.start, m.xw.W.stop, m.xw.CS, m.xw.CE, len(m.xw.Rows), m.want, timesOf(got))}
			}
			delete(got, ts)
			if !cellsEqual(w.Agg, row["_value"], m.want) {
				return &mismatch{"wrong-value", fmt.Sprintf("series %q window [%d,%d) (%d raw rows %s): %s = %s, want %s", id, m.xw.CS, m.xw.CE, len(m.xw.Rows), model.Render(m.xw.Rows), w.Agg, row["_value"], m.want)}
			}
		}
		for ts, row := range got {
			return &mismatch{"unexpected-window", fmt.Sprintf("series %q: unexpected row _time %d value %s (expected windows: %s)", id, ts, row["_value"], renderX(xs))}
		}
	}
	return nil
}

func keysOf(m map[[2]int64]otable) string {
	ks := make([][2]int64, 0, len(m))
	for k := range m {
		ks = append(ks, k)
	}
	sort.Slice(ks, func(i, j int) bool { return ks[i][0] < ks[j][0] })
	if len(ks) > 12 {
		return fmt.Sprintf("%v…(%d)", ks[:12], len(ks))
	}
	return fmt.Sprint(ks)
}

func timesOf(m map[int64]map[string]cell) string {
	ks := make([]int64, 0, len(m))
	for k := range m {
		ks = append(ks, k)
	}
	sort.Slice(ks, func(i, j int) bool { return ks[i] < ks[j] })
	if len(ks) > 12 {
		return fmt.Sprintf("%v…(%d)", ks[:12], len(ks))
	}
	return fmt.Sprint(ks)
}

func renderX(xs []xwin) string {
	var sb strings.Builder
	for i, x := range xs {
		if i >= 10 {
			fmt.Fprintf(&sb, "…(+%d)", len(xs)-i)
			break
		}
		fmt.Fprintf(&sb, "[%d,%d)x%d ", x.CS, x.CE, len(x.Rows))
	}
	return sb.String()
}

// ---------------------------------------------------------------------------------------------
// classification

// nonTrivial implements the stated rule on the reference windows.
func nonTrivial(w wspec, filt []fix.SeriesRows) (bool, bool, bool) {
	if w.Bare {
		return false, false, false
	}
	withRows := 0
	gap := false
	for _, r := range filt {
		if len(r.Points) == 0 {
			continue
		}
		withRows++
		var prev *win
		for _, p := range r.Points {
			x := w.containing(p.T)
			if prev != nil && *prev != x && prev.stop != x.start {
				gap = true
			}
			px := x
			prev = &px
		}
	}
	clips := w.containing(w.Start).start != w.Start && w.containing(w.Stop).start != w.Stop
	return withRows >= 2, clips, gap
}

var aggs = []string{"count", "sum", "mean", "min", "max", "first", "last"}

func newStack(ds *dataset) (*fix.Stack, string, error) {
	dir, err := scratch.Dir("c41-")
	if err != nil {
		return nil, "", err
	}
	s, err := fix.NewStack(dir, ds.ShardDur)
	if err != nil {
		os.RemoveAll(dir)
		return nil, "", err
	}
	if err := ds.load(s); err != nil {
		s.Close()
		os.RemoveAll(dir)
		return nil, "", err
	}
	return s, dir, nil
}

const knownNilCursorKey = "nowindow-first-last-nil-cursor-panic"

func isNilCursorPanic(w wspec, p any) bool {
	return w.Bare && (w.Agg == "first" || w.Agg == "last") && strings.Contains(fmt.Sprint(p), "unreachable: <nil>")
}

// checkSpec runs one spec against the stack; returns a mismatch or nil.
func checkSpec(s *fix.Stack, w wspec) (*mismatch, []fix.SeriesRows, []otable, int64) {
	if os.Getenv("C41_DEBUG") != "" {
		fmt.Fprintf(os.Stderr, "spec %+v\n", w)
	}
	filt, err := s.ReadFilter(w.Start, w.Stop, w.predicate())
	if err != nil {
		return &mismatch{"filter-read-error", err.Error()}, nil, nil, 0
	}
	// an upper bound for the number of rows any correct answer can have
	maxRows := 0
	for _, r := range filt {
		if w.CreateEmpty {
			maxRows += len(expectedWindows(w, r.Points))
		} else {
			maxRows += len(r.Points)
		}
	}
	maxRows = 2*maxRows + 2*len(filt) + 16
	tables, leaked, err, pan := runWindowAggregate(s, w, maxRows)
	if pan != nil {
		if isNilCursorPanic(w, pan) {
			return &mismatch{knownNilCursorKey, fmt.Sprint(pan)}, filt, nil, 0
		}
		return &mismatch{"panic", fmt.Sprint(pan)}, filt, nil, 0
	}
	if err == errRunaway {
		return &mismatch{"endless-output", fmt.Sprintf("the table iterator produced more than %d rows/tables for %d series; no answer has that many windows", maxRows, len(filt))}, filt, nil, 0
	}
	if err != nil {
		return &mismatch{"window-aggregate-error", err.Error()}, filt, nil, 0
	}
	return compare(w, filt, tables), filt, tables, leaked
}

func TestPropWindowTables(t *testing.T) {
	rec.Assume("reference windows: window i = [epoch + offset + i*every, + every) in UTC (Flux window() documentation); calendar-month windows by time.Date; every == period, non-negative every/offset (the planner pushes down nothing else)")
	rec.Assume("min/max ties: any row holding the extreme value may be reported as the selected point; float sum/mean compared with relative tolerance 1e-9; integer sums kept far from overflow")
	rec.Assume("a series without any raw row inside the bounds may yield no table (or only null / count 0 rows); bare aggregates (every=MaxInt64) are only issued with non-negative bounds")
	rec.Check(t, 200, 4000, func(t *rapid.T) {
		// the aggregates of the case decide which values are safe
		nSpecs := 6
		specAggs := make([]string, nSpecs)
		wide, needNumeric := true, false
		for i := range specAggs {
			specAggs[i] = rapid.SampledFrom(aggs).Draw(t, "agg")
			if specAggs[i] == "sum" || specAggs[i] == "mean" {
				wide = false
			}
			if specAggs[i] != "count" && specAggs[i] != "first" && specAggs[i] != "last" {
				needNumeric = true
			}
		}
		ds := drawDataset(t, wide, needNumeric)
		specs := make([]wspec, nSpecs)
		for i := range specs {
			specs[i] = drawSpec(t, ds, specAggs[i])
		}
		s, dir, err := newStack(ds)
		if err != nil {
			t.Fatalf("fixture: %v", err)
		}
		defer os.RemoveAll(dir)
		defer s.Close()
		rec.Class("dataset:" + ds.Unit)
		if ds.Base < 0 {
			rec.Class("dataset:straddles-epoch")
		}
		rec.Class(fmt.Sprintf("shards:%d", min(len(s.ShardIDs()), 6)))
		for _, w := range specs {
			if isForceSelectorNoEmpty(w) && ev.KnownOpen("C41", knownEndlessKey) {
				// known finding: this combination never terminates (TestKnown_force_selector_noempty_endless_nulls)
				rec.ExcludedKnown(knownEndlessKey)
				continue
			}
			mm, filt, tables, leaked := checkSpec(s, w)
			rec.Eval()
			classify(w, filt, tables, leaked)
			if mm != nil && mm.Key == knownNilCursorKey && ev.KnownOpen("C41", knownNilCursorKey) {
				rec.ExcludedKnown(knownNilCursorKey)
				continue
			}
			if a, b, c := nonTrivial(w, filt); a && b && c {
				rec.NonTrivial(ds.Digest + fmt.Sprintf("|%+v", w))
			}
			if rec.WantSample() && len(tables) > 0 {
				rec.Sample(map[string]any{"dataset": ds.Unit, "spec": w, "series_in_filter_read": len(filt), "tables": len(tables)})
			}
			if mm != nil {
				rec.Fail(t, "TestPropWindowTables", mm.Key, mm.Detail, map[string]any{"spec": w, "dataset": ds.Digest})
			}
		}
	})
}

func classify(w wspec, filt []fix.SeriesRows, tables []otable, leaked int64) {
	rec.Class("agg:" + w.Agg)
	switch {
	case w.Bare:
		rec.Class("window:bare")
	case w.EveryMo > 0:
		rec.Class("window:months")
	default:
		rec.Class("window:ns")
	}
	if !w.Bare {
		rec.Class(fmt.Sprintf("createEmpty:%v", w.CreateEmpty))
		tc := w.TimeColumn
		if tc == "" {
			tc = "none"
		}
		rec.Class("timeColumn:" + tc)
		rec.Class(fmt.Sprintf("forceAggregate:%v", w.Force))
		a, b, c := nonTrivial(w, filt)
		if a {
			rec.Class("nt:>=2-series-with-rows")
		}
		if b {
			rec.Class("nt:bounds-clip-first-and-last-window")
		}
		if c {
			rec.Class("nt:empty-window-inside-data")
		}
		if w.OffsetNs != 0 || w.OffsetMo != 0 {
			rec.Class("offset:nonzero")
		}
	}
	if w.Pred != "" {
		rec.Class("predicate:" + strings.SplitN(w.Pred, ":", 2)[0])
	}
	rows := 0
	for _, r := range filt {
		rows += len(r.Points)
	}
	if rows == 0 {
		rec.Class("rows:none-in-bounds")
	}
	nrows := 0
	for _, tb := range tables {
		nrows += len(tb.Rows)
	}
	switch {
	case nrows == 0:
		rec.Class("out:no-rows")
	case nrows > 1000:
		rec.Class("out:>1000-rows")
	default:
		rec.Class("out:rows")
	}
	if leaked != 0 {
		rec.Class("observation:allocator-balance-nonzero")
	}
}
