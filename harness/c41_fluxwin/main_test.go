package c41_fluxwin

import (
	"testing"

	"verifharness/internal/ev"
)

func TestMain(m *testing.M) { ev.Main(m) }
