package c41_fluxwin

import (
	"fmt"
	"os"
	"testing"
	"time"

	"verifharness/internal/model"
)

// smallDataset: two series of integer points on a one-minute grid inside one shard hour, and a
// second shard hour for the first series.
func smallDataset() *dataset {
	base := time.Date(2020, 9, 13, 12, 0, 0, 0, time.UTC).UnixNano()
	ds := &dataset{Unit: "min", Base: base, Step: 30 * sec, N: 480, ShardDur: time.Hour,
		Points: map[string]map[string]map[int64]model.Val{}}
	a := map[int64]model.Val{}
	for i, m := range []int64{1, 2, 3, 11, 12, 61, 62} {
		a[base+m*min_] = model.Val{K: model.Integer, I: int64(10 - i)}
	}
	b := map[int64]model.Val{}
	for i, m := range []int64{2, 4, 25} {
		b[base+m*min_] = model.Val{K: model.Integer, I: int64(i)}
	}
	ds.Points["m0,host=a"] = map[string]map[int64]model.Val{"fi": a}
	ds.Points["m0,host=b"] = map[string]map[int64]model.Val{"fi": b}
	return ds
}

const knownEndlessKey = "force-selector-noempty-endless-nulls"

func isForceSelectorNoEmpty(w wspec) bool {
	return !w.Bare && w.isSelector() && w.Force && !w.CreateEmpty
}

// TestKnown_force_selector_noempty_endless_nulls: a selector (min/max/first/last) with
// ForceAggregate and without CreateEmpty never terminates: the window table maps every selected
// point to the window BEFORE the point's window (it treats the point time as a window stop), finds
// no value for it, emits a null row and does not consume the point, so advance() yields the same
// buffer of nulls for ever.
func TestKnown_force_selector_noempty_endless_nulls(t *testing.T) {
	ds := smallDataset()
	s, dir, err := newStack(ds)
	if err != nil {
		t.Fatal(err)
	}
	defer os.RemoveAll(dir)
	defer s.Close()
	reproduced := true
	var details []string
	for _, tc := range []string{"", "_stop"} {
		for _, agg := range []string{"min", "first"} {
			w := wspec{Agg: agg, EveryNs: 10 * min_, Start: ds.Base, Stop: ds.Base + 2*hour, TimeColumn: tc, Force: true}
			mm, _, _, _ := checkSpec(s, w)
			if mm == nil || mm.Key != "endless-output" {
				reproduced = false
				details = append(details, fmt.Sprintf("%s/%q: %v", agg, tc, mm))
			}
		}
	}
	// the same request with CreateEmpty, or without ForceAggregate, terminates and is correct
	for _, w := range []wspec{
		{Agg: "min", EveryNs: 10 * min_, Start: ds.Base, Stop: ds.Base + 2*hour, Force: true, CreateEmpty: true},
		{Agg: "min", EveryNs: 10 * min_, Start: ds.Base, Stop: ds.Base + 2*hour},
	} {
		if mm, _, _, _ := checkSpec(s, w); mm != nil {
			t.Fatalf("control spec %+v fails: %s %s", w, mm.Key, mm.Detail)
		}
	}
	rec.Known(t, "TestKnown_force_selector_noempty_endless_nulls", knownEndlessKey, reproduced,
		"storage/flux ReadWindowAggregate with a selector (min/max/first/last), ForceAggregate=true and CreateEmpty=false (planner: window(every) |> min() |> table.fill()) never terminates: *WindowTable.createNextBufferTimes maps each selected point time to the previous window, nextAt finds no value, a null row is emitted, the point is never consumed and advance() repeats for ever (7 integer points, every=10m: unbounded rows instead of 4)",
		map[string]any{"dataset": "m0,host=a fi @ minutes 1,2,3,11,12,61,62; m0,host=b fi @ 2,4,25", "spec": "min|first every=10m bounds=[base,base+2h) ForceAggregate CreateEmpty=false TimeColumn ''|_stop", "not_reproduced": details})
}
