package c38_backup

import (
	"bytes"
	"context"
	"fmt"
	"os"
	"testing"
	"time"

	"github.com/influxdata/influxdb/v2/models"

	"verifharness/internal/fix"
	"verifharness/internal/model"
	"verifharness/internal/scratch"
)

func ipt(series string, ts, v int64) models.Point {
	name, tags := models.ParseKeyBytes([]byte(series))
	p, err := models.NewPoint(string(name), tags, models.Fields{"fi": v}, time.Unix(0, ts))
	if err != nil {
		panic(err)
	}
	return p
}

func twoShards(t *testing.T) (src, dst *fix.ShardFix, cleanup func()) {
	a, err := scratch.Dir("c38-known-src-")
	if err != nil {
		t.Fatal(err)
	}
	b, err := scratch.Dir("c38-known-dst-")
	if err != nil {
		t.Fatal(err)
	}
	src, err = fix.NewShardFix(a)
	if err != nil {
		t.Fatal(err)
	}
	dst, err = fix.NewShardFix(b)
	if err != nil {
		t.Fatal(err)
	}
	return src, dst, func() { src.Close(); dst.Close(); os.RemoveAll(a); os.RemoveAll(b) }
}

// TestKnown_restore_ignores_tombstones: fi@10 and fi@20 snapshotted to a TSM file, delete [0,15]
// (a tombstone on that file), full backup, restore into an empty shard: the deleted point is back.
func TestKnown_restore_ignores_tombstones(t *testing.T) {
	src, dst, cleanup := twoShards(t)
	defer cleanup()
	s := "m0,host=a"
	if err := src.Write([]models.Point{ipt(s, 10, 1), ipt(s, 20, 2)}); err != nil {
		t.Fatal(err)
	}
	if err := src.Snapshot(); err != nil {
		t.Fatal(err)
	}
	if err := src.DeleteRange([]string{s}, 0, 15); err != nil {
		t.Fatal(err)
	}
	srcRead, _ := src.Read(s, "fi", models.MinNanoTime, models.MaxNanoTime, true)
	var buf bytes.Buffer
	if err := src.Store.BackupShard(fix.ShardID, time.Time{}, &buf); err != nil {
		t.Fatal(err)
	}
	if err := dst.Store.RestoreShard(context.Background(), fix.ShardID, bytes.NewReader(buf.Bytes())); err != nil {
		t.Fatal(err)
	}
	got, _ := dst.Read(s, "fi", models.MinNanoTime, models.MaxNanoTime, true)
	rec.Known(t, "TestKnown_restore_ignores_tombstones", restoreTombKey, len(got) != 1 || len(srcRead) != 1,
		fmt.Sprintf("write fi@10,fi@20 of m0,host=a, snapshot, delete [0,15], BackupShard, RestoreShard into an empty shard: the source reads [%s], the restored shard reads [%s] (the tombstone file in the archive is ignored on restore)", model.Render(srcRead), model.Render(got)), nil)
}

// TestKnown_export_not_exact_range: fi@1 and fi@210 in one block; an export of [210, max]
// imported into an empty shard also contains fi@1 (export filters whole blocks).
func TestKnown_export_not_exact_range(t *testing.T) {
	src, dst, cleanup := twoShards(t)
	defer cleanup()
	s := "m1,host=a"
	if err := src.Write([]models.Point{ipt(s, 1, 5), ipt(s, 210, 3)}); err != nil {
		t.Fatal(err)
	}
	var buf bytes.Buffer
	if err := src.Store.ExportShard(fix.ShardID, time.Unix(0, 210), time.Unix(0, models.MaxNanoTime), &buf); err != nil {
		t.Fatal(err)
	}
	if err := dst.Store.ImportShard(fix.ShardID, bytes.NewReader(buf.Bytes())); err != nil {
		t.Fatal(err)
	}
	if err := dst.Reopen(); err != nil {
		t.Fatal(err)
	}
	got, _ := dst.Read(s, "fi", models.MinNanoTime, models.MaxNanoTime, true)
	rec.Known(t, "TestKnown_export_not_exact_range", exportGranKey, len(got) != 1,
		fmt.Sprintf("write fi@1,fi@210 of m1,host=a; ExportShard [210,max] imported into an empty shard reads [%s]: the point @1 lies outside the exported range (Export keeps every block that overlaps the range)", model.Render(got)), nil)
}

// TestKnown_export_fails_on_tombstoned_file: a TSM file with a tombstone makes ExportShard fail
// (the tombstone is opened by its base name, relative to the process working directory).
func TestKnown_export_fails_on_tombstoned_file(t *testing.T) {
	src, _, cleanup := twoShards(t)
	defer cleanup()
	s := "m0,host=a"
	if err := src.Write([]models.Point{ipt(s, 10, 1), ipt(s, 20, 2)}); err != nil {
		t.Fatal(err)
	}
	if err := src.Snapshot(); err != nil {
		t.Fatal(err)
	}
	if err := src.DeleteRange([]string{s}, 0, 15); err != nil {
		t.Fatal(err)
	}
	var buf bytes.Buffer
	err := src.Store.ExportShard(fix.ShardID, time.Unix(0, 0), time.Unix(0, 100), &buf)
	rec.Known(t, "TestKnown_export_fails_on_tombstoned_file", exportTombKey, err != nil,
		fmt.Sprintf("write fi@10,fi@20 of m0,host=a, snapshot, delete [0,15] (tombstone on the TSM file), ExportShard [0,100] returns: %v", err), nil)
}

// TestKnown_export_fails_no_values_written: a TSM file whose time range overlaps the export range
// but none of whose blocks does (two keys: one before, one after the range) makes ExportShard fail.
func TestKnown_export_fails_no_values_written(t *testing.T) {
	src, _, cleanup := twoShards(t)
	defer cleanup()
	if err := src.Write([]models.Point{ipt("m0,host=a", 10, 1), ipt("m0,host=b", 200, 2)}); err != nil {
		t.Fatal(err)
	}
	if err := src.Snapshot(); err != nil {
		t.Fatal(err)
	}
	var buf bytes.Buffer
	err := src.Store.ExportShard(fix.ShardID, time.Unix(0, 50), time.Unix(0, 100), &buf)
	rec.Known(t, "TestKnown_export_fails_no_values_written", exportEmptyKey, err != nil,
		fmt.Sprintf("one TSM file holding m0,host=a fi@10 and m0,host=b fi@200; ExportShard [50,100] (no point in range, file range overlaps) returns: %v", err), nil)
}
