package c38_backup

import (
	"testing"

	"verifharness/internal/ev"
)

func TestMain(m *testing.M) { ev.Main(m) }
