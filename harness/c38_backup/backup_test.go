// C38 — Shard backup and restore preserve data.
//
// A generated write/delete/snapshot/compaction/reopen history on a source shard (the C02/C03
// machine), then: full backup -> restore into an empty shard of a second store -> the restored
// shard's scan (cursor path and index-based InfluxQL iterator path) must equal the model of the
// source at backup time; incremental backup since t must contain every TSM/tombstone file whose
// content changed after t; export of [start,end] imported into an empty shard must hold exactly
// the model's points in that range.
package c38_backup

import (
	"archive/tar"
	"bytes"
	"context"
	"crypto/sha256"
	"fmt"
	"io"
	"os"
	"path/filepath"
	"sort"
	"strings"
	"testing"
	"time"

	"github.com/influxdata/influxdb/v2/models"
	"pgregory.net/rapid"

	"verifharness/internal/eng"
	"verifharness/internal/ev"
	"verifharness/internal/fix"
	"verifharness/internal/gen"
	"verifharness/internal/model"
	"verifharness/internal/scratch"
)

var rec = ev.For("C38", "exploration",
	"case = one generated source history followed by backup+restore, export+import and (every 3rd case) an incremental backup; non-trivial = at backup time the source held >=1 TSM file carrying a tombstone (a delete hit TSM-resident points and was not compacted away) AND data in the cache AND data in TSM files; distinct by rendered history")

const (
	restoreTombKey = "restore-ignores-tombstones"
	exportGranKey  = "export-not-exact-range"
	exportTombKey  = "export-fails-on-tombstoned-file"
	exportEmptyKey = "export-fails-no-values-written"
)

func genDelete(t *rapid.T) ([]string, int64, int64) {
	n := rapid.IntRange(1, len(gen.SeriesKeys)).Draw(t, "dn")
	seen := map[string]bool{}
	var ss []string
	for i := 0; i < n; i++ {
		s := rapid.SampledFrom(gen.SeriesKeys).Draw(t, "ds")
		if !seen[s] {
			seen[s] = true
			ss = append(ss, s)
		}
	}
	lo, hi := gen.Range(t, "dr")
	return ss, lo, hi
}

type fileSig struct {
	name string
	sum  [32]byte
}

func listFiles(dir string) map[string][32]byte {
	out := map[string][32]byte{}
	ents, _ := os.ReadDir(dir)
	for _, e := range ents {
		n := e.Name()
		if strings.HasSuffix(n, ".tsm") || strings.HasSuffix(n, ".tombstone") {
			b, err := os.ReadFile(filepath.Join(dir, n))
			if err == nil {
				out[n] = sha256.Sum256(b)
			}
		}
	}
	return out
}

func tarNames(b []byte) []string {
	var names []string
	tr := tar.NewReader(bytes.NewReader(b))
	for {
		h, err := tr.Next()
		if err != nil {
			break
		}
		names = append(names, filepath.Base(h.Name))
		io.Copy(io.Discard, tr)
	}
	sort.Strings(names)
	return names
}

// freshShard opens a second store with an empty shard of the same id.
func freshShard(t *rapid.T, roots *[]string) *fix.ShardFix {
	root, err := scratch.Dir("c38-dst-")
	if err != nil {
		t.Fatalf("scratch: %v", err)
	}
	*roots = append(*roots, root)
	f, err := fix.NewShardFix(root)
	if err != nil {
		t.Fatalf("fixture: %v", err)
	}
	return f
}

// compareAll compares every (series, field) of dst with want over [lo,hi]; returns the first
// mismatch and whether every difference is "extra points that the source had deleted".
func compareAll(dst *fix.ShardFix, src *model.Store, want func(s, f string) []model.Point, ql bool) (msg string, onlyDeletedExtras bool) {
	onlyDeletedExtras = true
	for _, s := range gen.SeriesKeys {
		for _, f := range gen.Fields {
			w := want(s, f.Name)
			var got []model.Point
			var err error
			if ql {
				got, err = dst.ReadInfluxQL(s, f.Name, f.Kind, models.MinNanoTime, models.MaxNanoTime, true)
			} else {
				got, err = dst.Read(s, f.Name, models.MinNanoTime, models.MaxNanoTime, true)
			}
			if err != nil {
				return fmt.Sprintf("read %s %s: %v", s, f.Name, err), false
			}
			if model.EqualPoints(got, w) {
				continue
			}
			if msg == "" {
				msg = fmt.Sprintf("%s %s (influxql=%v)\n got:  %s\n want: %s", s, f.Name, ql, model.Render(got), model.Render(w))
			}
			wm := map[int64]model.Val{}
			for _, p := range w {
				wm[p.T] = p.V
			}
			gm := map[int64]bool{}
			for _, p := range got {
				gm[p.T] = true
				if v, ok := wm[p.T]; ok {
					if !v.Equal(p.V) {
						onlyDeletedExtras = false
					}
				} else if !src.WasWritten(s, f.Name, p.T, p.V) {
					onlyDeletedExtras = false
				}
			}
			for _, p := range w {
				if !gm[p.T] {
					onlyDeletedExtras = false
				}
			}
		}
	}
	return msg, onlyDeletedExtras
}

// exportInRangeMismatch is the part of the export clause that stays asserted while the finding
// export-not-exact-range is open: restricted to [lo,hi] the imported shard equals the model, and
// whatever it holds outside the range was written at that time with that value at some point.
func exportInRangeMismatch(dst *fix.ShardFix, src *model.Store, lo, hi int64) string {
	for _, s := range gen.SeriesKeys {
		for _, f := range gen.Fields {
			got, err := dst.Read(s, f.Name, models.MinNanoTime, models.MaxNanoTime, true)
			if err != nil {
				return fmt.Sprintf("read %s %s: %v", s, f.Name, err)
			}
			var in []model.Point
			for _, p := range got {
				if p.T >= lo && p.T <= hi {
					in = append(in, p)
				} else if !src.WasWritten(s, f.Name, p.T, p.V) {
					return fmt.Sprintf("%s %s: point %d outside the range was never written with that value; got %s", s, f.Name, p.T, model.Render(got))
				}
			}
			if w := src.Range(s, f.Name, lo, hi, true); !model.EqualPoints(in, w) {
				return fmt.Sprintf("%s %s inside the range\n got:  %s\n want: %s", s, f.Name, model.Render(in), model.Render(w))
			}
		}
	}
	return ""
}

func TestPropBackupRestoreExport(t *testing.T) {
	rec.Assume("the source history keeps at most 9 snapshots per shard, so that the separately tracked KeyCursor ordering defect (>12 blocks per key) cannot interfere")
	rec.Assume("incremental backups: `since` is taken 60 ms after the previous operation and 60 ms before the next one (file modification times decide membership)")
	caseNo := 0
	rec.CheckSteps(t, 90, 900, 16, func(t *rapid.T) {
		caseNo++
		mc := eng.New("C38", rec, func(key, detail string, c any) { rec.Fail(t, "TestPropBackupRestoreExport", key, detail, c) }, t.Fatalf)
		defer mc.Close()
		var roots []string
		defer func() {
			for _, r := range roots {
				os.RemoveAll(r)
			}
		}()
		fail := func(key, detail string) {
			rec.Fail(t, "TestPropBackupRestoreExport", key, detail+"\nsource history: "+eng.RenderOps(mc.Ops), map[string]any{"ops": mc.Ops})
		}
		snaps := 0
		var tt *rapid.T = t
		acts := map[string]func(*rapid.T){
			"write": func(*rapid.T) { mc.Write(gen.Batch(tt, "w", 10, &mc.Seq)) },
			"snapshot": func(*rapid.T) {
				if snaps < 9 {
					snaps++
					mc.Snapshot()
				}
			},
			"compact": func(*rapid.T) {
				mc.Compact(rapid.SampledFrom([]string{"level1", "forcefull", "full"}).Draw(tt, "kind"))
			},
			"delete": func(*rapid.T) { ss, lo, hi := genDelete(tt); mc.Delete(ss, lo, hi) },
			"reopen": func(*rapid.T) { mc.Reopen() },
		}
		acts["write2"], acts["delete2"], acts["snapshot2"] = acts["write"], acts["delete"], acts["snapshot"]
		pre := rapid.IntRange(0, 3).Draw(t, "presnaps")
		for i := 0; i < pre; i++ {
			acts["write"](t)
			acts["snapshot"](t)
		}
		t.Repeat(acts)
		if mc.Tainted {
			return
		}
		if rapid.Bool().Draw(t, "cacheDataAtBackup") {
			mc.Write(gen.Batch(t, "wl", 6, &mc.Seq))
		}
		srcDir := mc.F.DataDir()
		hasTomb := false
		for n := range listFiles(srcDir) {
			if strings.HasSuffix(n, ".tombstone") {
				hasTomb = true
			}
		}
		cacheData := len(mc.InCache) > 0
		tsmData := len(mc.F.TSMFiles()) > 0
		ctx := context.Background()

		// ---- full backup -> restore into an empty shard
		var full bytes.Buffer
		if err := mc.F.Store.BackupShard(fix.ShardID, time.Time{}, &full); err != nil {
			fail("backup-error", fmt.Sprintf("BackupShard: %v", err))
		}
		mc.F.Quiesce()
		dst := freshShard(t, &roots)
		if err := dst.Store.RestoreShard(ctx, fix.ShardID, bytes.NewReader(full.Bytes())); err != nil {
			dst.Close()
			fail("restore-error", fmt.Sprintf("RestoreShard: %v", err))
		}
		wantAll := func(s, f string) []model.Point { return mc.M.Range(s, f, models.MinNanoTime, models.MaxNanoTime, true) }
		for _, ql := range []bool{false, true} {
			if msg, onlyDel := compareAll(dst, mc.M, wantAll, ql); msg != "" {
				if onlyDel && hasTomb && ev.KnownOpen("C38", restoreTombKey) {
					rec.ExcludedKnown(restoreTombKey)
					rec.Class("restore:deleted-points-back(known)")
					break
				}
				dst.Close()
				fail("restored-shard-differs", "restored shard differs from the source at backup time: "+msg)
			}
		}
		dst.Close()
		rec.Class("restore:checked")
		rec.Eval()
		if hasTomb && cacheData && tsmData {
			rec.NonTrivial(eng.RenderOps(mc.Ops))
			rec.Class("case:non-trivial")
			if rec.WantSample() {
				rec.Sample(map[string]any{"ops": eng.RenderOps(mc.Ops), "files_with_tombstone": hasTomb})
			}
		}
		if hasTomb {
			rec.Class("case:tombstone-at-backup")
		}

		// ---- export [start,end] -> import into an empty shard
		lo, hi := gen.Range(t, "ex")
		var exp bytes.Buffer
		exportErr := mc.F.Store.ExportShard(fix.ShardID, time.Unix(0, lo), time.Unix(0, hi), &exp)
		mc.F.Quiesce()
		// a snapshot taken by the export may have installed the cache as a TSM file: tombstones
		// are looked up again on the files as they are now
		for n := range listFiles(srcDir) {
			if strings.HasSuffix(n, ".tombstone") {
				hasTomb = true
			}
		}
		if exportErr != nil {
			if hasTomb && strings.Contains(exportErr.Error(), ".tombstone") && ev.KnownOpen("C38", exportTombKey) {
				rec.ExcludedKnown(exportTombKey)
				rec.Class("export:fails-on-tombstoned-file(known)")
				return
			}
			if strings.Contains(exportErr.Error(), "no values written") && ev.KnownOpen("C38", exportEmptyKey) {
				rec.ExcludedKnown(exportEmptyKey)
				rec.Class("export:fails-no-values-written(known)")
				return
			}
			fail("export-error", fmt.Sprintf("ExportShard: %v", exportErr))
		}
		dst2 := freshShard(t, &roots)
		if err := dst2.Store.ImportShard(fix.ShardID, bytes.NewReader(exp.Bytes())); err != nil {
			dst2.Close()
			fail("import-error", fmt.Sprintf("ImportShard: %v", err))
		}
		if err := dst2.Reopen(); err != nil {
			fail("import-reopen-error", fmt.Sprintf("reopen after import: %v", err))
		}
		wantRange := func(s, f string) []model.Point { return mc.M.Range(s, f, lo, hi, true) }
		if msg, _ := compareAll(dst2, mc.M, wantRange, false); msg != "" {
			if ev.KnownOpen("C38", exportGranKey) {
				// the listed finding is about whole blocks being kept: points OUTSIDE [lo,hi] that
				// were written at some time may come along; inside the range the import must still
				// hold exactly the model's points
				if bad := exportInRangeMismatch(dst2, mc.M, lo, hi); bad != "" {
					dst2.Close()
					fail("export-in-range-differs", fmt.Sprintf("export of [%d,%d] imported into an empty shard: %s", lo, hi, bad))
				}
				rec.ExcludedKnown(exportGranKey)
				rec.Class("export:not-exact-outside-range-only(known)")
			} else {
				dst2.Close()
				fail("export-differs", fmt.Sprintf("export of [%d,%d] imported into an empty shard differs from the model's points in that range: %s", lo, hi, msg))
			}
		} else {
			rec.Class("export:exact")
		}
		dst2.Close()

		// ---- incremental backup (every 3rd case: it costs wall-clock waits)
		if caseNo%3 == 0 {
			time.Sleep(60 * time.Millisecond)
			since := time.Now()
			time.Sleep(60 * time.Millisecond)
			before := listFiles(srcDir)
			mc.Write(gen.Batch(t, "wi", 8, &mc.Seq))
			if rapid.Bool().Draw(t, "incrDelete") {
				ss, dlo, dhi := genDelete(t)
				mc.Delete(ss, dlo, dhi)
			}
			var incr bytes.Buffer
			if err := mc.F.Store.BackupShard(fix.ShardID, since, &incr); err != nil {
				fail("backup-error", fmt.Sprintf("incremental BackupShard: %v", err))
			}
			mc.F.Quiesce()
			after := listFiles(srcDir)
			names := map[string]bool{}
			for _, n := range tarNames(incr.Bytes()) {
				names[n] = true
			}
			for n, sum := range after {
				if old, ok := before[n]; ok && old == sum {
					continue
				}
				if !names[n] {
					fail("incremental-backup-misses-changed-file", fmt.Sprintf("file %s changed after `since` but is not in the incremental backup (members: %v)", n, tarNames(incr.Bytes())))
				}
			}
			rec.Class("incremental:checked")
		}

	})
}
