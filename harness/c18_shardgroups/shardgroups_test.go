// C18 — Each point lands in one shard group that contains it, also after restart.
//
// TestPropShardGroupHistory drives the real meta.Client (in-memory KV store, exactly as
// storage.Engine wires it) and the real coordinator.PointsWriter.MapShards through generated
// histories: batches of timestamps from the full int64 nanosecond range, shard-group deletion,
// shard drop, truncation, shard-group-duration updates (the only way live groups of different
// widths meet, i.e. what the overlap clipping in Data.CreateShardGroup exists for), precreation,
// time-range queries and metadata reloads (new meta.Client on the same KV store, or
// Data.MarshalBinary -> UnmarshalBinary).
//
// Oracle (invariants taken from the property statement, no bound-predicting model):
//
//	I1  every point of a batch is mapped to exactly one shard; that shard belongs to exactly one
//	    live (not deleted) shard group of the retention policy and start <= t < end; with an
//	    infinite retention period nothing is dropped
//	I2  live shard groups of one retention policy are pairwise disjoint (a truncated group counts
//	    up to TruncatedAt: that is the end the clipping code itself uses)
//	I3  every timestamp written earlier whose group has not been deleted since is still found:
//	    ShardGroupsByTimeRange(t, t) returns the group it was routed to
//	I4  the metadata survives persist + reload unchanged (ids, start, end, deletedAt,
//	    truncatedAt, shards, policy durations); checked after every step through
//	    Data.MarshalBinary/UnmarshalBinary and at reload steps through a fresh meta.Client
//	I5  ShardGroupsByTimeRange(min, max) returns exactly the live groups with
//	    start <= max && end > min
//
// TestPropTimeRoundTrip is the pure round trip of MarshalTime/UnmarshalTime and of
// RetentionPolicyInfo.MarshalBinary/UnmarshalBinary over arbitrary representable bounds.
package c18_shardgroups

import (
	"context"
	"fmt"
	"math"
	"sort"
	"strings"
	"testing"
	"time"

	"github.com/influxdata/influxdb/v2/inmem"
	"github.com/influxdata/influxdb/v2/models"
	"github.com/influxdata/influxdb/v2/v1/coordinator"
	"github.com/influxdata/influxdb/v2/v1/services/meta"
	"pgregory.net/rapid"

	"verifharness/internal/ev"
)

const (
	propID   = "C18"
	knownKey = "shardgroup-start-wraps-below-min-time"
	dbName   = "db"
)

var rec = ev.For(propID, "exploration",
	"case = history of 4..14 steps (mapShards batch | deleteGroup | dropShard | truncate | updateDuration | precreate | query | reload) on 1..2 retention policies; "+
		"non-trivial = a mapShards batch containing a pre-1970 or extreme (within 2 group widths of MinNanoTime/MaxNanoTime) timestamp, followed by a reload, followed by another mapShards; "+
		"distinct by the canonical rendering of all steps with their drawn values")

// minRep is the earliest instant whose UnixNano is representable; MarshalTime of anything
// earlier is undefined (time.Time.UnixNano) — the signature of the known finding.
var minRep = time.Unix(0, math.MinInt64)

func init() {
	rec.Assume("retention period of the policies is infinite (0), so MapShards never consults the wall clock and must accept every point")
	rec.Assume("TruncateShardGroups is only called with instants after 1970-01-01T00:00:00Z: MarshalTime documents that the epoch instant is stored as 'zero time', so TruncatedAt == epoch is not representable (TruncateShardGroups has no production caller in this tree; the enterprise caller passes the wall clock)")
	rec.Assume("a truncated group counts as [StartTime, TruncatedAt) for the non-overlap invariant and as [StartTime, EndTime) for containment and time-range lookup, as the code under test treats it")
}

// ---------------------------------------------------------------------------------------------
// fixture

type rpState struct {
	name string
	sgd  time.Duration // as read back from the metadata (normalised)
	// (timestamp, group id) pairs accepted so far
	written map[[2]int64]struct{}
	prev    []int64
}

type hist struct {
	kv      *inmem.KVStore
	mc      *meta.Client
	pw      *coordinator.PointsWriter
	rps     []*rpState
	minZone bool // this history may touch the first (lowest) window of the time range
	log     []string
}

func newClient(kv *inmem.KVStore) (*meta.Client, error) {
	mc := meta.NewClient(meta.NewConfig(), kv)
	return mc, mc.Open()
}

func (h *hist) logf(format string, a ...any) { h.log = append(h.log, fmt.Sprintf(format, a...)) }

func (h *hist) rp(d *meta.Data, name string) *meta.RetentionPolicyInfo {
	di := d.Database(dbName)
	if di == nil {
		return nil
	}
	return di.RetentionPolicy(name)
}

func addSat(a, b int64) int64 {
	if b > 0 && a > math.MaxInt64-b {
		return math.MaxInt64
	}
	if b < 0 && a < math.MinInt64-b {
		return math.MinInt64
	}
	return a + b
}

func clampNano(v int64) int64 {
	if v < models.MinNanoTime {
		return models.MinNanoTime
	}
	if v > models.MaxNanoTime {
		return models.MaxNanoTime
	}
	return v
}

// ---------------------------------------------------------------------------------------------
// generators

var durationClasses = []string{"1h", "1d", "7d", "365d", "1h+1ns", "odd", "odd", "default0", "below-min", "huge", "giant"}

func drawDuration(t *rapid.T, label string) (time.Duration, string) {
	cls := rapid.SampledFrom(durationClasses).Draw(t, label+"-class")
	switch cls {
	case "1h":
		return time.Hour, cls
	case "1d":
		return 24 * time.Hour, cls
	case "7d":
		return 7 * 24 * time.Hour, cls
	case "365d":
		return 365 * 24 * time.Hour, cls
	case "1h+1ns":
		return time.Hour + 1, cls
	case "odd":
		return time.Duration(rapid.Int64Range(int64(time.Hour)+1, int64(100*24*time.Hour)).Draw(t, label)), cls
	case "default0":
		return 0, cls // normalised to 7d for an infinite policy
	case "below-min":
		return time.Duration(rapid.Int64Range(1, int64(time.Hour)-1).Draw(t, label)), cls // normalised to 1h
	case "huge":
		return time.Duration(rapid.Int64Range(int64(1000*24*time.Hour), int64(100*365*24*time.Hour)).Draw(t, label)), cls
	default: // giant: up to the largest Duration
		return time.Duration(rapid.Int64Range(int64(100*365*24*time.Hour), math.MaxInt64).Draw(t, label)), cls
	}
}

var tsClasses = []string{"extreme-min", "extreme-max", "near-min", "near-max", "pow62", "epoch", "epoch",
	"pre1970", "any", "present", "edge", "edge", "edge", "near-prev", "near-prev"}

type groupEdges struct{ start, end, trunc int64 }

// edges lists the int64 bounds of all groups (also deleted ones) of a policy.
func edges(rpi *meta.RetentionPolicyInfo) []groupEdges {
	var out []groupEdges
	if rpi == nil {
		return nil
	}
	for _, g := range rpi.ShardGroups {
		if g.StartTime.Before(minRep) {
			continue
		}
		e := groupEdges{start: g.StartTime.UnixNano(), end: g.EndTime.UnixNano(), trunc: g.EndTime.UnixNano()}
		if g.Truncated() {
			e.trunc = g.TruncatedAt.UnixNano()
		}
		out = append(out, e)
	}
	return out
}

// drawTs draws one timestamp in [MinNanoTime, MaxNanoTime]; returns the class actually used.
func (h *hist) drawTs(t *rapid.T, r *rpState, label string) (int64, string) {
	d := int64(r.sgd)
	cls := rapid.SampledFrom(tsClasses).Draw(t, label+"-class")
	var v int64
	switch cls {
	case "extreme-min":
		v = addSat(models.MinNanoTime, rapid.SampledFrom([]int64{0, 1, 5}).Draw(t, label))
	case "extreme-max":
		v = addSat(models.MaxNanoTime, -rapid.SampledFrom([]int64{0, 1, 2}).Draw(t, label))
	case "near-min":
		v = addSat(models.MinNanoTime, rapid.Int64Range(0, math.MaxInt64).Draw(t, label)%addSat(d, d))
	case "near-max":
		v = addSat(models.MaxNanoTime, -(rapid.Int64Range(0, math.MaxInt64).Draw(t, label) % addSat(d, d)))
	case "pow62":
		v = addSat(rapid.SampledFrom([]int64{-(1 << 62), 1 << 62}).Draw(t, label), rapid.Int64Range(-2, 2).Draw(t, label+"-off"))
	case "epoch":
		v = rapid.SampledFrom([]int64{-1, 0, 1, -d, d, -d - 1, -d + 1, d - 1, d + 1, -1e9, 1e9}).Draw(t, label)
	case "pre1970":
		v = rapid.Int64Range(models.MinNanoTime, -1).Draw(t, label)
	case "any":
		v = rapid.Int64Range(models.MinNanoTime, models.MaxNanoTime).Draw(t, label)
	case "present":
		v = addSat(1_700_000_000_000_000_000, rapid.Int64Range(-3, 3).Draw(t, label)*(d/2)+rapid.Int64Range(-1, 1).Draw(t, label+"-off"))
	case "edge":
		data := h.mc.Data()
		es := edges(h.rp(&data, r.name))
		if len(es) == 0 {
			cls = "any"
			v = rapid.Int64Range(models.MinNanoTime, models.MaxNanoTime).Draw(t, label)
			break
		}
		e := es[rapid.IntRange(0, len(es)-1).Draw(t, label+"-group")]
		base := rapid.SampledFrom([]int64{e.start, e.end, e.trunc}).Draw(t, label+"-which")
		v = addSat(base, rapid.Int64Range(-1, 1).Draw(t, label+"-off"))
	default: // near-prev
		if len(r.prev) == 0 {
			cls = "any"
			v = rapid.Int64Range(models.MinNanoTime, models.MaxNanoTime).Draw(t, label)
			break
		}
		p := r.prev[rapid.IntRange(0, len(r.prev)-1).Draw(t, label+"-prev")]
		v = addSat(p, rapid.Int64Range(-4, 4).Draw(t, label)*(d/2)+rapid.Int64Range(-1, 1).Draw(t, label+"-off"))
	}
	v = clampNano(v)
	if !h.minZone && time.Unix(0, v).Truncate(r.sgd).Before(minRep) {
		// keep this history out of the lowest window (see minZone); one width up is always clear
		v = clampNano(addSat(v, d))
		cls += "(steered)"
	}
	return v, cls
}

func isExtreme(v int64, sgd time.Duration) bool {
	w := addSat(int64(sgd), int64(sgd))
	return v <= addSat(models.MinNanoTime, w) || v >= addSat(models.MaxNanoTime, -w)
}

// ---------------------------------------------------------------------------------------------
// invariants

type groupView struct {
	ID          uint64
	Start, End  string
	DeletedAt   string `json:",omitempty"`
	TruncatedAt string `json:",omitempty"`
	Shards      []uint64
}

func viewGroup(g *meta.ShardGroupInfo) groupView {
	v := groupView{ID: g.ID, Start: g.StartTime.UTC().Format(time.RFC3339Nano), End: g.EndTime.UTC().Format(time.RFC3339Nano)}
	if g.Deleted() {
		v.DeletedAt = g.DeletedAt.UTC().Format(time.RFC3339Nano)
	}
	if g.Truncated() {
		v.TruncatedAt = g.TruncatedAt.UTC().Format(time.RFC3339Nano)
	}
	for _, s := range g.Shards {
		v.Shards = append(v.Shards, s.ID)
	}
	return v
}

func viewGroups(rpi *meta.RetentionPolicyInfo) []groupView {
	var out []groupView
	if rpi == nil {
		return nil
	}
	for i := range rpi.ShardGroups {
		out = append(out, viewGroup(&rpi.ShardGroups[i]))
	}
	return out
}

func (h *hist) caseJSON(extra map[string]any) map[string]any {
	m := map[string]any{"steps": h.log}
	data := h.mc.Data()
	for _, r := range h.rps {
		m["groups:"+r.name] = viewGroups(h.rp(&data, r.name))
	}
	for k, v := range extra {
		m[k] = v
	}
	return m
}

// effEnd is the end of the range in which a live group still takes new writes.
func effEnd(g *meta.ShardGroupInfo) time.Time {
	if g.Truncated() {
		return g.TruncatedAt
	}
	return g.EndTime
}

// checkDisjoint is I2.
func (h *hist) checkDisjoint(t *rapid.T) {
	data := h.mc.Data()
	for _, r := range h.rps {
		rpi := h.rp(&data, r.name)
		if rpi == nil {
			rec.Fail(t, "TestPropShardGroupHistory", "policy-lost", "retention policy "+r.name+" disappeared", h.caseJSON(nil))
		}
		var live []*meta.ShardGroupInfo
		for i := range rpi.ShardGroups {
			g := &rpi.ShardGroups[i]
			if g.Deleted() {
				continue
			}
			if !g.StartTime.Before(g.EndTime) {
				rec.Fail(t, "TestPropShardGroupHistory", "empty-or-inverted-group",
					fmt.Sprintf("policy %s: live group %d has start %s >= end %s", r.name, g.ID, g.StartTime, g.EndTime), h.caseJSON(nil))
			}
			live = append(live, g)
		}
		for i := 0; i < len(live); i++ {
			for j := i + 1; j < len(live); j++ {
				a, b := live[i], live[j]
				// [a.start, a.eff) and [b.start, b.eff) intersect?
				if a.StartTime.Before(effEnd(b)) && b.StartTime.Before(effEnd(a)) {
					rec.Fail(t, "TestPropShardGroupHistory", "live-groups-overlap",
						fmt.Sprintf("policy %s: live groups %d [%s,%s) and %d [%s,%s) overlap", r.name,
							a.ID, a.StartTime.UTC().Format(time.RFC3339Nano), effEnd(a).UTC().Format(time.RFC3339Nano),
							b.ID, b.StartTime.UTC().Format(time.RFC3339Nano), effEnd(b).UTC().Format(time.RFC3339Nano)), h.caseJSON(nil))
				}
			}
		}
	}
}

// checkFound is I3.
func (h *hist) checkFound(t *rapid.T, when string) {
	data := h.mc.Data()
	for _, r := range h.rps {
		rpi := h.rp(&data, r.name)
		liveByID := map[uint64]bool{}
		for i := range rpi.ShardGroups {
			if !rpi.ShardGroups[i].Deleted() {
				liveByID[rpi.ShardGroups[i].ID] = true
			}
		}
		keys := make([][2]int64, 0, len(r.written))
		for k := range r.written {
			keys = append(keys, k)
		}
		sort.Slice(keys, func(i, j int) bool {
			if keys[i][0] != keys[j][0] {
				return keys[i][0] < keys[j][0]
			}
			return keys[i][1] < keys[j][1]
		})
		for _, k := range keys {
			ts, gid := k[0], uint64(k[1])
			if !liveByID[gid] {
				continue // group deleted since: its data is gone by request
			}
			at := time.Unix(0, ts)
			gs, err := h.mc.ShardGroupsByTimeRange(dbName, r.name, at, at)
			if err != nil {
				rec.Fail(t, "TestPropShardGroupHistory", "range-query-error", err.Error(), h.caseJSON(nil))
			}
			ok := false
			for i := range gs {
				if gs[i].ID == gid {
					ok = true
				}
			}
			if !ok {
				rec.Fail(t, "TestPropShardGroupHistory", "written-timestamp-not-found",
					fmt.Sprintf("%s: policy %s: timestamp %d was routed to live group %d but ShardGroupsByTimeRange(t,t) does not return that group", when, r.name, ts, gid),
					h.caseJSON(map[string]any{"timestamp": ts, "group": gid}))
			}
		}
	}
}

// diffData compares two metadata images field by field (I4); "" when identical.
func diffData(a, b *meta.Data) string {
	if a.MaxShardGroupID != b.MaxShardGroupID || a.MaxShardID != b.MaxShardID {
		return fmt.Sprintf("max ids %d/%d -> %d/%d", a.MaxShardGroupID, a.MaxShardID, b.MaxShardGroupID, b.MaxShardID)
	}
	if len(a.Databases) != len(b.Databases) {
		return "number of databases changed"
	}
	for i := range a.Databases {
		da, db := &a.Databases[i], &b.Databases[i]
		if da.Name != db.Name || da.DefaultRetentionPolicy != db.DefaultRetentionPolicy || len(da.RetentionPolicies) != len(db.RetentionPolicies) {
			return "database header changed"
		}
		for j := range da.RetentionPolicies {
			ra, rb := &da.RetentionPolicies[j], &db.RetentionPolicies[j]
			if ra.Name != rb.Name || ra.Duration != rb.Duration || ra.ShardGroupDuration != rb.ShardGroupDuration || ra.ReplicaN != rb.ReplicaN {
				return fmt.Sprintf("policy %s: header changed (%v/%v -> %v/%v)", ra.Name, ra.Duration, ra.ShardGroupDuration, rb.Duration, rb.ShardGroupDuration)
			}
			if len(ra.ShardGroups) != len(rb.ShardGroups) {
				return fmt.Sprintf("policy %s: %d groups -> %d groups", ra.Name, len(ra.ShardGroups), len(rb.ShardGroups))
			}
			for k := range ra.ShardGroups {
				ga, gb := &ra.ShardGroups[k], &rb.ShardGroups[k]
				tm := func(x, y time.Time) bool { return x.IsZero() == y.IsZero() && x.Equal(y) }
				switch {
				case ga.ID != gb.ID:
					return fmt.Sprintf("policy %s: group order/id changed at %d: %d -> %d", ra.Name, k, ga.ID, gb.ID)
				case !tm(ga.StartTime, gb.StartTime):
					return fmt.Sprintf("policy %s group %d: start %s -> %s", ra.Name, ga.ID, ga.StartTime.UTC().Format(time.RFC3339Nano), gb.StartTime.UTC().Format(time.RFC3339Nano))
				case !tm(ga.EndTime, gb.EndTime):
					return fmt.Sprintf("policy %s group %d: end %s -> %s", ra.Name, ga.ID, ga.EndTime.UTC().Format(time.RFC3339Nano), gb.EndTime.UTC().Format(time.RFC3339Nano))
				case !tm(ga.DeletedAt, gb.DeletedAt):
					return fmt.Sprintf("policy %s group %d: deletedAt %s -> %s", ra.Name, ga.ID, ga.DeletedAt, gb.DeletedAt)
				case !tm(ga.TruncatedAt, gb.TruncatedAt):
					return fmt.Sprintf("policy %s group %d: truncatedAt %s -> %s", ra.Name, ga.ID, ga.TruncatedAt, gb.TruncatedAt)
				case len(ga.Shards) != len(gb.Shards):
					return fmt.Sprintf("policy %s group %d: %d shards -> %d shards", ra.Name, ga.ID, len(ga.Shards), len(gb.Shards))
				}
				for s := range ga.Shards {
					if ga.Shards[s].ID != gb.Shards[s].ID {
						return fmt.Sprintf("policy %s group %d: shard id %d -> %d", ra.Name, ga.ID, ga.Shards[s].ID, gb.Shards[s].ID)
					}
				}
			}
		}
	}
	return ""
}

// belowMin returns the groups whose start lies before the earliest representable UnixNano
// instant: exactly the signature of the known finding.
func belowMin(d *meta.Data) []string {
	var out []string
	for i := range d.Databases {
		for j := range d.Databases[i].RetentionPolicies {
			rp := &d.Databases[i].RetentionPolicies[j]
			for k := range rp.ShardGroups {
				if rp.ShardGroups[k].StartTime.Before(minRep) {
					out = append(out, fmt.Sprintf("%s/%d", rp.Name, rp.ShardGroups[k].ID))
				}
			}
		}
	}
	return out
}

// checkPersisted is I4 through Data.MarshalBinary/UnmarshalBinary (what commit() stores).
func (h *hist) checkPersisted(t *rapid.T, when string) {
	before := h.mc.Data()
	buf, err := before.MarshalBinary()
	if err != nil {
		rec.Fail(t, "TestPropShardGroupHistory", "marshal-error", err.Error(), h.caseJSON(nil))
	}
	var after meta.Data
	if err := after.UnmarshalBinary(buf); err != nil {
		rec.Fail(t, "TestPropShardGroupHistory", "unmarshal-error", err.Error(), h.caseJSON(nil))
	}
	if d := diffData(&before, &after); d != "" {
		key := "bounds-changed-by-reload"
		if len(belowMin(&before)) > 0 {
			key = knownKey
		}
		rec.Fail(t, "TestPropShardGroupHistory", key, when+": MarshalBinary/UnmarshalBinary changed the metadata: "+d, h.caseJSON(nil))
	}
}

// ---------------------------------------------------------------------------------------------
// steps

// mapShards is one write batch; checks I1.
func (h *hist) mapShards(t *rapid.T, r *rpState, step int) (extreme bool) {
	n := rapid.IntRange(1, 6).Draw(t, "batch-size")
	tss := make([]int64, n)
	pts := make([]models.Point, n)
	for i := range tss {
		var cls string
		tss[i], cls = h.drawTs(t, r, fmt.Sprintf("ts%d", i))
		rec.Class("ts:" + cls)
		if tss[i] < 0 {
			rec.Class("ts-sign:pre-1970")
		} else {
			rec.Class("ts-sign:post-1970")
		}
		if tss[i] < 0 || isExtreme(tss[i], r.sgd) {
			extreme = true
		}
		p, err := models.NewPoint("m", models.NewTags(map[string]string{"k": fmt.Sprint(i % 3)}), models.Fields{"v": int64(i)}, time.Unix(0, tss[i]))
		if err != nil {
			t.Fatalf("harness: cannot build point at %d: %v", tss[i], err)
		}
		pts[i] = p
	}
	h.logf("map %s %v", r.name, tss)
	m, err := h.pw.MapShards(&coordinator.WritePointsRequest{Database: dbName, RetentionPolicy: r.name, Points: pts})
	if err != nil {
		rec.Fail(t, "TestPropShardGroupHistory", "mapshards-error", fmt.Sprintf("MapShards(%v) on policy %s failed: %v", tss, r.name, err), h.caseJSON(nil))
	}
	if m.Dropped() != 0 {
		rec.Fail(t, "TestPropShardGroupHistory", "dropped-with-infinite-retention",
			fmt.Sprintf("MapShards(%v) dropped %d point(s) although the retention period is infinite", tss, m.Dropped()), h.caseJSON(nil))
	}
	// each point exactly once
	seen := make([]int, n)
	shardOf := make([]uint64, n)
	for sid, ps := range m.Points {
		if si, ok := m.Shards[sid]; !ok || si == nil || si.ID != sid {
			rec.Fail(t, "TestPropShardGroupHistory", "mapping-without-shard-info", fmt.Sprintf("shard %d has points but no ShardInfo", sid), h.caseJSON(nil))
		}
		for _, p := range ps {
			idx := -1
			for i := range pts {
				if pts[i] == p {
					idx = i
				}
			}
			if idx < 0 {
				rec.Fail(t, "TestPropShardGroupHistory", "foreign-point-in-mapping", "mapping contains a point that was not in the batch", h.caseJSON(nil))
			}
			seen[idx]++
			shardOf[idx] = sid
		}
	}
	data := h.mc.Data()
	rpi := h.rp(&data, r.name)
	for i := range pts {
		if seen[i] != 1 {
			rec.Fail(t, "TestPropShardGroupHistory", "point-not-mapped-exactly-once",
				fmt.Sprintf("point %d (t=%d) of batch %v is mapped %d times", i, tss[i], tss, seen[i]), h.caseJSON(nil))
		}
		var owners []*meta.ShardGroupInfo
		for gi := range rpi.ShardGroups {
			for _, s := range rpi.ShardGroups[gi].Shards {
				if s.ID == shardOf[i] {
					owners = append(owners, &rpi.ShardGroups[gi])
				}
			}
		}
		if len(owners) != 1 {
			rec.Fail(t, "TestPropShardGroupHistory", "shard-not-in-one-group",
				fmt.Sprintf("shard %d chosen for t=%d belongs to %d groups of policy %s", shardOf[i], tss[i], len(owners), r.name), h.caseJSON(nil))
		}
		g := owners[0]
		at := time.Unix(0, tss[i])
		if g.Deleted() {
			rec.Fail(t, "TestPropShardGroupHistory", "routed-to-deleted-group",
				fmt.Sprintf("t=%d routed to shard %d of deleted group %d", tss[i], shardOf[i], g.ID), h.caseJSON(nil))
		}
		if at.Before(g.StartTime) || !at.Before(g.EndTime) {
			rec.Fail(t, "TestPropShardGroupHistory", "point-outside-its-group",
				fmt.Sprintf("t=%d (%s) routed to group %d [%s, %s) which does not contain it", tss[i], at.UTC().Format(time.RFC3339Nano), g.ID,
					g.StartTime.UTC().Format(time.RFC3339Nano), g.EndTime.UTC().Format(time.RFC3339Nano)),
				h.caseJSON(map[string]any{"timestamp": tss[i], "group": viewGroup(g)}))
		}
		r.written[[2]int64{tss[i], int64(g.ID)}] = struct{}{}
		r.prev = append(r.prev, tss[i])
	}
	return extreme
}

func liveGroups(rpi *meta.RetentionPolicyInfo) []*meta.ShardGroupInfo {
	var out []*meta.ShardGroupInfo
	for i := range rpi.ShardGroups {
		if !rpi.ShardGroups[i].Deleted() {
			out = append(out, &rpi.ShardGroups[i])
		}
	}
	return out
}

// query is I5.
func (h *hist) query(t *rapid.T, r *rpState) {
	a, _ := h.drawTs(t, r, "qa")
	b, _ := h.drawTs(t, r, "qb")
	if a > b {
		a, b = b, a
	}
	h.logf("query %s [%d,%d]", r.name, a, b)
	tmin, tmax := time.Unix(0, a), time.Unix(0, b)
	got, err := h.mc.ShardGroupsByTimeRange(dbName, r.name, tmin, tmax)
	if err != nil {
		rec.Fail(t, "TestPropShardGroupHistory", "range-query-error", err.Error(), h.caseJSON(nil))
	}
	data := h.mc.Data()
	want := map[uint64]bool{}
	for _, g := range liveGroups(h.rp(&data, r.name)) {
		if g.StartTime.Compare(tmax) <= 0 && g.EndTime.Compare(tmin) > 0 {
			want[g.ID] = true
		}
	}
	gotIDs := map[uint64]bool{}
	for i := range got {
		if gotIDs[got[i].ID] {
			rec.Fail(t, "TestPropShardGroupHistory", "range-query-duplicate", fmt.Sprintf("group %d returned twice", got[i].ID), h.caseJSON(nil))
		}
		gotIDs[got[i].ID] = true
	}
	for id := range want {
		if !gotIDs[id] {
			rec.Fail(t, "TestPropShardGroupHistory", "range-query-misses-group",
				fmt.Sprintf("ShardGroupsByTimeRange(%s,[%d,%d]) misses live group %d which intersects the range", r.name, a, b, id),
				h.caseJSON(map[string]any{"min": a, "max": b}))
		}
	}
	for id := range gotIDs {
		if !want[id] {
			rec.Fail(t, "TestPropShardGroupHistory", "range-query-extra-group",
				fmt.Sprintf("ShardGroupsByTimeRange(%s,[%d,%d]) returns group %d which is deleted or does not intersect the range", r.name, a, b, id),
				h.caseJSON(map[string]any{"min": a, "max": b}))
		}
	}
	if len(want) > 0 {
		rec.Class("query:non-empty-result")
	} else {
		rec.Class("query:empty-result")
	}
}

// reload is I4 through a fresh client on the same KV store (what a restart does).
func (h *hist) reload(t *rapid.T) {
	before := h.mc.Data()
	variant := rapid.SampledFrom([]string{"new-client", "new-client", "client-reload", "setdata-roundtrip"}).Draw(t, "reload-variant")
	h.logf("reload %s", variant)
	rec.Class("reload:" + variant)
	switch variant {
	case "new-client":
		_ = h.mc.Close()
		mc, err := newClient(h.kv)
		if err != nil {
			rec.Fail(t, "TestPropShardGroupHistory", "reopen-error", err.Error(), h.caseJSON(nil))
		}
		h.mc = mc
		h.pw.MetaClient = mc
	case "client-reload":
		if err := h.mc.Reload(); err != nil {
			rec.Fail(t, "TestPropShardGroupHistory", "reload-error", err.Error(), h.caseJSON(nil))
		}
	default:
		// backup/restore style: binary image decoded into a new Data which replaces the store content
		buf, err := h.mc.MarshalBinary()
		if err != nil {
			rec.Fail(t, "TestPropShardGroupHistory", "marshal-error", err.Error(), h.caseJSON(nil))
		}
		var d meta.Data
		if err := d.UnmarshalBinary(buf); err != nil {
			rec.Fail(t, "TestPropShardGroupHistory", "unmarshal-error", err.Error(), h.caseJSON(nil))
		}
		if err := h.mc.SetData(&d); err != nil {
			rec.Fail(t, "TestPropShardGroupHistory", "setdata-error", err.Error(), h.caseJSON(nil))
		}
	}
	after := h.mc.Data()
	if d := diffData(&before, &after); d != "" {
		key := "bounds-changed-by-reload"
		if len(belowMin(&before)) > 0 {
			key = knownKey
		}
		rec.Fail(t, "TestPropShardGroupHistory", key, "reload ("+variant+") changed the metadata: "+d, h.caseJSON(nil))
	}
}

var stepKinds = []string{"map", "map", "map", "map", "map", "reload", "reload", "query", "query", "update", "update", "delete", "dropshard", "truncate", "precreate"}

func TestPropShardGroupHistory(t *testing.T) {
	rec.CheckSteps(t, 25000, 400000, 0, func(t *rapid.T) {
		kv := inmem.NewKVStore()
		if err := kv.CreateBucket(context.Background(), meta.BucketName); err != nil {
			t.Fatalf("harness: %v", err)
		}
		mc, err := newClient(kv)
		if err != nil {
			t.Fatalf("harness: %v", err)
		}
		h := &hist{kv: kv, mc: mc, pw: coordinator.NewPointsWriter(time.Second, "c18")}
		h.pw.MetaClient = mc
		h.minZone = rapid.IntRange(0, 3).Draw(t, "min-zone") == 0
		rec.Class(fmt.Sprintf("history:min-zone=%v", h.minZone))

		nRP := rapid.IntRange(1, 2).Draw(t, "policies")
		zero := time.Duration(0)
		for i := 0; i < nRP; i++ {
			d, cls := drawDuration(t, fmt.Sprintf("sgd%d", i))
			rec.Class("duration:" + cls)
			name := fmt.Sprintf("rp%d", i)
			spec := &meta.RetentionPolicySpec{Name: name, Duration: &zero, ShardGroupDuration: d}
			if i == 0 {
				_, err = h.mc.CreateDatabaseWithRetentionPolicy(dbName, spec)
			} else {
				_, err = h.mc.CreateRetentionPolicy(dbName, spec, false)
			}
			if err != nil {
				t.Fatalf("harness: create policy %s (%v): %v", name, d, err)
			}
			rpi, err := h.mc.RetentionPolicy(dbName, name)
			if err != nil || rpi == nil {
				t.Fatalf("harness: policy %s not readable: %v", name, err)
			}
			h.rps = append(h.rps, &rpState{name: name, sgd: rpi.ShardGroupDuration, written: map[[2]int64]struct{}{}})
			h.logf("create %s sgd=%d (asked %d)", name, rpi.ShardGroupDuration, d)
		}

		nSteps := rapid.IntRange(4, 14).Draw(t, "steps")
		// non-trivial rule tracking: 0 nothing, 1 extreme batch seen, 2 reload after it, 3 map after that
		stage := 0
		for step := 0; step < nSteps; step++ {
			kind := rapid.SampledFrom(stepKinds).Draw(t, fmt.Sprintf("step%d", step))
			r := h.rps[rapid.IntRange(0, len(h.rps)-1).Draw(t, "policy")]
			rec.Class("step:" + kind)
			switch kind {
			case "map":
				ext := h.mapShards(t, r, step)
				if stage == 2 {
					stage = 3
				}
				if ext && stage == 0 {
					stage = 1
				}
			case "reload":
				h.reload(t)
				if stage == 1 {
					stage = 2
				}
			case "query":
				h.query(t, r)
			case "update":
				d, cls := drawDuration(t, "new-sgd")
				rec.Class("duration:" + cls)
				rpu := &meta.RetentionPolicyUpdate{}
				rpu.SetShardGroupDuration(d)
				if err := h.mc.UpdateRetentionPolicy(dbName, r.name, rpu, false); err != nil {
					rec.Fail(t, "TestPropShardGroupHistory", "update-policy-error", err.Error(), h.caseJSON(nil))
				}
				rpi, _ := h.mc.RetentionPolicy(dbName, r.name)
				r.sgd = rpi.ShardGroupDuration
				h.logf("update %s sgd=%d (asked %d)", r.name, r.sgd, d)
			case "delete", "dropshard":
				data := h.mc.Data()
				live := liveGroups(h.rp(&data, r.name))
				if len(live) == 0 {
					rec.Class("step-skipped:no-live-group")
					continue
				}
				g := live[rapid.IntRange(0, len(live)-1).Draw(t, "victim")]
				h.logf("%s %s group %d", kind, r.name, g.ID)
				if kind == "delete" {
					err = h.mc.DeleteShardGroup(dbName, r.name, g.ID)
				} else {
					for _, s := range g.Shards {
						if e := h.mc.DropShard(s.ID); e != nil {
							err = e
						}
					}
				}
				if err != nil {
					rec.Fail(t, "TestPropShardGroupHistory", "delete-group-error", err.Error(), h.caseJSON(nil))
				}
			case "truncate":
				at, _ := h.drawTs(t, r, "trunc")
				if at <= 0 {
					// precondition (see assumptions): truncation instants are after the epoch
					at = clampNano(addSat(-at, 1))
				}
				h.logf("truncate %d", at)
				if err := h.mc.TruncateShardGroups(time.Unix(0, at)); err != nil {
					rec.Fail(t, "TestPropShardGroupHistory", "truncate-error", err.Error(), h.caseJSON(nil))
				}
			case "precreate":
				a, _ := h.drawTs(t, r, "pre-from")
				b, _ := h.drawTs(t, r, "pre-to")
				if a > b {
					a, b = b, a
				}
				h.logf("precreate [%d,%d]", a, b)
				if err := h.mc.PrecreateShardGroups(time.Unix(0, a), time.Unix(0, b)); err != nil {
					rec.Fail(t, "TestPropShardGroupHistory", "precreate-error", err.Error(), h.caseJSON(nil))
				}
			}

			// invariants that hold on the live (in-memory) metadata, known finding or not
			h.checkDisjoint(t)
			h.checkFound(t, "after step "+kind)

			// the known finding: a group whose start is before the earliest representable
			// UnixNano instant cannot survive persistence. Exactly that signature is counted and
			// the history ends; everything checked so far still had to hold.
			if d := h.mc.Data(); len(belowMin(&d)) > 0 && ev.KnownOpen(propID, knownKey) {
				rec.ExcludedKnown(knownKey)
				rec.Eval()
				return
			}
			h.checkPersisted(t, "after step "+kind)
		}
		rec.Eval()
		if stage == 3 {
			rec.NonTrivial(strings.Join(h.log, ";"))
			rec.Class("history:non-trivial")
		}
		if rec.WantSample() && stage == 3 {
			rec.Sample(h.caseJSON(nil))
		}
	})
}

// ---------------------------------------------------------------------------------------------
// pure round trips

func TestPropTimeRoundTrip(t *testing.T) {
	int64s := rapid.OneOf(
		rapid.SampledFrom([]int64{math.MinInt64, math.MinInt64 + 1, models.MinNanoTime, -1, 0, 1, models.MaxNanoTime, math.MaxInt64}),
		rapid.Int64(),
		rapid.Int64Range(-10, 10),
	)
	rec.Check(t, 200000, 3000000, func(t *rapid.T) {
		// (a) MarshalTime / UnmarshalTime
		v := int64s.Draw(t, "v")
		tm := meta.UnmarshalTime(v)
		if v == 0 {
			if !tm.IsZero() {
				rec.Fail(t, "TestPropTimeRoundTrip", "unmarshal-zero", "UnmarshalTime(0) is documented to return the zero time", v)
			}
		} else if !tm.Equal(time.Unix(0, v)) {
			rec.Fail(t, "TestPropTimeRoundTrip", "unmarshal-time", fmt.Sprintf("UnmarshalTime(%d) = %s", v, tm), v)
		}
		if back := meta.MarshalTime(tm); back != v {
			rec.Fail(t, "TestPropTimeRoundTrip", "marshal-time", fmt.Sprintf("MarshalTime(UnmarshalTime(%d)) = %d", v, back), v)
		}
		if meta.MarshalTime(time.Time{}) != 0 {
			rec.Fail(t, "TestPropTimeRoundTrip", "marshal-zero", "MarshalTime(zero time) is documented to return 0", nil)
		}

		// (b) a policy with arbitrary representable group bounds
		n := rapid.IntRange(0, 5).Draw(t, "groups")
		rpi := meta.RetentionPolicyInfo{Name: "rp", ReplicaN: 1,
			Duration:           time.Duration(rapid.Int64Range(0, math.MaxInt64).Draw(t, "duration")),
			ShardGroupDuration: time.Duration(rapid.Int64Range(1, math.MaxInt64).Draw(t, "sgd"))}
		nonEpoch := func(label string) time.Time {
			x := int64s.Draw(t, label)
			if x == 0 {
				x = 1 // the epoch instant is documented as not representable for deletedAt/truncatedAt
			}
			return time.Unix(0, x).UTC()
		}
		epochBound := false
		for i := 0; i < n; i++ {
			a, b := int64s.Draw(t, "start"), int64s.Draw(t, "end")
			if a > b {
				a, b = b, a
			}
			if a == 0 || b == 0 {
				epochBound = true
			}
			g := meta.ShardGroupInfo{ID: uint64(i + 1), StartTime: time.Unix(0, a).UTC(), EndTime: time.Unix(0, b).UTC(),
				Shards: []meta.ShardInfo{{ID: uint64(100 + i)}}}
			if rapid.Bool().Draw(t, "deleted") {
				g.DeletedAt = nonEpoch("deletedAt")
			}
			if rapid.Bool().Draw(t, "truncated") {
				g.TruncatedAt = nonEpoch("truncatedAt")
			}
			rpi.ShardGroups = append(rpi.ShardGroups, g)
		}
		buf, err := rpi.MarshalBinary()
		if err != nil {
			rec.Fail(t, "TestPropTimeRoundTrip", "marshal-error", err.Error(), nil)
		}
		var back meta.RetentionPolicyInfo
		if err := back.UnmarshalBinary(buf); err != nil {
			rec.Fail(t, "TestPropTimeRoundTrip", "unmarshal-error", err.Error(), nil)
		}
		da := &meta.Data{Databases: []meta.DatabaseInfo{{Name: "d", RetentionPolicies: []meta.RetentionPolicyInfo{rpi}}}}
		dbk := &meta.Data{Databases: []meta.DatabaseInfo{{Name: "d", RetentionPolicies: []meta.RetentionPolicyInfo{back}}}}
		if d := diffData(da, dbk); d != "" {
			rec.Fail(t, "TestPropTimeRoundTrip", "policy-roundtrip", "RetentionPolicyInfo.MarshalBinary/UnmarshalBinary: "+d, viewGroups(&rpi))
		}
		rec.Eval()
		switch {
		case v == 0:
			rec.Class("roundtrip:int64-zero")
		case v < 0:
			rec.Class("roundtrip:int64-negative")
		default:
			rec.Class("roundtrip:int64-positive")
		}
		if epochBound {
			rec.Class("roundtrip:group-bound-at-epoch")
		}
		if n > 0 && (epochBound || v <= models.MinNanoTime || v >= models.MaxNanoTime || v == 0) {
			rec.NonTrivial(fmt.Sprintf("rt|%d|%v", v, viewGroups(&rpi)))
		}
	})
}

// ---------------------------------------------------------------------------------------------
// known finding

// TestKnown_shardgroup_start_wraps_below_min_time: a point 5 ns after MinNanoTime with a 1 h
// shard-group duration gets the group [1677-09-21T00:00Z, 01:00Z): the start is before the
// earliest instant an int64 nanosecond count can express (CreateShardGroup clamps only the upper
// end), so persisting it wraps the start to 2262-04-11T23:34:33.709551616Z. After a restart the
// group is [2262, 1677): it no longer contains its point and ShardGroupsByTimeRange cannot find it.
func TestKnown_shardgroup_start_wraps_below_min_time(t *testing.T) {
	kv := inmem.NewKVStore()
	if err := kv.CreateBucket(context.Background(), meta.BucketName); err != nil {
		t.Fatal(err)
	}
	mc, err := newClient(kv)
	if err != nil {
		t.Fatal(err)
	}
	zero := time.Duration(0)
	if _, err := mc.CreateDatabaseWithRetentionPolicy(dbName, &meta.RetentionPolicySpec{Name: "rp0", Duration: &zero, ShardGroupDuration: time.Hour}); err != nil {
		t.Fatal(err)
	}
	pw := coordinator.NewPointsWriter(time.Second, "c18-known")
	pw.MetaClient = mc
	ts := models.MinNanoTime + 5
	at := time.Unix(0, ts)
	p := models.MustNewPoint("m", nil, models.Fields{"v": 1.0}, at)
	m, err := pw.MapShards(&coordinator.WritePointsRequest{Database: dbName, RetentionPolicy: "rp0", Points: []models.Point{p}})
	if err != nil || m.Dropped() != 0 || len(m.Points) != 1 {
		t.Fatalf("MapShards: %v %+v", err, m)
	}
	before := mc.Data()
	g0 := before.Databases[0].RetentionPolicies[0].ShardGroups[0]
	containsBefore := g0.Contains(at)
	startBelow := g0.StartTime.Before(minRep)

	mc2, err := newClient(kv) // restart
	if err != nil {
		t.Fatal(err)
	}
	after := mc2.Data()
	g1 := after.Databases[0].RetentionPolicies[0].ShardGroups[0]
	found, err := mc2.ShardGroupsByTimeRange(dbName, "rp0", at, at)
	if err != nil {
		t.Fatal(err)
	}
	reproduced := containsBefore && startBelow && (!g1.StartTime.Equal(g0.StartTime) || !g1.Contains(at) || len(found) == 0)
	rec.Known(t, "TestKnown_shardgroup_start_wraps_below_min_time", knownKey, reproduced,
		fmt.Sprintf("point at MinNanoTime+5 with 1h shard groups is routed to group [%s, %s) whose start is before the earliest representable UnixNano instant; after reload the group reads [%s, %s), contains(point)=%v, ShardGroupsByTimeRange(point,point) returns %d groups",
			g0.StartTime.UTC().Format(time.RFC3339Nano), g0.EndTime.UTC().Format(time.RFC3339Nano),
			g1.StartTime.UTC().Format(time.RFC3339Nano), g1.EndTime.UTC().Format(time.RFC3339Nano), g1.Contains(at), len(found)),
		map[string]any{"timestamp": ts, "shard_group_duration": "1h", "before": viewGroup(&g0), "after": viewGroup(&g1)})
}
