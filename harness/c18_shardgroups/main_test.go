package c18_shardgroups

import (
	"testing"

	"verifharness/internal/ev"
)

func TestMain(m *testing.M) { ev.Main(m) }
