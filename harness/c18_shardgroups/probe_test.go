package c18_shardgroups

import (
	"context"
	"fmt"
	"testing"
	"time"

	"github.com/influxdata/influxdb/v2/inmem"
	"github.com/influxdata/influxdb/v2/models"
	"github.com/influxdata/influxdb/v2/v1/coordinator"
	"github.com/influxdata/influxdb/v2/v1/services/meta"
)

func TestProbe(t *testing.T) {
	kv := inmem.NewKVStore()
	kv.CreateBucket(context.Background(), meta.BucketName)
	mc := meta.NewClient(meta.NewConfig(), kv)
	if err := mc.Open(); err != nil {
		t.Fatal(err)
	}
	zero := time.Duration(0)
	_, err := mc.CreateDatabaseWithRetentionPolicy("db", &meta.RetentionPolicySpec{Name: "rp0", Duration: &zero, ShardGroupDuration: time.Hour})
	fmt.Println(err)
	pw := coordinator.NewPointsWriter(time.Second, "x")
	pw.MetaClient = mc
	p := models.MustNewPoint("m", nil, models.Fields{"v": 1.0}, time.Unix(0, models.MinNanoTime+5))
	p2 := models.MustNewPoint("m", nil, models.Fields{"v": 1.0}, time.Unix(0, 10))
	m, err := pw.MapShards(&coordinator.WritePointsRequest{Database: "db", RetentionPolicy: "rp0", Points: []models.Point{p, p2}})
	fmt.Println(m.Points, err, m.Dropped())
	d := mc.Data()
	for _, g := range d.Databases[0].RetentionPolicies[0].ShardGroups {
		fmt.Println("before", g.ID, g.StartTime, g.EndTime, g.Contains(p.Time()))
	}
	mc.TruncateShardGroups(time.Unix(0, 0))
	d = mc.Data()
	for _, g := range d.Databases[0].RetentionPolicies[0].ShardGroups {
		fmt.Println("trunc", g.ID, g.StartTime, g.EndTime, g.TruncatedAt, g.Truncated())
	}
	mc2 := meta.NewClient(meta.NewConfig(), kv)
	mc2.Open()
	d = mc2.Data()
	for _, g := range d.Databases[0].RetentionPolicies[0].ShardGroups {
		fmt.Println("after", g.ID, g.StartTime, g.EndTime, g.Contains(p.Time()), g.TruncatedAt, g.Truncated())
	}
	gs, _ := mc2.ShardGroupsByTimeRange("db", "rp0", p.Time(), p.Time())
	fmt.Println(len(gs))
}
