package c26_queue

import (
	"bytes"
	"fmt"
	"io"
	"os"
	"path/filepath"
	"testing"

	"github.com/influxdata/influxdb/v2/pkg/durablequeue"
)

// helpers for the deterministic reproducers (no rapid involved)

func knownQueue(t *testing.T, dir string, maxSize, seg int64) *durablequeue.Queue {
	t.Helper()
	q, err := durablequeue.NewQueue(dir, maxSize, seg, &durablequeue.SharedCount{}, durablequeue.MaxWritesPending, nopVerify)
	if err != nil {
		t.Fatal(err)
	}
	return q
}

// readAll opens a queue on dir and reads it to the end with Current/Advance.
func readAll(t *testing.T, dir string, maxSize, seg int64) (out [][]byte, problem string) {
	q := knownQueue(t, dir, maxSize, seg)
	if err := q.Open(); err != nil {
		return nil, "Open: " + err.Error()
	}
	defer q.Close()
	for i := 0; i < 100; i++ {
		b, err := q.Current()
		if err == io.EOF {
			return out, ""
		}
		if err != nil {
			return out, "Current: " + err.Error()
		}
		out = append(out, append([]byte{}, b...))
		if err := q.Advance(); err != nil {
			return out, "Advance: " + err.Error()
		}
	}
	return out, "no end"
}

func knownRoot(t *testing.T) string {
	r := scratchRoot()
	t.Cleanup(func() { os.RemoveAll(r) })
	return r
}

// TestKnown_torn_append_body_as_footer: e1, e2 appended (nothing advanced), then an append of six
// big-endian words 20 (= offset of e2's record) is torn after len + 8k body bytes: the file is the
// old file with that prefix of the single append write applied. On reopen the last 8 bytes (body
// bytes) are taken as head position: e1 is never delivered.
func TestKnown_torn_append_body_as_footer(t *testing.T) {
	root := knownRoot(t)
	d := filepath.Join(root, "live")
	os.MkdirAll(d, 0o755)
	q := knownQueue(t, d, 4096, 1024)
	if err := q.Open(); err != nil {
		t.Fatal(err)
	}
	e1, e2 := []byte("entry-one-xx"), []byte("entry-two-xx")
	if err := q.Append(e1); err != nil {
		t.Fatal(err)
	}
	if err := q.Append(e2); err != nil {
		t.Fatal(err)
	}
	A := snap(d)
	var body []byte
	for i := 0; i < 6; i++ {
		body = append(body, be64(20)...)
	}
	if err := q.Append(body); err != nil {
		t.Fatal(err)
	}
	B := snap(d)
	q.Close()
	imgs, _, ok := appendImages(A, B, body)
	if !ok {
		t.Fatalf("append did not change the files in the documented way")
	}
	reproduced := false
	var detail string
	var lostAt []string
	for _, img := range imgs {
		di := filepath.Join(root, "img")
		os.RemoveAll(di)
		img.files.write(di)
		got, problem := readAll(t, di, 4096, 1024)
		_, _, _, valid := decompose(got, [][]byte{e1, e2}, 0, 0, body, true, false)
		if valid && problem == "" {
			continue
		}
		if !img.sigAppend {
			t.Errorf("image %s fails (%s, delivered %s) without carrying the finding's signature", img.name, problem, hexs(got))
			continue
		}
		lostAt = append(lostAt, img.name)
		if !reproduced {
			detail = fmt.Sprintf("%s: delivered %s, then %q", img.name, hexs(got), problem)
		}
		reproduced = true
	}
	rec.Known(t, "TestKnown_torn_append_body_as_footer", keyTornAppend, reproduced,
		"durablequeue: after appends e1,e2 (nothing advanced) a torn append of six big-endian words 20 makes reopen take body bytes as the head position, e1 is lost ("+detail+")",
		map[string]any{"entries_hex": hexs([][]byte{e1, e2, body}), "failing_images": lostAt})
}

// TestKnown_short_segment_file_open_fails: a crash while a new segment file receives its initial
// 8-byte footer (roll-over during Append, or trimHead during Advance) leaves a file of 1..7
// bytes; Queue.Open then fails for the whole queue, nothing is delivered any more.
func TestKnown_short_segment_file_open_fails(t *testing.T) {
	root := knownRoot(t)
	d := filepath.Join(root, "live")
	os.MkdirAll(d, 0o755)
	q := knownQueue(t, d, 4096, 1024)
	if err := q.Open(); err != nil {
		t.Fatal(err)
	}
	e1 := []byte("entry-one")
	if err := q.Append(e1); err != nil {
		t.Fatal(err)
	}
	q.Close()
	reproduced := false
	var detail string
	for n := 1; n <= 7; n++ {
		if err := os.WriteFile(filepath.Join(d, "2"), make([]byte, n), 0o600); err != nil {
			t.Fatal(err)
		}
		di := filepath.Join(root, "img")
		os.RemoveAll(di)
		snap(d).write(di)
		got, problem := readAll(t, di, 4096, 1024)
		if problem != "" || len(got) != 1 || !bytes.Equal(got[0], e1) {
			reproduced = true
			if detail == "" {
				detail = fmt.Sprintf("segment file '2' of %d zero bytes next to an intact segment '1': %s, delivered %s", n, problem, hexs(got))
			}
		}
	}
	rec.Known(t, "TestKnown_short_segment_file_open_fails", keyShortSeg, reproduced,
		"durablequeue: a segment file shorter than the 8-byte footer (crash while a new segment's initial footer is written) makes Queue.Open fail, the appended entry is not delivered ("+detail+")",
		map[string]any{"entry": string(e1)})
}

// TestKnown_torn_advance_mixed_footer: head position 240 -> 320 (two bytes of the footer change);
// a footer write torn after 7 bytes leaves 0x01f0 = 496, accepted because it is <= size-8, which
// is neither the old nor the new head.
func TestKnown_torn_advance_mixed_footer(t *testing.T) {
	root := knownRoot(t)
	d := filepath.Join(root, "live")
	os.MkdirAll(d, 0o755)
	q := knownQueue(t, d, 1<<20, 4096)
	if err := q.Open(); err != nil {
		t.Fatal(err)
	}
	var all [][]byte
	for i := 0; i < 8; i++ {
		// records of 8+72 = 80 bytes: boundaries 0,80,160,240,320,...
		// body: 8 tag bytes then 64 zero bytes (so that a misplaced head finds a plausible length 0)
		e := append(bytes.Repeat([]byte{byte('a' + i)}, 8), make([]byte, 64)...)
		all = append(all, e)
		if err := q.Append(e); err != nil {
			t.Fatal(err)
		}
	}
	for i := 0; i < 3; i++ {
		if err := q.Advance(); err != nil {
			t.Fatal(err)
		}
	}
	A := snap(d) // head = 240 = 0x00f0
	if err := q.Advance(); err != nil {
		t.Fatal(err)
	}
	B := snap(d) // head = 320 = 0x0140
	q.Close()
	imgs, ok := advanceImages(A, B)
	if !ok {
		t.Fatalf("advance did not change the files in the documented way")
	}
	reproduced := false
	var detail string
	for _, img := range imgs {
		di := filepath.Join(root, "img")
		os.RemoveAll(di)
		img.files.write(di)
		got, problem := readAll(t, di, 1<<20, 4096)
		_, _, _, valid := decompose(got, all, 3, 4, nil, false, false)
		if valid && problem == "" {
			continue
		}
		if !img.sigAdvMix {
			t.Errorf("image %s fails (%s, delivered %d entries) without carrying the finding's signature", img.name, problem, len(got))
			continue
		}
		if !reproduced {
			detail = fmt.Sprintf("%s: delivered %d entries (first %.12x...), problem %q; entries 4..7 were never advanced past", img.name, len(got), first(got), problem)
		}
		reproduced = true
	}
	rec.Known(t, "TestKnown_torn_advance_mixed_footer", keyTornAdvance, reproduced,
		"durablequeue: an advance whose 8-byte footer write is torn between the two changing bytes (head 240 -> 320, 7 of 8 bytes written = 496) is accepted by reopen as head position: not-yet-advanced entries are skipped ("+detail+")",
		map[string]any{"record_size": 80, "advanced_before": 3})
}

func first(l [][]byte) []byte {
	if len(l) == 0 {
		return nil
	}
	return l[0]
}
