// C26 — Durable queue delivers entries in order, at least once, across crashes.
//
// Generator: a bounded history of operations on a real durablequeue.Queue living in a scratch
// directory (tiny max segment size so that roll-over happens every few entries, small max queue
// size so that the size limit triggers): append (hostile payload pool), current, peekN, advance,
// scanner Next*/Advance, purgeOlderThan, setMaxSize, clean reopen, crash-reopen (directory copied
// without Close), and — for a generated subset of the appends / advances — the enumeration of the
// crash images of that one operation: every generated prefix j of the operation's single
// `len+body+footer` write (resp. of its 8-byte footer write) applied over the pre-operation bytes
// of the file (in-place torn-write model: a file never gets shorter), plus the states between the
// file-system steps of the operation (segment file created / footer written / old segment removed).
// One of those images may be chosen to continue the history on (tornAppend / tornAdvance actions).
//
// Oracle: a FIFO model. While the queue is live it must behave exactly like the FIFO. After any
// reopen the content R of the queue (observed by draining a copy) must be
//
//	R = X ++ hist[a:] (++ [in-flight append])      with X a subsequence of hist[:a]
//
// where hist = the successfully appended entries in append order, a = number of entries advanced
// past by acknowledged operations (an unacknowledged advance may or may not have taken effect):
// nothing appended-and-not-advanced-past is lost, nothing is reordered, nothing is delivered that
// is not byte-equal to an appended entry, re-delivery of already advanced entries is allowed
// (at-least-once), the torn operation itself may or may not have taken effect; and a follow-up
// append on the recovered queue succeeds and is delivered. Size limits: a rejected append leaves
// the files byte-identical and TotalBytes/Current unchanged; ErrQueueFull is only allowed when the
// on-disk size plus the payload exceeds the limit, and must happen when it exceeds it by more than
// the footer slack.
package c26_queue

import (
	"bytes"
	"encoding/binary"
	"encoding/hex"
	"fmt"
	"io"
	"os"
	"path/filepath"
	"sort"
	"strconv"
	"strings"
	"testing"
	"time"

	"github.com/influxdata/influxdb/v2/pkg/durablequeue"
	"pgregory.net/rapid"

	"verifharness/internal/ev"
	"verifharness/internal/scratch"
)

const (
	propID         = "C26"
	keyTornAppend  = "torn-append-body-as-footer"
	keyShortSeg    = "short-segment-file-open-fails"
	keyTornAdvance = "torn-advance-mixed-footer"
	testName       = "TestPropQueueHistories"
)

var rec = ev.For(propID, "fault_enumeration",
	"case = one generated history (segment/queue limits + op list incl. payload bytes and crash images); non-trivial = the history had a segment roll-over, an advance, and at least one crash/torn image recovered while >=2 appended entries were not yet advanced past; distinct by canonical rendering of the op list")

// ---------------------------------------------------------------------------------------------
// file-level helpers (snapshots and crash images)

type snapshot map[string][]byte

func snap(dir string) snapshot {
	s := snapshot{}
	ents, err := os.ReadDir(dir)
	if err != nil {
		panic(err)
	}
	for _, e := range ents {
		if e.IsDir() {
			continue
		}
		b, err := os.ReadFile(filepath.Join(dir, e.Name()))
		if err != nil {
			panic(err)
		}
		s[e.Name()] = b
	}
	return s
}

func (s snapshot) clone() snapshot {
	c := snapshot{}
	for k, v := range s {
		c[k] = v // contents are never mutated in place
	}
	return c
}

func (s snapshot) equal(o snapshot) bool {
	if len(s) != len(o) {
		return false
	}
	for k, v := range s {
		w, ok := o[k]
		if !ok || !bytes.Equal(v, w) {
			return false
		}
	}
	return true
}

// ids returns the numeric segment ids present, ascending.
func (s snapshot) ids() []uint64 {
	var out []uint64
	for k := range s {
		if id, err := strconv.ParseUint(k, 10, 64); err == nil {
			out = append(out, id)
		}
	}
	sort.Slice(out, func(i, j int) bool { return out[i] < out[j] })
	return out
}

func (s snapshot) write(dir string) {
	if err := os.MkdirAll(dir, 0o755); err != nil {
		panic(err)
	}
	for k, v := range s {
		if err := os.WriteFile(filepath.Join(dir, k), v, 0o600); err != nil {
			panic(err)
		}
	}
}

func (s snapshot) describe() string {
	var parts []string
	for _, id := range s.ids() {
		n := strconv.FormatUint(id, 10)
		parts = append(parts, fmt.Sprintf("%s:%s", n, hex.EncodeToString(s[n])))
	}
	return strings.Join(parts, " ")
}

func maxID(dir string) uint64 {
	ents, _ := os.ReadDir(dir)
	var m uint64
	for _, e := range ents {
		if id, err := strconv.ParseUint(e.Name(), 10, 64); err == nil && id > m {
			m = id
		}
	}
	return m
}

func be64(v uint64) []byte {
	var b [8]byte
	binary.BigEndian.PutUint64(b[:], v)
	return b[:]
}

// applyPrefix returns old with the first j bytes of data written at offset w (extending the file
// when needed, never shortening it).
func applyPrefix(old []byte, w int, data []byte, j int) []byte {
	n := len(old)
	if w+j > n {
		n = w + j
	}
	out := make([]byte, n)
	copy(out, old)
	copy(out[w:], data[:j])
	return out
}

// tailInRange: the last 8 bytes of the file decode to a position that segment.open() accepts
// without repairing (pos <= size-8).
func tailInRange(f []byte) bool {
	if len(f) < 8 {
		return false
	}
	return binary.BigEndian.Uint64(f[len(f)-8:]) <= uint64(len(f)-8)
}

// image is one possible on-disk state after a crash during (or right after) one operation.
type image struct {
	name  string
	files snapshot
	// signatures of listed findings (by cause, decided from the bytes of the image only)
	sigAppend bool // incomplete append write whose last 8 bytes (not a footer) are accepted as head position
	sigShort  bool // a segment file of 1..7 bytes (torn initial footer write of a new segment)
	sigAdvMix bool // torn footer write of an advance: mixed old/new bytes decode to an accepted position
	complete  bool // the operation completed (its acknowledgement may have been sent)
}

// tornOffsets: which prefixes 1..total-1 of a write are enumerated.
func tornOffsets(total int) []int {
	var out []int
	if ev.Thorough() || total <= 40 {
		for j := 1; j < total; j++ {
			out = append(out, j)
		}
		return out
	}
	seen := map[int]bool{}
	add := func(j int) {
		if j >= 1 && j < total && !seen[j] {
			seen[j] = true
			out = append(out, j)
		}
	}
	for j := 1; j <= 9; j++ {
		add(j)
	}
	for j := 8; j < total; j += 8 {
		add(j)
	}
	for j := total - 9; j < total; j++ {
		add(j)
	}
	sort.Ints(out)
	return out
}

// newSegmentImages: states of a freshly created segment file `name` before anything is appended
// to it (created empty; initial 8-byte footer partially written; footer complete).
func newSegmentImages(base snapshot, name, prefix string) []image {
	var out []image
	for n := 0; n <= 8; n++ {
		if !ev.Thorough() && n != 0 && n != 1 && n != 4 && n != 7 && n != 8 {
			continue
		}
		s := base.clone()
		s[name] = make([]byte, n)
		out = append(out, image{name: fmt.Sprintf("%snew-segment-%d-bytes", prefix, n), files: s, sigShort: n >= 1 && n <= 7})
	}
	return out
}

// appendImages enumerates crash images of one successful Append (A = files before, B = after).
// ok=false when the change is not of the documented shape (then only A and B are usable).
func appendImages(A, B snapshot, b []byte) (imgs []image, rolled bool, ok bool) {
	total := 8 + len(b) + 8
	var changed, created []string
	for k, v := range B {
		if o, in := A[k]; !in {
			created = append(created, k)
		} else if !bytes.Equal(o, v) {
			changed = append(changed, k)
		}
	}
	for k := range A {
		if _, in := B[k]; !in {
			return nil, false, false
		}
	}
	switch {
	case len(created) == 0 && len(changed) == 1:
		f := changed[0]
		old, nw := A[f], B[f]
		w := len(old) - 8
		if w < 0 || len(nw) != w+total || !bytes.Equal(old[:w], nw[:w]) {
			return nil, false, false
		}
		data := nw[w:]
		for _, j := range tornOffsets(total) {
			t := applyPrefix(old, w, data, j)
			if bytes.Equal(t, old) {
				continue
			}
			s := A.clone()
			s[f] = t
			imgs = append(imgs, image{name: fmt.Sprintf("torn-append:j=%d/%d", j, total), files: s, sigAppend: tailInRange(t)})
		}
		return imgs, false, true
	case len(created) == 1 && len(changed) == 0:
		g := created[0]
		nw := B[g]
		if len(nw) != total {
			return nil, true, false
		}
		imgs = append(imgs, newSegmentImages(A, g, "append-rollover:")...)
		old := make([]byte, 8)
		for _, j := range tornOffsets(total) {
			t := applyPrefix(old, 0, nw, j)
			if bytes.Equal(t, old) {
				continue
			}
			s := A.clone()
			s[g] = t
			imgs = append(imgs, image{name: fmt.Sprintf("torn-append-new-segment:j=%d/%d", j, total), files: s, sigAppend: tailInRange(t)})
		}
		return imgs, true, true
	}
	return nil, len(created) > 0, false
}

// advanceImages enumerates crash images of one successful advance (Queue.Advance or
// Scanner.Advance): the 8-byte footer write of the head segment torn at every byte, then the
// steps of trimming (new segment created, head segment removed).
func advanceImages(A, B snapshot) (imgs []image, ok bool) {
	ids := A.ids()
	if len(ids) == 0 {
		return nil, false
	}
	h := strconv.FormatUint(ids[0], 10)
	old := A[h]
	if len(old) < 8 {
		return nil, false
	}
	oldF := old[len(old)-8:]
	var newF []byte
	if nb, in := B[h]; in {
		if len(nb) != len(old) || !bytes.Equal(nb[:len(nb)-8], old[:len(old)-8]) {
			return nil, false
		}
		newF = nb[len(nb)-8:]
	} else {
		// the head segment was drained and removed: its footer was first advanced to the end
		newF = be64(uint64(len(old) - 8))
	}
	if bytes.Equal(oldF, newF) {
		return nil, true
	}
	for j := 1; j <= 7; j++ {
		m := append(append([]byte{}, newF[:j]...), oldF[j:]...)
		if bytes.Equal(m, oldF) || bytes.Equal(m, newF) {
			continue
		}
		t := append(append([]byte{}, old[:len(old)-8]...), m...)
		s := A.clone()
		s[h] = t
		imgs = append(imgs, image{name: fmt.Sprintf("torn-advance:j=%d/8 footer=%x", j, m), files: s, sigAdvMix: tailInRange(t)})
	}
	full := A.clone()
	full[h] = append(append([]byte{}, old[:len(old)-8]...), newF...)
	if !full.equal(B) {
		imgs = append(imgs, image{name: "advance:footer-written-before-trim", files: full})
		for k := range B {
			if _, in := A[k]; !in {
				imgs = append(imgs, newSegmentImages(full, k, "advance-trim:")...)
			}
		}
	}
	return imgs, true
}

// recordStarts walks the documented segment layout (len,body)* footer and returns the record
// offsets. Used by the payload generator only (never by the oracle).
func recordStarts(f []byte) []int {
	var out []int
	off := 0
	for off+8 <= len(f)-8 {
		out = append(out, off)
		l := binary.BigEndian.Uint64(f[off:])
		if l > uint64(len(f)) {
			break
		}
		off += 8 + int(l)
	}
	return out
}

// ---------------------------------------------------------------------------------------------
// the model

func nonEmpty(l [][]byte) [][]byte {
	out := make([][]byte, 0, len(l))
	for _, e := range l {
		if len(e) > 0 {
			out = append(out, e)
		}
	}
	return out
}

func eqList(a, b [][]byte) bool {
	if len(a) != len(b) {
		return false
	}
	for i := range a {
		if !bytes.Equal(a[i], b[i]) {
			return false
		}
	}
	return true
}

func isSubseq(x, of [][]byte) bool {
	i := 0
	for _, e := range of {
		if i < len(x) && bytes.Equal(x[i], e) {
			i++
		}
	}
	return i == len(x)
}

func isPrefix(p, of [][]byte) bool {
	return len(p) <= len(of) && eqList(p, of[:len(p)])
}

// decompose decides whether the recovered content R is allowed: R = X ++ hist[a:] (++ [infl]) for
// some advLo <= a <= advHi with X a subsequence of hist[:a]. filtered = R was read through the
// scanner, which skips zero-length entries. The smallest valid a is returned (an unacknowledged
// advance that did not take effect leaves its entries required).
func decompose(R, hist [][]byte, advLo, advHi int, infl []byte, inflOK, filtered bool) (a, nx int, withInfl, ok bool) {
	f := func(l [][]byte) [][]byte {
		if filtered {
			return nonEmpty(l)
		}
		return l
	}
	for a = advLo; a <= advHi; a++ {
		for _, wi := range []bool{false, true} {
			if wi && !inflOK {
				continue
			}
			req := append([][]byte{}, f(hist[a:])...)
			if wi && !(filtered && len(infl) == 0) {
				req = append(req, infl)
			}
			if len(R) < len(req) {
				continue
			}
			nx = len(R) - len(req)
			if !eqList(R[nx:], req) || !isSubseq(R[:nx], f(hist[:a])) {
				continue
			}
			return a, nx, wi, true
		}
	}
	return 0, 0, false, false
}

type opRec struct {
	Op      string `json:"op"`
	Arg     string `json:"arg,omitempty"`
	Payload string `json:"payload_hex,omitempty"`
	Result  string `json:"result,omitempty"`
}

type hist struct {
	t    *rapid.T
	root string
	dir  string
	gen  int
	q    *durablequeue.Queue
	seg  int64
	max  int64
	id0  uint64 // highest segment id right after the last Open

	all     [][]byte // successfully appended entries (plus in-flight appends found to have taken effect)
	adv     int      // entries advanced past by acknowledged operations (incl. purged)
	redeliv int      // leading entries of fifo that are re-deliveries (members of all[:adv])
	fifo    [][]byte // expected live content

	ops        []opRec
	rolled     bool
	advanced   bool
	crash2     bool
	imagesSeen int
	failImage  string

	advanceHeavy bool
}

var marker = []byte("c26-follow-up-marker")

func nopVerify([]byte) error { return nil }

func hexs(l [][]byte) string {
	parts := make([]string, len(l))
	for i, e := range l {
		parts[i] = hex.EncodeToString(e)
		if len(e) == 0 {
			parts[i] = "<empty>"
		}
	}
	return "[" + strings.Join(parts, " ") + "]"
}

func (h *hist) caseJSON() any {
	return map[string]any{"max_segment_size": h.seg, "max_size_initial_or_current": h.max, "ops": h.ops, "failing_image": h.failImage}
}

func (h *hist) fail(key, detail string) {
	name := testName
	if h.advanceHeavy {
		name = "TestPropTornAdvanceLargeOffsets"
	}
	rec.Fail(h.t, name, key, detail, h.caseJSON())
}

func (h *hist) note(op, arg string, payload []byte, result string) {
	r := opRec{Op: op, Arg: arg, Result: result}
	if payload != nil {
		r.Payload = hex.EncodeToString(payload)
		if len(payload) == 0 {
			r.Payload = "<empty>"
		}
	}
	h.ops = append(h.ops, r)
}

func (h *hist) newDir() string {
	h.gen++
	return filepath.Join(h.root, fmt.Sprintf("d%d", h.gen))
}

func (h *hist) open(dir string) (*durablequeue.Queue, error) {
	q, err := durablequeue.NewQueue(dir, h.max, h.seg, &durablequeue.SharedCount{}, durablequeue.MaxWritesPending, nopVerify)
	if err != nil {
		return nil, err
	}
	if err := q.Open(); err != nil {
		return nil, err
	}
	return q, nil
}

// drain reads everything out of q. mode 0: Current/Advance (delivers zero-length entries);
// mode 1: scanners (skip zero-length entries). problem != "" describes an error.
func drain(q *durablequeue.Queue, mode int, bound int) (out [][]byte, problem string) {
	switch mode {
	case 0:
		for i := 0; ; i++ {
			if i > bound {
				return out, fmt.Sprintf("draining did not reach the end after %d entries", i)
			}
			b, err := q.Current()
			if err == io.EOF {
				return out, ""
			}
			if err != nil {
				return out, "Current: " + err.Error()
			}
			out = append(out, append([]byte{}, b...))
			if err := q.Advance(); err != nil {
				return out, "Advance: " + err.Error()
			}
		}
	default:
		for i := 0; ; i++ {
			if i > bound {
				return out, fmt.Sprintf("draining did not reach the end after %d scanners", i)
			}
			s, err := q.NewScanner()
			if err == io.EOF {
				return out, ""
			}
			if err != nil {
				return out, "NewScanner: " + err.Error()
			}
			for s.Next() {
				out = append(out, append([]byte{}, s.Bytes()...))
				if len(out) > bound {
					return out, "scanner delivers more entries than were ever appended"
				}
			}
			if err := s.Err(); err != nil {
				return out, "Scanner.Err: " + err.Error()
			}
			if _, err := s.Advance(); err != nil {
				return out, "Scanner.Advance: " + err.Error()
			}
		}
	}
}

// observe opens a queue on a private copy of the image, drains it and performs the follow-up
// write. It returns the delivered entries and a description of what went wrong ("" = nothing).
func (h *hist) observe(files snapshot, mode int) (R [][]byte, problem string) {
	d := h.newDir()
	files.write(d)
	defer os.RemoveAll(d)
	q, err := h.open(d)
	if err != nil {
		return nil, "reopen failed: " + err.Error()
	}
	defer q.Close()
	R, problem = drain(q, mode, len(h.all)+4)
	if problem != "" {
		return R, problem
	}
	if err := q.SetMaxSize(1 << 40); err != nil {
		return R, "follow-up SetMaxSize: " + err.Error()
	}
	if err := q.Append(marker); err != nil {
		return R, "follow-up append failed: " + err.Error()
	}
	b, err := q.Current()
	if err != nil || !bytes.Equal(b, marker) {
		return R, fmt.Sprintf("follow-up append not delivered next: Current=%x err=%v", b, err)
	}
	return R, ""
}

// recovered is the verdict on one image.
type recovered struct {
	R        [][]byte
	a, nx    int
	withInfl bool
	ok       bool
}

// checkImage observes one image and validates it; returns ok=false (after counting) when the
// failure is exactly the signature of an open listed finding.
func (h *hist) checkImage(img image, mode int, base [][]byte, advLo, advHi int, infl []byte, inflOK bool) recovered {
	h.imagesSeen++
	if len(base)-advHi >= 2 {
		h.crash2 = true
	}
	rec.Class("image:" + strings.SplitN(img.name, ":", 2)[0])
	if ids := img.files.ids(); len(ids) >= 2 && ids[0] < 10 && ids[len(ids)-1] >= 10 {
		rec.Class("image-with-segment-ids-whose-lexicographic-order-differs")
	}
	R, problem := h.observe(img.files, mode)
	var r recovered
	r.R = R
	key, detail := "", ""
	if problem == "" || !strings.HasPrefix(problem, "reopen failed") {
		a, nx, wi, ok := decompose(R, base, advLo, advHi, infl, inflOK, mode != 0)
		if !ok {
			key = "recovery-loses-or-invents-entries"
			detail = fmt.Sprintf("image %s (read mode %d): recovered %s is not X++appended[a:] for %d<=a<=%d (appended=%s, in-flight=%x allowed=%v); read problem=%q; files: %s",
				img.name, mode, hexs(R), advLo, advHi, hexs(base), infl, inflOK, problem, img.files.describe())
		} else {
			r.a, r.nx, r.withInfl, r.ok = a, nx, wi, true
		}
	}
	if key == "" && problem != "" {
		key = "recovered-queue-unusable"
		detail = fmt.Sprintf("image %s (read mode %d): %s; delivered so far %s; appended=%s adv in [%d,%d]; files: %s",
			img.name, mode, problem, hexs(R), hexs(base), advLo, advHi, img.files.describe())
		r.ok = false
	}
	if key == "" {
		if img.sigAppend || img.sigShort || img.sigAdvMix {
			rec.Class("image-with-finding-signature-but-recovered-correctly")
		}
		return r
	}
	switch {
	case img.sigAppend && ev.KnownOpen(propID, keyTornAppend):
		rec.ExcludedKnown(keyTornAppend)
	case img.sigShort && ev.KnownOpen(propID, keyShortSeg):
		rec.ExcludedKnown(keyShortSeg)
	case img.sigAdvMix && ev.KnownOpen(propID, keyTornAdvance):
		rec.ExcludedKnown(keyTornAdvance)
	default:
		h.failImage = img.name + " :: " + img.files.describe()
		h.fail(key, detail)
	}
	r.ok = false
	return r
}

// usable: may the history continue on this image? Not on images carrying the signature of an
// open finding (they may hold latent garbage even if the first read-back was fine).
func usable(img image) bool {
	if img.sigAppend && ev.KnownOpen(propID, keyTornAppend) {
		return false
	}
	if img.sigShort && ev.KnownOpen(propID, keyShortSeg) {
		return false
	}
	if img.sigAdvMix && ev.KnownOpen(propID, keyTornAdvance) {
		return false
	}
	return true
}

// continueOn abandons the live queue and continues the history on img (already validated: r).
func (h *hist) continueOn(img image, r recovered, base [][]byte, infl []byte) {
	if h.q != nil {
		h.q.Close()
	}
	d := h.newDir()
	img.files.write(d)
	q, err := h.open(d)
	if err != nil {
		h.fail("recovered-queue-unusable", fmt.Sprintf("second open of image %s failed: %v", img.name, err))
	}
	os.RemoveAll(h.dir)
	h.dir, h.q = d, q
	h.id0 = maxID(d)
	h.all = append([][]byte{}, base...)
	if r.withInfl {
		h.all = append(h.all, infl)
	}
	h.adv, h.redeliv = r.a, r.nx
	h.fifo = append([][]byte{}, r.R...)
	if r.nx > 0 {
		rec.Class("continue:with-redelivery")
	} else {
		rec.Class("continue:exact")
	}
}

func (h *hist) pop(n int) {
	k := n
	if k > h.redeliv {
		k = h.redeliv
	}
	h.redeliv -= k
	h.adv += n - k
	h.fifo = h.fifo[n:]
}

// checkHead: Current() must agree with the model.
func (h *hist) checkHead(after string) {
	b, err := h.q.Current()
	if len(h.fifo) == 0 {
		if err != io.EOF {
			h.fail("current-on-empty-queue", fmt.Sprintf("after %s: queue should be empty, Current returned %x, err=%v", after, b, err))
		}
		return
	}
	if err != nil || !bytes.Equal(b, h.fifo[0]) {
		h.fail("current-wrong", fmt.Sprintf("after %s: Current=%x err=%v, expected %x (expected content %s)", after, b, err, h.fifo[0], hexs(h.fifo)))
	}
}

// ---------------------------------------------------------------------------------------------
// generators

func (h *hist) genPayload() ([]byte, string) {
	t := h.t
	// geometry of the segment the append will go to (generator heuristics only)
	var tail []byte
	if ids := maxID(h.dir); ids > 0 {
		tail, _ = os.ReadFile(filepath.Join(h.dir, strconv.FormatUint(ids, 10)))
	}
	w := len(tail) - 8
	if w < 0 || int64(len(tail)) > h.seg {
		w = 0
		tail = nil
	}
	starts := recordStarts(tail)
	word := func(label string, k int) uint64 {
		switch rapid.IntRange(0, 5).Draw(t, label+"_k") {
		case 0, 1:
			if len(starts) > 0 {
				return uint64(starts[rapid.IntRange(0, len(starts)-1).Draw(t, label+"_s")])
			}
			return 0
		case 2:
			// the boundary of what open() accepts when the file is cut right after this word
			return uint64(w + 8 + 8*k + rapid.IntRange(-8, 9).Draw(t, label+"_d"))
		case 3:
			return uint64(rapid.IntRange(0, w+16).Draw(t, label+"_r"))
		case 4:
			return uint64(w)
		default:
			return uint64(rapid.IntRange(0, 40).Draw(t, label+"_m"))
		}
	}
	kind := rapid.IntRange(0, 11).Draw(t, "payloadKind")
	if h.seg >= 280 && kind <= 3 && rapid.IntRange(0, 1).Draw(t, "preferMedium") == 0 {
		kind = 12
	}
	switch kind {
	case 0, 1, 2, 3:
		n := rapid.IntRange(1, 6).Draw(t, "words")
		var b []byte
		for k := 0; k < n; k++ {
			b = append(b, be64(word(fmt.Sprintf("w%d", k), k))...)
		}
		return b, "words"
	case 4:
		n := rapid.IntRange(1, 4).Draw(t, "words")
		var b []byte
		for k := 0; k < n; k++ {
			b = append(b, be64(word(fmt.Sprintf("w%d", k), k))...)
		}
		extra := rapid.IntRange(1, 7).Draw(t, "oddTail")
		for i := 0; i < extra; i++ {
			b = append(b, byte(rapid.IntRange(0, 2).Draw(t, "ob")))
		}
		return b, "words+odd-tail"
	case 5:
		n := rapid.SampledFrom([]int{1, 7, 8, 9, 16, 24}).Draw(t, "zeros")
		return make([]byte, n), "zeros"
	case 6:
		return []byte{}, "empty"
	case 7:
		n := rapid.SampledFrom([]int{1, 7, 8, 9, 16}).Draw(t, "ffs")
		return bytes.Repeat([]byte{0xFF}, n), "0xff-run"
	case 8:
		return []byte(fmt.Sprintf("e%d", len(h.all))), "text"
	case 9:
		n := int(h.seg) + rapid.IntRange(1, 24).Draw(t, "over")
		if h.seg > 100 {
			n = int(h.seg) + rapid.IntRange(1, 8).Draw(t, "over2")
		}
		b := make([]byte, n)
		fill := rapid.IntRange(0, 2).Draw(t, "bigFill")
		for i := range b {
			switch fill {
			case 0:
				b[i] = 0
			case 1:
				b[i] = byte('a' + i%26)
			default:
				if i%8 == 7 {
					b[i] = byte(rapid.IntRange(0, 64).Draw(t, fmt.Sprintf("bb%d", i)))
				}
			}
		}
		return b, "larger-than-segment"
	case 10:
		n := rapid.IntRange(1, 12).Draw(t, "rawLen")
		b := make([]byte, n)
		for i := range b {
			b[i] = byte(rapid.SampledFrom([]int{0, 0, 0, 1, 8, 20, 0xFF}).Draw(t, fmt.Sprintf("rb%d", i)))
		}
		return b, "raw-small-bytes"
	case 12:
		// medium, mostly zero: positions grow beyond one byte in the large-segment configuration
		// and a misplaced head finds plausible lengths
		n := rapid.IntRange(10, 90).Draw(t, "zmLen")
		b := make([]byte, n)
		copy(b, fmt.Sprintf("z%d", len(h.all)))
		return b, "tagged-zeros-medium"
	default:
		// medium text
		n := rapid.IntRange(10, 90).Draw(t, "textLen")
		b := make([]byte, n)
		for i := range b {
			b[i] = byte('A' + (i+len(h.all))%26)
		}
		return b, "text-medium"
	}
}

// ---------------------------------------------------------------------------------------------
// operations

func (h *hist) opAppend(enumerate, cont bool) {
	t := h.t
	b, kind := h.genPayload()
	D := h.q.DiskUsage()
	N := int64(maxID(h.dir) - h.id0)
	tb := h.q.TotalBytes()
	A := snap(h.dir)
	err := h.q.Append(b)
	B := snap(h.dir)
	rec.Class("payload:" + kind)
	if err == durablequeue.ErrQueueFull {
		h.note("append", kind, b, "ErrQueueFull")
		rec.Class("append:rejected-queue-full")
		if D+int64(len(b)) <= h.max {
			h.fail("append-rejected-below-limit", fmt.Sprintf("Append of %d bytes rejected with ErrQueueFull although disk usage %d + %d <= max size %d", len(b), D, len(b), h.max))
		}
		if !A.equal(B) {
			h.fail("rejected-append-changed-queue", fmt.Sprintf("Append rejected with ErrQueueFull but the segment files changed: before %s after %s", A.describe(), B.describe()))
		}
		if n := h.q.TotalBytes(); n != tb {
			h.fail("rejected-append-changed-queue", fmt.Sprintf("Append rejected with ErrQueueFull but TotalBytes changed %d -> %d", tb, n))
		}
		h.checkHead("rejected append")
		return
	}
	if err != nil {
		h.note("append", kind, b, "error "+err.Error())
		h.fail("append-error", fmt.Sprintf("Append(%x) failed: %v", b, err))
	}
	h.note("append", kind, b, "ok")
	rec.Class("append:ok")
	if D-8*(N+1)+int64(len(b)) > h.max {
		h.fail("size-limit-not-enforced", fmt.Sprintf("Append of %d bytes accepted although disk usage %d (minus footer slack %d) + %d > max size %d", len(b), D, 8*(N+1), len(b), h.max))
	}
	base := h.all
	h.all = append(append([][]byte{}, h.all...), b)
	h.fifo = append(h.fifo, b)
	if len(B) > len(A) || maxID(h.dir) > A.idsMax() {
		h.rolled = true
	}
	h.checkHead("append")
	if !enumerate {
		return
	}
	imgs, rolled, ok := appendImages(A, B, b)
	if !ok {
		rec.Class("append:file-change-not-of-documented-shape")
	}
	if rolled {
		rec.Class("enumerated-append:with-rollover")
	} else {
		rec.Class("enumerated-append:same-segment")
	}
	imgs = append(imgs, image{name: "post-append", files: B, complete: true})
	h.ops[len(h.ops)-1].Result = fmt.Sprintf("ok; %d crash images checked", len(imgs))
	results := make([]recovered, len(imgs))
	for i, img := range imgs {
		mode := 0
		if i%3 == 1 {
			mode = 1
		}
		if img.complete {
			results[i] = h.checkImage(img, mode, h.all, h.adv, h.adv, nil, false)
		} else {
			results[i] = h.checkImage(img, mode, base, h.adv, h.adv, b, true)
		}
	}
	if cont {
		var cand []int
		for i, img := range imgs {
			if usable(img) && !img.complete {
				cand = append(cand, i)
			}
		}
		if len(cand) == 0 {
			return
		}
		i := cand[rapid.IntRange(0, len(cand)-1).Draw(t, "contImage")]
		r := results[i]
		if !r.ok || i%3 == 1 {
			r = h.checkImage(imgs[i], 0, base, h.adv, h.adv, b, true)
			if !r.ok {
				return
			}
		}
		h.note("crash-during-append-continue-on", imgs[i].name, nil, fmt.Sprintf("in-flight entry present=%v redelivered=%d", r.withInfl, r.nx))
		rec.Class("continue-on:torn-append-image")
		h.continueOn(imgs[i], r, base, b)
		h.checkHead("continuing on " + imgs[i].name)
	}
}

func (s snapshot) idsMax() uint64 {
	ids := s.ids()
	if len(ids) == 0 {
		return 0
	}
	return ids[len(ids)-1]
}

// afterAdvance handles the crash images of an advance that moved the model from advBefore
// (with all/fifo as they were) by n entries.
func (h *hist) afterAdvance(what string, A, B snapshot, advBefore int, enumerate, cont bool) {
	if len(B) != len(A) || B.idsMax() != A.idsMax() {
		h.rolled = h.rolled || B.idsMax() > A.idsMax()
	}
	if !enumerate {
		return
	}
	imgs, ok := advanceImages(A, B)
	if !ok {
		rec.Class("advance:file-change-not-of-documented-shape")
	}
	imgs = append(imgs, image{name: "post-advance", files: B, complete: true})
	rec.Class("enumerated-advance:" + what)
	h.ops[len(h.ops)-1].Result += fmt.Sprintf("; %d crash images checked", len(imgs))
	results := make([]recovered, len(imgs))
	for i, img := range imgs {
		mode := 0
		if i%3 == 1 {
			mode = 1
		}
		lo := advBefore
		if img.complete {
			lo = h.adv
		}
		results[i] = h.checkImage(img, mode, h.all, lo, h.adv, nil, false)
	}
	if cont {
		var cand []int
		for i, img := range imgs {
			if usable(img) && !img.complete {
				cand = append(cand, i)
			}
		}
		if len(cand) == 0 {
			return
		}
		i := cand[rapid.IntRange(0, len(cand)-1).Draw(h.t, "contImage")]
		r := results[i]
		if !r.ok || i%3 == 1 {
			r = h.checkImage(imgs[i], 0, h.all, advBefore, h.adv, nil, false)
			if !r.ok {
				return
			}
		}
		h.note("crash-during-advance-continue-on", imgs[i].name, nil, fmt.Sprintf("advanced=%d redelivered=%d", r.a, r.nx))
		rec.Class("continue-on:torn-advance-image")
		h.continueOn(imgs[i], r, h.all, nil)
		h.checkHead("continuing on " + imgs[i].name)
	}
}

func (h *hist) opAdvance(enumerate, cont bool) {
	A := snap(h.dir)
	advBefore := h.adv
	err := h.q.Advance()
	B := snap(h.dir)
	h.note("advance", "", nil, fmt.Sprint(err))
	if err != nil {
		h.fail("advance-error", fmt.Sprintf("Advance on a queue with %d undelivered entries failed: %v", len(h.fifo), err))
	}
	h.pop(1)
	h.advanced = true
	rec.Class("advance:queue")
	h.checkHead("advance")
	h.afterAdvance("queue-advance", A, B, advBefore, enumerate, cont)
}

func (h *hist) opScan(enumerate, cont bool) {
	t := h.t
	s, err := h.q.NewScanner()
	if err != nil {
		h.note("scan", "", nil, "NewScanner: "+err.Error())
		h.fail("scanner-error", fmt.Sprintf("NewScanner on a queue with %d undelivered entries failed: %v", len(h.fifo), err))
	}
	k := rapid.IntRange(0, 6).Draw(t, "scanNext")
	var got [][]byte
	exhausted := false
	for i := 0; i < k; i++ {
		if !s.Next() {
			exhausted = true
			break
		}
		got = append(got, append([]byte{}, s.Bytes()...))
	}
	if err := s.Err(); err != nil {
		h.note("scan", fmt.Sprintf("next*%d", k), nil, "Err: "+err.Error())
		h.fail("scanner-error", fmt.Sprintf("Scanner.Err=%v after delivering %s; expected content %s", err, hexs(got), hexs(h.fifo)))
	}
	if !isPrefix(got, nonEmpty(h.fifo)) {
		h.note("scan", fmt.Sprintf("next*%d", k), nil, "delivered "+hexs(got))
		h.fail("scanner-wrong-entries", fmt.Sprintf("scanner delivered %s, expected a prefix of %s", hexs(got), hexs(nonEmpty(h.fifo))))
	}
	A := snap(h.dir)
	advBefore := h.adv
	n64, err := s.Advance()
	B := snap(h.dir)
	n := int(n64)
	h.note("scan", fmt.Sprintf("next*%d", k), nil, fmt.Sprintf("delivered %d, Advance=(%d,%v)", len(got), n, err))
	if err != nil {
		h.fail("scanner-error", fmt.Sprintf("Scanner.Advance failed: %v", err))
	}
	if n < len(got) || n > len(h.fifo) {
		h.fail("scanner-advance-count", fmt.Sprintf("Scanner.Advance reported %d records after delivering %d of %d queued", n, len(got), len(h.fifo)))
	}
	if !eqList(nonEmpty(h.fifo[:n]), got) {
		h.fail("scanner-advanced-past-undelivered", fmt.Sprintf("Scanner.Advance moved past %d records %s but the scanner delivered %s", n, hexs(h.fifo[:n]), hexs(got)))
	}
	if !exhausted {
		// every Next succeeded: the position is right behind the last delivered entry
		if (k == 0 && n != 0) || (k > 0 && len(h.fifo[n-1]) == 0) {
			h.fail("scanner-advance-count", fmt.Sprintf("after %d successful Next calls Advance reported %d records (queued %s)", k, n, hexs(h.fifo)))
		}
	} else if len(got) == 0 && n == 0 {
		h.fail("scanner-no-progress", "NewScanner succeeded but the first Next returned false and Advance moved past nothing")
	}
	h.pop(n)
	if n > 0 {
		h.advanced = true
	}
	if exhausted {
		rec.Class("advance:scanner-to-segment-end")
	} else {
		rec.Class("advance:scanner-partial")
	}
	h.checkHead("scanner advance")
	h.afterAdvance("scanner-advance", A, B, advBefore, enumerate && n > 0, cont)
}

func (h *hist) opPeek() {
	n := rapid.IntRange(1, 5).Draw(h.t, "peekN")
	blocks, err := h.q.PeekN(n)
	h.note("peekN", strconv.Itoa(n), nil, fmt.Sprintf("%d blocks err=%v", len(blocks), err))
	rec.Class("read:peekN")
	if len(h.fifo) == 0 {
		if err != io.EOF {
			h.fail("peek-on-empty-queue", fmt.Sprintf("PeekN on an empty queue returned %s, err=%v", hexs(blocks), err))
		}
		return
	}
	if err != nil {
		h.fail("peek-error", fmt.Sprintf("PeekN(%d) failed: %v", n, err))
	}
	ne := nonEmpty(h.fifo)
	if len(blocks) > n || !isPrefix(blocks, ne) || (len(h.fifo[0]) > 0 && len(blocks) == 0) {
		h.fail("peek-wrong-entries", fmt.Sprintf("PeekN(%d) returned %s, expected a prefix of %s", n, hexs(blocks), hexs(ne)))
	}
}

// opReopen: clean (Close first) or crash (copy without Close) reopen, continuing on the result.
func (h *hist) opReopen(clean bool) {
	name := "crash-reopen"
	if clean {
		name = "clean-reopen"
		if err := h.q.Close(); err != nil {
			h.fail("close-error", err.Error())
		}
		h.q = nil
	}
	img := image{name: name, files: snap(h.dir), complete: true}
	r := h.checkImage(img, 0, h.all, h.adv, h.adv, nil, false)
	h.note(name, "", nil, fmt.Sprintf("ok=%v redelivered=%d", r.ok, r.nx))
	if !r.ok {
		// cannot happen: complete images carry no finding signature, a failure is fatal
		h.fail("recovered-queue-unusable", "reopen failed")
	}
	rec.Class(name)
	h.continueOn(img, r, h.all, nil)
	h.checkHead(name)
}

var (
	timeOld    = time.Date(2001, 1, 1, 0, 0, 0, 0, time.UTC)
	timeCutoff = time.Date(2010, 1, 1, 0, 0, 0, 0, time.UTC) // earliest cutoff; +0..3s per purge
	timeRecent = time.Date(2011, 1, 1, 0, 0, 0, 0, time.UTC) // after every cutoff / `when` used
)

// purgeFractions: sub-second part of the `when` argument (PurgeOlderThan compares at whole-second
// resolution: cutoff = when.Truncate(time.Second)). 0 = `when` is a whole second, so that a segment
// modified exactly at `when` sits exactly on the cutoff.
var purgeFractions = []time.Duration{0, 0, 0, 1, 300 * time.Millisecond, time.Second - 1}

// opPurge: give the first k segment files a modification time before the cutoff (2001, one second
// or one nanosecond before it), put the following segment (the "boundary" segment) on or just
// after the cutoff (exactly at it, +1ns, inside the same second before `when`, exactly at `when`,
// +1ns, +1s) or leave it untouched, then PurgeOlderThan(when).
//
// Oracle, from the modification times read back from the file system: the purge removes a prefix
// of p whole segments with lo <= p <= hi, where lo = number of leading segments modified before
// when.Truncate(time.Second) (older than `when` at any resolution: must go) and hi = number of
// leading segments modified before `when` (a segment modified at or after `when` is not "older
// than" it: its entries must survive). lo != hi only when the boundary segment lies in
// [cutoff, when), where both outcomes are accepted. The expected remaining content is what a
// queue opened on a copy of the directory without those p files delivers.
func (h *hist) opPurge() {
	S := snap(h.dir)
	ids := S.ids()
	k := 0
	switch kind := rapid.IntRange(0, 3).Draw(h.t, "purgeKind"); {
	case kind == 0:
	case kind == 1 || len(ids) < 2:
		k = len(ids)
	default:
		k = rapid.IntRange(1, len(ids)-1).Draw(h.t, "purgeSegments")
	}
	sec := time.Duration(rapid.IntRange(0, 3).Draw(h.t, "purgeCutoffSecond")) * time.Second
	frac := rapid.SampledFrom(purgeFractions).Draw(h.t, "purgeWhenFraction")
	cutoff := timeCutoff.Add(sec)
	when := cutoff.Add(frac)

	// the k old segments: non-decreasing modification times, all before the cutoff
	oldKinds := make([]int, k)
	for i := range oldKinds {
		oldKinds[i] = rapid.IntRange(0, 3).Draw(h.t, "purgeOldMtime")
	}
	sort.Ints(oldKinds)
	desc := ""
	set := func(id uint64, mt time.Time) {
		if err := os.Chtimes(filepath.Join(h.dir, strconv.FormatUint(id, 10)), mt, mt); err != nil {
			panic(err)
		}
	}
	nearOld := false
	for i, id := range ids[:k] {
		switch oldKinds[i] {
		case 0, 1:
			set(id, timeOld)
			desc += " old"
		case 2:
			set(id, cutoff.Add(-time.Second))
			desc += " cutoff-1s"
			nearOld = true
		default:
			set(id, cutoff.Add(-1))
			desc += " cutoff-1ns"
			nearOld = true
		}
	}
	boundary := ""
	if k < len(ids) {
		id := ids[k]
		switch bk := rapid.IntRange(0, 9).Draw(h.t, "purgeBoundaryMtime"); {
		case bk <= 1:
			boundary = "untouched"
		case bk <= 4:
			set(id, cutoff)
			boundary = "at-cutoff"
		case bk == 5:
			set(id, cutoff.Add(1))
			boundary = "cutoff+1ns"
		case bk == 6 && frac > 1:
			set(id, cutoff.Add(frac/2))
			boundary = "same-second-before-when"
		case bk == 6 || bk == 7:
			set(id, when)
			boundary = "at-when"
		case bk == 8:
			set(id, when.Add(1))
			boundary = "when+1ns"
		default:
			set(id, cutoff.Add(time.Second))
			boundary = "cutoff+1s"
		}
		desc += " |" + boundary
	}

	// segments behind the boundary (and an "untouched" boundary) keep their real, recent
	// modification time unless an earlier purge of this history left an artificial one on them:
	// modification times must stay non-decreasing in segment order.
	for i := k; i < len(ids); i++ {
		if i == k && boundary != "untouched" {
			continue
		}
		fi, err := os.Stat(filepath.Join(h.dir, strconv.FormatUint(ids[i], 10)))
		if err != nil {
			panic(err)
		}
		if fi.ModTime().Before(timeRecent) {
			set(ids[i], timeRecent)
		}
	}

	// bounds from the modification times as the file system reports them
	lo, hi := 0, 0
	for i, id := range ids {
		fi, err := os.Stat(filepath.Join(h.dir, strconv.FormatUint(id, 10)))
		if err != nil {
			panic(err)
		}
		mt := fi.ModTime()
		if lo == i && mt.Before(cutoff) {
			lo = i + 1
		}
		if hi == i && mt.Before(when) {
			hi = i + 1
		}
	}
	arg := fmt.Sprintf("%d of %d segments; when=cutoff(+%ds)+%s; mtimes:%s", k, len(ids), int(sec/time.Second), frac, desc)
	if lo != k {
		// cannot happen on a file system that stores the times given to Chtimes
		h.note("purge", arg, nil, fmt.Sprintf("modification times not stored as set: %d leading old segments", lo))
		h.fail("purge-fixture", "modification times read back differ from those set")
	}

	err := h.q.PurgeOlderThan(when)
	if err != nil {
		h.note("purge", arg, nil, fmt.Sprint(err))
		h.fail("purge-error", err.Error())
	}
	B := snap(h.dir)
	p := 0
	for i, id := range ids {
		_, present := B[strconv.FormatUint(id, 10)]
		if !present && p == i {
			p = i + 1
		} else if !present {
			h.note("purge", arg, nil, "segments "+S.describe()+" -> "+B.describe())
			h.fail("purge-removed-non-head-segment", fmt.Sprintf("segment %d was removed although segment %d before it was kept", id, ids[p]))
		}
	}
	h.note("purge", arg, nil, fmt.Sprintf("%v; removed %d segments (must: %d, may: %d)", err, p, lo, hi))
	if p < lo {
		h.fail("purge-kept-older-segment", fmt.Sprintf("PurgeOlderThan(%s) removed %d head segments, but %d head segments were last modified before %s", when.Format(time.RFC3339Nano), p, lo, cutoff.Format(time.RFC3339Nano)))
	}
	if p > hi {
		h.fail("purge-dropped-segment-not-older", fmt.Sprintf("PurgeOlderThan(%s) removed %d head segments, but only %d head segments were last modified before that time (boundary segment: %s)", when.Format(time.RFC3339Nano), p, hi, boundary))
	}
	remaining := S.clone()
	for _, id := range ids[:p] {
		delete(remaining, strconv.FormatUint(id, 10))
	}
	want, problem := h.observe(remaining, 0)
	if problem != "" {
		h.fail("recovered-queue-unusable", "queue on a subset of whole segment files: "+problem)
	}
	// sanity of the prediction: dropping whole head segments leaves a suffix of the content
	if len(want) > len(h.fifo) || !eqList(want, h.fifo[len(h.fifo)-len(want):]) {
		h.fail("purge-prediction", fmt.Sprintf("content without the first %d segments %s is not a suffix of %s", p, hexs(want), hexs(h.fifo)))
	}
	kept := len(want)
	if p < len(ids) {
		// entries held by the boundary segment (the one that has to survive)
		rest := remaining.clone()
		delete(rest, strconv.FormatUint(ids[p], 10))
		if w2, pr := h.observe(rest, 0); pr == "" && len(w2) <= len(want) {
			kept = len(want) - len(w2)
		}
	}
	h.pop(len(h.fifo) - len(want))
	switch {
	case k == 0:
		rec.Class("purge:nothing-old")
	case k == len(ids):
		rec.Class("purge:everything")
	default:
		rec.Class("purge:head-segments")
	}
	if nearOld {
		rec.Class("purge:old-segment-within-1s-of-cutoff")
	}
	if boundary != "" {
		rec.Class("purge:boundary-segment-" + boundary)
		if boundary != "untouched" && kept > 0 {
			rec.Class("purge:boundary-segment-near-cutoff-holds-pending-entries")
		}
		if (boundary == "at-cutoff" || boundary == "at-when") && frac == 0 && kept > 0 {
			rec.Class("purge:segment-exactly-at-whole-second-when-holds-pending-entries(must-survive)")
		}
		if lo != hi {
			rec.Class("purge:boundary-in-same-second-before-when(either-outcome-accepted)")
		}
	}
	if B.idsMax() > S.idsMax() {
		h.rolled = true
	}
	h.checkHead("purge")
}

func (h *hist) opSetMax() {
	f := rapid.SampledFrom([]int64{1, 2, 2, 3, 4, 8, 64}).Draw(h.t, "maxFactor")
	d := rapid.Int64Range(-1, 1).Draw(h.t, "maxDelta")
	v := h.seg*f + d
	err := h.q.SetMaxSize(v)
	h.note("setMaxSize", strconv.FormatInt(v, 10), nil, fmt.Sprint(err))
	rec.Class("setMaxSize")
	if v < 2*h.seg {
		if err == nil {
			h.fail("setmaxsize-accepts-too-small", fmt.Sprintf("SetMaxSize(%d) accepted with max segment size %d", v, h.seg))
		}
		return
	}
	if err != nil {
		h.fail("setmaxsize-error", fmt.Sprintf("SetMaxSize(%d) with max segment size %d: %v", v, h.seg, err))
	}
	h.max = v
}

// ---------------------------------------------------------------------------------------------

func scratchRoot() string {
	r, err := scratch.Dir("work-C26-")
	if err != nil {
		panic(err)
	}
	return r
}

func runHistory(t *rapid.T) { runProfile(t, false) }

// runProfile: advanceHeavy = large segments, medium entries, every advance enumerated — makes
// head positions cross byte boundaries so that torn footer writes have intermediate values.
func runProfile(t *rapid.T, advanceHeavy bool) {
	h := &hist{t: t, root: scratchRoot(), advanceHeavy: advanceHeavy}
	defer os.RemoveAll(h.root)
	defer func() {
		if h.q != nil {
			h.q.Close()
		}
	}()

	cfg := rapid.IntRange(0, 9).Draw(t, "config")
	switch {
	case advanceHeavy:
		h.seg = rapid.Int64Range(600, 4000).Draw(t, "seg")
		rec.Class("config:advance-heavy-segment-600..4000-bytes")
	case cfg <= 3:
		h.seg = rapid.Int64Range(9, 24).Draw(t, "seg")
		rec.Class("config:segment-9..24-bytes")
	case cfg <= 7:
		h.seg = rapid.Int64Range(25, 90).Draw(t, "seg")
		rec.Class("config:segment-25..90-bytes")
	default:
		h.seg = rapid.Int64Range(280, 2000).Draw(t, "seg")
		rec.Class("config:segment-280..2000-bytes")
	}
	h.max = h.seg * rapid.SampledFrom([]int64{2, 3, 4, 8, 8, 32, 32, 1000}).Draw(t, "maxFactor")
	h.dir = h.newDir()
	if err := os.MkdirAll(h.dir, 0o755); err != nil {
		panic(err)
	}
	q, err := h.open(h.dir)
	if err != nil {
		h.fail("open-error", err.Error())
	}
	h.q = q
	h.id0 = maxID(h.dir)
	h.note("open", fmt.Sprintf("maxSegmentSize=%d maxSize=%d", h.seg, h.max), nil, "")

	nOps := rapid.IntRange(3, 36).Draw(t, "nOps")
	if h.seg >= 280 {
		nOps += rapid.IntRange(0, 30).Draw(t, "nOpsExtra")
	}
	if advanceHeavy {
		nOps += 15
	}
	for i := 0; i < nOps; i++ {
		op := rapid.IntRange(0, 99).Draw(t, "op")
		fault := rapid.IntRange(0, 99).Draw(t, "fault")
		enumerate := fault < 30
		cont := fault < 8
		empty := len(h.fifo) == 0
		if advanceHeavy {
			switch {
			case op < 45 || empty:
				h.opAppend(false, false)
			case op < 65:
				h.opAdvance(true, fault < 10)
			case op < 92:
				h.opScan(true, fault < 10)
			case op < 96:
				h.opReopen(false)
			default:
				h.opPeek()
			}
			continue
		}
		switch {
		case op < 42 || (empty && op < 80):
			h.opAppend(enumerate, cont)
		case op < 58:
			h.opAdvance(enumerate, cont)
		case op < 74:
			h.opScan(enumerate, cont)
		case op < 80:
			h.opPeek()
		case op < 86:
			h.opReopen(true)
		case op < 92:
			h.opReopen(false)
		case op < 97:
			h.opPurge()
		default:
			h.opSetMax()
		}
	}

	// final: the live queue must deliver exactly the model content
	mode := rapid.IntRange(0, 1).Draw(t, "finalDrain")
	want := h.fifo
	if mode == 1 {
		want = nonEmpty(want)
	}
	got, problem := drain(h.q, mode, len(h.all)+4)
	h.note("final-drain", strconv.Itoa(mode), nil, problem)
	if problem != "" || !eqList(got, want) {
		h.fail("final-drain-mismatch", fmt.Sprintf("draining the live queue (mode %d) delivered %s (problem %q), expected %s", mode, hexs(got), problem, hexs(want)))
	}

	rec.Eval()
	rec.ClassN("crash-images-checked", h.imagesSeen)
	if h.rolled {
		rec.Class("history:with-segment-rollover")
	}
	if h.rolled && h.advanced && h.crash2 {
		rec.Class("history:non-trivial")
		var sb strings.Builder
		fmt.Fprintf(&sb, "%d|", h.seg)
		for _, o := range h.ops {
			sb.WriteString(o.Op + "," + o.Arg + "," + o.Payload + ";")
		}
		rec.NonTrivial(sb.String())
		if rec.WantSample() {
			rec.Sample(h.caseJSON())
		}
	} else {
		rec.Class("history:trivial")
	}
}

func TestPropQueueHistories(t *testing.T) {
	rec.Assume("Torn-write model: a crash during an operation leaves the file the operation was writing with a byte prefix of that operation's single write applied over the previous bytes (files never shrink); all other files are as the completed earlier operations left them (every append/advance fsyncs before returning).")
	rec.Assume("Not modelled: loss of fsynced data, reordering of directory operations (create/unlink) by the file system, crashes during the repair performed by Open itself.")
	rec.Assume("Caller protocol: Queue.Advance is only called when Current returned an entry; PurgeOlderThan is called with a time in the past; every (re)open uses a fresh Queue value and SharedCount as the replications service does.")
	rec.Assume("PurgeOlderThan(when) semantics: a head segment last modified before when.Truncate(time.Second) is removed (with its entries), a segment last modified at or after `when` is not older and keeps all its pending entries, purging stops at the first kept segment; for a segment modified in [when.Truncate(time.Second), when) either outcome is accepted. Modification times are set with os.Chtimes (non-decreasing in segment order) and read back.")
	rec.Assume("Scanner and PeekN skip zero-length entries by design; they are compared with the non-empty entries of the model, Current/Advance with all entries.")
	rec.Check(t, 1200, 6000, runHistory)
}

// TestPropTornAdvanceLargeOffsets: same machinery, advance-heavy profile (see runProfile).
func TestPropTornAdvanceLargeOffsets(t *testing.T) {
	rec.Check(t, 800, 4000, func(t *rapid.T) { runProfile(t, true) })
}
