package c26_queue

import (
	"testing"

	"verifharness/internal/ev"
)

func TestMain(m *testing.M) { ev.Main(m) }
