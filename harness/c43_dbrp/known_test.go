package c43_dbrp

import (
	"context"
	"fmt"
	"testing"

	"github.com/influxdata/influxdb/v2"
	"github.com/influxdata/influxdb/v2/dbrp"
	"github.com/influxdata/influxdb/v2/inmem"
	"github.com/influxdata/influxdb/v2/kv/migration/all"
	"github.com/influxdata/influxdb/v2/tenant"
	"go.uber.org/zap"
)

// TestKnown_virtual_not_shadowed_after_default_break: organization with the buckets "plain" and
// "db1"; physical mappings (db1, rp1) -> plain (first of the database, hence default) and then
// (db1, autogen) -> plain. FindMany{org, db1} lists (db1, autogen) twice: the physical mapping to
// "plain" and the virtual mapping of bucket "db1" — the loop that drops shadowed virtual mappings
// `break`s at the physical default (rp1) before it reaches the physical autogen mapping.
func TestKnown_virtual_not_shadowed_after_default_break(t *testing.T) {
	ctx := context.Background()
	store := inmem.NewKVStore()
	if err := all.Up(ctx, zap.NewNop(), store); err != nil {
		t.Fatal(err)
	}
	g := &seqGen{next: 0x20}
	st := tenant.NewStore(store)
	st.IDGen, st.OrgIDGen, st.BucketIDGen = g, g, g
	ten := tenant.NewService(st)
	svc := dbrp.NewService(ctx, ten.BucketService, store)
	svc.(*dbrp.Service).IDGen = g

	org := &influxdb.Organization{Name: "orgA"}
	if err := ten.CreateOrganization(ctx, org); err != nil {
		t.Fatal(err)
	}
	plain := &influxdb.Bucket{OrgID: org.ID, Name: "plain"}
	named := &influxdb.Bucket{OrgID: org.ID, Name: "db1"}
	for _, b := range []*influxdb.Bucket{plain, named} {
		if err := ten.CreateBucket(ctx, b); err != nil {
			t.Fatal(err)
		}
	}
	for _, rp := range []string{"rp1", "autogen"} {
		if err := svc.Create(ctx, &influxdb.DBRPMapping{OrganizationID: org.ID, Database: "db1", RetentionPolicy: rp, BucketID: plain.ID}); err != nil {
			t.Fatal(err)
		}
	}
	db := "db1"
	ms, _, err := svc.FindMany(ctx, influxdb.DBRPMappingFilter{OrgID: &org.ID, Database: &db})
	if err != nil {
		t.Fatal(err)
	}
	rec.Eval()
	buckets := map[string]bool{}
	n := 0
	for _, m := range ms {
		if m.RetentionPolicy == "autogen" {
			n++
			buckets[m.BucketID.String()] = true
		}
	}
	reproduced := n == 2 && len(buckets) == 2
	rec.Known(t, "TestKnown_virtual_not_shadowed_after_default_break", keyDefaultBreak, reproduced,
		fmt.Sprintf("buckets plain,db1; Create(db1,rp1->plain) [default]; Create(db1,autogen->plain); FindMany{org,db1} lists (db1,autogen) %d times with %d different buckets: %s", n, len(buckets), listStr(ms)),
		map[string]any{"ops": []string{"CreateBucket(plain)", "CreateBucket(db1)", "Create(db1,rp1,plain)", "Create(db1,autogen,plain)", "FindMany{org,db1}"}})
}

// TestKnown_update_of_virtual_mapping: bucket "db1/rp0" induces the virtual mapping (db1, rp0).
// FindByID(org, bucketID) returns it; Update of that mapping with retention policy rp1 (what PATCH
// /api/v2/dbrps/{id} does) succeeds and stores a record under the bucket id without index entries
// or a default. Afterwards FindByID reports (db1, rp1) while FindMany{org, db1} still lists (db1,
// rp0) and nothing resolves (db1, rp1); the unfiltered FindMany{} panics (nil default id).
func TestKnown_update_of_virtual_mapping(t *testing.T) {
	ctx := context.Background()
	store := inmem.NewKVStore()
	if err := all.Up(ctx, zap.NewNop(), store); err != nil {
		t.Fatal(err)
	}
	g := &seqGen{next: 0x20}
	st := tenant.NewStore(store)
	st.IDGen, st.OrgIDGen, st.BucketIDGen = g, g, g
	ten := tenant.NewService(st)
	svc := dbrp.NewService(ctx, ten.BucketService, store)
	svc.(*dbrp.Service).IDGen = g
	org := &influxdb.Organization{Name: "orgA"}
	if err := ten.CreateOrganization(ctx, org); err != nil {
		t.Fatal(err)
	}
	named := &influxdb.Bucket{OrgID: org.ID, Name: "db1/rp0"}
	if err := ten.CreateBucket(ctx, named); err != nil {
		t.Fatal(err)
	}
	v, err := svc.FindByID(ctx, org.ID, named.ID)
	if err != nil || !v.Virtual {
		t.Fatalf("virtual mapping: %v %v", v, err)
	}
	v.RetentionPolicy = "rp1"
	uerr := svc.Update(ctx, v)
	rec.Eval()
	panicked := false
	func() {
		defer func() {
			if recover() != nil {
				panicked = true
			}
		}()
		svc.FindMany(ctx, influxdb.DBRPMappingFilter{})
	}()
	disagree := false
	if got, err := svc.FindByID(ctx, org.ID, named.ID); err == nil {
		rs, _, _ := svc.FindMany(ctx, influxdb.DBRPMappingFilter{OrgID: &org.ID, Database: &got.Database, RetentionPolicy: &got.RetentionPolicy})
		disagree = len(rs) != 1 || rs[0].BucketID != got.BucketID
	}
	rec.Known(t, "TestKnown_update_of_virtual_mapping", keyUpdateVirtual, uerr == nil && (panicked || disagree),
		fmt.Sprintf("bucket db1/rp0; Update(virtual mapping of that bucket, rp=rp1) err=%v; FindMany{} panics=%v; FindByID disagrees with FindMany{org,db,rp}=%v", uerr, panicked, disagree),
		map[string]any{"ops": []string{"CreateBucket(db1/rp0)", "FindByID(org, bucketID)", "Update(rp=rp1)", "FindMany{}"}})
}
