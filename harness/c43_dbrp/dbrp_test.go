// C43 — v1 database/retention-policy names resolve to one bucket.
//
// A rapid-generated history of DBRP-mapping operations (create / update of retention policy and
// default flag / delete, plus creating and deleting buckets whose NAMES induce virtual mappings) is
// run against dbrp.NewService over a real tenant bucket service on the in-memory KV store, for two
// organizations, two databases and three retention policies, and replayed against a model of the
// physical mappings and of the per-(organization, database) default.
//
// After every step, for every organization and database:
//   - FindMany{org, db, rp} returns at most one mapping for every retention policy: the physical
//     mapping when one exists (a virtual mapping never shadows it), else exactly one virtual mapping
//     taken from a bucket of that organization named "db/rp" (or "db" for rp "autogen"), else none;
//   - FindMany{org, db} lists every physical mapping exactly once, no (db, rp) pair twice, nothing of
//     another organization; when the database has a physical mapping exactly one listed mapping has
//     Default = true and it is the model's default;
//   - FindMany{org, db, default=true} (the lookup used for an empty retention policy) returns
//     exactly that default mapping;
//   - FindByID agrees with FindMany for every id ever issued (deleted ids / ids of the other
//     organization are not found), and the unfiltered FindMany{} lists every physical mapping of both
//     organizations exactly once with the same Default flags.
//
// Which mapping is default is predicted by the model: the first mapping of a database, a mapping
// created or updated with Default = true; when the default is deleted (or updated to Default =
// false) and other mappings of the database exist, one of THEM must become the default (the model
// adopts whichever was promoted); otherwise the default must not move.
package c43_dbrp

import (
	"context"
	"fmt"
	"sort"
	"strings"
	"testing"

	"github.com/influxdata/influxdb/v2"
	"github.com/influxdata/influxdb/v2/dbrp"
	"github.com/influxdata/influxdb/v2/inmem"
	"github.com/influxdata/influxdb/v2/kit/platform"
	ierrors "github.com/influxdata/influxdb/v2/kit/platform/errors"
	"github.com/influxdata/influxdb/v2/kv/migration/all"
	"github.com/influxdata/influxdb/v2/tenant"
	"go.uber.org/zap"
	"pgregory.net/rapid"

	"verifharness/internal/ev"
)

const propName = "TestPropDBRPHistories"

var rec = ev.For("C43", "exploration",
	"case = one history (about 30 steps) of create / update (retention policy, default flag) / delete of DBRP mappings and create / delete of buckets with db/rp-shaped names, over 2 organizations x 2 databases x 3 retention policies, checked against a model after every step; "+
		"NON-TRIVIAL when the history contains (a) the deletion of a default mapping that has a successor, (b) an update that moves the default flag between two mappings, and (c) a moment where a physical mapping shadows a virtual mapping of the same (db, rp); distinct by the executed operation list")

var (
	dbs         = []string{"db0", "db1"}
	rps         = []string{"rp0", "rp1", "autogen"}
	bucketNames = []string{"db0", "db1", "db0/rp0", "db0/autogen", "db0/rp1", "db1/rp1", "db1/autogen", "plain"}
)

type mapM struct {
	id, org, bucket platform.ID
	db, rp          string
	live            bool
}

type bucketM struct {
	id, org platform.ID
	name    string
	live    bool
}

type dbKey struct {
	org platform.ID
	db  string
}

type seqGen struct{ next uint64 }

func (g *seqGen) ID() platform.ID { g.next++; return platform.ID(g.next) }

type sys struct {
	ctx     context.Context
	buckets influxdb.BucketService // dbrp.BucketService: deleting a bucket deletes its mappings
	svc     influxdb.DBRPMappingService

	orgs []platform.ID
	bkts []*bucketM
	maps []*mapM
	def  map[dbKey]platform.ID // default mapping per (org, db); absent when no physical mapping

	// promoted: databases whose default was just removed/unset and must now be one of the candidates
	promoted map[dbKey][]platform.ID

	hist []string

	deleteDefaultWithSuccessor, updateMovesDefault, shadowed bool

	// stop: the history ended with an update addressed at a virtual mapping (only generated once the
	// finding keyUpdateVirtual is no longer listed open); the model cannot predict what a repaired
	// service does with it, so nothing is generated or compared afterwards
	stop bool
}

// uniform draws an index in [0,n) without rapid's bias towards small indices.
func uniform(t *rapid.T, label string, n int) int {
	x := rapid.Uint64().Draw(t, label) + 0x9e3779b97f4a7c15
	x = (x ^ (x >> 30)) * 0xbf58476d1ce4e5b9
	x = (x ^ (x >> 27)) * 0x94d049bb133111eb
	x ^= x >> 31
	return int(x % uint64(n))
}

func (s *sys) logf(format string, a ...any) { s.hist = append(s.hist, fmt.Sprintf(format, a...)) }

func (s *sys) fail(t *rapid.T, key, format string, a ...any) {
	detail := fmt.Sprintf(format, a...)
	rec.Fail(t, propName, key, detail+" | history: "+strings.Join(s.hist, " ; "), map[string]any{"history": s.hist})
}

func newSys(t *rapid.T) *sys {
	ctx := context.Background()
	store := inmem.NewKVStore()
	if err := all.Up(ctx, zap.NewNop(), store); err != nil {
		t.Fatalf("migrations: %v", err)
	}
	g := &seqGen{next: rapid.SampledFrom([]uint64{0x20, 0x0fffffffffffff00}).Draw(t, "idbase")}
	st := tenant.NewStore(store)
	st.IDGen, st.OrgIDGen, st.BucketIDGen = g, g, g
	ten := tenant.NewService(st)
	svc := dbrp.NewService(ctx, ten.BucketService, store)
	svc.(*dbrp.Service).IDGen = g
	s := &sys{ctx: ctx, svc: svc, def: map[dbKey]platform.ID{}, promoted: map[dbKey][]platform.ID{}}
	s.buckets = dbrp.NewBucketService(zap.NewNop(), ten.BucketService, svc)
	for _, name := range []string{"orgA", "orgB"} {
		o := &influxdb.Organization{Name: name}
		if err := ten.CreateOrganization(ctx, o); err != nil {
			t.Fatalf("setup org: %v", err)
		}
		s.orgs = append(s.orgs, o.ID)
	}
	// every organization starts with one plainly named bucket so that mappings can be created
	for _, org := range s.orgs {
		s.addBucket(t, org, "plain")
	}
	s.hist = nil
	return s
}

func (s *sys) addBucket(t *rapid.T, org platform.ID, name string) {
	for _, b := range s.bkts {
		if b.live && b.org == org && b.name == name {
			s.logf("createBucket(org#%v,%q) skipped: exists", org, name)
			return
		}
	}
	b := &influxdb.Bucket{OrgID: org, Name: name}
	s.logf("createBucket(org#%v,%q)", org, name)
	if err := s.buckets.CreateBucket(s.ctx, b); err != nil {
		s.fail(t, "setup-create-bucket", "CreateBucket(%q): %v", name, err)
	}
	s.bkts = append(s.bkts, &bucketM{id: b.ID, org: org, name: name, live: true})
}

func (s *sys) liveMaps(org platform.ID, db string) []*mapM {
	var out []*mapM
	for _, m := range s.maps {
		if m.live && m.org == org && m.db == db {
			out = append(out, m)
		}
	}
	return out
}

func (s *sys) physical(org platform.ID, db, rp string) *mapM {
	for _, m := range s.maps {
		if m.live && m.org == org && m.db == db && m.rp == rp {
			return m
		}
	}
	return nil
}

func (s *sys) liveBuckets(org platform.ID) []*bucketM {
	var out []*bucketM
	for _, b := range s.bkts {
		if b.live && b.org == org {
			out = append(out, b)
		}
	}
	return out
}

// parse is the documented naming rule of virtual mappings: "db/rp", or "db" with rp "autogen".
func parse(name string) (string, string) {
	if db, rp, ok := strings.Cut(name, "/"); ok {
		return db, rp
	}
	return name, "autogen"
}

// virtualCandidates are the live buckets of org whose name denotes (db, rp).
func (s *sys) virtualCandidates(org platform.ID, db, rp string) []platform.ID {
	var out []platform.ID
	for _, b := range s.liveBuckets(org) {
		if d, r := parse(b.name); d == db && r == rp {
			out = append(out, b.id)
		}
	}
	return out
}

// removeMapping updates the model for the removal of m (delete of the mapping or of its bucket).
func (s *sys) removeMapping(m *mapM) {
	m.live = false
	k := dbKey{m.org, m.db}
	if s.def[k] != m.id {
		return
	}
	delete(s.def, k)
	var others []platform.ID
	for _, o := range s.liveMaps(m.org, m.db) {
		others = append(others, o.id)
	}
	if len(others) > 0 {
		s.promoted[k] = others
	} else {
		delete(s.promoted, k)
	}
}

// ---- operations -----------------------------------------------------------------------------

func (s *sys) create(t *rapid.T) {
	org := s.orgs[uniform(t, "org", len(s.orgs))]
	db := dbs[uniform(t, "db", len(dbs))]
	rp := rps[uniform(t, "rp", len(rps))]
	bs := s.liveBuckets(org)
	if len(bs) == 0 {
		s.addBucket(t, org, "plain")
		return
	}
	b := bs[uniform(t, "bucket", len(bs))]
	def := uniform(t, "default", 3) == 0
	s.logf("create(org#%v,%s,%s,bucket#%v %q,default=%v)", org, db, rp, b.id, b.name, def)
	m := &influxdb.DBRPMapping{OrganizationID: org, Database: db, RetentionPolicy: rp, BucketID: b.id, Default: def}
	err := s.svc.Create(s.ctx, m)
	if s.physical(org, db, rp) != nil {
		if err == nil || ierrors.ErrorCode(err) != ierrors.EConflict {
			s.fail(t, "create-duplicate-accepted", "creating a second mapping for (%v,%s,%s) must fail with a conflict, got %v", org, db, rp, err)
		}
		rec.Class("create:duplicate-db-rp")
		return
	}
	if err != nil {
		s.fail(t, "create-rejected", "creating the mapping (%v,%s,%s) failed: %v", org, db, rp, err)
	}
	if !m.ID.Valid() {
		s.fail(t, "create-id", "created mapping has no id")
	}
	k := dbKey{org, db}
	_, had := s.def[k]
	switch {
	case !had:
		s.def[k] = m.ID
		rec.Class("create:first-of-database")
	case def:
		s.def[k] = m.ID
		rec.Class("create:takes-default")
	default:
		rec.Class("create:non-default")
	}
	if len(s.virtualCandidates(org, db, rp)) > 0 {
		s.shadowed = true
		rec.Class("create:shadows-virtual")
	}
	s.maps = append(s.maps, &mapM{id: m.ID, org: org, bucket: b.id, db: db, rp: rp, live: true})
}

// pickMap prefers live mappings.
func (s *sys) pickMap(t *rapid.T) *mapM {
	var live []*mapM
	for _, m := range s.maps {
		if m.live {
			live = append(live, m)
		}
	}
	if len(live) > 0 && uniform(t, "map-live", 10) < 8 {
		return live[uniform(t, "map", len(live))]
	}
	return s.maps[uniform(t, "map", len(s.maps))]
}

func (s *sys) update(t *rapid.T) {
	if len(s.maps) == 0 {
		s.create(t)
		return
	}
	m := s.pickMap(t)
	org := m.org
	if uniform(t, "wrong-org", 10) == 0 {
		org = s.orgs[0] ^ s.orgs[1] ^ m.org // the other organization
	}
	rp := m.rp
	if uniform(t, "change-rp", 2) == 0 {
		rp = rps[uniform(t, "rp", len(rps))]
	}
	def := uniform(t, "default", 2) == 0
	k := dbKey{m.org, m.db}
	wasDefault := s.def[k] == m.id
	// Update documents database and bucket as fields "that cannot change" and overwrites them with
	// the stored ones: a request body carrying other values must behave exactly like one carrying
	// the stored values.
	reqDB, reqBucket := m.db, m.bucket
	if uniform(t, "body-other-db", 4) == 0 {
		reqDB = dbs[uniform(t, "body-db", len(dbs))]
		if reqDB != m.db {
			rec.Class("update:body-names-another-database")
		}
	}
	if uniform(t, "body-other-bucket", 8) == 0 {
		reqBucket = m.bucket + 1000
	}
	s.logf("update(org#%v,#%v live=%v %s %s->%s,default %v->%v body db=%s bucket=%v)", org, m.id, m.live, m.db, m.rp, rp, wasDefault, def, reqDB, reqBucket)
	err := s.svc.Update(s.ctx, &influxdb.DBRPMapping{ID: m.id, OrganizationID: org, Database: reqDB, RetentionPolicy: rp, BucketID: reqBucket, Default: def})
	if !m.live || org != m.org {
		if err == nil || ierrors.ErrorCode(err) != ierrors.ENotFound {
			s.fail(t, "update-missing-accepted", "updating a deleted mapping / a mapping of another organization must fail with not found, got %v", err)
		}
		rec.Class("update:not-found")
		return
	}
	if other := s.physical(m.org, m.db, rp); other != nil && other != m {
		if err == nil || ierrors.ErrorCode(err) != ierrors.EConflict {
			s.fail(t, "update-duplicate-accepted", "updating #%v to (%s,%s) which #%v already maps must fail with a conflict, got %v", m.id, m.db, rp, other.id, err)
		}
		rec.Class("update:duplicate-db-rp")
		return
	}
	if err != nil {
		s.fail(t, "update-rejected", "update of #%v failed: %v", m.id, err)
	}
	if rp != m.rp && len(s.virtualCandidates(m.org, m.db, rp)) > 0 {
		s.shadowed = true
	}
	m.rp = rp
	switch {
	case def && !wasDefault:
		s.def[k] = m.id
		s.updateMovesDefault = true
		rec.Class("update:takes-default")
	case !def && wasDefault:
		var others []platform.ID
		for _, o := range s.liveMaps(m.org, m.db) {
			if o != m {
				others = append(others, o.id)
			}
		}
		if len(others) > 0 {
			// service.go: "If the update unsets mapping.Default, the first mapping found is set as default."
			delete(s.def, k)
			s.promoted[k] = others
			s.updateMovesDefault = true
			rec.Class("update:unsets-default-with-successor")
		} else {
			rec.Class("update:unsets-default-of-only-mapping")
		}
	default:
		rec.Class("update:default-unchanged")
	}
}

func (s *sys) delete(t *rapid.T) {
	if len(s.maps) == 0 {
		s.create(t)
		return
	}
	m := s.pickMap(t)
	org := m.org
	if uniform(t, "wrong-org", 10) == 0 {
		org = s.orgs[0] ^ s.orgs[1] ^ m.org
	}
	wasDefault := s.def[dbKey{m.org, m.db}] == m.id
	s.logf("delete(org#%v,#%v live=%v %s %s default=%v)", org, m.id, m.live, m.db, m.rp, wasDefault)
	err := s.svc.Delete(s.ctx, org, m.id)
	if err != nil {
		// "Deleting a mapping that does not exists is not an error."
		s.fail(t, "delete-failed", "Delete(#%v) failed: %v", m.id, err)
	}
	if !m.live || org != m.org {
		rec.Class("delete:absent-or-other-org")
		return
	}
	s.removeMapping(m)
	switch {
	case wasDefault && len(s.promoted[dbKey{m.org, m.db}]) > 0:
		s.deleteDefaultWithSuccessor = true
		rec.Class("delete:default-with-successor")
	case wasDefault:
		rec.Class("delete:default-last-of-database")
	default:
		rec.Class("delete:non-default")
	}
}

func (s *sys) createBucket(t *rapid.T) {
	org := s.orgs[uniform(t, "org", len(s.orgs))]
	name := bucketNames[uniform(t, "bucket-name", len(bucketNames))]
	s.addBucket(t, org, name)
	db, rp := parse(name)
	if s.physical(org, db, rp) != nil {
		s.shadowed = true
		rec.Class("bucket-create:virtual-shadowed-by-physical")
	} else {
		rec.Class("bucket-create:other")
	}
}

func (s *sys) deleteBucket(t *rapid.T) {
	var live []*bucketM
	for _, b := range s.bkts {
		if b.live {
			live = append(live, b)
		}
	}
	if len(live) == 0 {
		s.createBucket(t)
		return
	}
	b := live[uniform(t, "bucket", len(live))]
	s.logf("deleteBucket(#%v %q org#%v)", b.id, b.name, b.org)
	if err := s.buckets.DeleteBucket(s.ctx, b.id); err != nil {
		s.fail(t, "delete-bucket-failed", "DeleteBucket(#%v): %v", b.id, err)
	}
	b.live = false
	n := 0
	// dbrp.BucketService.DeleteBucket deletes the mappings of the bucket (one Delete per mapping)
	for _, m := range s.maps {
		if m.live && m.bucket == b.id {
			s.removeMapping(m)
			n++
		}
	}
	// a mapping promoted by one of these deletes may itself have been deleted by a later one
	for k, c := range s.promoted {
		var still []platform.ID
		for _, id := range c {
			for _, m := range s.liveMaps(k.org, k.db) {
				if m.id == id {
					still = append(still, id)
				}
			}
		}
		if len(still) == 0 {
			delete(s.promoted, k)
		} else {
			s.promoted[k] = still
		}
	}
	if n > 0 {
		rec.Class("bucket-delete:with-mappings")
	} else {
		rec.Class("bucket-delete:without-mappings")
	}
}

// ---- invariant ------------------------------------------------------------------------------

// keyDefaultBreak is the known finding: while appending virtual mappings FindMany stops comparing a
// default-looking virtual mapping (bucket named exactly like the database) with the physical
// mappings as soon as it has met the physical default, so a physical mapping of the same (db, rp)
// that is listed AFTER the default does not shadow it.
const keyDefaultBreak = "virtual-not-shadowed-after-default-break"

// isDefaultBreakSignature reports whether ms[i] is exactly that case: a virtual mapping of a bucket
// whose name has no slash, listed although a physical mapping of its (db, rp) exists, where that
// physical mapping comes after a physical Default=true mapping of another retention policy.
func (s *sys) isDefaultBreakSignature(ms []*influxdb.DBRPMapping, i int) bool {
	v := ms[i]
	if !v.Virtual {
		return false
	}
	named := false
	for _, b := range s.bkts {
		if b.id == v.BucketID && b.live && b.name == v.Database {
			named = true
		}
	}
	if !named {
		return false
	}
	sawDefault := false
	for _, m := range ms {
		if m.Virtual || m.Database != v.Database {
			continue
		}
		if m.RetentionPolicy == v.RetentionPolicy {
			return sawDefault
		}
		if m.Default {
			sawDefault = true
		}
	}
	return false
}

func mapStr(m *influxdb.DBRPMapping) string {
	return fmt.Sprintf("#%v org=%v %s/%s bucket=%v default=%v virtual=%v", m.ID, m.OrganizationID, m.Database, m.RetentionPolicy, m.BucketID, m.Default, m.Virtual)
}

func listStr(ms []*influxdb.DBRPMapping) string {
	var out []string
	for _, m := range ms {
		out = append(out, mapStr(m))
	}
	return "[" + strings.Join(out, " ; ") + "]"
}

func filterStr(f influxdb.DBRPMappingFilter) string {
	var parts []string
	if f.OrgID != nil {
		parts = append(parts, "org="+f.OrgID.String())
	}
	if f.Database != nil {
		parts = append(parts, "db="+*f.Database)
	}
	if f.RetentionPolicy != nil {
		parts = append(parts, "rp="+*f.RetentionPolicy)
	}
	if f.Default != nil {
		parts = append(parts, fmt.Sprintf("default=%v", *f.Default))
	}
	return "{" + strings.Join(parts, " ") + "}"
}

// findMany calls FindMany and reports a panic inside the service as a violation of its own.
func (s *sys) findMany(t *rapid.T, f influxdb.DBRPMappingFilter) (ms []*influxdb.DBRPMapping, n int, err error) {
	var panicked any
	func() {
		defer func() { panicked = recover() }()
		ms, n, err = s.svc.FindMany(s.ctx, f)
	}()
	if panicked != nil {
		s.fail(t, "find-many-panics", "FindMany(%s) panics: %v", filterStr(f), panicked)
	}
	return ms, n, err
}

func (s *sys) verify(t *rapid.T) {
	if s.stop {
		return
	}
	ctx := s.ctx
	yes := true
	for _, org := range s.orgs {
		org := org
		for _, db := range dbs {
			db := db
			k := dbKey{org, db}
			phys := s.liveMaps(org, db)

			// ---- the default lookup (empty retention policy)
			ds, n, err := s.findMany(t, influxdb.DBRPMappingFilter{OrgID: &org, Database: &db, Default: &yes})
			if err != nil || n != len(ds) {
				s.fail(t, "find-default", "FindMany{org %v, %s, default}: n=%d len=%d err=%v", org, db, n, len(ds), err)
			}
			if len(ds) > 1 {
				s.fail(t, "two-defaults", "FindMany{org %v, %s, default=true} returned %s", org, db, listStr(ds))
			}
			if len(phys) > 0 {
				if len(ds) != 1 || ds[0].Virtual || !ds[0].Default || ds[0].OrganizationID != org || ds[0].Database != db {
					s.fail(t, "no-default", "database %s of org %v has %d physical mappings but the default lookup returned %s", db, org, len(phys), listStr(ds))
				}
				got := ds[0].ID
				if cand, ok := s.promoted[k]; ok {
					found := false
					for _, c := range cand {
						found = found || c == got
					}
					if !found {
						s.fail(t, "default-not-promoted", "after the default of (%v,%s) was removed/unset the default is #%v, want one of the other mappings %v", org, db, got, cand)
					}
					s.def[k] = got
					delete(s.promoted, k)
				} else if s.def[k] != got {
					s.fail(t, "default-moved", "default of (%v,%s) is #%v, model says #%v", org, db, got, s.def[k])
				}
			} else {
				for _, d := range ds {
					if !d.Virtual || d.OrganizationID != org || d.Database != db {
						s.fail(t, "stale-default", "database %s of org %v has no physical mapping but the default lookup returned %s", db, org, listStr(ds))
					}
				}
			}

			// ---- the listing of the database
			ms, n, err := s.findMany(t, influxdb.DBRPMappingFilter{OrgID: &org, Database: &db})
			if err != nil || n != len(ms) {
				s.fail(t, "find-db", "FindMany{org %v, %s}: n=%d len=%d err=%v", org, db, n, len(ms), err)
			}
			seenRP := map[string]bool{}
			var gotPhys, wantPhys []string
			defaults := 0
			for i, m := range ms {
				if m.OrganizationID != org || m.Database != db {
					s.fail(t, "foreign-mapping-listed", "FindMany{org %v, %s} returned %s", org, db, mapStr(m))
				}
				if m.Virtual && s.physical(org, db, m.RetentionPolicy) != nil && s.isDefaultBreakSignature(ms, i) && ev.KnownOpen("C43", keyDefaultBreak) {
					rec.ExcludedKnown(keyDefaultBreak)
					continue
				}
				if seenRP[m.RetentionPolicy] {
					s.fail(t, "db-rp-listed-twice", "FindMany{org %v, %s} lists (%s,%s) twice: %s", org, db, db, m.RetentionPolicy, listStr(ms))
				}
				seenRP[m.RetentionPolicy] = true
				if m.Default {
					defaults++
				}
				if m.Virtual {
					if s.physical(org, db, m.RetentionPolicy) != nil {
						s.fail(t, "virtual-not-shadowed", "FindMany{org %v, %s} lists the virtual mapping %s although a physical mapping for that retention policy exists: %s", org, db, mapStr(m), listStr(ms))
					}
					ok := false
					for _, c := range s.virtualCandidates(org, db, m.RetentionPolicy) {
						ok = ok || (c == m.BucketID)
					}
					if !ok {
						s.fail(t, "virtual-without-bucket", "FindMany{org %v, %s} lists the virtual mapping %s but no live bucket of the organization is named so", org, db, mapStr(m))
					}
					continue
				}
				gotPhys = append(gotPhys, fmt.Sprintf("#%v %s bucket=%v default=%v", m.ID, m.RetentionPolicy, m.BucketID, m.Default))
			}
			for _, m := range phys {
				wantPhys = append(wantPhys, fmt.Sprintf("#%v %s bucket=%v default=%v", m.id, m.rp, m.bucket, s.def[k] == m.id))
			}
			sort.Strings(gotPhys)
			sort.Strings(wantPhys)
			if strings.Join(gotPhys, ";") != strings.Join(wantPhys, ";") {
				s.fail(t, "listing-differs", "physical mappings of (%v,%s): got %v, model has %v", org, db, gotPhys, wantPhys)
			}
			if len(phys) > 0 && defaults != 1 {
				s.fail(t, "default-count", "FindMany{org %v, %s} lists %d default mappings: %s", org, db, defaults, listStr(ms))
			}

			// ---- resolution of every (db, rp)
			for _, rp := range rps {
				rp := rp
				rs, n, err := s.findMany(t, influxdb.DBRPMappingFilter{OrgID: &org, Database: &db, RetentionPolicy: &rp})
				if err != nil || n != len(rs) {
					s.fail(t, "find-db-rp", "FindMany{org %v, %s, %s}: n=%d len=%d err=%v", org, db, rp, n, len(rs), err)
				}
				if len(rs) > 1 {
					s.fail(t, "db-rp-resolves-to-many", "(%v,%s,%s) resolves to %d mappings: %s", org, db, rp, len(rs), listStr(rs))
				}
				p := s.physical(org, db, rp)
				cand := s.virtualCandidates(org, db, rp)
				switch {
				case p != nil:
					if len(rs) != 1 || rs[0].Virtual || rs[0].ID != p.id || rs[0].BucketID != p.bucket || rs[0].OrganizationID != org || rs[0].Default != (s.def[k] == p.id) {
						s.fail(t, "db-rp-wrong-mapping", "(%v,%s,%s) must resolve to the physical mapping #%v bucket %v default=%v, got %s", org, db, rp, p.id, p.bucket, s.def[k] == p.id, listStr(rs))
					}
				case len(cand) > 0:
					ok := len(rs) == 1 && rs[0].Virtual && rs[0].OrganizationID == org && rs[0].Database == db && rs[0].RetentionPolicy == rp
					if ok {
						ok = false
						for _, c := range cand {
							ok = ok || c == rs[0].BucketID
						}
					}
					if !ok {
						s.fail(t, "db-rp-virtual-missing", "(%v,%s,%s) must resolve to a virtual mapping of one of the buckets %v, got %s", org, db, rp, cand, listStr(rs))
					}
				default:
					if len(rs) != 0 {
						s.fail(t, "db-rp-phantom", "(%v,%s,%s) has neither a physical mapping nor a bucket of that name but resolves to %s", org, db, rp, listStr(rs))
					}
				}
			}
		}
	}

	// ---- FindByID for every id ever issued, from both organizations
	for _, m := range s.maps {
		for _, org := range s.orgs {
			got, err := s.svc.FindByID(ctx, org, m.id)
			if !m.live || org != m.org {
				if err == nil || ierrors.ErrorCode(err) != ierrors.ENotFound {
					s.fail(t, "find-by-id-leak", "FindByID(org %v, #%v) of a deleted / foreign mapping returned %v, %v", org, m.id, got, err)
				}
				continue
			}
			want := fmt.Sprintf("#%v org=%v %s/%s bucket=%v default=%v", m.id, m.org, m.db, m.rp, m.bucket, s.def[dbKey{m.org, m.db}] == m.id)
			if err != nil || got.Virtual || want != fmt.Sprintf("#%v org=%v %s/%s bucket=%v default=%v", got.ID, got.OrganizationID, got.Database, got.RetentionPolicy, got.BucketID, got.Default) {
				s.fail(t, "find-by-id-differs", "FindByID(org %v, #%v) returned %v, %v; model: %s", org, m.id, got, err, want)
			}
		}
	}

	// ---- the unfiltered listing contains every physical mapping exactly once
	all, _, err := s.findMany(t, influxdb.DBRPMappingFilter{})
	if err != nil {
		s.fail(t, "find-all", "FindMany{}: %v", err)
	}
	var got, want []string
	for _, m := range all {
		if !m.Virtual {
			got = append(got, fmt.Sprintf("#%v org=%v %s/%s bucket=%v default=%v", m.ID, m.OrganizationID, m.Database, m.RetentionPolicy, m.BucketID, m.Default))
		}
	}
	for _, m := range s.maps {
		if m.live {
			want = append(want, fmt.Sprintf("#%v org=%v %s/%s bucket=%v default=%v", m.id, m.org, m.db, m.rp, m.bucket, s.def[dbKey{m.org, m.db}] == m.id))
		}
	}
	sort.Strings(got)
	sort.Strings(want)
	if strings.Join(got, ";") != strings.Join(want, ";") {
		s.fail(t, "global-listing-differs", "FindMany{} physical mappings: got %v, model has %v", got, want)
	}
}

// ---- the property ---------------------------------------------------------------------------

var ops = func() []string {
	w := []struct {
		name string
		n    int
	}{{"create", 10}, {"update", 9}, {"delete", 4}, {"createBucket", 4}, {"deleteBucket", 1}, {"updateVirtual", 1}}
	var out []string
	for _, x := range w {
		for i := 0; i < x.n; i++ {
			out = append(out, x.name)
		}
	}
	return out
}()

// keyUpdateVirtual is the known finding: Update accepts the id of a virtual mapping (FindByID falls
// back to the bucket), stores the mapping under the bucket's id WITHOUT index entries or default
// bookkeeping; afterwards FindByID and FindMany disagree and the unfiltered FindMany dereferences a
// nil default id.
const keyUpdateVirtual = "update-of-virtual-mapping-stores-unindexed-record"

// updateVirtual addresses Update at the id of a virtual mapping, as PATCH /api/v2/dbrps/{id} does
// with the mapping it got from FindByID. Whatever the service decides (reject, ignore, materialise),
// afterwards listing must still work and FindByID must agree with the resolution of the (db, rp)
// it reports.
func (s *sys) updateVirtual(t *rapid.T) {
	var cands []*bucketM
	for _, b := range s.bkts {
		if db, rp := parse(b.name); b.live && (db == "db0" || db == "db1") && s.physical(b.org, db, rp) == nil {
			cands = append(cands, b)
		}
	}
	if len(cands) == 0 {
		s.createBucket(t)
		return
	}
	if ev.KnownOpen("C43", keyUpdateVirtual) {
		rec.ExcludedKnown(keyUpdateVirtual)
		s.logf("updateVirtual skipped: open finding")
		return
	}
	b := cands[uniform(t, "virtual-bucket", len(cands))]
	v, err := s.svc.FindByID(s.ctx, b.org, b.id)
	if err != nil || !v.Virtual {
		s.fail(t, "virtual-find-by-id", "FindByID(org %v, bucket id %v) = %v, %v; want the virtual mapping of bucket %q", b.org, b.id, v, err, b.name)
	}
	rp := rps[uniform(t, "rp", len(rps))]
	s.logf("updateVirtual(bucket#%v %q, rp->%s)", b.id, b.name, rp)
	v.RetentionPolicy = rp
	uerr := s.svc.Update(s.ctx, v)
	s.stop = true
	rec.Class("update:addressed-at-virtual-mapping")
	func() {
		defer func() {
			if r := recover(); r != nil {
				s.fail(t, keyUpdateVirtual, "after Update of the virtual mapping of bucket %q (err=%v) FindMany{} panics: %v", b.name, uerr, r)
			}
		}()
		if _, _, err := s.svc.FindMany(s.ctx, influxdb.DBRPMappingFilter{}); err != nil {
			s.fail(t, keyUpdateVirtual, "after Update of the virtual mapping of bucket %q (err=%v) FindMany{} fails: %v", b.name, uerr, err)
		}
	}()
	got, err := s.svc.FindByID(s.ctx, b.org, b.id)
	if err != nil {
		return
	}
	if _, nameRP := parse(b.name); got.Virtual && got.RetentionPolicy == nameRP {
		return // still the plain virtual mapping of the bucket name (it may lose against another bucket of the same (db, rp))
	}
	rs, _, err := s.svc.FindMany(s.ctx, influxdb.DBRPMappingFilter{OrgID: &got.OrganizationID, Database: &got.Database, RetentionPolicy: &got.RetentionPolicy})
	if err != nil || len(rs) != 1 || rs[0].BucketID != got.BucketID {
		s.fail(t, keyUpdateVirtual, "after Update of the virtual mapping of bucket %q (err=%v) FindByID reports %s but (%s,%s) resolves to %s, %v", b.name, uerr, mapStr(got), got.Database, got.RetentionPolicy, listStr(rs), err)
	}
}

func (s *sys) step(t *rapid.T) {
	if s.stop {
		return
	}
	switch ops[uniform(t, "op", len(ops))] {
	case "updateVirtual":
		s.updateVirtual(t)
	case "create":
		s.create(t)
	case "update":
		s.update(t)
	case "delete":
		s.delete(t)
	case "createBucket":
		s.createBucket(t)
	case "deleteBucket":
		s.deleteBucket(t)
	}
}

func TestPropDBRPHistories(t *testing.T) {
	rec.Assume("mappings are only created for buckets of the same organization; mapping ids and bucket ids come from one sequential generator (never equal); Delete is addressed at ids of physical mappings only; Update addressed at the id of a virtual mapping (a bucket id) is generated only while the finding update-of-virtual-mapping-stores-unindexed-record is not listed open, and ends the history")
	rec.Assume("a database that has only virtual mappings is not required to have a default (a bucket named \"db/rp\" alone yields a non-default mapping by design); the Default flag of virtual mappings is only constrained through the exactly-one-default rule of databases that have a physical mapping")
	rec.Assume("single goroutine; in-memory KV store; bucket service = tenant service wrapped by dbrp.BucketService")
	rec.CheckSteps(t, 600, 9000, 30, func(t *rapid.T) {
		s := newSys(t)
		t.Repeat(map[string]func(*rapid.T){
			"op": s.step,
			"":   s.verify,
		})
		s.verify(t)
		rec.Eval()
		rec.ClassN("steps", len(s.hist))
		flag := func(b bool, name string) {
			if b {
				rec.Class("history:" + name)
			}
		}
		flag(s.deleteDefaultWithSuccessor, "delete-of-default-with-successor")
		flag(s.updateMovesDefault, "update-moves-default")
		flag(s.shadowed, "virtual-shadowed-by-physical")
		if s.deleteDefaultWithSuccessor && s.updateMovesDefault && s.shadowed {
			rec.Class("history:NON-TRIVIAL")
			rec.NonTrivial(strings.Join(s.hist, ";"))
			if rec.WantSample() {
				rec.Sample(map[string]any{"history": s.hist})
			}
		}
	})
}
