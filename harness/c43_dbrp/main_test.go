package c43_dbrp

import (
	"testing"

	"verifharness/internal/ev"
)

func TestMain(m *testing.M) { ev.Main(m) }
