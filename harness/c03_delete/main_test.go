package c03_delete

import (
	"testing"

	"verifharness/internal/ev"
)

func TestMain(m *testing.M) { ev.Main(m) }
