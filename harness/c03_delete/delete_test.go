// C03 — Deleted points never reappear.
//
// Generated write / range-delete / snapshot / compaction / reopen histories on a real shard, plus
// deletes that run to completion inside the window of an in-progress cache snapshot (owned
// schedule: the snapshot goroutine is held at a hook point right after Cache.Snapshot()). After the
// delete returned, and after every later step, reads are compared with the model in both
// directions (deleted points gone, everything else intact).
package c03_delete

import (
	"fmt"
	"testing"

	"pgregory.net/rapid"

	"verifharness/internal/eng"
	"verifharness/internal/ev"
	"verifharness/internal/fix"
	"verifharness/internal/gen"
	"verifharness/internal/model"
)

var rec = ev.For("C03", "exploration",
	"case = one generated history of writes, range deletes (incl. deletes inside a held cache-snapshot window), snapshots, planner-driven compactions and reopens with reads after every step; non-trivial = >=1 delete that removed existing points, followed by >=1 snapshot or compaction AND >=1 reopen; distinct by rendered history")

func genDelete(t *rapid.T) ([]string, int64, int64) {
	n := rapid.IntRange(1, len(gen.SeriesKeys)).Draw(t, "dn")
	seen := map[string]bool{}
	var ss []string
	for i := 0; i < n; i++ {
		s := rapid.SampledFrom(gen.SeriesKeys).Draw(t, "ds")
		if !seen[s] {
			seen[s] = true
			ss = append(ss, s)
		}
	}
	lo, hi := gen.Range(t, "dr")
	return ss, lo, hi
}

func TestPropDeleteHistories(t *testing.T) {
	rec.Assume("reads and deletes use ranges inside [models.MinNanoTime, models.MaxNanoTime]")
	rec.Assume("the delete-vs-snapshot window is explored with an owned schedule; delete-vs-running-compaction interleavings need the engine's own compaction goroutines and are left to the wall-clock tier of C39")
	rec.CheckSteps(t, 260, 2000, 34, func(t *rapid.T) {
		mc := eng.New("C03", rec, func(key, detail string, c any) { rec.Fail(t, "TestPropDeleteHistories", key, detail, c) }, t.Fatalf)
		defer mc.Close()
		steps := 0
		// the window action ends the history when it matches the open known finding, so it is
		// enabled only after a generated number of steps (otherwise most histories would be short)
		windowAfter := rapid.IntRange(2, 45).Draw(t, "windowAfter")
		g := func(f func()) func(*rapid.T) {
			return func(*rapid.T) {
				if !mc.Tainted {
					steps++
					f()
				}
			}
		}
		var tt *rapid.T = t
		// "advancing" histories: every snapshot closes a time window and later writes go to later
		// windows, so the TSM files of a key hold disjoint, ascending time ranges (the shape of
		// append-mostly workloads; it sends compactions down their block pass-through paths) and a
		// delete can hit a later file only.
		advancing := rapid.IntRange(0, 2).Draw(t, "advancing") == 0
		window := 0
		const winSpan = 40
		advBatch := func(label string, max int) []gen.WPoint {
			n := rapid.IntRange(1, max).Draw(tt, label+"n")
			out := make([]gen.WPoint, 0, n)
			for i := 0; i < n; i++ {
				f := rapid.SampledFrom(gen.Fields).Draw(tt, label+"f")
				mc.Seq++
				out = append(out, gen.WPoint{Series: rapid.SampledFrom(gen.SeriesKeys).Draw(tt, label+"s"),
					T:      int64(1000 + window*winSpan + rapid.IntRange(0, winSpan-1).Draw(tt, label+"t")),
					Fields: map[string]model.Val{f.Name: gen.Value(tt, label+"v", f.Kind, mc.Seq)}})
			}
			return out
		}
		if advancing {
			rec.Class("history:advancing-time-windows")
		}
		// bulk regions: exactly-full (1000 point) blocks of one key, each in its own file; a full
		// compaction passes such blocks through undecoded unless a tombstone forces a rewrite
		bulkRegions := 0
		const bulkSeries, bulkBase, bulkSpan = "m0,host=a", int64(100000), int64(2000)
		bulkField := gen.BulkField.Name
		mc.ExtraKeys = [][2]string{{bulkSeries, bulkField}}
		bulk := func() {
			n := rapid.SampledFrom([]int{1000, 1000, 1000, 999, 1001, 1500}).Draw(tt, "bulkN")
			pts := make([]gen.WPoint, 0, n)
			for i := 0; i < n; i++ {
				mc.Seq++
				pts = append(pts, gen.WPoint{Series: bulkSeries, T: bulkBase + int64(bulkRegions)*bulkSpan + int64(i), Fields: map[string]model.Val{bulkField: {K: model.Integer, I: int64(mc.Seq)}}})
			}
			mc.Write(pts)
			mc.Ops[len(mc.Ops)-1] = eng.Op{Kind: "bulk", Arg: fmt.Sprintf("%s/%s region %d n=%d", bulkSeries, bulkField, bulkRegions, n)}
			mc.Snapshot()
			window++
			bulkRegions++
			rec.Class("step:bulk-full-block-file")
		}
		acts := map[string]func(*rapid.T){
			"bulk": g(func() {
				if !advancing || bulkRegions >= 3 {
					mc.Write(gen.Batch(tt, "w", 10, &mc.Seq))
					return
				}
				bulk()
			}),
			// by construction: >=2 files each holding a full block of the bulk key, a delete inside a
			// later one only, then a full compaction (which passes full blocks through undecoded
			// unless the tombstone forces a rewrite)
			"bulkDeleteCompact": g(func() {
				if !advancing {
					ss, lo, hi := genDelete(tt)
					mc.Delete(ss, lo, hi)
					return
				}
				for bulkRegions < 2 {
					bulk()
				}
				r := int64(rapid.IntRange(1, bulkRegions-1).Draw(tt, "br"))
				a := int64(rapid.IntRange(0, 1100).Draw(tt, "ba"))
				b := a + int64(rapid.IntRange(0, 400).Draw(tt, "bb"))
				mc.Delete([]string{bulkSeries}, bulkBase+r*bulkSpan+a, bulkBase+r*bulkSpan+b)
				rec.Class("step:delete-inside-later-full-block-then-full-compaction")
				mc.Compact("forcefull")
			}),
			"bulkDelete": g(func() {
				if bulkRegions == 0 {
					ss, lo, hi := genDelete(tt)
					mc.Delete(ss, lo, hi)
					return
				}
				r := int64(rapid.IntRange(0, bulkRegions-1).Draw(tt, "br"))
				a := int64(rapid.IntRange(0, 1200).Draw(tt, "ba"))
				b := a + int64(rapid.IntRange(0, 400).Draw(tt, "bb"))
				mc.Delete([]string{bulkSeries}, bulkBase+r*bulkSpan+a, bulkBase+r*bulkSpan+b)
				rec.Class("step:delete-inside-full-block")
			}),
			"write": g(func() {
				if advancing {
					mc.Write(advBatch("aw", 14))
					return
				}
				mc.Write(gen.Batch(tt, "w", 10, &mc.Seq))
			}),
			"snapshot": g(func() { mc.Snapshot(); window++ }),
			"compact": g(func() {
				mc.Compact(rapid.SampledFrom([]string{"level1", "level2", "forcefull", "full", "optimize"}).Draw(tt, "kind"))
			}),
			"delete": g(func() {
				ss, lo, hi := genDelete(tt)
				if advancing && rapid.IntRange(0, 3).Draw(tt, "advDelete") > 0 {
					// a range inside one (usually recent) window: hits that window's file only
					w := window - rapid.IntRange(0, 3).Draw(tt, "dw")
					if w < 0 {
						w = 0
					}
					a := rapid.IntRange(0, winSpan-1).Draw(tt, "da")
					b := rapid.IntRange(a, winSpan-1).Draw(tt, "db")
					lo, hi = int64(1000+w*winSpan+a), int64(1000+w*winSpan+b)
				}
				mc.Delete(ss, lo, hi)
			}),
			"deleteDuringSnapshot": g(func() {
				if steps < windowAfter {
					mc.Write(gen.Batch(tt, "w", 10, &mc.Seq))
					return
				}
				if rapid.Bool().Draw(tt, "freshWriteFirst") {
					mc.Write(gen.Batch(tt, "ww", 6, &mc.Seq))
				}
				ss, lo, hi := genDelete(tt)
				mc.DeleteDuringSnapshot(ss, lo, hi)
			}),
			"reopen": g(func() { mc.Reopen() }),
			"":       g(func() { mc.RandomReads(tt, 3) }),
		}
		acts["write2"], acts["delete2"], acts["snapshot2"] = acts["write"], acts["delete"], acts["snapshot"]
		pre := rapid.SampledFrom([]int{0, 1, 2, 4, 8, 9}).Draw(t, "presnaps")
		if advancing {
			pre = rapid.SampledFrom([]int{4, 8, 8, 9, 9}).Draw(t, "presnapsAdv")
		}
		for i := 0; i < pre; i++ {
			acts["write"](t)
			acts["snapshot"](t)
		}
		t.Repeat(acts)
		if !mc.Tainted {
			mc.FullScan()
		}
		rec.Eval()
		if mc.DeletesHitting > 0 && (mc.SnapshotsAfterDelete > 0 || mc.CompactsAfterDelete > 0) && mc.ReopensAfterDelete > 0 {
			rec.NonTrivial(eng.RenderOps(mc.Ops))
			rec.Class("history:non-trivial")
			if rec.WantSample() {
				rec.Sample(map[string]any{"ops": eng.RenderOps(mc.Ops)})
			}
		}
		if mc.WindowDeletes > 0 {
			rec.Class("history:with-window-delete")
		}
	})
}

func TestKnown_delete_during_snapshot_window(t *testing.T) {
	mc := eng.New("C03", rec, func(key, detail string, c any) {
		rec.Fail(t, "TestKnown_delete_during_snapshot_window", key, detail, c)
	}, t.Fatalf)
	defer mc.Close()
	s := "m0,host=a"
	mc.Write([]gen.WPoint{{Series: s, T: 10, Fields: gen.IntField("fi", 1)}, {Series: s, T: 20, Fields: gen.IntField("fi", 2)}})
	snapErr, delErr, reached := mc.RunDeleteInSnapshotWindow([]string{s}, 0, 15)
	if snapErr != nil || delErr != nil || !reached {
		t.Fatalf("harness: snapErr=%v delErr=%v reached=%v", snapErr, delErr, reached)
	}
	after, _ := mc.F.Read(s, "fi", 0, 100, true)
	afterQL, _ := mc.F.ReadInfluxQL(s, "fi", model.Integer, 0, 100, true)
	if err := mc.F.Reopen(); err != nil {
		t.Fatal(err)
	}
	afterRestart, _ := mc.F.Read(s, "fi", 0, 100, true)
	has := func(ps []model.Point, ts int64) bool {
		for _, p := range ps {
			if p.T == ts {
				return true
			}
		}
		return false
	}
	resurrected := has(after, 10) || has(afterRestart, 10)
	outsideLost := !has(afterQL, 20)
	rec.Known(t, "TestKnown_delete_during_snapshot_window", eng.DeleteDuringSnapshotKey, resurrected || outsideLost,
		fmt.Sprintf("write fi@10,fi@20 to m0,host=a; a range delete [0,15] that starts and returns success while WriteSnapshot is between Cache.Snapshot() and its commit does not see the points held by the snapshot: deleted fi@10 still readable after the delete/after restart = %v; fi@20 (outside the range) missing from index-based (InfluxQL iterator) reads because the series was dropped from the index = %v", resurrected, outsideLost),
		map[string]any{"cursor_after_delete": model.Render(after), "influxql_after_delete": model.Render(afterQL), "cursor_after_restart": model.Render(afterRestart)})
}

func TestKnown_keycursor_cyclic_block_order(t *testing.T) {
	r, what, err := eng.ReproCyclicBlockOrder(false)
	if err != nil {
		t.Fatal(err)
	}
	rec.Known(t, "TestKnown_keycursor_cyclic_block_order", fix.KeyCursorCyclicKey, r, "overwritten (i.e. logically replaced) value reappears in reads: "+what, nil)
}
