package c19_retention

import (
	"testing"

	"verifharness/internal/ev"
)

func TestMain(m *testing.M) { ev.Main(m) }
