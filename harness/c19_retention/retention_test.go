// C19 — Retention drops only expired data.
//
//	TestPropExpiredShardGroups   pure, exact to the nanosecond: RetentionPolicyInfo.ExpiredShardGroups(t)
//	                             over generated layouts and check instants at end+duration -1/0/+1 ns
//	TestPropDeletionCheck        retention.Service.DeletionCheck wired like storage.Engine wires it
//	                             (real meta.Client, OSSDropShardMetaRef) with a recording TSDBStore;
//	                             histories of 1..4 checks, tombstones younger / older than the
//	                             two-week tombstone lifetime (so PruneShardGroups really prunes),
//	                             and every policy must afterwards list only its own groups
//	TestPropDeletionCheckOnDisk  the same service on the real storage.Engine / tsdb.Store with shards
//	                             written through Engine.WritePoints (retention shortened afterwards)
//	TestPropRetentionDrop        PointsWriter.MapShards / WritePointsPrivileged drop accounting
//
// The service and the points writer read time.Now() inline (no clock hook), so the last three
// place every group / point outside a dead zone around "now - retention period" (2 min for
// groups, 5 s for points), bracket the call between two clock readings and do not assert
// anything for an object that nevertheless falls inside the zone. A stalled call is skipped.
package c19_retention

import (
	"context"
	"errors"
	"fmt"
	"math"
	"math/big"
	"os"
	"sort"
	"strings"
	"sync"
	"testing"
	"time"

	"github.com/influxdata/influxdb/v2"
	"github.com/influxdata/influxdb/v2/inmem"
	"github.com/influxdata/influxdb/v2/models"
	"github.com/influxdata/influxdb/v2/tsdb"
	"github.com/influxdata/influxdb/v2/v1/coordinator"
	"github.com/influxdata/influxdb/v2/v1/services/meta"
	"github.com/influxdata/influxdb/v2/v1/services/retention"
	"pgregory.net/rapid"

	"verifharness/internal/ev"
	"verifharness/internal/fix"
	"verifharness/internal/scratch"
)

const (
	propID = "C19"
	// an expired point is accepted when an unexpired point of the same batch shares its shard group
	knownCompanion = "expired-point-accepted-with-live-companion"
)

var rec = ev.For(propID, "exploration",
	"pure: case = (retention period, 0..8 groups with deleted/truncated flags, check instant); non-trivial = layout with >=1 expired, >=1 unexpired and >=1 already-deleted group; "+
		"service: case = 1..2 databases x 1..2 policies with 0..6 groups placed around now-retention, some already deleted (tombstone younger or older than the 2-week tombstone lifetime), shards present/phantom/in use, 1..4 checks with tombstones optionally aged by two weeks in between; non-trivial = same rule over the whole layout; "+
		"writes: case = retention period + batch of point ages; non-trivial = batch mixing droppable and acceptable points; distinct by canonical rendering in relative times")

const (
	groupMargin = 2 * time.Minute // dead zone around now-retention for shard groups
	pointMargin = 5 * time.Second // dead zone around now-retention for points
)

func init() {
	rec.Assume("DeletionCheck and MapShards read the wall clock inline: the comparison 'older than now - retention' is decided at nanosecond precision only by TestPropExpiredShardGroups; the service / writer tests decide it up to a dead zone of 2 min (groups) and 5 s (points) in which nothing is generated or asserted")
	rec.Assume("a group whose end + retention equals the check instant exactly contains only points older than the limit: the statement allows both keeping and deleting it, so that single instant is not asserted")
	rec.Assume("shards of groups that are already marked deleted may be removed whatever their age (ShardGroupInfo: 'If the DeletedAt is set, the system can safely delete any associated shards'); they are neither required nor forbidden to be removed")
	rec.Assume("a retention period of 0 means infinite retention")
}

// ---------------------------------------------------------------------------------------------
// (1) pure predicate

func TestPropExpiredShardGroups(t *testing.T) {
	const base = int64(1_700_000_000_000_000_000)
	hour := int64(time.Hour)
	rec.Check(t, 300000, 6000000, func(t *rapid.T) {
		var dur int64
		dcls := rapid.SampledFrom([]string{"infinite", "1h", "24h", "7d", "odd", "odd", "huge"}).Draw(t, "duration-class")
		switch dcls {
		case "infinite":
			dur = 0
		case "1h":
			dur = hour
		case "24h":
			dur = 24 * hour
		case "7d":
			dur = 7 * 24 * hour
		case "odd":
			dur = rapid.Int64Range(1, 400*24*hour).Draw(t, "duration")
		default:
			dur = rapid.Int64Range(400*24*hour, math.MaxInt64).Draw(t, "duration")
		}
		n := rapid.IntRange(0, 8).Draw(t, "groups")
		rpi := meta.RetentionPolicyInfo{Name: "rp", ReplicaN: 1, Duration: time.Duration(dur), ShardGroupDuration: time.Hour}
		type g struct {
			start, end       int64
			deleted, trunced bool
		}
		gs := make([]g, n)
		for i := range gs {
			s := base + rapid.Int64Range(-60, 60).Draw(t, "start-slot")*hour + rapid.SampledFrom([]int64{0, 0, 1, -1, 12345}).Draw(t, "start-off")
			w := rapid.SampledFrom([]int64{hour, hour, 24 * hour, 1, hour + 1, 7 * 24 * hour}).Draw(t, "width")
			gs[i] = g{start: s, end: s + w, deleted: rapid.IntRange(0, 3).Draw(t, "deleted") == 0, trunced: rapid.IntRange(0, 4).Draw(t, "truncated") == 0}
			sg := meta.ShardGroupInfo{ID: uint64(i + 1), StartTime: time.Unix(0, gs[i].start).UTC(), EndTime: time.Unix(0, gs[i].end).UTC(),
				Shards: []meta.ShardInfo{{ID: uint64(100 + i)}}}
			if gs[i].deleted {
				sg.DeletedAt = time.Unix(0, base).UTC()
			}
			if gs[i].trunced {
				sg.TruncatedAt = time.Unix(0, gs[i].start+(gs[i].end-gs[i].start)/2).UTC()
			}
			rpi.ShardGroups = append(rpi.ShardGroups, sg)
		}
		// check instant: as time.Time so that end+duration beyond int64 stays exact
		var at time.Time
		tcls := "free"
		if n > 0 && rapid.IntRange(0, 9).Draw(t, "boundary") < 6 {
			i := rapid.IntRange(0, n-1).Draw(t, "boundary-group")
			off := rapid.SampledFrom([]int64{-1, 0, 1, -2, 2, -1000, 1000}).Draw(t, "boundary-off")
			at = time.Unix(0, gs[i].end).Add(time.Duration(dur)).Add(time.Duration(off))
			tcls = "boundary"
		} else {
			at = time.Unix(0, base+rapid.Int64Range(-500, 500).Draw(t, "at-slot")*hour+rapid.Int64Range(-5, 5).Draw(t, "at-off"))
			if rapid.Bool().Draw(t, "at-plus-duration") {
				at = at.Add(time.Duration(dur))
			}
		}
		// exact arithmetic on (seconds, nanoseconds) through big.Int
		atNs := new(big.Int).Add(new(big.Int).Mul(big.NewInt(at.Unix()), big.NewInt(1e9)), big.NewInt(int64(at.Nanosecond())))

		got := rpi.ExpiredShardGroups(at)
		gotIDs := map[uint64]int{}
		for _, p := range got {
			if p == nil {
				rec.Fail(t, "TestPropExpiredShardGroups", "nil-group", "ExpiredShardGroups returned a nil entry", nil)
			}
			gotIDs[p.ID]++
		}
		render := func() map[string]any {
			return map[string]any{"duration_ns": dur, "at": at.UTC().Format(time.RFC3339Nano), "groups": fmt.Sprintf("%+v", gs), "returned": fmt.Sprint(gotIDs)}
		}
		var nExp, nLive, nDel, nEq int
		for i := range gs {
			id := uint64(i + 1)
			if gotIDs[id] > 1 {
				rec.Fail(t, "TestPropExpiredShardGroups", "duplicate-group", fmt.Sprintf("group %d returned %d times", id, gotIDs[id]), render())
			}
			limit := new(big.Int).Add(big.NewInt(gs[i].end), big.NewInt(dur)) // end + retention
			cmp := limit.Cmp(atNs)
			if gs[i].deleted {
				nDel++
			}
			switch {
			case dur == 0:
				if gotIDs[id] > 0 {
					rec.Fail(t, "TestPropExpiredShardGroups", "expired-with-infinite-retention",
						fmt.Sprintf("group %d returned although the retention period is 0 (infinite)", id), render())
				}
				nLive++
			case cmp > 0: // part of the group's range is not older than at - retention
				if gotIDs[id] > 0 {
					rec.Fail(t, "TestPropExpiredShardGroups", "unexpired-group-returned",
						fmt.Sprintf("group %d (end %d) returned as expired at %s although end + retention (%d ns) is after the check instant", id, gs[i].end, at.UTC().Format(time.RFC3339Nano), dur), render())
				}
				if !gs[i].deleted {
					nLive++
				}
			case cmp < 0:
				if !gs[i].deleted {
					nExp++
					if gotIDs[id] == 0 {
						rec.Fail(t, "TestPropExpiredShardGroups", "expired-group-not-returned",
							fmt.Sprintf("group %d (end %d) is not returned at %s although end + retention (%d ns) is before the check instant", id, gs[i].end, at.UTC().Format(time.RFC3339Nano), dur), render())
					}
				}
			default:
				nEq++
			}
		}
		for id := range gotIDs {
			if id < 1 || id > uint64(n) {
				rec.Fail(t, "TestPropExpiredShardGroups", "unknown-group", fmt.Sprintf("returned group id %d is not in the policy", id), render())
			}
		}
		rec.Eval()
		rec.Class("pure:duration=" + dcls)
		rec.Class("pure:instant=" + tcls)
		if nEq > 0 {
			rec.Class("pure:instant-equals-end+retention(unasserted)")
		}
		if nExp > 0 && nLive > 0 && nDel > 0 {
			rec.Class("pure:non-trivial")
			rec.NonTrivial(fmt.Sprintf("pure|%d|%d|%+v", dur, new(big.Int).Sub(atNs, big.NewInt(base)), gs))
		}
	})
}

// ---------------------------------------------------------------------------------------------
// shared pieces for the wall-clock tests

type verdict int

const (
	sureLive verdict = iota
	sureExpired
	deadZone
)

// classify decides a group against the bracket [t0, t1] of clock readings around the call.
func classify(end time.Time, d time.Duration, t0, t1 time.Time) verdict {
	if d == 0 {
		return sureLive
	}
	x := end.Add(d)
	switch {
	case x.Before(t0.Add(-groupMargin)):
		return sureExpired
	case x.After(t1.Add(groupMargin)):
		return sureLive
	default:
		return deadZone
	}
}

// nudge returns a retention period near d such that now-d is at least 2.5 min away from any
// multiple of step (group ends are multiples of the shard-group duration).
func nudge(d, step time.Duration, now time.Time) time.Duration {
	if d == 0 {
		return 0
	}
	for i := 0; i < 4; i++ {
		lim := now.Add(-d)
		off := lim.Sub(lim.Truncate(step))
		if off > 150*time.Second && step-off > 150*time.Second {
			return d
		}
		d += 5 * time.Minute
	}
	return d
}

func newMeta() (*inmem.KVStore, *meta.Client, error) {
	kv := inmem.NewKVStore()
	if err := kv.CreateBucket(context.Background(), meta.BucketName); err != nil {
		return nil, nil, err
	}
	mc := meta.NewClient(meta.NewConfig(), kv)
	return kv, mc, mc.Open()
}

// ---------------------------------------------------------------------------------------------
// (2a) DeletionCheck with a recording store

type recStore struct {
	present map[uint64]bool
	inUse   map[uint64]bool
	deleted map[uint64]int
	blocked map[uint64]int // calls with blocked=true
	calls   []string
}

func (s *recStore) ShardIDs() []uint64 {
	ids := make([]uint64, 0, len(s.present))
	for id := range s.present {
		ids = append(ids, id)
	}
	sort.Slice(ids, func(i, j int) bool { return ids[i] < ids[j] })
	return ids
}

func (s *recStore) DeleteShard(id uint64) error {
	s.calls = append(s.calls, fmt.Sprintf("delete(%d)", id))
	s.deleted[id]++
	delete(s.present, id)
	return nil
}

func (s *recStore) SetShardNewReadersBlocked(id uint64, b bool) error {
	s.calls = append(s.calls, fmt.Sprintf("block(%d,%v)", id, b))
	if !s.present[id] {
		return fmt.Errorf("recStore: shard %d: %w", id, tsdb.ErrShardNotFound)
	}
	if b {
		s.blocked[id]++
	}
	return nil
}

func (s *recStore) ShardInUse(id uint64) (bool, error) {
	if !s.present[id] {
		return false, fmt.Errorf("recStore: shard %d: %w", id, tsdb.ErrShardNotFound)
	}
	return s.inUse[id], nil
}

type planGroup struct {
	DB, RP     string
	ID         uint64
	Shards     []uint64
	End        time.Time
	Dur        time.Duration
	PreDeleted bool
	Aged       bool // pre-deleted more than ShardGroupDeletedExpiration ago: the tombstone is prunable
	AgeSlots   int  // for the canonical rendering
}

// ageTombstones moves DeletedAt of tombstoned groups (all of them, or only the listed ids) back
// by a little more than the tombstone lifetime: the metadata then looks as it does when the group
// was deleted more than two weeks before the next retention check, so that check's
// PruneShardGroups removes the tombstone once its shards are gone. Only DeletedAt changes.
func ageTombstones(mc *meta.Client, only map[uint64]bool) (int, error) {
	d := mc.Data()
	n := 0
	for i := range d.Databases {
		for j := range d.Databases[i].RetentionPolicies {
			sgs := d.Databases[i].RetentionPolicies[j].ShardGroups
			for k := range sgs {
				if sgs[k].Deleted() && (only == nil || only[sgs[k].ID]) {
					sgs[k].DeletedAt = sgs[k].DeletedAt.Add(meta.ShardGroupDeletedExpiration - time.Hour)
					n++
				}
			}
		}
	}
	if n == 0 {
		return 0, nil
	}
	return n, mc.SetData(&d)
}

func newService(mc *meta.Client, store interface {
	ShardIDs() []uint64
	DeleteShard(shardID uint64) error
	SetShardNewReadersBlocked(shardID uint64, blocked bool) error
	ShardInUse(shardID uint64) (bool, error)
}) *retention.Service {
	svc := retention.NewService(retention.NewConfig())
	svc.TSDBStore = store
	svc.SetOSSMetaClient(mc)
	svc.DropShardMetaRef = retention.OSSDropShardMetaRef(mc)
	return svc
}

func findGroup(d *meta.Data, db, rp string, id uint64) *meta.ShardGroupInfo {
	rpi, err := d.RetentionPolicy(db, rp)
	if err != nil || rpi == nil {
		return nil
	}
	for i := range rpi.ShardGroups {
		if rpi.ShardGroups[i].ID == id {
			return &rpi.ShardGroups[i]
		}
	}
	return nil
}

func TestPropDeletionCheck(t *testing.T) {
	stalls := 0
	n := ev.N(20000, 400000)
	rec.Check(t, 20000, 400000, func(t *rapid.T) {
		_, mc, err := newMeta()
		if err != nil {
			t.Fatalf("harness: %v", err)
		}
		now := time.Now()
		var plan []planGroup
		var canon []string
		type polKey struct{ db, rp string }
		var policies []polKey
		preAged := map[uint64]bool{}
		nDB := rapid.IntRange(1, 2).Draw(t, "databases")
		for di := 0; di < nDB; di++ {
			db := fmt.Sprintf("db%d", di)
			nRP := rapid.IntRange(1, 2).Draw(t, "policies")
			for ri := 0; ri < nRP; ri++ {
				rp := fmt.Sprintf("rp%d", ri)
				sgd := rapid.SampledFrom([]time.Duration{time.Hour, time.Hour, 24 * time.Hour}).Draw(t, "sgd")
				mult := rapid.SampledFrom([]int{0, 1, 2, 3, 24, 72}).Draw(t, "retention-mult")
				extra := time.Duration(rapid.IntRange(0, 59).Draw(t, "retention-minutes")) * time.Minute
				dur := time.Duration(mult) * sgd
				if mult > 0 {
					dur = nudge(dur+extra, sgd, now)
				}
				spec := &meta.RetentionPolicySpec{Name: rp, Duration: &dur, ShardGroupDuration: sgd}
				if ri == 0 {
					_, err = mc.CreateDatabaseWithRetentionPolicy(db, spec)
				} else {
					_, err = mc.CreateRetentionPolicy(db, spec, false)
				}
				if err != nil {
					t.Fatalf("harness: create %s/%s retention=%v sgd=%v: %v", db, rp, dur, sgd, err)
				}
				canon = append(canon, fmt.Sprintf("%s/%s:mult=%d,extra=%v,sgd=%v", db, rp, mult, extra, sgd))
				policies = append(policies, polKey{db, rp})
				nG := rapid.IntRange(0, 6).Draw(t, "groups")
				for gi := 0; gi < nG; gi++ {
					// age in group widths relative to the retention limit: negative = younger than the limit
					var slots int
					switch rapid.SampledFrom([]string{"old", "old", "young", "young", "edge"}).Draw(t, "age-class") {
					case "old":
						slots = rapid.IntRange(1, 6).Draw(t, "age-slots")
					case "young":
						slots = -rapid.IntRange(1, mult+2).Draw(t, "age-slots")
					default:
						slots = rapid.IntRange(-1, 1).Draw(t, "age-slots")
					}
					ts := now.Add(-dur).Add(-time.Duration(slots) * sgd)
					var sg *meta.ShardGroupInfo
					if rapid.IntRange(0, 3).Draw(t, "two-shards") == 0 {
						d := mc.Data()
						sg, err = mc.CreateShardGroupWithShards(db, rp, ts, []meta.ShardInfo{{ID: d.MaxShardID + 1}, {ID: d.MaxShardID + 2}})
					} else {
						sg, err = mc.CreateShardGroup(db, rp, ts)
					}
					if err != nil || sg == nil {
						t.Fatalf("harness: create group at %s: %v", ts, err)
					}
					dup := false
					for _, p := range plan {
						if p.DB == db && p.RP == rp && p.ID == sg.ID {
							dup = true
						}
					}
					if dup {
						continue
					}
					pg := planGroup{DB: db, RP: rp, ID: sg.ID, End: sg.EndTime, Dur: dur, AgeSlots: slots}
					for _, s := range sg.Shards {
						pg.Shards = append(pg.Shards, s.ID)
					}
					if rapid.IntRange(0, 3).Draw(t, "pre-deleted") == 0 {
						if err := mc.DeleteShardGroup(db, rp, sg.ID); err != nil {
							t.Fatalf("harness: %v", err)
						}
						pg.PreDeleted = true
						// half of the tombstones are older than the tombstone lifetime (prunable)
						if rapid.Bool().Draw(t, "tombstone-aged") {
							pg.Aged = true
							preAged[sg.ID] = true
						}
					}
					plan = append(plan, pg)
				}
			}
		}
		if len(preAged) > 0 {
			if _, err := ageTombstones(mc, preAged); err != nil {
				t.Fatalf("harness: age tombstones: %v", err)
			}
		}
		store := &recStore{present: map[uint64]bool{}, inUse: map[uint64]bool{}, deleted: map[uint64]int{}, blocked: map[uint64]int{}}
		for _, p := range plan {
			for _, s := range p.Shards {
				switch rapid.SampledFrom([]string{"present", "present", "present", "present", "present", "present", "in-use", "phantom"}).Draw(t, "shard-state") {
				case "present":
					store.present[s] = true
				case "in-use":
					store.present[s] = true
					store.inUse[s] = true
				}
			}
		}
		// a shard the metadata does not know about must never be touched
		stray := uint64(1_000_000 + rapid.IntRange(0, 9).Draw(t, "stray"))
		store.present[stray] = true
		initiallyPresent := map[uint64]bool{}
		for id := range store.present {
			initiallyPresent[id] = true
		}
		initiallyInUse := map[uint64]bool{}
		for id := range store.inUse {
			initiallyInUse[id] = true
		}

		svc := newService(mc, store)
		// history: 1..4 checks; between two checks "more than two weeks pass for the tombstones"
		// with probability 1/2 (only DeletedAt is moved, see ageTombstones), so that a group
		// expired by check k is pruned by check k+1 and later checks run on the pruned metadata
		rounds := rapid.SampledFrom([]int{1, 2, 2, 3, 3, 4}).Draw(t, "rounds")
		agedBetween := 0
		t0 := time.Now()
		svc.DeletionCheck(context.Background())
		t1 := time.Now()
		for r := 2; r <= rounds; r++ {
			// from the second round on nothing is in use any more
			store.inUse = map[uint64]bool{}
			if rapid.Bool().Draw(t, "two-weeks-pass") {
				k, err := ageTombstones(mc, nil)
				if err != nil {
					t.Fatalf("harness: age tombstones: %v", err)
				}
				if k > 0 {
					agedBetween++
				}
			}
			svc.DeletionCheck(context.Background())
			t1 = time.Now()
		}
		if t1.Sub(t0) > time.Minute || t0.Sub(now) > time.Minute {
			stalls++
			rec.Class("service:skipped-stall")
			return
		}
		after := mc.Data()
		caseJSON := func() map[string]any {
			var ps []string
			for _, p := range plan {
				ps = append(ps, fmt.Sprintf("%s/%s group %d shards %v end=now%+v retention=%v predeleted=%v aged=%v", p.DB, p.RP, p.ID, p.Shards, p.End.Sub(now).Round(time.Second), p.Dur, p.PreDeleted, p.Aged))
			}
			var ms []string
			for _, pk := range policies {
				if rpi, _ := after.RetentionPolicy(pk.db, pk.rp); rpi != nil {
					var ids []string
					for _, g := range rpi.ShardGroups {
						ids = append(ids, fmt.Sprintf("%d(deleted=%v)", g.ID, g.Deleted()))
					}
					ms = append(ms, fmt.Sprintf("%s/%s: %v", pk.db, pk.rp, ids))
				}
			}
			return map[string]any{"meta_after": ms, "tombstones_aged_between_rounds": agedBetween, "plan": ps, "initially_present": fmt.Sprint(initiallyPresent), "initially_in_use": fmt.Sprint(initiallyInUse), "calls": store.calls, "rounds": rounds}
		}
		// "no other shard [group] is touched": after the checks every policy lists only groups that
		// were created in it, each at most once, with unchanged bounds; tombstones may have been pruned
		planned := map[uint64]planGroup{}
		for _, p := range plan {
			planned[p.ID] = p
		}
		pruned, policiesWithGroups := 0, 0
		for _, pk := range policies {
			rpi, err := after.RetentionPolicy(pk.db, pk.rp)
			if err != nil || rpi == nil {
				rec.Fail(t, "TestPropDeletionCheck", "policy-lost", fmt.Sprintf("%s/%s is gone after DeletionCheck (%v)", pk.db, pk.rp, err), caseJSON())
				continue
			}
			if len(rpi.ShardGroups) > 0 {
				policiesWithGroups++
			}
			seen := map[uint64]bool{}
			for _, g := range rpi.ShardGroups {
				p, ok := planned[g.ID]
				switch {
				case !ok || p.DB != pk.db || p.RP != pk.rp:
					rec.Fail(t, "TestPropDeletionCheck", "foreign-group-in-policy",
						fmt.Sprintf("after DeletionCheck %s/%s lists shard group %d, which was created in %s/%s", pk.db, pk.rp, g.ID, p.DB, p.RP), caseJSON())
				case seen[g.ID]:
					rec.Fail(t, "TestPropDeletionCheck", "duplicate-group-in-policy",
						fmt.Sprintf("after DeletionCheck %s/%s lists shard group %d twice", pk.db, pk.rp, g.ID), caseJSON())
				case !g.EndTime.Equal(p.End):
					rec.Fail(t, "TestPropDeletionCheck", "group-bounds-changed",
						fmt.Sprintf("%s/%s group %d: end time changed from %s to %s", pk.db, pk.rp, g.ID, p.End, g.EndTime), caseJSON())
				}
				seen[g.ID] = true
			}
		}
		for _, p := range plan {
			if findGroup(&after, p.DB, p.RP, p.ID) == nil {
				pruned++
			}
		}
		allowed := map[uint64]bool{} // shards that may be removed
		var nExp, nLive, nDel int
		for _, p := range plan {
			v := classify(p.End, p.Dur, t0, t1)
			g := findGroup(&after, p.DB, p.RP, p.ID)
			switch {
			case p.PreDeleted:
				nDel++
				if p.Aged {
					rec.Class("service:group=already-deleted,tombstone-older-than-2-weeks")
				} else {
					rec.Class("service:group=already-deleted")
				}
				for _, s := range p.Shards {
					allowed[s] = true
				}
			case v == deadZone:
				rec.Class("service:group=dead-zone(unasserted)")
				for _, s := range p.Shards {
					allowed[s] = true
				}
			case v == sureExpired:
				nExp++
				rec.Class("service:group=expired")
				if g != nil && !g.Deleted() {
					rec.Fail(t, "TestPropDeletionCheck", "expired-group-not-deleted",
						fmt.Sprintf("%s/%s group %d ended %v before now - retention but is still live after DeletionCheck", p.DB, p.RP, p.ID, now.Add(-p.Dur).Sub(p.End).Round(time.Second)), caseJSON())
				}
				for _, s := range p.Shards {
					allowed[s] = true
					skippedInUse := initiallyInUse[s] && rounds == 1
					switch {
					case !initiallyPresent[s]:
					case skippedInUse:
						if store.deleted[s] > 0 {
							rec.Fail(t, "TestPropDeletionCheck", "in-use-shard-deleted",
								fmt.Sprintf("shard %d was reported in use but DeleteShard was called", s), caseJSON())
						}
					case store.deleted[s] == 0 || store.present[s]:
						rec.Fail(t, "TestPropDeletionCheck", "expired-shard-not-removed",
							fmt.Sprintf("shard %d of expired group %d (%s/%s) is in the store, not in use, and was not removed", s, p.ID, p.DB, p.RP), caseJSON())
					}
				}
			default: // sureLive
				nLive++
				rec.Class("service:group=unexpired")
				if g == nil || g.Deleted() {
					rec.Fail(t, "TestPropDeletionCheck", "unexpired-group-deleted",
						fmt.Sprintf("%s/%s group %d ends %v after now - retention (retention %v) but was deleted by DeletionCheck", p.DB, p.RP, p.ID, p.End.Sub(now.Add(-p.Dur)).Round(time.Second), p.Dur), caseJSON())
				}
				if len(g.Shards) != len(p.Shards) || !g.EndTime.Equal(p.End) {
					rec.Fail(t, "TestPropDeletionCheck", "unexpired-group-modified",
						fmt.Sprintf("%s/%s group %d: shards/bounds changed by DeletionCheck", p.DB, p.RP, p.ID), caseJSON())
				}
			}
		}
		for id := range initiallyPresent {
			if allowed[id] {
				continue
			}
			if store.deleted[id] > 0 || !store.present[id] {
				rec.Fail(t, "TestPropDeletionCheck", "other-shard-deleted",
					fmt.Sprintf("shard %d does not belong to an expired or deleted group but DeleteShard was called for it", id), caseJSON())
			}
			if store.blocked[id] > 0 {
				rec.Fail(t, "TestPropDeletionCheck", "other-shard-touched",
					fmt.Sprintf("shard %d does not belong to an expired or deleted group but new readers were blocked on it", id), caseJSON())
			}
		}
		for id := range store.deleted {
			if !initiallyPresent[id] {
				rec.Fail(t, "TestPropDeletionCheck", "unknown-shard-deleted", fmt.Sprintf("DeleteShard(%d) for a shard the store never listed", id), caseJSON())
			}
		}
		rec.Eval()
		rec.Class(fmt.Sprintf("service:rounds=%d", rounds))
		if agedBetween > 0 {
			rec.Class("service:two-weeks-pass-between-checks")
		}
		if pruned > 0 {
			rec.Class("service:tombstone-pruned")
			if policiesWithGroups >= 2 {
				rec.Class("service:tombstone-pruned,>=2-policies-keep-groups")
			}
			if nLive > 0 && len(policies) >= 2 {
				rec.Class("service:tombstone-pruned,unexpired-groups-in-multi-policy-layout")
			}
		}
		if nExp > 0 && nLive > 0 && nDel > 0 {
			rec.Class("service:non-trivial")
			var ps []string
			for _, p := range plan {
				ps = append(ps, fmt.Sprintf("%s/%s/%d/%v/%d/%v/%v", p.DB, p.RP, p.ID, p.Shards, p.AgeSlots, p.PreDeleted, p.Aged))
			}
			rec.NonTrivial("svc|" + strings.Join(canon, ";") + "|" + strings.Join(ps, ";") + "|" + fmt.Sprint(initiallyPresent, initiallyInUse, rounds, agedBetween))
		}
	})
	if stalls*10 > n {
		rec.Inconclusive(fmt.Sprintf("TestPropDeletionCheck: %d of %d cases skipped because the machine stalled for more than a minute", stalls, n))
	}
}

// ---------------------------------------------------------------------------------------------
// (2b) DeletionCheck on the real engine

func TestPropDeletionCheckOnDisk(t *testing.T) {
	stalls := 0
	n := ev.N(100, 1500)
	rec.Check(t, 100, 1500, func(t *rapid.T) {
		root, err := scratch.Dir("c19-")
		if err != nil {
			t.Fatalf("harness: %v", err)
		}
		defer os.RemoveAll(root)
		st, err := fix.NewStack(root, time.Hour) // retention 0 (infinite), 1 h shard groups
		if err != nil {
			t.Fatalf("harness: stack: %v", err)
		}
		defer st.Close()
		ctx := context.Background()
		now := time.Now()
		mult := rapid.SampledFrom([]int{1, 2, 3, 6}).Draw(t, "retention-hours")
		extra := time.Duration(rapid.IntRange(0, 59).Draw(t, "retention-minutes")) * time.Minute
		dur := nudge(time.Duration(mult)*time.Hour+extra, time.Hour, now)

		// history written while retention was infinite: points of various ages, one series each
		nPts := rapid.IntRange(2, 7).Draw(t, "points")
		type wp struct {
			ts  int64
			age string
		}
		var pts []wp
		seen := map[int64]bool{}
		for i := 0; i < nPts; i++ {
			var ts time.Time
			var age string
			switch rapid.SampledFrom([]string{"rel", "rel", "rel", "rel", "y2000", "future"}).Draw(t, "age-class") {
			case "rel":
				slots := rapid.IntRange(-mult-1, 5).Draw(t, "age-slots")
				ts = now.Add(-dur).Add(-time.Duration(slots) * time.Hour).Add(-time.Duration(rapid.IntRange(0, 3000).Draw(t, "jitter")) * time.Second)
				age = fmt.Sprintf("rel%d", slots)
			case "y2000":
				ts = time.Date(2000, 1, 1, 0, 0, rapid.IntRange(0, 7200).Draw(t, "sec"), 0, time.UTC)
				age = "y2000"
			default:
				ts = now.Add(time.Duration(rapid.IntRange(1, 7200).Draw(t, "ahead")) * time.Second)
				age = "future"
			}
			if seen[ts.UnixNano()] {
				continue
			}
			seen[ts.UnixNano()] = true
			pts = append(pts, wp{ts.UnixNano(), age})
		}
		var batch []models.Point
		for _, p := range pts {
			batch = append(batch, models.MustNewPoint("m", models.NewTags(map[string]string{"h": "a"}), models.Fields{"v": float64(1)}, time.Unix(0, p.ts)))
		}
		if err := st.Write(batch); err != nil {
			rec.Fail(t, "TestPropDeletionCheckOnDisk", "write-error-with-infinite-retention", err.Error(), fmt.Sprint(pts))
		}
		if err := st.Eng.UpdateBucketRetentionPolicy(ctx, st.Bucket, &influxdb.BucketUpdate{RetentionPeriod: &dur}); err != nil {
			t.Fatalf("harness: shorten retention to %v: %v", dur, err)
		}
		before := st.Meta.Data()
		rpi, _ := before.RetentionPolicy(st.DB(), meta.DefaultRetentionPolicyName)
		groups := append([]meta.ShardGroupInfo(nil), rpi.ShardGroups...)

		svc := newService(st.Meta, st.Store)
		t0 := time.Now()
		svc.DeletionCheck(ctx)
		t1 := time.Now()
		if t1.Sub(t0) > time.Minute || t0.Sub(now) > time.Minute {
			stalls++
			rec.Class("disk:skipped-stall")
			return
		}
		rows, err := st.ReadFilter(models.MinNanoTime, models.MaxNanoTime, nil)
		if err != nil {
			rec.Fail(t, "TestPropDeletionCheckOnDisk", "read-error", err.Error(), nil)
		}
		readable := map[int64]bool{}
		for _, r := range rows {
			for _, p := range r.Points {
				readable[p.T] = true
			}
		}
		caseJSON := func() map[string]any {
			var gsr []string
			for _, g := range groups {
				gsr = append(gsr, fmt.Sprintf("group %d shards %d end=now%+v", g.ID, len(g.Shards), g.EndTime.Sub(now).Round(time.Second)))
			}
			return map[string]any{"retention": dur.String(), "points": fmt.Sprint(pts), "groups": gsr, "store_shards": fmt.Sprint(st.ShardIDs())}
		}
		inStore := map[uint64]bool{}
		for _, id := range st.ShardIDs() {
			inStore[id] = true
		}
		after := st.Meta.Data()
		var nExp, nLive int
		for _, g := range groups {
			v := classify(g.EndTime, dur, t0, t1)
			ga := findGroup(&after, st.DB(), meta.DefaultRetentionPolicyName, g.ID)
			for _, s := range g.Shards {
				_, statErr := os.Stat(st.DataDir(s.ID))
				onDisk := statErr == nil
				switch v {
				case sureExpired:
					if inStore[s.ID] || onDisk || st.Store.Shard(s.ID) != nil {
						rec.Fail(t, "TestPropDeletionCheckOnDisk", "expired-shard-still-on-disk",
							fmt.Sprintf("shard %d of group %d (ended %v before now - retention) survives DeletionCheck: in store=%v on disk=%v", s.ID, g.ID, now.Add(-dur).Sub(g.EndTime).Round(time.Second), inStore[s.ID], onDisk), caseJSON())
					}
				case sureLive:
					if !inStore[s.ID] || !onDisk {
						rec.Fail(t, "TestPropDeletionCheckOnDisk", "unexpired-shard-removed",
							fmt.Sprintf("shard %d of group %d (ends %v after now - retention) was removed: in store=%v on disk=%v", s.ID, g.ID, g.EndTime.Sub(now.Add(-dur)).Round(time.Second), inStore[s.ID], onDisk), caseJSON())
					}
				}
			}
			switch v {
			case sureExpired:
				nExp++
				rec.Class("disk:group=expired")
				if ga != nil && !ga.Deleted() {
					rec.Fail(t, "TestPropDeletionCheckOnDisk", "expired-group-not-deleted", fmt.Sprintf("group %d is expired but still live in the metadata", g.ID), caseJSON())
				}
			case sureLive:
				nLive++
				rec.Class("disk:group=unexpired")
				if ga == nil || ga.Deleted() {
					rec.Fail(t, "TestPropDeletionCheckOnDisk", "unexpired-group-deleted", fmt.Sprintf("group %d is not expired but was deleted", g.ID), caseJSON())
				}
			default:
				rec.Class("disk:group=dead-zone(unasserted)")
			}
			for _, p := range pts {
				at := time.Unix(0, p.ts)
				if !g.Contains(at) {
					continue
				}
				if v == sureExpired && readable[p.ts] {
					rec.Fail(t, "TestPropDeletionCheckOnDisk", "expired-point-still-readable", fmt.Sprintf("point %d (%s) of expired group %d is still returned by a read", p.ts, p.age, g.ID), caseJSON())
				}
				if v == sureLive && !readable[p.ts] {
					rec.Fail(t, "TestPropDeletionCheckOnDisk", "unexpired-point-lost", fmt.Sprintf("point %d (%s) of unexpired group %d is no longer readable after DeletionCheck", p.ts, p.age, g.ID), caseJSON())
				}
			}
		}
		rec.Eval()
		if nExp > 0 && nLive > 0 {
			rec.Class("disk:non-trivial")
			var ages []string
			for _, p := range pts {
				ages = append(ages, p.age)
			}
			rec.NonTrivial(fmt.Sprintf("disk|%d|%v|%v", mult, extra, ages))
		}
	})
	if stalls*10 > n {
		rec.Inconclusive(fmt.Sprintf("TestPropDeletionCheckOnDisk: %d of %d cases skipped because the machine stalled", stalls, n))
	}
}

// ---------------------------------------------------------------------------------------------
// (3) write path

type recWriter struct {
	mu     sync.Mutex
	writes map[uint64][]models.Point
}

func (w *recWriter) CreateShard(ctx context.Context, database, retentionPolicy string, shardID uint64, enabled bool) error {
	return nil
}

func (w *recWriter) WriteToShard(ctx context.Context, shardID uint64, points []models.Point) error {
	w.mu.Lock()
	defer w.mu.Unlock()
	w.writes[shardID] = append(w.writes[shardID], points...)
	return nil
}

func TestPropRetentionDrop(t *testing.T) {
	stalls := 0
	n := ev.N(30000, 600000)
	rec.Check(t, 30000, 600000, func(t *rapid.T) {
		_, mc, err := newMeta()
		if err != nil {
			t.Fatalf("harness: %v", err)
		}
		sgd := rapid.SampledFrom([]time.Duration{time.Hour, time.Hour, 24 * time.Hour}).Draw(t, "sgd")
		mult := rapid.SampledFrom([]int{0, 1, 1, 2, 7, 30}).Draw(t, "retention-mult")
		dur := time.Duration(mult) * sgd
		if mult > 0 {
			dur += time.Duration(rapid.IntRange(0, 3599).Draw(t, "retention-seconds")) * time.Second
		}
		if _, err := mc.CreateDatabaseWithRetentionPolicy("db", &meta.RetentionPolicySpec{Name: "rp", Duration: &dur, ShardGroupDuration: sgd}); err != nil {
			t.Fatalf("harness: %v", err)
		}
		store := &recWriter{writes: map[uint64][]models.Point{}}
		pw := coordinator.NewPointsWriter(10*time.Second, "c19")
		pw.MetaClient = mc
		pw.TSDBStore = store
		_ = pw.Open()
		defer pw.Close()

		now := time.Now()
		nPts := rapid.IntRange(1, 12).Draw(t, "points")
		type bp struct {
			rel  time.Duration // relative to now - retention; negative = older than the limit
			cls  string
			abs  time.Time
			drop bool
		}
		ps := make([]bp, nPts)
		pts := make([]models.Point, nPts)
		for i := range ps {
			cls := rapid.SampledFrom([]string{"just-older", "older", "much-older", "just-newer", "newer", "now", "future", "y1980"}).Draw(t, "age-class")
			var rel time.Duration
			sec := func(lo, hi int) time.Duration {
				return time.Duration(rapid.IntRange(lo, hi).Draw(t, "seconds"))*time.Second + time.Duration(rapid.IntRange(0, 999_999_999).Draw(t, "nanos"))
			}
			switch cls {
			case "just-older":
				rel = -pointMargin - sec(0, 10)
			case "older":
				rel = -pointMargin - sec(10, 7200)
			case "much-older":
				rel = -pointMargin - sec(7200, 400*86400)
			case "just-newer":
				rel = pointMargin + sec(0, 10)
			case "newer":
				rel = pointMargin + sec(10, 3000)
			case "now":
				rel = dur
			case "future":
				rel = dur + sec(1, 30*86400)
			}
			p := bp{rel: rel, cls: cls}
			if cls == "y1980" {
				p.abs = time.Date(1980, 6, 1, 0, 0, rapid.IntRange(0, 86400).Draw(t, "sec"), 0, time.UTC)
				p.drop = dur != 0
			} else {
				p.abs = now.Add(-dur).Add(rel)
				p.drop = dur != 0 && rel < 0
			}
			if dur == 0 && cls != "y1980" {
				// infinite retention: "now - retention" is now; ages are simply relative to now
				p.abs = now.Add(rel)
			}
			ps[i] = p
			pts[i] = models.MustNewPoint("m", models.NewTags(map[string]string{"i": fmt.Sprint(i)}), models.Fields{"v": int64(i)}, p.abs)
		}
		wantDropped := 0
		for _, p := range ps {
			if p.drop {
				wantDropped++
			}
		}
		caseJSON := func() map[string]any {
			var r []string
			for i, p := range ps {
				r = append(r, fmt.Sprintf("#%d %s limit%+v drop=%v", i, p.cls, p.rel, p.drop))
			}
			return map[string]any{"retention": dur.String(), "sgd": sgd.String(), "points": r, "want_dropped": wantDropped}
		}

		// --- MapShards
		t0 := time.Now()
		m, err := pw.MapShards(&coordinator.WritePointsRequest{Database: "db", RetentionPolicy: "rp", Points: pts})
		t1 := time.Now()
		if t1.Sub(now) > 3*time.Second || t1.Sub(t0) > 3*time.Second {
			stalls++
			rec.Class("write:skipped-stall")
			return
		}
		if err != nil {
			rec.Fail(t, "TestPropRetentionDrop", "mapshards-error", err.Error(), caseJSON())
		}
		data := mc.Data()
		rpi, _ := data.RetentionPolicy("db", "rp")
		groupOf := func(at time.Time) *meta.ShardGroupInfo {
			for gi := range rpi.ShardGroups {
				if g := &rpi.ShardGroups[gi]; !g.Deleted() && g.Contains(at) {
					return g
				}
			}
			return nil
		}
		// signature of the known finding: an expired point whose timestamp lies in the shard
		// group of an unexpired point of the same batch
		straddle := make([]bool, nPts)
		for i, p := range ps {
			if !p.drop {
				continue
			}
			for _, q := range ps {
				if g := groupOf(q.abs); !q.drop && g != nil && g.Contains(p.abs) {
					straddle[i] = true
				}
			}
		}
		knownOpen := ev.KnownOpen(propID, knownCompanion)
		mapped := make([]int, nPts)
		for sid, sp := range m.Points {
			var owner *meta.ShardGroupInfo
			for gi := range rpi.ShardGroups {
				for _, s := range rpi.ShardGroups[gi].Shards {
					if s.ID == sid {
						owner = &rpi.ShardGroups[gi]
					}
				}
			}
			for _, p := range sp {
				for i := range pts {
					if pts[i] == p {
						mapped[i]++
						if owner == nil || owner.Deleted() || !owner.Contains(p.Time()) {
							rec.Fail(t, "TestPropRetentionDrop", "accepted-point-outside-group", fmt.Sprintf("point #%d mapped to shard %d whose group does not contain it", i, sid), caseJSON())
						}
					}
				}
			}
		}
		excused := 0
		for i, p := range ps {
			if p.drop && mapped[i] == 1 && straddle[i] && knownOpen {
				excused++
				continue
			}
			if p.drop && mapped[i] != 0 {
				key := "expired-point-accepted"
				if straddle[i] {
					key = knownCompanion
				}
				rec.Fail(t, "TestPropRetentionDrop", key, fmt.Sprintf("point #%d (%s, %v older than now - retention) was mapped to a shard", i, p.cls, -p.rel), caseJSON())
			}
			if !p.drop && mapped[i] != 1 {
				rec.Fail(t, "TestPropRetentionDrop", "unexpired-point-rejected", fmt.Sprintf("point #%d (%s, %v newer than now - retention %v) was mapped %d times", i, p.cls, p.rel, dur, mapped[i]), caseJSON())
			}
		}
		if m.RetentionDropped != wantDropped-excused || m.Dropped() != wantDropped-excused {
			rec.Fail(t, "TestPropRetentionDrop", "dropped-count",
				fmt.Sprintf("MapShards reports RetentionDropped=%d Dropped()=%d, expected %d points older than now - retention (%v)", m.RetentionDropped, m.Dropped(), wantDropped-excused, dur), caseJSON())
		}

		// --- WritePointsPrivileged: the caller-visible report
		t2 := time.Now()
		werr := pw.WritePointsPrivileged(context.Background(), "db", "rp", models.ConsistencyLevelAll, pts)
		t3 := time.Now()
		if t3.Sub(now) > 3*time.Second || t3.Sub(t2) > 3*time.Second {
			stalls++
			rec.Class("write:skipped-stall")
			return
		}
		written := make([]int, nPts)
		store.mu.Lock()
		for _, sp := range store.writes {
			for _, p := range sp {
				for i := range pts {
					if pts[i] == p {
						written[i]++
					}
				}
			}
		}
		store.mu.Unlock()
		excusedW := 0
		for i, p := range ps {
			if p.drop && written[i] == 1 && straddle[i] && knownOpen {
				excusedW++
				continue
			}
			if p.drop && written[i] != 0 {
				key := "expired-point-written"
				if straddle[i] {
					key = knownCompanion
				}
				rec.Fail(t, "TestPropRetentionDrop", key, fmt.Sprintf("point #%d (%s) is older than now - retention but reached the store", i, p.cls), caseJSON())
			}
			if !p.drop && written[i] != 1 {
				rec.Fail(t, "TestPropRetentionDrop", "unexpired-point-not-written", fmt.Sprintf("point #%d (%s) reached the store %d times", i, p.cls, written[i]), caseJSON())
			}
		}
		var pwe tsdb.PartialWriteError
		wantW := wantDropped - excusedW
		switch {
		case wantW == 0 && werr != nil:
			rec.Fail(t, "TestPropRetentionDrop", "write-rejected-without-expired-points", fmt.Sprintf("WritePoints returned %v although no point is older than now - retention", werr), caseJSON())
		case wantW > 0 && !errors.As(werr, &pwe):
			rec.Fail(t, "TestPropRetentionDrop", "drop-not-reported", fmt.Sprintf("WritePoints returned %v; expected a PartialWriteError reporting %d dropped points", werr, wantW), caseJSON())
		case wantW > 0 && pwe.Dropped != wantW:
			rec.Fail(t, "TestPropRetentionDrop", "reported-dropped-count", fmt.Sprintf("PartialWriteError.Dropped=%d, expected %d (%v)", pwe.Dropped, wantW, werr), caseJSON())
		}
		if excused > 0 || excusedW > 0 {
			rec.ExcludedKnown(knownCompanion)
			rec.Class("write:known-companion-signature")
		}
		rec.Eval()
		for _, p := range ps {
			rec.Class("write:point=" + p.cls)
		}
		if dur == 0 {
			rec.Class("write:retention=infinite")
		} else {
			rec.Class("write:retention=finite")
		}
		if wantDropped > 0 && wantDropped < nPts {
			rec.Class("write:non-trivial(mixed batch)")
			var r []string
			for _, p := range ps {
				r = append(r, fmt.Sprintf("%s%+v", p.cls, p.rel))
			}
			rec.NonTrivial(fmt.Sprintf("write|%v|%v|%v", dur, sgd, r))
		}
	})
	if stalls*10 > n {
		rec.Inconclusive(fmt.Sprintf("TestPropRetentionDrop: %d of %d cases skipped because a call stalled for more than 3 s", stalls, n))
	}
}

// ---------------------------------------------------------------------------------------------
// known finding

// TestKnown_expired_point_accepted_with_live_companion: MapShards decides "outside retention" in
// its second loop only by the absence of a shard group in the per-batch list. A point 10 s older
// than now - retention is dropped when written alone, but accepted when the batch also holds a
// point 10 s newer than the limit, because that point put their common shard group on the list.
func TestKnown_expired_point_accepted_with_live_companion(t *testing.T) {
	_, mc, err := newMeta()
	if err != nil {
		t.Fatal(err)
	}
	sgd := 24 * time.Hour
	now := time.Now()
	dur := 48 * time.Hour
	// keep now-dur at least a minute inside one shard-group window
	if lim := now.Add(-dur); lim.Sub(lim.Truncate(sgd)) < time.Minute || sgd-lim.Sub(lim.Truncate(sgd)) < time.Minute {
		dur += time.Hour
	}
	if _, err := mc.CreateDatabaseWithRetentionPolicy("db", &meta.RetentionPolicySpec{Name: "rp", Duration: &dur, ShardGroupDuration: sgd}); err != nil {
		t.Fatal(err)
	}
	pw := coordinator.NewPointsWriter(10*time.Second, "c19-known")
	pw.MetaClient = mc
	older := models.MustNewPoint("m", nil, models.Fields{"v": 1.0}, now.Add(-dur).Add(-10*time.Second))
	newer := models.MustNewPoint("m", nil, models.Fields{"v": 2.0}, now.Add(-dur).Add(10*time.Second))

	alone, err := pw.MapShards(&coordinator.WritePointsRequest{Database: "db", RetentionPolicy: "rp", Points: []models.Point{older}})
	if err != nil {
		t.Fatal(err)
	}
	both, err := pw.MapShards(&coordinator.WritePointsRequest{Database: "db", RetentionPolicy: "rp", Points: []models.Point{older, newer}})
	if err != nil {
		t.Fatal(err)
	}
	if time.Since(now) > 5*time.Second {
		rec.Class("known:skipped-stall")
		return
	}
	olderMapped := 0
	for _, sp := range both.Points {
		for _, p := range sp {
			if p == older {
				olderMapped++
			}
		}
	}
	reproduced := alone.RetentionDropped == 1 && both.RetentionDropped == 0 && olderMapped == 1
	rec.Known(t, "TestKnown_expired_point_accepted_with_live_companion", knownCompanion, reproduced,
		fmt.Sprintf("retention %v, 24h shard groups: a point 10 s older than now - retention is dropped when written alone (RetentionDropped=%d) but is mapped to a shard (RetentionDropped=%d) when the batch also contains a point 10 s newer than the limit in the same shard group", dur, alone.RetentionDropped, both.RetentionDropped),
		map[string]any{"retention": dur.String(), "shard_group_duration": sgd.String(), "older": "now - retention - 10s", "newer": "now - retention + 10s"})
}
