// C15 — Tag WHERE clauses select exactly the matching series.
//
// Generator: a series set for three measurements over tag keys {a,b,c} x values {x, y, xy, "x y"}
// (a key may be absent on a series, or absent from the whole measurement), indexed in one or two
// real tsi1 indexes sharing one series file (the two-index layout is the IndexSet of two shards;
// a series may live in one or both). Storage states: everything in the tsi1 log file; after a
// reopen with a 1-byte log limit so that compacted index files serve the query; and compacted
// files plus a second batch in a fresh log file. A boolean expression of depth <= 4 over
// tag = 'lit', !=, =~, !~ (regex pool with empty-matching members), _name comparisons, AND, OR,
// parentheses; evaluated as built influxql.Expr (with and without ParenExpr nodes), as parsed from
// its String() form, and as parsed + SelectStatement.RewriteRegexConditions (what a query does).
//
// Oracle: direct evaluation per series, absent tag == "", Go regexp for matches; the set of series
// keys (ids mapped through the series file) returned by IndexSet.MeasurementSeriesByExprIterator
// must be exactly the series of the queried measurement for which the expression is true.
package c15_tagexpr

import (
	"fmt"
	"os"
	"path/filepath"
	"regexp"
	"sort"
	"strings"
	"testing"
	"time"

	"github.com/influxdata/influxdb/v2/models"
	"github.com/influxdata/influxdb/v2/tsdb"
	"github.com/influxdata/influxdb/v2/tsdb/index/tsi1"
	"github.com/influxdata/influxql"
	"pgregory.net/rapid"

	"verifharness/internal/ev"
	"verifharness/internal/scratch"
)

var rec = ev.For("C15", "exploration",
	"case = (series set over tag keys a,b,c in three measurements, index layout {1|2 indexes, partitions}, storage state {log, compacted, compacted+log}, queried measurement, boolean tag expression, expression form {built, built-without-parens, parsed, parsed+regex-rewrite}); NON-TRIVIAL = the expression has >=1 OR and >=1 negative operator or empty-matching regex/literal, and the expected result is neither empty nor the whole measurement; distinct by canonical rendering of (sorted series keys, layout, state, measurement, expression string, form)")

// ---------------------------------------------------------------------------------------------
// model

var tagKeys = []string{"a", "b", "c"}
var tagVals = []string{"x", "y", "xy", "x y"}
var measurements = []string{"m", "mm", "x"}

// ser is one series: measurement plus the value of each of the three tag keys ("" = absent).
type ser struct {
	M string
	T [3]string
}

func (s ser) tags() models.Tags {
	m := map[string]string{}
	for i, k := range tagKeys {
		if s.T[i] != "" {
			m[k] = s.T[i]
		}
	}
	return models.NewTags(m)
}

func (s ser) key() string { return string(models.MakeKey([]byte(s.M), s.tags())) }

func (s ser) tag(k string) string {
	for i, kk := range tagKeys {
		if kk == k {
			return s.T[i]
		}
	}
	return ""
}

// node is the semantic expression tree.
type node struct {
	Op    string // "=", "!=", "=~", "!~", "AND", "OR"
	Key   string // a, b, c, _name
	Lit   string
	Re    string
	Rev   bool // literal on the left-hand side (string comparisons only)
	Typed bool // VarRef carries the ::tag type annotation
	Paren bool // a redundant pair of parentheses around this node
	L, R  *node
}

func (n *node) leaf() bool { return n.Op != "AND" && n.Op != "OR" }

func (n *node) eval(s ser) bool {
	switch n.Op {
	case "AND":
		return n.L.eval(s) && n.R.eval(s)
	case "OR":
		return n.L.eval(s) || n.R.eval(s)
	}
	v := s.tag(n.Key)
	if n.Key == "_name" {
		v = s.M
	}
	switch n.Op {
	case "=":
		return v == n.Lit
	case "!=":
		return v != n.Lit
	case "=~":
		return regexp.MustCompile(n.Re).MatchString(v)
	case "!~":
		return !regexp.MustCompile(n.Re).MatchString(v)
	}
	panic("bad op " + n.Op)
}

// stats for the non-trivial rule
func (n *node) walk(fn func(*node)) {
	fn(n)
	if !n.leaf() {
		n.L.walk(fn)
		n.R.walk(fn)
	}
}

// expr renders the tree as an influxql.Expr. withParens: ParenExpr nodes where precedence needs
// them (an OR below an AND) and where the generator asked for redundant ones; otherwise the bare
// tree (only meaningful for the built form: String() of it would re-parse differently).
func (n *node) expr(withParens bool) influxql.Expr {
	var e influxql.Expr
	switch n.Op {
	case "AND", "OR":
		l, r := n.L.expr(withParens), n.R.expr(withParens)
		if withParens && n.Op == "AND" {
			if n.L.Op == "OR" {
				l = paren(l)
			}
			if n.R.Op == "OR" {
				r = paren(r)
			}
		}
		// String() renders a right-nested chain of the same operator without parentheses and
		// the parser re-associates it to the left: same truth table (AND/OR are associative).
		op := influxql.AND
		if n.Op == "OR" {
			op = influxql.OR
		}
		e = &influxql.BinaryExpr{Op: op, LHS: l, RHS: r}
	default:
		ref := &influxql.VarRef{Val: n.Key}
		if n.Typed {
			ref.Type = influxql.Tag
		}
		switch n.Op {
		case "=", "!=":
			op := influxql.EQ
			if n.Op == "!=" {
				op = influxql.NEQ
			}
			lit := &influxql.StringLiteral{Val: n.Lit}
			if n.Rev {
				e = &influxql.BinaryExpr{Op: op, LHS: lit, RHS: ref}
			} else {
				e = &influxql.BinaryExpr{Op: op, LHS: ref, RHS: lit}
			}
		default:
			op := influxql.EQREGEX
			if n.Op == "!~" {
				op = influxql.NEQREGEX
			}
			e = &influxql.BinaryExpr{Op: op, LHS: ref, RHS: &influxql.RegexLiteral{Val: regexp.MustCompile(n.Re)}}
		}
	}
	if withParens && n.Paren {
		e = paren(e)
	}
	return e
}

func paren(e influxql.Expr) influxql.Expr {
	if _, ok := e.(*influxql.ParenExpr); ok {
		return e
	}
	return &influxql.ParenExpr{Expr: e}
}

// ---------------------------------------------------------------------------------------------
// generators

var regexPool = []string{`^x$`, `x`, `^$`, `.*`, `.+`, `^(x|y)$`, `x|^$`, `[^x]`, `^x`, `y$`, `^(xy|z)$`, ` `}
var nameRegexPool = []string{`^m$`, `m`, `^$`, `.*`, `^(m|x)$`, `mm`, `[^m]`, `^z`}
var litPool = []string{"", "x", "y", "xy", "x y", "z"}
var nameLitPool = []string{"m", "mm", "x", "zz", ""}

func genLeaf(t *rapid.T) *node {
	n := &node{}
	kd := rapid.IntRange(0, 19).Draw(t, "key")
	switch {
	case kd < 8:
		n.Key = "a"
	case kd < 14:
		n.Key = "b"
	case kd < 18:
		n.Key = "c"
	default:
		n.Key = "_name"
	}
	n.Op = rapid.SampledFrom([]string{"=", "!=", "=~", "!~", "=", "!="}).Draw(t, "op")
	if n.Key == "_name" {
		if n.Op == "=" || n.Op == "!=" {
			n.Lit = rapid.SampledFrom(nameLitPool).Draw(t, "nlit")
		} else {
			n.Re = rapid.SampledFrom(nameRegexPool).Draw(t, "nre")
		}
		return n
	}
	if n.Op == "=" || n.Op == "!=" {
		n.Lit = rapid.SampledFrom(litPool).Draw(t, "lit")
		n.Rev = rapid.IntRange(0, 9).Draw(t, "rev") == 0
	} else {
		n.Re = rapid.SampledFrom(regexPool).Draw(t, "re")
	}
	n.Typed = rapid.IntRange(0, 4).Draw(t, "typed") == 0
	return n
}

func genNode(t *rapid.T, depth int) *node {
	if depth <= 0 || rapid.IntRange(0, 9).Draw(t, "leaf?") >= 8 {
		n := genLeaf(t)
		n.Paren = rapid.IntRange(0, 9).Draw(t, "lparen") == 0
		return n
	}
	n := &node{Op: rapid.SampledFrom([]string{"AND", "OR"}).Draw(t, "logical")}
	n.L = genNode(t, depth-1)
	n.R = genNode(t, depth-1)
	n.Paren = rapid.IntRange(0, 4).Draw(t, "paren") == 0
	return n
}

func genExpr(t *rapid.T) *node {
	return genNode(t, rapid.SampledFrom([]int{2, 3, 1, 4, 2, 3, 1, 0}).Draw(t, "depth"))
}

// genSeries draws the series sets of all three measurements. Per measurement and key a presence
// weight is drawn first so that "key absent from the whole measurement", "key on some series"
// and "key on every series" all occur often.
func genSeries(t *rapid.T) []ser {
	seen := map[string]bool{}
	var out []ser
	for _, m := range measurements {
		n := 12 - rapid.IntRange(0, 12).Draw(t, "nseries")
		if m == "m" {
			n = 16 - rapid.IntRange(0, 15).Draw(t, "nseries-m")
		}
		var presence [3]int
		for i := range presence {
			presence[i] = rapid.SampledFrom([]int{6, 8, 4, 9, 0, 10, 2}).Draw(t, "presence")
		}
		for j := 0; j < n; j++ {
			s := ser{M: m}
			for i := range tagKeys {
				if rapid.IntRange(0, 9).Draw(t, "has") < presence[i] {
					s.T[i] = rapid.SampledFrom(tagVals).Draw(t, "val")
				}
			}
			if k := s.key(); !seen[k] {
				seen[k] = true
				out = append(out, s)
			}
		}
	}
	return out
}

// ---------------------------------------------------------------------------------------------
// fixture: one series file + 1..2 tsi1 indexes

type fixture struct {
	dir   string
	sfile *tsdb.SeriesFile
	fs    *tsdb.MeasurementFieldSet
	idx   []*tsi1.Index
	partN uint64
}

func newFixture(nIdx int, partN uint64) (*fixture, error) {
	dir, err := scratch.Dir("c15-")
	if err != nil {
		return nil, err
	}
	f := &fixture{dir: dir, partN: partN, idx: make([]*tsi1.Index, nIdx)}
	f.sfile = tsdb.NewSeriesFile(filepath.Join(dir, "_series"))
	if err := f.sfile.Open(); err != nil {
		os.RemoveAll(dir)
		return nil, err
	}
	// a field set as a shard would attach it: the measurements have a field "v" (and "value"),
	// never named like a tag key
	f.fs, err = tsdb.NewMeasurementFieldSet(filepath.Join(dir, "fields.idx"), nil)
	if err != nil {
		f.close()
		return nil, err
	}
	for _, m := range measurements {
		mf := f.fs.CreateFieldsIfNotExists([]byte(m))
		mf.CreateFieldIfNotExists("v", influxql.Float)
		mf.CreateFieldIfNotExists("value", influxql.Integer)
	}
	for i := range f.idx {
		if err := f.openIndex(i, tsdb.DefaultMaxIndexLogFileSize); err != nil {
			f.close()
			return nil, err
		}
	}
	return f, nil
}

func (f *fixture) openIndex(i int, maxLog int64) error {
	ix := tsi1.NewIndex(f.sfile, "db0", tsi1.WithPath(filepath.Join(f.dir, fmt.Sprintf("index%d", i))), tsi1.WithMaximumLogFileSize(maxLog))
	ix.PartitionN = f.partN
	if err := ix.Open(); err != nil {
		return err
	}
	ix.SetFieldSet(f.fs)
	f.idx[i] = ix
	return nil
}

// reopen closes every index and opens it again with the given log-file limit. With limit 1 the
// partitions compact their log files into index files on their own (this is how the repo's own
// index tests reach the post-compaction state); wait until no partition needs compaction.
func (f *fixture) reopen(maxLog int64, wait bool) (bool, error) {
	for i, ix := range f.idx {
		if err := ix.Close(); err != nil {
			return false, err
		}
		f.idx[i] = nil
		if err := f.openIndex(i, maxLog); err != nil {
			return false, err
		}
	}
	if !wait {
		return true, nil
	}
	deadline := time.Now().Add(30 * time.Second)
	for {
		need := false
		for _, ix := range f.idx {
			for p := 0; p < int(ix.PartitionN); p++ {
				need = need || ix.PartitionAt(p).NeedsCompaction(false)
			}
		}
		if !need {
			for _, ix := range f.idx {
				ix.Wait()
			}
			return true, nil
		}
		if time.Now().After(deadline) {
			return false, nil
		}
		time.Sleep(2 * time.Millisecond)
	}
}

func (f *fixture) add(i int, ss []ser) error {
	if len(ss) == 0 {
		return nil
	}
	var keys, names [][]byte
	var tags []models.Tags
	for _, s := range ss {
		keys = append(keys, []byte(s.key()))
		names = append(names, []byte(s.M))
		tags = append(tags, s.tags())
	}
	return f.idx[i].CreateSeriesListIfNotExists(keys, names, tags)
}

func (f *fixture) indexSet() tsdb.IndexSet {
	is := tsdb.IndexSet{SeriesFile: f.sfile}
	for _, ix := range f.idx {
		is.Indexes = append(is.Indexes, ix)
	}
	return is
}

func (f *fixture) close() {
	for _, ix := range f.idx {
		if ix != nil {
			ix.Close()
		}
	}
	if f.sfile != nil {
		f.sfile.Close()
	}
	if f.fs != nil {
		f.fs.Close()
	}
	os.RemoveAll(f.dir)
}

// query returns the multiset of series keys selected for (measurement, expr).
func (f *fixture) query(m string, e influxql.Expr) (map[string]int, error) {
	got := map[string]int{}
	itr, err := f.indexSet().MeasurementSeriesByExprIterator([]byte(m), e)
	if err != nil {
		return nil, err
	}
	if itr == nil {
		return got, nil
	}
	defer itr.Close()
	for {
		el, err := itr.Next()
		if err != nil {
			return nil, err
		}
		if el.SeriesID == 0 {
			return got, nil
		}
		sk := f.sfile.SeriesKey(el.SeriesID)
		if len(sk) == 0 {
			got[fmt.Sprintf("<unknown series id %d>", el.SeriesID)]++
			continue
		}
		name, tags := tsdb.ParseSeriesKey(sk)
		got[string(models.MakeKey(name, tags))]++
	}
}

// ---------------------------------------------------------------------------------------------
// the property

type placed struct {
	S     ser
	Where int // 0: index 0, 1: index 1, 2: both
}

func sortedKeys(m map[string]int) []string {
	out := make([]string, 0, len(m))
	for k := range m {
		out = append(out, k)
	}
	sort.Strings(out)
	return out
}

func TestPropTagExpr(t *testing.T) {
	rec.Assume("InfluxQL semantics of a tag comparison: the tag value as a string, an absent tag compares as the empty string; =~ / !~ are Go regexp (RE2) unanchored matches. Tag-versus-tag comparisons and field references are not generated (the index passes field terms through to the query engine by design). Tag keys never coincide with field names.")
	rec.Assume("The compacted storage state is reached the way the repository's own index tests reach it (reopen with a 1-byte log limit and wait until no partition needs compaction); a wait above 30 s marks the run inconclusive.")
	rec.Check(t, 450, 9000, func(t *rapid.T) {
		nIdx := rapid.SampledFrom([]int{1, 1, 2}).Draw(t, "nIdx")
		partN := rapid.SampledFrom([]uint64{1, 2, 8}).Draw(t, "partN")
		all := genSeries(t)
		// placement and batch of each series
		var first, second []placed
		for _, s := range all {
			p := placed{S: s}
			if nIdx == 2 {
				p.Where = rapid.IntRange(0, 2).Draw(t, "where")
			}
			if rapid.IntRange(0, 9).Draw(t, "batch2") < 3 {
				second = append(second, p)
			} else {
				first = append(first, p)
			}
		}
		compact := rapid.IntRange(0, 9).Draw(t, "compact") < 7

		f, err := newFixture(nIdx, partN)
		if err != nil {
			t.Fatalf("fixture: %v", err)
		}
		defer f.close()

		var live []ser
		// resend: series that already exist in the index and come again in the same batch, as in
		// every write to known series (Shard.validateSeriesAndFields hands all series of a write to
		// CreateSeriesListIfNotExists, old and new).
		insert := func(ps, resend []placed) {
			var per, old [2][]ser
			for _, p := range ps {
				if p.Where == 0 || p.Where == 2 {
					per[0] = append(per[0], p.S)
				}
				if p.Where == 1 || p.Where == 2 {
					per[1] = append(per[1], p.S)
				}
				live = append(live, p.S)
			}
			for _, p := range resend {
				if p.Where == 0 || p.Where == 2 {
					old[0] = append(old[0], p.S)
				}
				if p.Where == 1 || p.Where == 2 {
					old[1] = append(old[1], p.S)
				}
			}
			for i := 0; i < nIdx; i++ {
				if len(old[i]) > 0 {
					per[i] = append(append([]ser{}, old[i]...), per[i]...)
					if len(per[i]) > len(old[i]) {
						rec.Class("batch:existing-and-new-series-together")
					}
					if rapid.Bool().Draw(t, "shuffleBatch") {
						per[i] = rapid.Permutation(per[i]).Draw(t, "batchOrder")
					}
				}
				if err := f.add(i, per[i]); err != nil {
					t.Fatalf("create series: %v", err)
				}
			}
		}

		layout := fmt.Sprintf("idx=%d,part=%d", nIdx, partN)
		runQueries := func(state string, k int) {
			var liveKeys []string
			for _, s := range live {
				w := ""
				for _, p := range append(append([]placed{}, first...), second...) {
					if p.S == s {
						w = fmt.Sprint(p.Where)
					}
				}
				liveKeys = append(liveKeys, s.key()+"@"+w)
			}
			sort.Strings(liveKeys)
			for q := 0; q < k; q++ {
				n := genExpr(t)
				m := rapid.SampledFrom([]string{"m", "m", "m", "m", "m", "m", "m", "mm", "mm", "x", "x", "nosuch"}).Draw(t, "measurement")
				form := rapid.SampledFrom([]string{"built", "parsed", "parsed", "bare", "rewritten"}).Draw(t, "form")

				str := n.expr(true).String()
				var e influxql.Expr
				switch form {
				case "built":
					e = n.expr(true)
				case "bare":
					e = n.expr(false)
				case "parsed", "rewritten":
					e, err = influxql.ParseExpr(str)
					if err != nil {
						t.Fatalf("harness: cannot re-parse %q: %v", str, err)
					}
					if form == "rewritten" {
						st := &influxql.SelectStatement{Condition: e}
						st.RewriteRegexConditions()
						e = st.Condition
					}
				}

				want := map[string]int{}
				total := 0
				for _, s := range live {
					if s.M != m {
						continue
					}
					total++
					if n.eval(s) {
						want[s.key()] = 1
					}
				}
				got, err := f.query(m, e)
				rec.Eval()

				// classes
				var ors, negs, emptyish, leaves, vitrNil int
				n.walk(func(x *node) {
					if x.Op == "OR" {
						ors++
					}
					if !x.leaf() {
						return
					}
					leaves++
					if x.Op == "!=" || x.Op == "!~" {
						negs++
					}
					if (x.Re != "" && regexp.MustCompile(x.Re).MatchString("")) || ((x.Op == "=" || x.Op == "!=") && x.Lit == "") {
						emptyish++
					}
					if x.Key != "_name" {
						has := false
						for _, s := range live {
							if s.M == m && s.tag(x.Key) != "" {
								has = true
							}
						}
						if !has {
							vitrNil++
						}
					}
				})
				rec.Class("state:" + state)
				rec.Class("form:" + form)
				rec.Class(fmt.Sprintf("layout:indexes=%d", nIdx))
				rec.Class(fmt.Sprintf("layout:partitions=%d", partN))
				if ors > 0 {
					rec.Class("expr:has-OR")
				}
				if negs > 0 {
					rec.Class("expr:has-negative-op")
				}
				if emptyish > 0 {
					rec.Class("expr:has-empty-matching-regex-or-literal")
				}
				if vitrNil > 0 {
					rec.Class("expr:compares-key-absent-from-measurement")
				}
				if leaves == 1 {
					rec.Class("expr:single-comparison")
				}
				switch {
				case total == 0:
					rec.Class("result:measurement-has-no-series")
				case len(want) == 0:
					rec.Class("result:expected-empty")
				case len(want) == total:
					rec.Class("result:expected-everything")
				default:
					rec.Class("result:expected-proper-subset")
				}
				canon := strings.Join(liveKeys, ";") + "|" + layout + "|" + state + "|" + m + "|" + str + "|" + form
				if ors > 0 && (negs > 0 || emptyish > 0) && len(want) > 0 && len(want) < total {
					rec.NonTrivial(canon)
				}
				c := map[string]any{"series": liveKeys, "layout": layout, "state": state, "measurement": m, "expr": str, "form": form,
					"queried_expr": fmt.Sprint(e), "want": sortedKeys(want), "got": sortedKeys(got)}
				if rec.WantSample() && len(want) > 0 && len(want) < total && ors > 0 {
					rec.Sample(c)
				}
				if err != nil {
					rec.Fail(t, "TestPropTagExpr", "iterator-error", fmt.Sprintf("MeasurementSeriesByExprIterator(%q, %s): %v", m, e, err), c)
				}
				dups := 0
				for _, cnt := range got {
					if cnt > 1 {
						dups++
					}
				}
				if dups > 0 {
					rec.Class("result:duplicate-ids-returned") // tallied, a set is compared
				}
				var missing, extra []string
				for k := range want {
					if got[k] == 0 {
						missing = append(missing, k)
					}
				}
				for k := range got {
					if want[k] == 0 {
						extra = append(extra, k)
					}
				}
				sort.Strings(missing)
				sort.Strings(extra)
				if len(missing) > 0 || len(extra) > 0 {
					key := "selects-extra-series"
					if len(missing) > 0 {
						key = "misses-matching-series"
					}
					rec.Fail(t, "TestPropTagExpr", key,
						fmt.Sprintf("measurement %q WHERE %s [%s, %s, %s]: missing %q, extra %q (series %v)", m, str, form, state, layout, missing, extra, liveKeys), c)
				}
			}
		}

		insert(first, nil)
		runQueries("log", rapid.IntRange(4, 9).Draw(t, "k-log"))
		if compact {
			ok, err := f.reopen(1, true)
			if err != nil {
				t.Fatalf("reopen(1): %v", err)
			}
			if !ok {
				rec.Inconclusive("index compaction did not settle within 30 s")
				return
			}
			runQueries("compacted", rapid.IntRange(4, 9).Draw(t, "k-tsi"))
			// back to the normal log limit so that the second batch stays in a log file
			if _, err := f.reopen(tsdb.DefaultMaxIndexLogFileSize, false); err != nil {
				t.Fatalf("reopen(default): %v", err)
			}
			// queries before the second batch also warm the index's tag-value series-id cache,
			// which the insert below has to keep up to date
			runQueries("compacted-reopened", rapid.IntRange(2, 5).Draw(t, "k-warm"))
		}
		if len(second) > 0 {
			var resend []placed
			for _, p := range first {
				if rapid.IntRange(0, 9).Draw(t, "resend") < 4 {
					resend = append(resend, p)
				}
			}
			insert(second, resend)
			st := "log+second-batch"
			if compact {
				st = "compacted+log"
			}
			runQueries(st, rapid.IntRange(4, 9).Draw(t, "k-mixed"))
		}
	})
}
