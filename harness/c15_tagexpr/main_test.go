package c15_tagexpr

import (
	"testing"

	"verifharness/internal/ev"
)

func TestMain(m *testing.M) { ev.Main(m) }
