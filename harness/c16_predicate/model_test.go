// C16 — Delete predicates match exactly the series they describe.
//
// Shared model: series (measurement + tags over an escape-heavy alphabet), predicate trees
// (tag = "v", tag != "v", _measurement = / != "m", AND, OR), their protobuf and string renderings,
// and the three-valued oracle.
//
// Oracle (three-valued, Kleene): a comparison on _measurement or on a tag the series has is
// definite. A comparison on a tag the series does NOT have is FALSE for `= "non-empty"` and
// UNKNOWN for `!= ...` and for `= ""`: the property speaks of the predicate being "true of that
// series' measurement and tags" and does not define absent tags (the engine documents "needed
// more => no match", InfluxQL would say absent == ""). Only definite results are asserted; the
// engine's answers in the unknown cases are tallied in the evidence.
package c16_predicate

import (
	"sort"
	"strings"

	"github.com/influxdata/influxdb/v2/models"
	"github.com/influxdata/influxdb/v2/storage/reads/datatypes"
	"pgregory.net/rapid"

	"verifharness/internal/ev"
)

var rec = ev.For("C16", "exploration",
	"case = (predicate tree over tag =/!= and _measurement =/!= with AND/OR, its construction form {protobuf, marshal round trip, clone, predicate.Parse string}, series with measurement/tag keys/tag values over an alphabet with ',', ' ', '=', backslash and multi-byte runes, observation point {Predicate.Matches on the key PredicateSeriesIDIterator builds, with/without #!~#field suffix; Store.DeleteSeriesWithPredicate on a real shard}); NON-TRIVIAL = the three-valued oracle is definite, the predicate has >=1 OR or !=, and the series has >=1 character needing escaping (',', ' ', '=') in a compared position (measurement when _measurement is compared, key or value of a tag whose key is compared); distinct by canonical rendering of (predicate, form, series key, observation point)")

// ---------------------------------------------------------------------------------------------
// series

type series struct {
	M    string
	Tags [][2]string // sorted by key, unique keys, non-empty keys and values
}

func (s series) tags() models.Tags {
	a := make(models.Tags, 0, len(s.Tags))
	for _, kv := range s.Tags {
		a = append(a, models.NewTag([]byte(kv[0]), []byte(kv[1])))
	}
	sort.Sort(a)
	return a
}

func (s series) tag(k string) (string, bool) {
	for _, kv := range s.Tags {
		if kv[0] == k {
			return kv[1], true
		}
	}
	return "", false
}

// indexKey is the key exactly as tsdb.PredicateSeriesIDIterator.Next builds it from the series
// file entry (name, tags): the measurement is prepended as tag \x00.
func (s series) indexKey() []byte {
	name := []byte(s.M)
	tags := append(models.Tags{{Key: models.MeasurementTagKeyBytes, Value: name}}, s.tags()...)
	return models.MakeKey(name, tags)
}

// plainKey is the ordinary series key (for display and canonical forms).
func (s series) plainKey() string { return string(models.MakeKey([]byte(s.M), s.tags())) }

func needsEscape(x string) bool { return strings.ContainsAny(x, ", =") }

// ---------------------------------------------------------------------------------------------
// predicates

const measurementKey = "_measurement"

type pnode struct {
	Op   string // "AND", "OR", "=", "!="
	Key  string // measurementKey or a tag key
	Val  string
	L, R *pnode
}

func (p *pnode) leaf() bool { return p.Op == "=" || p.Op == "!=" }

func (p *pnode) walk(fn func(*pnode)) {
	fn(p)
	if !p.leaf() {
		p.L.walk(fn)
		p.R.walk(fn)
	}
}

type tri int

const (
	triFalse tri = iota
	triTrue
	triUnknown
)

func (v tri) String() string { return [...]string{"false", "true", "unknown"}[v] }

func triOf(b bool) tri {
	if b {
		return triTrue
	}
	return triFalse
}

func (p *pnode) eval(s series) tri {
	switch p.Op {
	case "AND":
		l, r := p.L.eval(s), p.R.eval(s)
		if l == triFalse || r == triFalse {
			return triFalse
		}
		if l == triTrue && r == triTrue {
			return triTrue
		}
		return triUnknown
	case "OR":
		l, r := p.L.eval(s), p.R.eval(s)
		if l == triTrue || r == triTrue {
			return triTrue
		}
		if l == triFalse && r == triFalse {
			return triFalse
		}
		return triUnknown
	}
	if p.Key == measurementKey {
		return triOf((s.M == p.Val) == (p.Op == "="))
	}
	v, ok := s.tag(p.Key)
	if !ok {
		if p.Op == "=" && p.Val != "" {
			return triFalse
		}
		return triUnknown
	}
	return triOf((v == p.Val) == (p.Op == "="))
}

// usesAbsent reports whether the predicate compares a tag the series does not have.
func (p *pnode) usesAbsent(s series) bool {
	r := false
	p.walk(func(x *pnode) {
		if x.leaf() && x.Key != measurementKey {
			if _, ok := s.tag(x.Key); !ok {
				r = true
			}
		}
	})
	return r
}

// escapedComparedPosition: the non-trivial rule's "escaped character in a compared position".
func (p *pnode) escapedComparedPosition(s series) bool {
	r := false
	p.walk(func(x *pnode) {
		if !x.leaf() {
			return
		}
		if x.Key == measurementKey {
			r = r || needsEscape(s.M)
			return
		}
		if v, ok := s.tag(x.Key); ok {
			r = r || needsEscape(x.Key) || needsEscape(v)
		}
	})
	return r
}

func (p *pnode) hasOrOrNeq() bool {
	r := false
	p.walk(func(x *pnode) { r = r || x.Op == "OR" || x.Op == "!=" })
	return r
}

func (p *pnode) andOnly() bool {
	r := true
	p.walk(func(x *pnode) { r = r && x.Op != "OR" })
	return r
}

// proto renders the tree the way predicate.TagRuleNode/LogicalNode.ToDataType do: a comparison
// is [tag ref, string literal]; _measurement is the tag ref \x00.
func (p *pnode) proto() *datatypes.Node {
	if p.leaf() {
		key := p.Key
		if key == measurementKey {
			key = models.MeasurementTagKey
		}
		cmp := datatypes.Node_ComparisonEqual
		if p.Op == "!=" {
			cmp = datatypes.Node_ComparisonNotEqual
		}
		return &datatypes.Node{
			NodeType: datatypes.Node_TypeComparisonExpression,
			Value:    &datatypes.Node_Comparison_{Comparison: cmp},
			Children: []*datatypes.Node{
				{NodeType: datatypes.Node_TypeTagRef, Value: &datatypes.Node_TagRefValue{TagRefValue: key}},
				{NodeType: datatypes.Node_TypeLiteral, Value: &datatypes.Node_StringValue{StringValue: p.Val}},
			},
		}
	}
	op := datatypes.Node_LogicalAnd
	if p.Op == "OR" {
		op = datatypes.Node_LogicalOr
	}
	return &datatypes.Node{
		NodeType: datatypes.Node_TypeLogicalExpression,
		Value:    &datatypes.Node_Logical_{Logical: op},
		Children: []*datatypes.Node{p.L.proto(), p.R.proto()},
	}
}

func quote(s string) string {
	return `"` + strings.NewReplacer(`\`, `\\`, `"`, `\"`, "\n", `\n`).Replace(s) + `"`
}

// String is a display / canonical form (also valid input of predicate.Parse when andOnly()).
func (p *pnode) String() string {
	if p.leaf() {
		k := quote(p.Key)
		if p.Key == measurementKey {
			k = p.Key
		}
		return k + " " + p.Op + " " + quote(p.Val)
	}
	return "(" + p.L.String() + " " + p.Op + " " + p.R.String() + ")"
}

// bareKeys may be written without quotes in a predicate string (not InfluxQL keywords).
var bareKeys = map[string]bool{"a": true, "b": true, "x": true, "host": true, "m": true}

// parseString renders an AND-only tree as a delete-predicate string with generated layout
// choices (bare or quoted keys, AND/and, parentheses around conjunction groups, spacing).
func (p *pnode) parseString(t *rapid.T) string {
	if p.leaf() {
		k := quote(p.Key)
		if p.Key == measurementKey || (bareKeys[p.Key] && rapid.Bool().Draw(t, "bare")) {
			k = p.Key
		}
		sp := rapid.SampledFrom([]string{" ", "", "  "}).Draw(t, "sp")
		return k + sp + p.Op + sp + quote(p.Val)
	}
	and := rapid.SampledFrom([]string{"AND", "and", "And"}).Draw(t, "and")
	l, r := p.L.parseString(t), p.R.parseString(t)
	// a logical child always gets parentheses on the right (the parser has no precedence to
	// rely on: everything is AND); on the left they are optional
	if !p.L.leaf() && rapid.Bool().Draw(t, "lparen") {
		l = "(" + l + ")"
	}
	if !p.R.leaf() {
		r = "(" + r + ")"
	}
	return l + " " + and + " " + r
}

// ---------------------------------------------------------------------------------------------
// generators

// tokens of the escape-heavy alphabet. A backslash only ever appears followed by a plain letter:
// a name ending in a backslash, or with a backslash directly before ',', ' ' or '=', has no
// unambiguous series-key form at all (models.MakeKey itself unescapes and re-escapes the
// measurement), so such names are outside every caller's domain.
var tokens = []string{"a", "b", "x", "1", "=", ",", " ", "é", "日", `\a`, `\x`, "y"}

func genString(t *rapid.T, label string) string {
	n := rapid.IntRange(1, 4).Draw(t, label+"-len")
	var sb strings.Builder
	for i := 0; i < n; i++ {
		sb.WriteString(rapid.SampledFrom(tokens).Draw(t, label))
	}
	return sb.String()
}

var measurementPool = []string{"m", "a=b", "cpu", "a", "b=x", "m 1", "m,1", "a=b,c", "x=y z", "é", "a=", "k=1=v", `m\a`, "b"}
var keyPool = []string{"a", "b", "x", "k,1", "k 2", "k=3", `k\a`, "é", "host"}
var valPool = []string{"b", "x", "x,y", "x y", "x=y", "a=b", `x\y`, "日本", "v", "b,c", "1"}

func genMeasurement(t *rapid.T) string {
	if rapid.IntRange(0, 9).Draw(t, "mpool?") < 7 {
		return rapid.SampledFrom(measurementPool).Draw(t, "m")
	}
	return genString(t, "mstr")
}

func genKey(t *rapid.T) string {
	if rapid.IntRange(0, 9).Draw(t, "kpool?") < 8 {
		return rapid.SampledFrom(keyPool).Draw(t, "k")
	}
	k := genString(t, "kstr")
	switch k {
	case "time", "_field", "_measurement": // reserved by the write path
		return "a"
	}
	return k
}

func genVal(t *rapid.T) string {
	if rapid.IntRange(0, 9).Draw(t, "vpool?") < 7 {
		return rapid.SampledFrom(valPool).Draw(t, "v")
	}
	return genString(t, "vstr")
}

// universe: the measurements, keys and values a case draws from (small, so that predicates and
// series meet).
type universe struct {
	Ms, Ks, Vs []string
}

func genUniverse(t *rapid.T) universe {
	var u universe
	for i, n := 0, 4-rapid.IntRange(0, 2).Draw(t, "nm"); i < n; i++ {
		u.Ms = append(u.Ms, genMeasurement(t))
	}
	for i, n := 0, 4-rapid.IntRange(0, 2).Draw(t, "nk"); i < n; i++ {
		u.Ks = append(u.Ks, genKey(t))
	}
	for i, n := 0, 5-rapid.IntRange(0, 2).Draw(t, "nv"); i < n; i++ {
		u.Vs = append(u.Vs, genVal(t))
	}
	return u
}

func (u universe) genSeries(t *rapid.T) series {
	s := series{M: rapid.SampledFrom(u.Ms).Draw(t, "sm")}
	n := rapid.SampledFrom([]int{2, 1, 3, 0}).Draw(t, "ntags")
	seen := map[string]bool{}
	for i := 0; i < n; i++ {
		k := rapid.SampledFrom(u.Ks).Draw(t, "sk")
		if seen[k] {
			continue
		}
		seen[k] = true
		s.Tags = append(s.Tags, [2]string{k, rapid.SampledFrom(u.Vs).Draw(t, "sv")})
	}
	sort.Slice(s.Tags, func(i, j int) bool { return s.Tags[i][0] < s.Tags[j][0] })
	return s
}

func (u universe) genSeriesSet(t *rapid.T, max int) []series {
	n := max - rapid.IntRange(0, max-2).Draw(t, "nseries")
	seen := map[string]bool{}
	var out []series
	for i := 0; i < n; i++ {
		s := u.genSeries(t)
		if k := s.plainKey(); !seen[k] {
			seen[k] = true
			out = append(out, s)
		}
	}
	return out
}

// genLeaf draws one comparison. Half of the time it is taken from an actual series of the case
// (its measurement, or one of its tag pairs) so that true comparisons are as common as false ones.
func (u universe) genLeaf(t *rapid.T, set []series) *pnode {
	p := &pnode{Op: rapid.SampledFrom([]string{"=", "!=", "=", "!=", "="}).Draw(t, "op")}
	if len(set) > 0 && rapid.Bool().Draw(t, "from-series") {
		s := set[rapid.IntRange(0, len(set)-1).Draw(t, "from")]
		if len(s.Tags) == 0 || rapid.IntRange(0, 3).Draw(t, "meas?") == 0 {
			p.Key, p.Val = measurementKey, s.M
		} else {
			kv := s.Tags[rapid.IntRange(0, len(s.Tags)-1).Draw(t, "pair")]
			p.Key, p.Val = kv[0], kv[1]
		}
		return p
	}
	if rapid.IntRange(0, 3).Draw(t, "meas?") == 0 {
		p.Key = measurementKey
		if rapid.IntRange(0, 9).Draw(t, "mval?") < 8 {
			p.Val = rapid.SampledFrom(u.Ms).Draw(t, "pm")
		} else {
			p.Val = genMeasurement(t)
		}
		return p
	}
	if rapid.IntRange(0, 9).Draw(t, "kuni?") < 8 {
		p.Key = rapid.SampledFrom(u.Ks).Draw(t, "pk")
	} else {
		p.Key = genKey(t)
	}
	switch d := rapid.IntRange(0, 19).Draw(t, "vsrc"); {
	case d < 13:
		p.Val = rapid.SampledFrom(u.Vs).Draw(t, "pv")
	case d < 16:
		p.Val = genVal(t)
	default:
		p.Val = ""
	}
	return p
}

func (u universe) genPred(t *rapid.T, set []series, depth int, andOnly bool) *pnode {
	if depth <= 0 || rapid.IntRange(0, 9).Draw(t, "leaf?") >= 8 {
		return u.genLeaf(t, set)
	}
	op := "AND"
	if !andOnly && rapid.Bool().Draw(t, "or?") {
		op = "OR"
	}
	return &pnode{Op: op, L: u.genPred(t, set, depth-1, andOnly), R: u.genPred(t, set, depth-1, andOnly)}
}

func genDepth(t *rapid.T) int {
	return rapid.SampledFrom([]int{2, 1, 3, 0, 4, 2, 1}).Draw(t, "depth")
}

// ---------------------------------------------------------------------------------------------
// known finding: measurement-with-equals
//
// predicateMatcher.Matches pops the leading measurement segment of the key like a tag pair. The
// measurement is escaped for ',' and ' ' but not for '=', so a measurement "L=R" feeds the pair
// (L, R) into the predicate state: a comparison on tag key L sees the value R although the series
// has no such tag (or a different value, which arrives later and may be too late).
//
// Signature (exactly): the measurement name contains an unescaped '=' and the part left of its
// first '=' equals a tag key compared in the predicate.
const knownMeasurementWithEquals = "measurement-with-equals"

func measurementWithEqualsSignature(p *pnode, s series) bool {
	i := strings.IndexByte(s.M, '=')
	if i < 0 {
		return false
	}
	left := s.M[:i]
	hit := false
	p.walk(func(x *pnode) {
		if x.leaf() && x.Key != measurementKey && x.Key == left {
			hit = true
		}
	})
	return hit
}
