package c16_predicate

import (
	"testing"

	"verifharness/internal/ev"
)

func TestMain(m *testing.M) { ev.Main(m) }
