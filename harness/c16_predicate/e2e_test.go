package c16_predicate

import (
	"context"
	"fmt"
	"os"
	"sort"
	"testing"
	"time"

	"github.com/influxdata/influxdb/v2"
	"github.com/influxdata/influxdb/v2/models"
	"github.com/influxdata/influxdb/v2/tsdb"
	"github.com/influxdata/influxdb/v2/tsdb/cursors"
	"github.com/influxdata/influxql"
	"pgregory.net/rapid"

	"verifharness/internal/ev"
	"verifharness/internal/fix"
	"verifharness/internal/scratch"
)

// Every series gets the float field "v" at these timestamps.
var e2eTimes = []int64{10, 20}

func readSeries(sh *tsdb.Shard, s series) ([]int64, error) {
	ctx := context.Background()
	ci, err := sh.CreateCursorIterator(ctx)
	if err != nil {
		return nil, err
	}
	cur, err := ci.Next(ctx, &cursors.CursorRequest{Name: []byte(s.M), Tags: s.tags(), Field: "v", Ascending: true,
		StartTime: models.MinNanoTime, EndTime: models.MaxNanoTime})
	if err != nil {
		return nil, err
	}
	if cur == nil {
		return nil, nil
	}
	defer cur.Close()
	fc, ok := cur.(cursors.FloatArrayCursor)
	if !ok {
		return nil, fmt.Errorf("cursor type %T", cur)
	}
	var ts []int64
	for {
		a := fc.Next()
		if a.Len() == 0 {
			break
		}
		ts = append(ts, a.Timestamps...)
	}
	return ts, fc.Err()
}

// measurementHint derives the optional `measurement` argument of DeleteSeriesWithPredicate the
// way the only production caller does (http.decodeDeleteRequest): the predicate string parsed as
// an InfluxQL expression and partitioned into its `_measurement` comparisons.
func measurementHint(src string) (influxql.Expr, error) {
	expr, err := influxql.ParseExpr(src)
	if err != nil {
		return nil, err
	}
	m, _, err := influxql.PartitionExpr(influxql.CloneExpr(expr), func(e influxql.Expr) (bool, error) {
		switch e := e.(type) {
		case *influxql.BinaryExpr:
			switch e.Op {
			case influxql.EQ, influxql.NEQ, influxql.EQREGEX, influxql.NEQREGEX:
				tag, ok := e.LHS.(*influxql.VarRef)
				if ok && tag.Val == "_measurement" {
					return true, nil
				}
			}
		}
		return false, nil
	})
	return m, err
}

// known finding: measurement-hint-ignores-operator
//
// Store.DeleteSeriesWithPredicate takes the right-hand side of the `measurement` expression as
// "the one measurement to delete from" without looking at the operator. For the hint
// `_measurement != X` (which http.decodeDeleteRequest passes for a predicate containing that
// comparison) it (a) returns without deleting anything when the shard has no measurement X and
// (b) otherwise walks the measurements in order and stops after X, so matching series of
// measurements sorting after X keep their points.
//
// Signature (exactly): the hint is a single `_measurement != X` comparison, the series matches the
// predicate but was kept, and X is not a measurement of the shard or the series' measurement sorts
// after X.
const knownHintIgnoresOperator = "measurement-hint-ignores-operator"

func hintIgnoresOperatorSignature(hint influxql.Expr, set []series, s series) bool {
	b, ok := hint.(*influxql.BinaryExpr)
	if !ok || b.Op != influxql.NEQ {
		return false
	}
	lhs, ok1 := b.LHS.(*influxql.VarRef)
	rhs, ok2 := b.RHS.(*influxql.VarRef)
	if !ok1 || !ok2 || lhs.Val != "_measurement" {
		return false
	}
	exists := false
	for _, x := range set {
		if x.M == rhs.Val {
			exists = true
		}
	}
	return !exists || s.M > rhs.Val
}

type e2eCase struct {
	P        *pnode
	Form     string
	Src      string
	Set      []series
	Min, Max int64
	Snapshot bool
	Hint     string // "nil" or the rendered hint expression
}

type e2eResult struct {
	Series series
	Want   tri
	Before []int64
	After  []int64
}

// runE2E writes the series, optionally snapshots the cache to a TSM file, runs
// Store.DeleteSeriesWithPredicate and reads every series back.
func runE2E(c *e2eCase, pred influxdb.Predicate, hint influxql.Expr) ([]e2eResult, error) {
	root, err := scratch.Dir("c16-")
	if err != nil {
		return nil, err
	}
	defer os.RemoveAll(root)
	f, err := fix.NewShardFix(root)
	if err != nil {
		return nil, err
	}
	defer f.Close()

	var pts []models.Point
	for _, s := range c.Set {
		for _, ts := range e2eTimes {
			p, err := models.NewPoint(s.M, s.tags(), models.Fields{"v": float64(ts)}, time.Unix(0, ts))
			if err != nil {
				return nil, fmt.Errorf("new point %q: %w", s.plainKey(), err)
			}
			pts = append(pts, p)
		}
	}
	if err := f.Write(pts); err != nil {
		return nil, fmt.Errorf("write: %w", err)
	}
	if c.Snapshot {
		if err := f.Snapshot(); err != nil {
			return nil, fmt.Errorf("snapshot: %w", err)
		}
	}
	res := make([]e2eResult, len(c.Set))
	for i, s := range c.Set {
		res[i].Series = s
		res[i].Want = c.P.eval(s)
		if res[i].Before, err = readSeries(f.Shard(), s); err != nil {
			return nil, fmt.Errorf("read before: %w", err)
		}
		if render(res[i].Before) != render(e2eTimes) {
			return nil, fmt.Errorf("fixture: series %q reads %v after the write", s.plainKey(), res[i].Before)
		}
	}
	if err := f.Store.DeleteSeriesWithPredicate(context.Background(), fix.DB, c.Min, c.Max, pred, hint); err != nil {
		return nil, fmt.Errorf("DeleteSeriesWithPredicate: %w", err)
	}
	f.Quiesce()
	for i, s := range c.Set {
		if res[i].After, err = readSeries(f.Shard(), s); err != nil {
			return nil, fmt.Errorf("read after: %w", err)
		}
	}
	return res, nil
}

func render(ts []int64) string {
	if len(ts) == 0 {
		return "[]"
	}
	return fmt.Sprint(ts)
}

func remaining(min, max int64) []int64 {
	var out []int64
	for _, ts := range e2eTimes {
		if ts < min || ts > max {
			out = append(out, ts)
		}
	}
	return out
}

func TestPropDeleteE2E(t *testing.T) {
	rec.Assume("End to end: Store.DeleteSeriesWithPredicate on one shard (background loops off); every series has field v at t=10 and t=20; a series 'lost its points' when the points inside [min,max] are gone and the others are still there. The `measurement` argument is nil or derived exactly as http.decodeDeleteRequest derives it from the predicate string.")
	rec.Check(t, 240, 2500, func(t *rapid.T) {
		u := genUniverse(t)
		andOnly := rapid.IntRange(0, 9).Draw(t, "andOnly") < 5
		set := u.genSeriesSet(t, 8)
		p := u.genPred(t, set, genDepth(t), andOnly)
		forms := []string{"proto", "roundtrip"}
		if p.andOnly() {
			forms = []string{"parsed+hint", "parsed", "parsed+hint", "parsed-rt", "parsed+hint", "proto"}
		}
		form := rapid.SampledFrom(forms).Draw(t, "form")
		c := &e2eCase{P: p, Form: form, Hint: "nil"}
		c.Set = set
		rng := rapid.SampledFrom([][2]int64{{models.MinNanoTime, models.MaxNanoTime}, {0, 15}, {15, 30}, {10, 20}, {100, 200}, {11, 19}}).Draw(t, "range")
		c.Min, c.Max = rng[0], rng[1]
		c.Snapshot = rapid.Bool().Draw(t, "snapshot")

		cform := form
		if form == "parsed+hint" {
			cform = "parsed"
		}
		pred, src, err := compile(t, p, cform)
		if err != nil {
			if src != "" {
				rec.Class("parse:rejected-by-parser")
				return
			}
			rec.Fail(t, "TestPropDeleteE2E", "compile-error", fmt.Sprintf("%s as %s: %v", p, form, err), nil)
		}
		c.Src = src
		var hint influxql.Expr
		if form == "parsed+hint" {
			hint, err = measurementHint(src)
			if err != nil {
				// the HTTP layer would have rejected the request: not a case
				rec.Class("e2e:hint-parse-rejected")
				hint = nil
			} else if hint != nil {
				c.Hint = hint.String()
				rec.Class("e2e:with-measurement-hint")
			}
		}

		res, err := runE2E(c, pred, hint)
		if err != nil {
			rec.Fail(t, "TestPropDeleteE2E", "e2e-error", err.Error(), c)
		}
		keep := render(e2eTimes)
		gone := render(remaining(c.Min, c.Max))
		rangeHits := keep != gone
		rec.Class("e2e:form:" + form)
		if c.Snapshot {
			rec.Class("e2e:data-in-tsm")
		} else {
			rec.Class("e2e:data-in-cache")
		}
		if !rangeHits {
			rec.Class("e2e:range-holds-no-points")
		}
		for _, r := range res {
			rec.Eval()
			after := render(r.After)
			goneN := gone
			rec.Class("e2e:oracle:" + r.Want.String())
			sig := measurementWithEqualsSignature(p, r.Series)
			detail := map[string]any{"predicate": p.String(), "form": form, "source": src, "hint": c.Hint, "min": c.Min, "max": c.Max,
				"snapshot": c.Snapshot, "series": r.Series.plainKey(), "oracle": r.Want.String(), "after": r.After, "all_series": keysOf(c.Set)}
			if after != keep && after != goneN {
				rec.Fail(t, "TestPropDeleteE2E", "unexpected-points",
					fmt.Sprintf("series %q reads %v after delete [%d,%d] of %s", r.Series.plainKey(), r.After, c.Min, c.Max, p), detail)
			}
			if !rangeHits {
				continue // nothing observable
			}
			deleted := after == goneN
			if r.Want == triUnknown {
				rec.Class(fmt.Sprintf("e2e:unknown-case:deleted=%v", deleted))
				continue
			}
			if p.hasOrOrNeq() && p.escapedComparedPosition(r.Series) {
				rec.NonTrivial(p.String() + "|" + form + "|" + r.Series.plainKey() + "|e2e|" + c.Hint + fmt.Sprint(c.Min, c.Max, c.Snapshot))
			}
			if deleted != (r.Want == triTrue) {
				if sig && ev.KnownOpen("C16", knownMeasurementWithEquals) {
					rec.ExcludedKnown(knownMeasurementWithEquals)
					continue
				}
				if !deleted && hintIgnoresOperatorSignature(hint, c.Set, r.Series) && ev.KnownOpen("C16", knownHintIgnoresOperator) {
					rec.ExcludedKnown(knownHintIgnoresOperator)
					continue
				}
				key := "e2e-deleted-nonmatching-series"
				if !deleted {
					key = "e2e-kept-matching-series"
				}
				rec.Fail(t, "TestPropDeleteE2E", key,
					fmt.Sprintf("DeleteSeriesWithPredicate(min=%d,max=%d, %s [%s %q], measurement=%s): series %q reads %v afterwards, the predicate is %v of it (all series: %q)",
						c.Min, c.Max, p, form, src, c.Hint, r.Series.plainKey(), r.After, r.Want, keysOf(c.Set)), detail)
			}
		}
	})
}

func keysOf(set []series) []string {
	var out []string
	for _, s := range set {
		out = append(out, s.plainKey())
	}
	sort.Strings(out)
	return out
}
