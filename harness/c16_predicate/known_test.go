package c16_predicate

import (
	"fmt"
	"testing"

	"github.com/influxdata/influxdb/v2/models"
	"github.com/influxdata/influxdb/v2/predicate"
	"github.com/influxdata/influxdb/v2/storage/reads/datatypes"
	"github.com/influxdata/influxdb/v2/tsdb/engine/tsm1"
)

// TestKnown_measurement_with_equals: deterministic reproducer of finding
// `measurement-with-equals` (see model_test.go for the signature).
//
//	series  measurement "a=b", tags {x=y}            (no tag a)
//	key     a=b,\x00=a\=b,x=y                        (as PredicateSeriesIDIterator builds it)
//	a = "b"                 must not match (the series has no tag a)        -> Matches = true
//
// and the mirror image, a real tag shadowed by the measurement segment:
//
//	series  measurement "x=y z", tags {a=b, x=b}
//	x = "b"                 must match                                       -> Matches = false
func TestKnown_measurement_with_equals(t *testing.T) {
	type kc struct {
		S    series
		P    *pnode
		Want tri
	}
	cases := []kc{
		{series{M: "a=b", Tags: [][2]string{{"x", "y"}}}, &pnode{Op: "=", Key: "a", Val: "b"}, triFalse},
		{series{M: "x=y z", Tags: [][2]string{{"a", "b"}, {"x", "b"}}}, &pnode{Op: "=", Key: "x", Val: "b"}, triTrue},
	}
	reproduced := 0
	var detail []string
	var out []map[string]any
	for _, c := range cases {
		if got := c.P.eval(c.S); got != c.Want {
			t.Fatalf("harness: oracle says %v for %s on %s", got, c.P, c.S.plainKey())
		}
		if !measurementWithEqualsSignature(c.P, c.S) {
			t.Fatalf("harness: reproducer does not carry the signature")
		}
		pred, err := tsm1.NewProtobufPredicate(&datatypes.Predicate{Root: c.P.proto()})
		if err != nil {
			t.Fatal(err)
		}
		key := c.S.indexKey()
		got := pred.Matches(key)
		rec.Eval()
		if got != (c.Want == triTrue) {
			reproduced++
		}
		detail = append(detail, fmt.Sprintf("key %q, predicate %s: Matches=%v, the predicate is %v of the series", key, c.P, got, c.Want))
		out = append(out, map[string]any{"key": string(key), "predicate": c.P.String(), "matches": got, "oracle": c.Want.String()})
	}
	if want := `a=b,` + "\x00" + `=a\=b,x=y`; string(cases[0].S.indexKey()) != want {
		t.Fatalf("harness: key form changed: %q", cases[0].S.indexKey())
	}
	rec.Known(t, "TestKnown_measurement_with_equals", knownMeasurementWithEquals, reproduced > 0,
		"predicateMatcher.Matches pops the measurement segment of the key like a tag pair; a measurement name containing '=' injects a bogus tag: "+detail[0]+"; "+detail[1], out)
	if reproduced != 0 && reproduced != len(cases) {
		t.Logf("only %d of %d reproducer cases still fail: %v", reproduced, len(cases), detail)
	}
}

// TestKnown_measurement_hint_ignores_operator: deterministic reproducer of finding
// `measurement-hint-ignores-operator` (see e2e_test.go for the signature).
//
//	shard   a,a=x  m,a=x  z,a=x   (field v at t=10,20)
//	delete  everything where  _measurement != "m"   with the measurement argument the HTTP
//	        handler derives from that string (`_measurement != m`)
//	        -> z,a=x keeps its points (the walk stops after "m")
//	delete  everything where  _measurement != "q"   (no measurement q in the shard)
//	        -> nothing is deleted at all
//
// With measurement == nil both deletes remove exactly the matching series.
func TestKnown_measurement_hint_ignores_operator(t *testing.T) {
	set := []series{{M: "a", Tags: [][2]string{{"a", "x"}}}, {M: "m", Tags: [][2]string{{"a", "x"}}}, {M: "z", Tags: [][2]string{{"a", "x"}}}}
	reproduced := 0
	var detail []string
	var out []map[string]any
	for _, x := range []string{"m", "q"} {
		p := &pnode{Op: "!=", Key: measurementKey, Val: x}
		src := p.String()
		n, err := predicate.Parse(src)
		if err != nil {
			t.Fatal(err)
		}
		pr, err := predicate.New(n)
		if err != nil {
			t.Fatal(err)
		}
		hint, err := measurementHint(src)
		if err != nil || hint == nil {
			t.Fatalf("harness: hint of %q: %v %v", src, hint, err)
		}
		c := &e2eCase{P: p, Set: set, Min: models.MinNanoTime, Max: models.MaxNanoTime}
		res, err := runE2E(c, pr, hint)
		if err != nil {
			t.Fatal(err)
		}
		for _, r := range res {
			rec.Eval()
			deleted := len(r.After) == 0
			if r.Want == triUnknown {
				t.Fatalf("harness: oracle unknown")
			}
			if deleted != (r.Want == triTrue) {
				if deleted || !hintIgnoresOperatorSignature(hint, set, r.Series) {
					t.Fatalf("harness: reproducer mismatch without the signature: %q after=%v", r.Series.plainKey(), r.After)
				}
				reproduced++
				detail = append(detail, fmt.Sprintf("predicate %s with measurement=%s: series %q still reads %v", src, hint, r.Series.plainKey(), r.After))
				out = append(out, map[string]any{"predicate": src, "hint": hint.String(), "series": r.Series.plainKey(), "after": r.After})
			}
		}
	}
	rec.Known(t, "TestKnown_measurement_hint_ignores_operator", knownHintIgnoresOperator, reproduced > 0,
		fmt.Sprintf("Store.DeleteSeriesWithPredicate uses the right-hand side of the measurement hint without checking the operator (shard a,a=x m,a=x z,a=x): %v", detail), out)
}
