package c16_predicate

import (
	"fmt"
	"testing"

	"github.com/influxdata/influxdb/v2"
	"github.com/influxdata/influxdb/v2/predicate"
	"github.com/influxdata/influxdb/v2/storage/reads/datatypes"
	"github.com/influxdata/influxdb/v2/tsdb/engine/tsm1"
	"pgregory.net/rapid"

	"verifharness/internal/ev"
)

// compile builds the engine's predicate for the tree in the requested form.
//
//	proto      tsm1.NewProtobufPredicate(tree)
//	roundtrip  proto -> Marshal -> tsm1.UnmarshalPredicate (what is stored / sent to the engine)
//	clone      proto -> Clone()
//	parsed     string -> predicate.Parse -> predicate.New            (AND-only trees)
//	parsed-rt  parsed -> Marshal -> tsm1.UnmarshalPredicate
//
// ok=false with err==nil: predicate.Parse / New rejected the string (tallied, not asserted: the
// property is about what a compiled predicate matches).
func compile(t *rapid.T, p *pnode, form string) (pred influxdb.Predicate, src string, err error) {
	switch form {
	case "proto", "roundtrip", "clone":
		pr, err := tsm1.NewProtobufPredicate(&datatypes.Predicate{Root: p.proto()})
		if err != nil {
			return nil, "", err
		}
		switch form {
		case "roundtrip":
			b, err := pr.Marshal()
			if err != nil {
				return nil, "", err
			}
			pr2, err := tsm1.UnmarshalPredicate(b)
			if err != nil {
				return nil, "", err
			}
			return pr2, "", nil
		case "clone":
			return pr.Clone(), "", nil
		}
		return pr, "", nil
	case "parsed", "parsed-rt":
		src = p.parseString(t)
		n, err := predicate.Parse(src)
		if err != nil {
			return nil, src, fmt.Errorf("predicate.Parse: %w", err)
		}
		pr, err := predicate.New(n)
		if err != nil {
			return nil, src, fmt.Errorf("predicate.New: %w", err)
		}
		if pr == nil {
			return nil, src, fmt.Errorf("predicate.New returned nil for %q", src)
		}
		if form == "parsed-rt" {
			b, err := pr.Marshal()
			if err != nil {
				return nil, src, err
			}
			pr2, err := tsm1.UnmarshalPredicate(b)
			if err != nil {
				return nil, src, err
			}
			return pr2, src, nil
		}
		return pr, src, nil
	}
	panic("form " + form)
}

func TestPropMatches(t *testing.T) {
	rec.Assume("A comparison on a tag the series does not have is asserted only for `= \"non-empty\"` (false); `!=` and `= \"\"` on an absent tag are unknown (Kleene logic through AND/OR) and only tallied.")
	rec.Assume("Names never end in a backslash and never contain a backslash directly before ',', ' ', '=' or another backslash: such names have no unambiguous series key (models.MakeKey unescapes and re-escapes the measurement).")
	rec.Check(t, 8000, 400000, func(t *rapid.T) {
		u := genUniverse(t)
		andOnly := rapid.IntRange(0, 9).Draw(t, "andOnly") < 4
		set := u.genSeriesSet(t, 7)
		p := u.genPred(t, set, genDepth(t), andOnly)
		forms := []string{"proto", "roundtrip", "clone", "proto"}
		if p.andOnly() {
			forms = []string{"parsed", "parsed-rt", "parsed", "proto", "roundtrip"}
		}
		form := rapid.SampledFrom(forms).Draw(t, "form")

		pred, src, err := compile(t, p, form)
		if err != nil {
			if src != "" {
				// predicate.Parse / New rejected a generated string (its parser loses track of
				// deeply nested parentheses): not a statement about matching - tallied only
				rec.Class("parse:rejected-by-parser")
				return
			}
			// every generated protobuf tree is well formed
			rec.Fail(t, "TestPropMatches", "compile-error", fmt.Sprintf("%s as %s: %v", p, form, err), map[string]any{"tree": p.String(), "form": form})
		}
		if src != "" {
			rec.Class("parse:accepted")
		}

		// one compiled predicate is used for a sequence of keys (with repeats), as the delete
		// path does: state must not leak from one key to the next
		steps := 10 - rapid.IntRange(0, 6).Draw(t, "steps")
		for i := 0; i < steps; i++ {
			s := set[rapid.IntRange(0, len(set)-1).Draw(t, "pick")]
			key := s.indexKey()
			obs := "index-key"
			if rapid.IntRange(0, 3).Draw(t, "suffix") == 0 {
				key = append(key, []byte("#!~#v")...)
				obs = "index-key+field"
			}
			want := p.eval(s)
			got := pred.Matches(key)
			rec.Eval()

			rec.Class("form:" + form)
			rec.Class("oracle:" + want.String())
			if p.usesAbsent(s) {
				rec.Class("series:lacks-a-compared-tag")
			}
			esc := p.escapedComparedPosition(s)
			if esc {
				rec.Class("series:escaped-char-in-compared-position")
			}
			if p.hasOrOrNeq() {
				rec.Class("pred:has-OR-or-!=")
			}
			sig := measurementWithEqualsSignature(p, s)
			if sig {
				rec.Class("series:measurement-with-equals-signature")
			}
			c := map[string]any{"predicate": p.String(), "form": form, "source": src, "measurement": s.M, "tags": s.Tags,
				"key": string(key), "oracle": want.String(), "matches": got}
			if want == triUnknown {
				// indefinite: never asserted, only tallied
				if sig {
					rec.Class(fmt.Sprintf("unknown-case:measurement-with-equals-signature:engine-says-%v", got))
				} else {
					rec.Class(fmt.Sprintf("unknown-case:engine-says-%v", got))
				}
				continue
			}
			if p.hasOrOrNeq() && esc {
				rec.NonTrivial(p.String() + "|" + form + "|" + string(key) + "|" + obs)
				if rec.WantSample() {
					rec.Sample(c)
				}
			}
			if got != (want == triTrue) {
				if sig && ev.KnownOpen("C16", knownMeasurementWithEquals) {
					rec.ExcludedKnown(knownMeasurementWithEquals)
					continue
				}
				rec.Fail(t, "TestPropMatches", fmt.Sprintf("matches-%v-want-%v", got, want),
					fmt.Sprintf("predicate %s [%s %q] on key %q (measurement %q tags %q): Matches=%v, the predicate is %v of the series", p, form, src, key, s.M, s.Tags, got, want), c)
			}
		}
	})
}
