// C37 — Sorted timestamp array algebra is set algebra.
//
// Generator: two sorted, deduplicated (timestamp,value) arrays over a small grid plus the int64
// extremes, and a closed range [min,max] (also min>max and extreme bounds).
// Oracle: a map model (timestamp -> value): Merge = union with the argument winning on ties,
// Exclude removes exactly min<=t<=max, Include keeps exactly those, FindRange = insertion
// positions of an independent linear search (or (-1,-1) when the array is empty, min>max, or the
// array lies wholly outside the range, as documented).
package c37_arrays

import (
	"fmt"
	"math"
	"sort"
	"strings"
	"testing"

	"github.com/influxdata/influxdb/v2/tsdb/cursors"
	"github.com/influxdata/influxdb/v2/tsdb/engine/tsm1"
	"pgregory.net/rapid"

	"verifharness/internal/ev"
)

var rec = ev.For("C37", "exploration",
	"case = (array type, op, array a, array b or closed range); non-trivial = for merge: both arrays non-empty with >=1 common timestamp and interleaving; for range ops: non-empty array and a bound equal to an element, or an extreme (MinInt64/MaxInt64) bound, or min>max; distinct by canonical rendering of (type, op, inputs)")

// pt is the model point: value is a small integer mapped injectively into each value type.
type pt struct {
	T int64
	V int
}

// impl adapts one concrete array type to the model.
type impl struct {
	name string
	// each op takes model inputs, runs the real implementation on freshly built arrays, and
	// returns the resulting receiver contents
	merge     func(a, b []pt) []pt
	exclude   func(a []pt, min, max int64) []pt
	include   func(a []pt, min, max int64) []pt
	findRange func(a []pt, min, max int64) (int, int)
	dedup     func(a []pt) []pt // nil when the type has no Deduplicate
}

func fval(v int) float64 {
	// injective, includes -0, NaN-free; bit-compared through the inverse below
	return float64(v) * 0.5
}
func sval(v int) string { return fmt.Sprintf("s%d", v) }

// ---- cursors.*Array adaptors -------------------------------------------------------------

func floatArr(a []pt) *cursors.FloatArray {
	x := &cursors.FloatArray{Timestamps: make([]int64, 0, len(a)), Values: make([]float64, 0, len(a))}
	for _, p := range a {
		x.Timestamps = append(x.Timestamps, p.T)
		x.Values = append(x.Values, fval(p.V))
	}
	return x
}
func floatArrOut(x *cursors.FloatArray) []pt {
	if len(x.Timestamps) != len(x.Values) {
		return []pt{{T: -999, V: -999}, {T: int64(len(x.Timestamps)), V: len(x.Values)}}
	}
	out := make([]pt, 0, len(x.Timestamps))
	for i := range x.Timestamps {
		out = append(out, pt{x.Timestamps[i], int(x.Values[i] * 2)})
	}
	return out
}
func intArr(a []pt) *cursors.IntegerArray {
	x := &cursors.IntegerArray{}
	for _, p := range a {
		x.Timestamps = append(x.Timestamps, p.T)
		x.Values = append(x.Values, int64(p.V))
	}
	return x
}
func intArrOut(x *cursors.IntegerArray) []pt {
	if len(x.Timestamps) != len(x.Values) {
		return []pt{{T: -999, V: -999}}
	}
	out := make([]pt, 0, len(x.Timestamps))
	for i := range x.Timestamps {
		out = append(out, pt{x.Timestamps[i], int(x.Values[i])})
	}
	return out
}
func uintArr(a []pt) *cursors.UnsignedArray {
	x := &cursors.UnsignedArray{}
	for _, p := range a {
		x.Timestamps = append(x.Timestamps, p.T)
		x.Values = append(x.Values, uint64(p.V))
	}
	return x
}
func uintArrOut(x *cursors.UnsignedArray) []pt {
	if len(x.Timestamps) != len(x.Values) {
		return []pt{{T: -999, V: -999}}
	}
	out := make([]pt, 0, len(x.Timestamps))
	for i := range x.Timestamps {
		out = append(out, pt{x.Timestamps[i], int(x.Values[i])})
	}
	return out
}
func strArr(a []pt) *cursors.StringArray {
	x := &cursors.StringArray{}
	for _, p := range a {
		x.Timestamps = append(x.Timestamps, p.T)
		x.Values = append(x.Values, sval(p.V))
	}
	return x
}
func strArrOut(x *cursors.StringArray) []pt {
	if len(x.Timestamps) != len(x.Values) {
		return []pt{{T: -999, V: -999}}
	}
	out := make([]pt, 0, len(x.Timestamps))
	for i := range x.Timestamps {
		var v int
		fmt.Sscanf(x.Values[i], "s%d", &v)
		out = append(out, pt{x.Timestamps[i], v})
	}
	return out
}

// booleans carry one bit: the model value is reduced mod 2 by the caller (see boolize)
func boolArr(a []pt) *cursors.BooleanArray {
	x := &cursors.BooleanArray{}
	for _, p := range a {
		x.Timestamps = append(x.Timestamps, p.T)
		x.Values = append(x.Values, p.V&1 == 1)
	}
	return x
}
func boolArrOut(x *cursors.BooleanArray) []pt {
	if len(x.Timestamps) != len(x.Values) {
		return []pt{{T: -999, V: -999}}
	}
	out := make([]pt, 0, len(x.Timestamps))
	for i := range x.Timestamps {
		v := 0
		if x.Values[i] {
			v = 1
		}
		out = append(out, pt{x.Timestamps[i], v})
	}
	return out
}

// ---- tsm1 Values adaptors ----------------------------------------------------------------

func tsmValues(kind string, a []pt) tsm1.Values {
	out := make(tsm1.Values, 0, len(a))
	for _, p := range a {
		switch kind {
		case "float":
			out = append(out, tsm1.NewFloatValue(p.T, fval(p.V)))
		case "integer":
			out = append(out, tsm1.NewIntegerValue(p.T, int64(p.V)))
		case "unsigned":
			out = append(out, tsm1.NewUnsignedValue(p.T, uint64(p.V)))
		case "string":
			out = append(out, tsm1.NewStringValue(p.T, sval(p.V)))
		case "boolean":
			out = append(out, tsm1.NewBooleanValue(p.T, p.V&1 == 1))
		}
	}
	return out
}
func tsmValuesOut(vs tsm1.Values) []pt {
	out := make([]pt, 0, len(vs))
	for _, v := range vs {
		var m int
		switch x := v.Value().(type) {
		case float64:
			m = int(x * 2)
		case int64:
			m = int(x)
		case uint64:
			m = int(x)
		case string:
			fmt.Sscanf(x, "s%d", &m)
		case bool:
			if x {
				m = 1
			}
		}
		out = append(out, pt{v.UnixNano(), m})
	}
	return out
}

func impls() []impl {
	var out []impl
	out = append(out,
		impl{"cursors.FloatArray",
			func(a, b []pt) []pt { x := floatArr(a); x.Merge(floatArr(b)); return floatArrOut(x) },
			func(a []pt, mn, mx int64) []pt { x := floatArr(a); x.Exclude(mn, mx); return floatArrOut(x) },
			func(a []pt, mn, mx int64) []pt { x := floatArr(a); x.Include(mn, mx); return floatArrOut(x) },
			func(a []pt, mn, mx int64) (int, int) { return floatArr(a).FindRange(mn, mx) }, nil},
		impl{"cursors.IntegerArray",
			func(a, b []pt) []pt { x := intArr(a); x.Merge(intArr(b)); return intArrOut(x) },
			func(a []pt, mn, mx int64) []pt { x := intArr(a); x.Exclude(mn, mx); return intArrOut(x) },
			func(a []pt, mn, mx int64) []pt { x := intArr(a); x.Include(mn, mx); return intArrOut(x) },
			func(a []pt, mn, mx int64) (int, int) { return intArr(a).FindRange(mn, mx) }, nil},
		impl{"cursors.UnsignedArray",
			func(a, b []pt) []pt { x := uintArr(a); x.Merge(uintArr(b)); return uintArrOut(x) },
			func(a []pt, mn, mx int64) []pt { x := uintArr(a); x.Exclude(mn, mx); return uintArrOut(x) },
			func(a []pt, mn, mx int64) []pt { x := uintArr(a); x.Include(mn, mx); return uintArrOut(x) },
			func(a []pt, mn, mx int64) (int, int) { return uintArr(a).FindRange(mn, mx) }, nil},
		impl{"cursors.StringArray",
			func(a, b []pt) []pt { x := strArr(a); x.Merge(strArr(b)); return strArrOut(x) },
			func(a []pt, mn, mx int64) []pt { x := strArr(a); x.Exclude(mn, mx); return strArrOut(x) },
			func(a []pt, mn, mx int64) []pt { x := strArr(a); x.Include(mn, mx); return strArrOut(x) },
			func(a []pt, mn, mx int64) (int, int) { return strArr(a).FindRange(mn, mx) }, nil},
		impl{"cursors.BooleanArray",
			func(a, b []pt) []pt { x := boolArr(a); x.Merge(boolArr(b)); return boolArrOut(x) },
			func(a []pt, mn, mx int64) []pt { x := boolArr(a); x.Exclude(mn, mx); return boolArrOut(x) },
			func(a []pt, mn, mx int64) []pt { x := boolArr(a); x.Include(mn, mx); return boolArrOut(x) },
			func(a []pt, mn, mx int64) (int, int) { return boolArr(a).FindRange(mn, mx) }, nil},
	)
	for _, kind := range []string{"float", "integer", "unsigned", "string", "boolean"} {
		kind := kind
		out = append(out, impl{"tsm1.Values/" + kind,
			func(a, b []pt) []pt { return tsmValuesOut(tsmValues(kind, a).Merge(tsmValues(kind, b))) },
			func(a []pt, mn, mx int64) []pt { return tsmValuesOut(tsmValues(kind, a).Exclude(mn, mx)) },
			func(a []pt, mn, mx int64) []pt { return tsmValuesOut(tsmValues(kind, a).Include(mn, mx)) },
			func(a []pt, mn, mx int64) (int, int) { return tsmValues(kind, a).FindRange(mn, mx) },
			func(a []pt) []pt { return tsmValuesOut(tsmValues(kind, a).Deduplicate()) }})
	}
	out = append(out, typedImpls()...)
	return out
}

// ---- generators ----------------------------------------------------------------------------

var extremeTs = []int64{math.MinInt64, math.MinInt64 + 1, math.MaxInt64 - 1, math.MaxInt64}

func genTs(t *rapid.T, label string) int64 {
	if rapid.IntRange(0, 9).Draw(t, label+"_x") == 0 {
		return rapid.SampledFrom(extremeTs).Draw(t, label+"_e")
	}
	return rapid.Int64Range(0, 30).Draw(t, label)
}

// genSorted draws a sorted, deduplicated array; values are even (parity 0) or odd (parity 1)
// so that on a tie the winner is identifiable.
func genSorted(t *rapid.T, label string, parity int) []pt {
	n := rapid.IntRange(0, 12).Draw(t, label+"_n")
	if rapid.IntRange(0, 7).Draw(t, label+"_big") == 0 {
		n = rapid.IntRange(13, 40).Draw(t, label+"_n2")
	}
	seen := map[int64]bool{}
	var out []pt
	for i := 0; i < n; i++ {
		ts := genTs(t, fmt.Sprintf("%s_t%d", label, i))
		if seen[ts] {
			continue
		}
		seen[ts] = true
		out = append(out, pt{ts, 2*rapid.IntRange(0, 50).Draw(t, fmt.Sprintf("%s_v%d", label, i)) + parity})
	}
	sort.Slice(out, func(i, j int) bool { return out[i].T < out[j].T })
	return out
}

func boolize(isBool bool, a []pt) []pt {
	if !isBool {
		return a
	}
	out := make([]pt, len(a))
	for i, p := range a {
		out[i] = pt{p.T, p.V & 1}
	}
	return out
}

func render(a []pt) string {
	var sb strings.Builder
	for _, p := range a {
		fmt.Fprintf(&sb, "%d:%d ", p.T, p.V)
	}
	return sb.String()
}

func equalPts(a, b []pt) bool {
	if len(a) != len(b) {
		return false
	}
	for i := range a {
		if a[i] != b[i] {
			return false
		}
	}
	return true
}

// ---- reference model -----------------------------------------------------------------------

func refMerge(a, b []pt) []pt {
	m := map[int64]int{}
	for _, p := range a {
		m[p.T] = p.V
	}
	for _, p := range b {
		m[p.T] = p.V
	}
	out := make([]pt, 0, len(m))
	for t, v := range m {
		out = append(out, pt{t, v})
	}
	sort.Slice(out, func(i, j int) bool { return out[i].T < out[j].T })
	return out
}

func refFilter(a []pt, min, max int64, keepInside bool) []pt {
	out := []pt{}
	for _, p := range a {
		inside := min <= p.T && p.T <= max
		if inside == keepInside {
			out = append(out, p)
		}
	}
	return out
}

// refFindRange: documented contract — (-1,-1) if empty, min>max or wholly outside; otherwise
// the insertion positions (index of the first element >= bound) found by linear scan.
func refFindRange(a []pt, min, max int64) (int, int) {
	if len(a) == 0 || min > max || a[len(a)-1].T < min || a[0].T > max {
		return -1, -1
	}
	pos := func(v int64) int {
		for i, p := range a {
			if p.T >= v {
				return i
			}
		}
		return len(a)
	}
	return pos(min), pos(max)
}

func interleaves(a, b []pt) bool {
	if len(a) == 0 || len(b) == 0 {
		return false
	}
	return !(a[len(a)-1].T < b[0].T || b[len(b)-1].T < a[0].T)
}

func common(a, b []pt) int {
	s := map[int64]bool{}
	for _, p := range a {
		s[p.T] = true
	}
	n := 0
	for _, p := range b {
		if s[p.T] {
			n++
		}
	}
	return n
}

// ---- properties ----------------------------------------------------------------------------

func TestPropMerge(t *testing.T) {
	is := impls()
	rec.Check(t, 30000, 600000, func(t *rapid.T) {
		im := is[rapid.IntRange(0, len(is)-1).Draw(t, "impl")]
		isBool := strings.Contains(strings.ToLower(im.name), "bool")
		a := boolize(isBool, genSorted(t, "a", 0))
		b := boolize(isBool, genSorted(t, "b", 1))
		want := refMerge(a, b)
		got := im.merge(a, b)
		rec.Eval()
		c := common(a, b)
		switch {
		case len(a) == 0 || len(b) == 0:
			rec.Class("merge:one-empty")
		case c > 0 && interleaves(a, b):
			rec.Class("merge:interleaving-with-ties")
			canon := im.name + "|merge|" + render(a) + "|" + render(b)
			rec.NonTrivial(canon)
			if rec.WantSample() {
				rec.Sample(map[string]any{"type": im.name, "op": "merge", "a": render(a), "b": render(b), "result": render(got)})
			}
		case interleaves(a, b):
			rec.Class("merge:interleaving-no-ties")
		default:
			rec.Class("merge:disjoint-ranges")
		}
		if !equalPts(got, want) {
			rec.Fail(t, "TestPropMerge", "merge-not-union", fmt.Sprintf("%s: a=[%s] b=[%s] got=[%s] want=[%s]", im.name, render(a), render(b), render(got), render(want)),
				map[string]any{"type": im.name, "a": a, "b": b})
		}
	})
}

func TestPropRangeOps(t *testing.T) {
	is := impls()
	rec.Check(t, 45000, 900000, func(t *rapid.T) {
		im := is[rapid.IntRange(0, len(is)-1).Draw(t, "impl")]
		isBool := strings.Contains(strings.ToLower(im.name), "bool")
		a := boolize(isBool, genSorted(t, "a", 0))
		var min, max int64
		switch rapid.IntRange(0, 5).Draw(t, "rangeKind") {
		case 0: // bounds equal to elements
			if len(a) > 0 {
				min = a[rapid.IntRange(0, len(a)-1).Draw(t, "mi")].T
				max = a[rapid.IntRange(0, len(a)-1).Draw(t, "ma")].T
			}
		case 1:
			min, max = math.MinInt64, genTs(t, "max")
		case 2:
			min, max = genTs(t, "min"), math.MaxInt64
		default:
			min, max = rapid.Int64Range(-2, 32).Draw(t, "min"), rapid.Int64Range(-2, 32).Draw(t, "max")
		}
		op := rapid.SampledFrom([]string{"exclude", "include", "findrange"}).Draw(t, "op")
		rec.Eval()
		boundHit := false
		for _, p := range a {
			if p.T == min || p.T == max {
				boundHit = true
			}
		}
		extreme := min == math.MinInt64 || max == math.MaxInt64
		if len(a) > 0 && (boundHit || extreme || min > max) {
			rec.NonTrivial(fmt.Sprintf("%s|%s|%s|%d|%d", im.name, op, render(a), min, max))
			if boundHit {
				rec.Class(op + ":bound-equals-element")
			}
			if extreme {
				rec.Class(op + ":extreme-bound")
			}
			if min > max {
				rec.Class(op + ":min>max")
			}
			if rec.WantSample() && boundHit {
				rec.Sample(map[string]any{"type": im.name, "op": op, "a": render(a), "min": min, "max": max})
			}
		} else {
			rec.Class(op + ":plain")
		}
		switch op {
		case "exclude":
			got, want := im.exclude(a, min, max), refFilter(a, min, max, false)
			if !equalPts(got, want) {
				rec.Fail(t, "TestPropRangeOps", "exclude-wrong", fmt.Sprintf("%s: a=[%s] range=[%d,%d] got=[%s] want=[%s]", im.name, render(a), min, max, render(got), render(want)),
					map[string]any{"type": im.name, "a": a, "min": min, "max": max})
			}
		case "include":
			got, want := im.include(a, min, max), refFilter(a, min, max, true)
			if !equalPts(got, want) {
				rec.Fail(t, "TestPropRangeOps", "include-wrong", fmt.Sprintf("%s: a=[%s] range=[%d,%d] got=[%s] want=[%s]", im.name, render(a), min, max, render(got), render(want)),
					map[string]any{"type": im.name, "a": a, "min": min, "max": max})
			}
		case "findrange":
			g1, g2 := im.findRange(a, min, max)
			w1, w2 := refFindRange(a, min, max)
			if g1 != w1 || g2 != w2 {
				rec.Fail(t, "TestPropRangeOps", "findrange-wrong", fmt.Sprintf("%s: a=[%s] range=[%d,%d] got=(%d,%d) want=(%d,%d)", im.name, render(a), min, max, g1, g2, w1, w2),
					map[string]any{"type": im.name, "a": a, "min": min, "max": max})
			}
		}
	})
}

// TestPropDeduplicate: Deduplicate on unsorted input with duplicates = stable sort by time
// keeping the LAST occurrence of each timestamp (documented on Values.Deduplicate).
func TestPropDeduplicate(t *testing.T) {
	var is []impl
	for _, im := range impls() {
		if im.dedup != nil {
			is = append(is, im)
		}
	}
	rec.Check(t, 15000, 300000, func(t *rapid.T) {
		im := is[rapid.IntRange(0, len(is)-1).Draw(t, "impl")]
		isBool := strings.Contains(strings.ToLower(im.name), "bool")
		n := rapid.IntRange(0, 25).Draw(t, "n")
		var a []pt
		for i := 0; i < n; i++ {
			a = append(a, pt{genTs(t, fmt.Sprintf("t%d", i)), rapid.IntRange(0, 100).Draw(t, fmt.Sprintf("v%d", i))})
		}
		a = boolize(isBool, a)
		last := map[int64]int{}
		dups := 0
		for _, p := range a {
			if _, ok := last[p.T]; ok {
				dups++
			}
			last[p.T] = p.V
		}
		want := make([]pt, 0, len(last))
		for ts, v := range last {
			want = append(want, pt{ts, v})
		}
		sort.Slice(want, func(i, j int) bool { return want[i].T < want[j].T })
		got := im.dedup(a)
		rec.Eval()
		if dups > 0 {
			rec.Class("dedup:with-duplicates")
			rec.NonTrivial(im.name + "|dedup|" + render(a))
		} else {
			rec.Class("dedup:no-duplicates")
		}
		if !equalPts(got, want) {
			rec.Fail(t, "TestPropDeduplicate", "dedup-wrong", fmt.Sprintf("%s: a=[%s] got=[%s] want=[%s]", im.name, render(a), render(got), render(want)), map[string]any{"type": im.name, "a": a})
		}
	})
}
