package c37_arrays

import (
	"fmt"

	"github.com/influxdata/influxdb/v2/tsdb/engine/tsm1"
)

// adaptors for the typed tsm1.<T>Values slices (generated code separate from tsm1.Values)

func fvals(a []pt) tsm1.FloatValues {
	out := make(tsm1.FloatValues, 0, len(a))
	for _, p := range a {
		out = append(out, tsm1.NewFloatValue(p.T, fval(p.V)).(tsm1.FloatValue))
	}
	return out
}
func fvalsOut(vs tsm1.FloatValues) []pt {
	out := make([]pt, 0, len(vs))
	for _, v := range vs {
		out = append(out, pt{v.UnixNano(), int(v.RawValue() * 2)})
	}
	return out
}
func ivals(a []pt) tsm1.IntegerValues {
	out := make(tsm1.IntegerValues, 0, len(a))
	for _, p := range a {
		out = append(out, tsm1.NewIntegerValue(p.T, int64(p.V)).(tsm1.IntegerValue))
	}
	return out
}
func ivalsOut(vs tsm1.IntegerValues) []pt {
	out := make([]pt, 0, len(vs))
	for _, v := range vs {
		out = append(out, pt{v.UnixNano(), int(v.RawValue())})
	}
	return out
}
func uvals(a []pt) tsm1.UnsignedValues {
	out := make(tsm1.UnsignedValues, 0, len(a))
	for _, p := range a {
		out = append(out, tsm1.NewUnsignedValue(p.T, uint64(p.V)).(tsm1.UnsignedValue))
	}
	return out
}
func uvalsOut(vs tsm1.UnsignedValues) []pt {
	out := make([]pt, 0, len(vs))
	for _, v := range vs {
		out = append(out, pt{v.UnixNano(), int(v.RawValue())})
	}
	return out
}
func svals(a []pt) tsm1.StringValues {
	out := make(tsm1.StringValues, 0, len(a))
	for _, p := range a {
		out = append(out, tsm1.NewStringValue(p.T, sval(p.V)).(tsm1.StringValue))
	}
	return out
}
func svalsOut(vs tsm1.StringValues) []pt {
	out := make([]pt, 0, len(vs))
	for _, v := range vs {
		var m int
		fmt.Sscanf(v.RawValue(), "s%d", &m)
		out = append(out, pt{v.UnixNano(), m})
	}
	return out
}
func bvals(a []pt) tsm1.BooleanValues {
	out := make(tsm1.BooleanValues, 0, len(a))
	for _, p := range a {
		out = append(out, tsm1.NewBooleanValue(p.T, p.V&1 == 1).(tsm1.BooleanValue))
	}
	return out
}
func bvalsOut(vs tsm1.BooleanValues) []pt {
	out := make([]pt, 0, len(vs))
	for _, v := range vs {
		m := 0
		if v.RawValue() {
			m = 1
		}
		out = append(out, pt{v.UnixNano(), m})
	}
	return out
}

func typedImpls() []impl {
	return []impl{
		{"tsm1.FloatValues",
			func(a, b []pt) []pt { return fvalsOut(fvals(a).Merge(fvals(b))) },
			func(a []pt, mn, mx int64) []pt { return fvalsOut(fvals(a).Exclude(mn, mx)) },
			func(a []pt, mn, mx int64) []pt { return fvalsOut(fvals(a).Include(mn, mx)) },
			func(a []pt, mn, mx int64) (int, int) { return fvals(a).FindRange(mn, mx) },
			func(a []pt) []pt { return fvalsOut(fvals(a).Deduplicate()) }},
		{"tsm1.IntegerValues",
			func(a, b []pt) []pt { return ivalsOut(ivals(a).Merge(ivals(b))) },
			func(a []pt, mn, mx int64) []pt { return ivalsOut(ivals(a).Exclude(mn, mx)) },
			func(a []pt, mn, mx int64) []pt { return ivalsOut(ivals(a).Include(mn, mx)) },
			func(a []pt, mn, mx int64) (int, int) { return ivals(a).FindRange(mn, mx) },
			func(a []pt) []pt { return ivalsOut(ivals(a).Deduplicate()) }},
		{"tsm1.UnsignedValues",
			func(a, b []pt) []pt { return uvalsOut(uvals(a).Merge(uvals(b))) },
			func(a []pt, mn, mx int64) []pt { return uvalsOut(uvals(a).Exclude(mn, mx)) },
			func(a []pt, mn, mx int64) []pt { return uvalsOut(uvals(a).Include(mn, mx)) },
			func(a []pt, mn, mx int64) (int, int) { return uvals(a).FindRange(mn, mx) },
			func(a []pt) []pt { return uvalsOut(uvals(a).Deduplicate()) }},
		{"tsm1.StringValues",
			func(a, b []pt) []pt { return svalsOut(svals(a).Merge(svals(b))) },
			func(a []pt, mn, mx int64) []pt { return svalsOut(svals(a).Exclude(mn, mx)) },
			func(a []pt, mn, mx int64) []pt { return svalsOut(svals(a).Include(mn, mx)) },
			func(a []pt, mn, mx int64) (int, int) { return svals(a).FindRange(mn, mx) },
			func(a []pt) []pt { return svalsOut(svals(a).Deduplicate()) }},
		{"tsm1.BooleanValues",
			func(a, b []pt) []pt { return bvalsOut(bvals(a).Merge(bvals(b))) },
			func(a []pt, mn, mx int64) []pt { return bvalsOut(bvals(a).Exclude(mn, mx)) },
			func(a []pt, mn, mx int64) []pt { return bvalsOut(bvals(a).Include(mn, mx)) },
			func(a []pt, mn, mx int64) (int, int) { return bvals(a).FindRange(mn, mx) },
			func(a []pt) []pt { return bvalsOut(bvals(a).Deduplicate()) }},
	}
}
