package c37_arrays

import (
	"testing"

	"verifharness/internal/ev"
)

func TestMain(m *testing.M) { ev.Main(m) }
