// C33 — concurrent harness (run under -race): registration, signalling and requests interleave.
//
// A case draws scripts for: a registrar (registers the not-yet-registered ready gates and health
// checks, interleaved with "slow" always-passing ready checks that yield inside Check, widening the
// evaluation window), signaller goroutines (each owns some gates: Ready / Unready), health togglers
// (each owns some health checks: pass/fail + message) and requester goroutines (GET /ready, /health).
// Every operation is bracketed by ticks of one global atomic counter, so "A finished before B began"
// is known whenever it is true. The scripts run as real goroutines with runtime.Gosched() yields
// between the harness' own calls.
//
// Oracle (interval consistency): a response must be explainable by states that existed during its
// invocation interval, gate by gate: a gate whose registration finished before the request began and
// whose every possible value during the interval is "not ready" MUST be listed by a 503 /ready (and
// the answer cannot be 200); a gate can be listed only if it may have been registered and may have been
// not ready at some moment of the interval; the status code is 200 exactly when nothing is listed.
// Same for /health with each check's possible (status, message) values; the top-level message is the
// first listed failing check's. No race-detector report.
package c33_health

import (
	"context"
	"fmt"
	"runtime"
	"sort"
	"strings"
	"sync"
	"sync/atomic"
	"testing"

	ihttp "github.com/influxdata/influxdb/v2/http"
	"github.com/influxdata/influxdb/v2/kit/check"
	"pgregory.net/rapid"
)

var clk atomic.Int64

func tick() int64 { return clk.Add(1) }

func yield(n int) {
	for i := 0; i < n; i++ {
		runtime.Gosched()
	}
}

// span is the bracket of one operation: it took effect somewhere in (B, A).
type span struct{ B, A int64 }

type cGate struct {
	name string
	g    *check.ReadyGate
	reg  span      // registration
	sigs []cSignal // in program order of the owning goroutine
}

type cSignal struct {
	span
	ready bool
}

type hval struct {
	pass bool
	msg  string
}

type cHealth struct {
	name string
	cur  atomic.Pointer[hval]
	reg  span
	sets []cSet
}

type cSet struct {
	span
	v hval
}

type cReq struct {
	span
	ans answer
}

type sigOp struct {
	gate  int
	ready bool
	yield int
}

type setOp struct {
	chk   int
	v     hval
	yield int
}

type reqOp struct {
	health bool
	yield  int
}

type regOp struct {
	kind  string // gate | health | slow
	idx   int
	yield int
}

// possibleReady returns whether "ready" / "not ready" may have been the gate's value at some moment
// of the interval (s, e).
func (g *cGate) possible(s, e int64) (mayReady, mayNotReady bool) {
	// value 0 (initial: not ready) holds until the first signal takes effect
	n := len(g.sigs)
	for k := 0; k <= n; k++ {
		var v bool
		var began int64 = -1 // the k-th value can be current from here on
		if k > 0 {
			v, began = g.sigs[k-1].ready, g.sigs[k-1].B
		}
		if began >= e {
			continue
		}
		if k < n && g.sigs[k].A <= s {
			continue // certainly overwritten before the interval began
		}
		if v {
			mayReady = true
		} else {
			mayNotReady = true
		}
	}
	return
}

func (c *cHealth) possible(s, e int64, init hval) []hval {
	var out []hval
	n := len(c.sets)
	for k := 0; k <= n; k++ {
		v := init
		var began int64 = -1
		if k > 0 {
			v, began = c.sets[k-1].v, c.sets[k-1].B
		}
		if began >= e {
			continue
		}
		if k < n && c.sets[k].A <= s {
			continue
		}
		out = append(out, v)
	}
	return out
}

func TestPropConcurrent(t *testing.T) {
	rec.Assume("concurrent: the interval oracle is necessary, not sufficient, across gates (each gate is judged on its own possible values during the request interval); schedules are whatever the Go scheduler produces with GOMAXPROCS>1 plus Gosched yields")
	rec.Check(t, 1200, 30000, func(t *rapid.T) {
		h := ihttp.NewHealthReadyHandler(nil)
		nGates := rapid.IntRange(2, 6).Draw(t, "gates")
		nHealth := rapid.IntRange(1, 4).Draw(t, "health")
		gates := make([]*cGate, nGates)
		for i := range gates {
			gates[i] = &cGate{name: fmt.Sprintf("g%d", i), g: check.NewReadyGate(fmt.Sprintf("g%d", i))}
		}
		inits := make([]hval, nHealth)
		healths := make([]*cHealth, nHealth)
		for i := range healths {
			healths[i] = &cHealth{name: fmt.Sprintf("h%d", i)}
			inits[i] = hval{pass: rapid.Bool().Draw(t, fmt.Sprintf("h%d_init", i)), msg: fmt.Sprintf("h%d-v0", i)}
			v := inits[i]
			healths[i].cur.Store(&v)
		}
		healthChecker := func(c *cHealth) check.NamedChecker {
			return check.NamedFunc(c.name, func(context.Context) check.Response {
				v := c.cur.Load()
				if v.pass {
					return check.Info("%s", v.msg)
				}
				return check.Fail(v.msg)
			})
		}
		slowN := 0
		slow := func(k int) check.NamedChecker {
			slowN++
			return check.NamedFunc(fmt.Sprintf("slow%d", slowN), func(context.Context) check.Response {
				yield(k)
				return check.Pass()
			})
		}
		// pre-registered part (before any goroutine starts): bracket (0,0)
		var regScript []regOp
		for i := range gates {
			if rapid.IntRange(0, 2).Draw(t, fmt.Sprintf("g%d_pre", i)) > 0 {
				h.AddNamedReadyCheck(gates[i].g)
				if rapid.IntRange(0, 2).Draw(t, fmt.Sprintf("g%d_slow", i)) == 0 {
					h.AddNamedReadyCheck(slow(rapid.IntRange(1, 20).Draw(t, fmt.Sprintf("g%d_slowk", i))))
				}
			} else {
				regScript = append(regScript, regOp{kind: "gate", idx: i, yield: rapid.IntRange(0, 8).Draw(t, fmt.Sprintf("g%d_regy", i))})
				if rapid.IntRange(0, 2).Draw(t, fmt.Sprintf("g%d_slow", i)) == 0 {
					regScript = append(regScript, regOp{kind: "slow", idx: rapid.IntRange(1, 20).Draw(t, fmt.Sprintf("g%d_slowk", i))})
				}
			}
		}
		for i := range healths {
			if rapid.IntRange(0, 2).Draw(t, fmt.Sprintf("h%d_pre", i)) > 0 {
				h.AddNamedHealthCheck(healthChecker(healths[i]))
			} else {
				regScript = append(regScript, regOp{kind: "health", idx: i, yield: rapid.IntRange(0, 8).Draw(t, fmt.Sprintf("h%d_regy", i))})
			}
		}
		base := tick()
		for _, g := range gates {
			g.reg = span{base, base} // overwritten for the late ones
		}
		for _, c := range healths {
			c.reg = span{base, base}
		}
		late := map[string]bool{}
		for _, op := range regScript {
			if op.kind != "slow" {
				late[fmt.Sprintf("%s%d", op.kind, op.idx)] = true
			}
		}
		// signallers: gate i is owned by signaller i % nSig
		nSig := rapid.IntRange(1, 3).Draw(t, "signallers")
		sigScripts := make([][]sigOp, nSig)
		for s := 0; s < nSig; s++ {
			n := rapid.IntRange(2, 14).Draw(t, fmt.Sprintf("sig%d_n", s))
			for j := 0; j < n; j++ {
				var own []int
				for i := range gates {
					if i%nSig == s {
						own = append(own, i)
					}
				}
				if len(own) == 0 {
					break
				}
				sigScripts[s] = append(sigScripts[s], sigOp{
					gate:  own[rapid.IntRange(0, len(own)-1).Draw(t, fmt.Sprintf("sig%d_%d_g", s, j))],
					ready: rapid.IntRange(0, 2).Draw(t, fmt.Sprintf("sig%d_%d_r", s, j)) > 0,
					yield: rapid.IntRange(0, 6).Draw(t, fmt.Sprintf("sig%d_%d_y", s, j)),
				})
			}
		}
		var setScript []setOp
		for j, n := 0, rapid.IntRange(0, 12).Draw(t, "set_n"); j < n; j++ {
			setScript = append(setScript, setOp{
				chk:   rapid.IntRange(0, nHealth-1).Draw(t, fmt.Sprintf("set%d_c", j)),
				v:     hval{pass: rapid.Bool().Draw(t, fmt.Sprintf("set%d_p", j)), msg: fmt.Sprintf("v%d", j+1)},
				yield: rapid.IntRange(0, 6).Draw(t, fmt.Sprintf("set%d_y", j)),
			})
		}
		nReqG := rapid.IntRange(1, 3).Draw(t, "requesters")
		reqScripts := make([][]reqOp, nReqG)
		for r := range reqScripts {
			for j, n := 0, rapid.IntRange(3, 12).Draw(t, fmt.Sprintf("req%d_n", r)); j < n; j++ {
				reqScripts[r] = append(reqScripts[r], reqOp{
					health: rapid.IntRange(0, 2).Draw(t, fmt.Sprintf("req%d_%d_h", r, j)) == 0,
					yield:  rapid.IntRange(0, 6).Draw(t, fmt.Sprintf("req%d_%d_y", r, j)),
				})
			}
		}

		// ---- run ----
		var wg sync.WaitGroup
		start := make(chan struct{})
		wg.Add(1)
		go func() { // registrar
			defer wg.Done()
			<-start
			for _, op := range regScript {
				yield(op.yield)
				switch op.kind {
				case "gate":
					b := tick()
					h.AddNamedReadyCheck(gates[op.idx].g)
					gates[op.idx].reg = span{b, tick()}
				case "health":
					b := tick()
					h.AddNamedHealthCheck(healthChecker(healths[op.idx]))
					healths[op.idx].reg = span{b, tick()}
				case "slow":
					h.AddNamedReadyCheck(slow(op.idx))
				}
			}
		}()
		for s := range sigScripts {
			wg.Add(1)
			go func(script []sigOp) {
				defer wg.Done()
				<-start
				for _, op := range script {
					yield(op.yield)
					b := tick()
					if op.ready {
						gates[op.gate].g.Ready()
					} else {
						gates[op.gate].g.Unready()
					}
					// appended by the single owner of this gate
					gates[op.gate].sigs = append(gates[op.gate].sigs, cSignal{span{b, tick()}, op.ready})
				}
			}(sigScripts[s])
		}
		wg.Add(1)
		go func() {
			defer wg.Done()
			<-start
			for _, op := range setScript {
				yield(op.yield)
				v := op.v
				b := tick()
				healths[op.chk].cur.Store(&v)
				healths[op.chk].sets = append(healths[op.chk].sets, cSet{span{b, tick()}, v})
			}
		}()
		reqs := make([][]cReq, nReqG)
		for r := range reqScripts {
			wg.Add(1)
			go func(r int) {
				defer wg.Done()
				<-start
				for _, op := range reqScripts[r] {
					yield(op.yield)
					path := "/ready"
					if op.health {
						path = "/health"
					}
					b := tick()
					a := get(h, path)
					reqs[r] = append(reqs[r], cReq{span{b, tick()}, a})
				}
			}(r)
		}
		close(start)
		wg.Wait()

		// ---- oracle ----
		render := func() map[string]any {
			out := map[string]any{}
			for _, g := range gates {
				out[g.name] = map[string]any{"registered": g.reg, "signals": g.sigs}
			}
			for i, c := range healths {
				out[c.name] = map[string]any{"registered": c.reg, "initial": fmt.Sprintf("%+v", inits[i]), "sets": fmt.Sprintf("%+v", c.sets)}
			}
			return out
		}
		fail := func(key, detail string, q cReq) {
			rec.Fail(t, "TestPropConcurrent", key, detail, map[string]any{"request": q.ans.Path, "interval": q.span, "status": q.ans.Code, "answer": q.ans.Raw, "history": render()})
		}
		var canon []string
		for r := range reqs {
			for _, q := range reqs[r] {
				rec.Eval()
				a := q.ans
				s, e := q.B, q.A
				inside := false
				if a.Path == "/ready" {
					if p := envelopeProblem(a, false); p != "" {
						fail("ready-envelope", p, q)
					}
					listed := map[string]int{}
					for _, c := range a.Checks {
						listed[c.Name]++
						if c.Status != "fail" {
							fail("ready-lists-passing-check", fmt.Sprintf("503 /ready lists %q with status %q", c.Name, c.Status), q)
						}
					}
					if (a.Code == 200) != (len(a.Checks) == 0) || (a.Code != 200 && a.Code != 503) {
						fail("ready-status-vs-list", fmt.Sprintf("status %d with %d listed gates", a.Code, len(a.Checks)), q)
					}
					for _, g := range gates {
						regCertain, regPossible := g.reg.A <= s, g.reg.B < e
						mayReady, mayNot := g.possible(s, e)
						if mayReady && mayNot || (regPossible && !regCertain) {
							inside = true
						}
						n := listed[g.name]
						delete(listed, g.name)
						if n > 1 {
							fail("gate-listed-twice", g.name, q)
						}
						if regCertain && !mayReady && n == 0 {
							fail("not-ready-gate-missing", fmt.Sprintf("gate %s was registered before the request began and not ready during its whole interval (%d,%d) but is not listed (status %d)", g.name, s, e, a.Code), q)
						}
						if n == 1 && (!regPossible || !mayNot) {
							fail("ready-gate-listed", fmt.Sprintf("gate %s is listed as not ready although it was ready (or not registered) during the whole interval (%d,%d)", g.name, s, e), q)
						}
					}
					for name := range listed {
						fail("unknown-gate-listed", name, q)
					}
					rec.Class(fmt.Sprintf("conc:ready:%d", a.Code))
				} else {
					if p := envelopeProblem(a, true); p != "" {
						fail("health-envelope", p, q)
					}
					listed := map[string][]wireCheck{}
					anyFail := false
					for _, c := range a.Checks {
						listed[c.Name] = append(listed[c.Name], c)
						if c.Status == "fail" {
							anyFail = true
						} else if c.Status != "pass" {
							fail("health-check-status", fmt.Sprintf("%q has status %q", c.Name, c.Status), q)
						}
					}
					if (a.Code == 503) != anyFail || (a.Code != 200 && a.Code != 503) {
						fail("health-status-vs-list", fmt.Sprintf("status %d, a failing check listed: %v", a.Code, anyFail), q)
					}
					if a.Code == 200 && (a.Status != "pass" || a.Message != "healthy") {
						fail("health-body-status", fmt.Sprintf("200 with status %q message %q", a.Status, a.Message), q)
					}
					if a.Code == 503 {
						if want, ok := topMessageOK(a); !ok || a.Status != "fail" {
							fail("health-message-not-first-failing", fmt.Sprintf("status %q, top-level message %q, first listed failing check has %q", a.Status, a.Message, want), q)
						}
					}
					for i, c := range healths {
						regCertain, regPossible := c.reg.A <= s, c.reg.B < e
						poss := c.possible(s, e, inits[i])
						if len(poss) > 1 || (regPossible && !regCertain) {
							inside = true
						}
						got := listed[c.name]
						delete(listed, c.name)
						switch {
						case len(got) > 1:
							fail("check-listed-twice", c.name, q)
						case len(got) == 0 && regCertain:
							fail("registered-check-missing", fmt.Sprintf("health check %s was registered before the request began but is not listed", c.name), q)
						case len(got) == 1 && !regPossible:
							fail("unregistered-check-listed", c.name, q)
						case len(got) == 1:
							ok := false
							for _, v := range poss {
								st := "fail"
								if v.pass {
									st = "pass"
								}
								if got[0].Status == st && got[0].Message == v.msg {
									ok = true
								}
							}
							if !ok {
								fail("impossible-check-value", fmt.Sprintf("health check %s is listed as {%s %q}; its possible values during the interval (%d,%d) were %+v", c.name, got[0].Status, got[0].Message, s, e, poss), q)
							}
						}
					}
					for name := range listed {
						fail("unknown-check-listed", name, q)
					}
					rec.Class(fmt.Sprintf("conc:health:%d", a.Code))
				}
				if inside {
					rec.Class("conc:change-inside-request-interval")
					canon = append(canon, fmt.Sprintf("%s %d %s", a.Path, a.Code, a.Raw[:min(len(a.Raw), 40)]))
				}
			}
		}
		if len(canon) > 0 {
			sort.Strings(canon)
			rec.NonTrivial(fmt.Sprintf("conc|%d|%d|%v|%v|%s", nGates, nHealth, sigScripts, setScript, strings.Join(canon, ";")))
		}
		if len(late) > 0 {
			rec.Class("conc:with-late-registration")
		}
	})
}
