package c33_health

import (
	"testing"

	"verifharness/internal/ev"
)

func TestMain(m *testing.M) { ev.Main(m) }
