// C33 — shared pieces: issuing a request against HealthReadyHandler and decoding the documented
// envelopes (HEALTH_READY.md).
package c33_health

import (
	"encoding/json"
	"net/http"
	"net/http/httptest"
	"strings"

	"verifharness/internal/ev"
)

var rec = ev.For("C33", "exploration",
	"sequential: case = a history of registrations (ready gates, startup logger, named ready funcs; health funcs, ErrCheck, freshness, scheduler pulse, startup health), Ready/Unready signals, startup events, state flips and GETs; non-trivial = a GET /ready with >=3 registered gates of which >=1 was un-signalled after having been ready, or a GET /health with >=2 failing checks carrying different messages. concurrent: case = scripted goroutines (registrar, signallers, health togglers, requesters) run under -race; non-trivial = a response during whose invocation interval a signal / state flip / registration took effect; distinct by the rendered history")

type wireCheck struct {
	Name    string      `json:"name"`
	Status  string      `json:"status"`
	Message string      `json:"message"`
	Checks  []wireCheck `json:"checks"`
}

type answer struct {
	Path    string
	Code    int
	Raw     string
	Header  http.Header
	Fields  map[string]json.RawMessage // top-level fields
	Status  string
	Message string
	Name    string
	Checks  []wireCheck
	HasChk  bool
	DecErr  string
}

func get(h http.Handler, path string) answer {
	r := httptest.NewRequest("GET", "http://localhost:8086"+path, nil)
	w := httptest.NewRecorder()
	h.ServeHTTP(w, r)
	a := answer{Path: path, Code: w.Code, Raw: strings.TrimSpace(w.Body.String()), Header: w.Header()}
	if err := json.Unmarshal(w.Body.Bytes(), &a.Fields); err != nil {
		a.DecErr = err.Error()
		return a
	}
	str := func(k string) string {
		var s string
		if raw, ok := a.Fields[k]; ok {
			_ = json.Unmarshal(raw, &s)
		}
		return s
	}
	a.Status, a.Message, a.Name = str("status"), str("message"), str("name")
	if raw, ok := a.Fields["checks"]; ok {
		a.HasChk = true
		if err := json.Unmarshal(raw, &a.Checks); err != nil {
			a.DecErr = "checks: " + err.Error()
		}
	}
	return a
}

// envelopeProblem checks the headers and constant fields HEALTH_READY.md documents for every
// response the handler renders itself.
func envelopeProblem(a answer, health bool) string {
	if a.DecErr != "" {
		return "body is not the documented JSON object: " + a.DecErr
	}
	if ct := a.Header.Get("Content-Type"); ct != "application/json; charset=utf-8" {
		return "Content-Type " + ct
	}
	if b := a.Header.Get("X-Influxdb-Build"); b != "OSS" {
		return "X-Influxdb-Build " + b
	}
	if _, ok := a.Header["X-Influxdb-Version"]; !ok {
		return "X-Influxdb-Version header missing"
	}
	need := []string{"status", "started", "up"}
	if health {
		need = []string{"name", "status", "message", "checks", "version", "commit"}
	}
	for _, k := range need {
		if _, ok := a.Fields[k]; !ok {
			return "field " + k + " missing"
		}
	}
	if health && a.Name != "influxdb" {
		return "name " + a.Name
	}
	return ""
}

// topMessageOK: on a 503 /health the top-level message is the first failing check's message in
// the order the response lists the checks ("fail" when that message is empty). HEALTH_READY.md words
// it as "the first failing check that has a non-empty message": when the first failing check has no
// message but a later one has, that later message is accepted too.
func topMessageOK(a answer) (want string, ok bool) {
	first, firstWithMsg := -1, -1
	for i, c := range a.Checks {
		if c.Status == "fail" {
			if first < 0 {
				first = i
			}
			if firstWithMsg < 0 && c.Message != "" {
				firstWithMsg = i
			}
		}
	}
	if first < 0 {
		return "(no failing check listed)", false
	}
	m := a.Checks[first].Message
	if m == "" {
		if a.Message == "fail" {
			return "fail", true
		}
		if firstWithMsg >= 0 && a.Message == a.Checks[firstWithMsg].Message {
			return a.Checks[firstWithMsg].Message, true
		}
		return "fail", false
	}
	if strings.HasPrefix(m, "stale: last probe ") {
		// the age inside a stale message is computed when the message is rendered
		i := strings.Index(m, "(threshold")
		return m, strings.HasPrefix(a.Message, "stale: last probe ") && i >= 0 && strings.HasSuffix(a.Message, m[i:])
	}
	return m, a.Message == m
}
