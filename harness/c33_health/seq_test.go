// C33 — sequential state machine on http.NewHealthReadyHandler.
//
// Actions: register a ready gate (check.NewReadyGate), a named ready func, the startup logger
// (StartupProgressLogger.ReadyChecker + HealthChecker); register health checks (named func, anonymous
// func, ErrCheck, FreshnessResponse behind a named checker, SchedulerPulseCheck with a fake scheduler);
// Ready()/Unready(); AddShard / CompletedShard / ShardLoadFailed / Finish; flip the state or message of
// a health check or ready func; Update a freshness response; move the fake scheduler's next run;
// GET /ready, /ready/, /ready?x=1, /health, /health/, /health?cachebust=1.
//
// Oracle (statement + HEALTH_READY.md): /ready is 200 "ready" without a checks field exactly when
// every registered gate's latest signal is ready, else 503 "starting" whose checks are exactly (as a
// multiset of name/status/message) the gates that are not ready; /health is 200 "pass"/"healthy"
// exactly when every check passes, else 503 "fail" with the first listed failing check's message;
// checks always lists every registered check with its status and message; documented headers and
// envelope fields are present; "started" never changes.
package c33_health

import (
	"context"
	"errors"
	"fmt"
	"sort"
	"strings"
	"testing"
	"time"

	"github.com/influxdata/influxdb/v2/cmd/influxd/run"
	ihttp "github.com/influxdata/influxdb/v2/http"
	"github.com/influxdata/influxdb/v2/kit/check"
	"go.uber.org/zap"
	"pgregory.net/rapid"
)

// expect is what one registered check must look like in a response.
type expect struct {
	Name   string
	Pass   bool
	Msg    string
	Prefix bool // Msg is a prefix (time-dependent tail)
}

func (e expect) status() string {
	if e.Pass {
		return "pass"
	}
	return "fail"
}

func (e expect) matches(c wireCheck) bool {
	if c.Name != e.Name || c.Status != e.status() {
		return false
	}
	if e.Prefix {
		return strings.HasPrefix(c.Message, e.Msg)
	}
	return c.Message == e.Msg
}

// matchMultiset pairs every expected check with a distinct listed check.
func matchMultiset(want []expect, got []wireCheck) string {
	used := make([]bool, len(got))
	w := append([]expect(nil), want...)
	sort.SliceStable(w, func(i, j int) bool { return !w[i].Prefix && w[j].Prefix })
	var missing []string
	for _, e := range w {
		found := false
		for i, c := range got {
			if !used[i] && e.matches(c) {
				used[i], found = true, true
				break
			}
		}
		if !found {
			missing = append(missing, fmt.Sprintf("{%q %s %q}", e.Name, e.status(), e.Msg))
		}
	}
	var extra []string
	for i, c := range got {
		if !used[i] {
			extra = append(extra, fmt.Sprintf("{%q %s %q}", c.Name, c.Status, c.Message))
		}
	}
	if len(missing) == 0 && len(extra) == 0 {
		return ""
	}
	return fmt.Sprintf("not listed as expected: %v; listed but not expected: %v", missing, extra)
}

// flag is the harness-controlled state behind func checkers.
type flag struct {
	pass bool
	msg  string
}

type fakeSched struct{ when time.Time }

func (f *fakeSched) When() time.Time { return f.when }

type readyEntry struct {
	name      string
	kind      string // gate | func | startup
	gate      *check.ReadyGate
	fl        *flag
	ready     bool
	wasReady  bool // has been ready at some point
	unreadied bool // un-signalled after having been ready
}

type healthEntry struct {
	name  string
	kind  string // func | anon | errcheck | fresh | pulse | startup
	fl    *flag
	fresh *check.FreshnessResponse
	fmode string // never | fresh | stale
	sched *fakeSched
	pmode string // idle | future | ontime | stalled
}

type startupModel struct {
	sl        *run.StartupProgressLogger
	total     uint64
	completed uint64
	done      bool
	failMsg   string
	failed    bool
	loadErrs  []string
}

type machine struct {
	h       *ihttp.HealthReadyHandler
	ready   []*readyEntry
	health  []*healthEntry
	st      *startupModel
	started string
	hist    []string
}

var (
	gateNames   = []string{"bolt", "sqlite", "engine", "replications", "query", "tasks", "task-scheduler", "a", "Z", "zz"}
	healthNames = []string{"bolt", "sqlite", "query", "influxql", "alpha", "beta", "B", "zeta"}
	messages    = []string{"", "unreachable", "database not open", "context deadline exceeded", "x", "boom"}
)

func (m *machine) log(f string, a ...any) { m.hist = append(m.hist, fmt.Sprintf(f, a...)) }

func (m *machine) expectReady() []expect {
	var out []expect
	for _, e := range m.ready {
		switch e.kind {
		case "gate":
			out = append(out, expect{Name: e.name, Pass: e.ready, Msg: map[bool]string{true: "", false: "not ready"}[e.ready]})
		case "func":
			out = append(out, expect{Name: e.name, Pass: e.fl.pass, Msg: e.fl.msg})
		case "startup":
			s := m.st
			switch {
			case s.done && s.failed:
				out = append(out, expect{Name: e.name, Msg: "shard loading failed: " + s.failMsg})
			case s.done:
				out = append(out, expect{Name: e.name, Pass: true, Msg: fmt.Sprintf("ready: %d shards loaded in ", s.completed), Prefix: true})
			case s.total == 0:
				out = append(out, expect{Name: e.name, Msg: "waiting for shard enumeration"})
			default:
				out = append(out, expect{Name: e.name, Msg: fmt.Sprintf("loading shards %.1f%% (%d / %d)", float64(s.completed)/float64(s.total)*100, s.completed, s.total)})
			}
		}
	}
	return out
}

func (m *machine) expectHealth() []expect {
	var out []expect
	for _, e := range m.health {
		switch e.kind {
		case "func", "anon", "errcheck":
			out = append(out, expect{Name: e.name, Pass: e.fl.pass, Msg: e.fl.msg})
		case "fresh":
			switch e.fmode {
			case "never":
				out = append(out, expect{Name: e.name, Msg: "no probe completed yet"})
			case "stale":
				out = append(out, expect{Name: e.name, Msg: "stale: last probe ", Prefix: true})
			default:
				out = append(out, expect{Name: e.name, Pass: e.fl.pass, Msg: e.fl.msg})
			}
		case "pulse":
			switch e.pmode {
			case "idle":
				out = append(out, expect{Name: e.name, Pass: true, Msg: "scheduler idle: no scheduled runs"})
			case "future":
				out = append(out, expect{Name: e.name, Pass: true, Msg: "next run in ", Prefix: true})
			case "ontime":
				out = append(out, expect{Name: e.name, Pass: true, Msg: "on time, dispatch lag ", Prefix: true})
			default:
				out = append(out, expect{Name: e.name, Msg: "scheduler stalled: next run due ", Prefix: true})
			}
		case "startup":
			if len(m.st.loadErrs) == 0 {
				out = append(out, expect{Name: e.name, Pass: true})
			} else {
				out = append(out, expect{Name: e.name, Msg: fmt.Sprintf("%d shard(s) failed to load: %s", len(m.st.loadErrs), strings.Join(m.st.loadErrs, "; "))})
			}
		}
	}
	return out
}

func flagChecker(fl *flag, useInfo bool) check.CheckerFunc {
	return func(context.Context) check.Response {
		if fl.pass {
			if fl.msg != "" || useInfo {
				return check.Info("%s", fl.msg)
			}
			return check.Pass()
		}
		return check.Fail(fl.msg)
	}
}

func (m *machine) step(t *rapid.T, i int) {
	lbl := func(s string) string { return fmt.Sprintf("s%d_%s", i, s) }
	act := rapid.SampledFrom([]string{
		"add-gate", "add-gate", "add-ready-func", "add-startup",
		"add-health", "add-health", "signal", "signal", "signal", "signal",
		"startup-event", "startup-event", "flip", "flip", "flip",
		"get-ready", "get-ready", "get-ready", "get-health", "get-health", "get-health",
	}).Draw(t, lbl("act"))
	switch act {
	case "add-gate":
		if len(m.ready) >= 8 {
			return
		}
		name := rapid.SampledFrom(gateNames).Draw(t, lbl("name"))
		g := check.NewReadyGate(name)
		m.h.AddNamedReadyCheck(g)
		m.ready = append(m.ready, &readyEntry{name: name, kind: "gate", gate: g})
		m.log("AddNamedReadyCheck(NewReadyGate(%q))", name)
	case "add-ready-func":
		if len(m.ready) >= 8 {
			return
		}
		name := rapid.SampledFrom(gateNames).Draw(t, lbl("name"))
		fl := &flag{pass: rapid.Bool().Draw(t, lbl("pass")), msg: rapid.SampledFrom(messages).Draw(t, lbl("msg"))}
		m.h.AddNamedReadyCheck(check.NamedFunc(name, flagChecker(fl, false)))
		m.ready = append(m.ready, &readyEntry{name: name, kind: "func", fl: fl})
		m.log("AddNamedReadyCheck(NamedFunc(%q, pass=%v msg=%q))", name, fl.pass, fl.msg)
	case "add-startup":
		if m.st != nil {
			return
		}
		m.st = &startupModel{sl: run.NewStartupProgressLogger("shards", zap.NewNop())}
		m.h.AddNamedReadyCheck(m.st.sl.ReadyChecker())
		m.h.AddNamedHealthCheck(m.st.sl.HealthChecker())
		m.ready = append(m.ready, &readyEntry{name: "shards", kind: "startup"})
		m.health = append(m.health, &healthEntry{name: "shards", kind: "startup"})
		m.log("startup logger \"shards\": ReadyChecker + HealthChecker registered")
	case "add-health":
		if len(m.health) >= 8 {
			return
		}
		kind := rapid.SampledFrom([]string{"func", "func", "anon", "errcheck", "fresh", "pulse"}).Draw(t, lbl("hkind"))
		name := rapid.SampledFrom(healthNames).Draw(t, lbl("name"))
		e := &healthEntry{name: name, kind: kind, fl: &flag{pass: rapid.Bool().Draw(t, lbl("pass")), msg: rapid.SampledFrom(messages).Draw(t, lbl("msg"))}}
		switch kind {
		case "func":
			if rapid.Bool().Draw(t, lbl("via")) {
				m.h.AddNamedHealthCheck(check.NamedFunc(name, flagChecker(e.fl, false)))
			} else {
				m.h.AddHealthCheck(check.Named(name, flagChecker(e.fl, false))) // delegates to the named path
			}
		case "anon":
			e.name = ""
			m.h.AddHealthCheck(flagChecker(e.fl, false))
		case "errcheck":
			e.name = ""
			if !e.fl.pass && e.fl.msg == "" {
				e.fl.msg = "boom"
			}
			if e.fl.pass {
				e.fl.msg = ""
			}
			fl := e.fl
			m.h.AddHealthCheck(check.ErrCheck(func() error {
				if fl.pass {
					return nil
				}
				return errors.New(fl.msg)
			}))
		case "fresh":
			e.fmode = rapid.SampledFrom([]string{"never", "fresh", "stale"}).Draw(t, lbl("fmode"))
			staleness := time.Hour
			if e.fmode == "stale" {
				staleness = -time.Nanosecond // any completed probe is already older than the budget
			}
			e.fresh = check.NewFreshnessResponse(name, staleness)
			if e.fmode != "never" {
				e.fresh.Update(flagResponse(e.fl))
			}
			fr := e.fresh
			m.h.AddNamedHealthCheck(check.Named(name, check.CheckerFunc(func(context.Context) check.Response { return fr })))
		case "pulse":
			e.sched = &fakeSched{}
			e.pmode = "idle"
			m.h.AddNamedHealthCheck(check.Named(name, run.NewSchedulerPulseCheck(e.sched, time.Hour)))
		}
		m.health = append(m.health, e)
		m.log("health check %s %q (pass=%v msg=%q %s%s)", kind, e.name, e.fl.pass, e.fl.msg, e.fmode, e.pmode)
	case "signal":
		var gates []*readyEntry
		for _, e := range m.ready {
			if e.kind == "gate" {
				gates = append(gates, e)
			}
		}
		if len(gates) == 0 {
			return
		}
		e := gates[rapid.IntRange(0, len(gates)-1).Draw(t, lbl("gate"))]
		if rapid.IntRange(0, 2).Draw(t, lbl("ready")) > 0 {
			e.gate.Ready()
			e.ready, e.wasReady = true, true
			m.log("%s.Ready()", e.name)
		} else {
			e.gate.Unready()
			if e.wasReady {
				e.unreadied = true
			}
			e.ready = false
			m.log("%s.Unready()", e.name)
		}
	case "startup-event":
		s := m.st
		if s == nil {
			return
		}
		switch ev := rapid.SampledFrom([]string{"add", "add", "complete", "complete", "load-failed", "finish"}).Draw(t, lbl("sev")); ev {
		case "add":
			if s.done {
				return
			}
			s.sl.AddShard()
			s.total++
			m.log("AddShard()")
		case "complete":
			if s.done || s.completed >= s.total {
				return
			}
			s.sl.CompletedShard()
			s.completed++
			m.log("CompletedShard()")
		case "load-failed":
			id := uint64(rapid.IntRange(1, 200).Draw(t, lbl("shard")))
			msg := rapid.SampledFrom([]string{"I/O error", "corrupt index", "x"}).Draw(t, lbl("err"))
			s.sl.ShardLoadFailed(id, errors.New(msg))
			s.loadErrs = append(s.loadErrs, fmt.Sprintf("shard %d: %s", id, msg))
			m.log("ShardLoadFailed(%d, %q)", id, msg)
		case "finish":
			if s.done {
				return
			}
			if rapid.IntRange(0, 3).Draw(t, lbl("ferr")) == 0 {
				s.failMsg, s.failed = "open /data/1.tsm: input/output error", true
				s.sl.Finish(errors.New(s.failMsg))
			} else {
				s.sl.Finish(nil)
			}
			s.done = true
			m.log("Finish(failed=%v)", s.failed)
		}
	case "flip":
		var cands []func()
		for _, e := range m.ready {
			if e.kind == "func" {
				e := e
				cands = append(cands, func() {
					e.fl.pass = rapid.Bool().Draw(t, lbl("pass"))
					e.fl.msg = rapid.SampledFrom(messages).Draw(t, lbl("msg"))
					m.log("ready func %q := pass=%v msg=%q", e.name, e.fl.pass, e.fl.msg)
				})
			}
		}
		for _, e := range m.health {
			e := e
			switch e.kind {
			case "func", "anon":
				cands = append(cands, func() {
					e.fl.pass = rapid.Bool().Draw(t, lbl("pass"))
					e.fl.msg = rapid.SampledFrom(messages).Draw(t, lbl("msg"))
					m.log("health %s %q := pass=%v msg=%q", e.kind, e.name, e.fl.pass, e.fl.msg)
				})
			case "errcheck":
				cands = append(cands, func() {
					e.fl.pass = rapid.Bool().Draw(t, lbl("pass"))
					e.fl.msg = ""
					if !e.fl.pass {
						e.fl.msg = rapid.SampledFrom(messages[1:]).Draw(t, lbl("msg"))
					}
					m.log("health errcheck := pass=%v msg=%q", e.fl.pass, e.fl.msg)
				})
			case "fresh":
				if e.fmode != "stale" {
					cands = append(cands, func() {
						e.fl = &flag{pass: rapid.Bool().Draw(t, lbl("pass")), msg: rapid.SampledFrom(messages).Draw(t, lbl("msg"))}
						e.fresh.Update(flagResponse(e.fl))
						e.fmode = "fresh"
						m.log("freshness %q Update(pass=%v msg=%q)", e.name, e.fl.pass, e.fl.msg)
					})
				}
			case "pulse":
				cands = append(cands, func() {
					e.pmode = rapid.SampledFrom([]string{"idle", "future", "ontime", "stalled"}).Draw(t, lbl("pmode"))
					switch e.pmode {
					case "idle":
						e.sched.when = time.Time{}
					case "future":
						e.sched.when = time.Now().Add(30 * time.Minute)
					case "ontime":
						e.sched.when = time.Now().Add(-10 * time.Minute) // threshold 1h
					default:
						e.sched.when = time.Now().Add(-2 * time.Hour)
					}
					m.log("scheduler %q next run := %s", e.name, e.pmode)
				})
			}
		}
		if len(cands) == 0 {
			return
		}
		cands[rapid.IntRange(0, len(cands)-1).Draw(t, lbl("which"))]()
	case "get-ready":
		m.getReady(t, rapid.SampledFrom([]string{"/ready", "/ready", "/ready/", "/ready?x=1"}).Draw(t, lbl("path")))
	case "get-health":
		m.getHealth(t, rapid.SampledFrom([]string{"/health", "/health", "/health/", "/health?cachebust=1"}).Draw(t, lbl("path")))
	}
}

func flagResponse(fl *flag) check.Response {
	if fl.pass {
		if fl.msg != "" {
			return check.Info("%s", fl.msg)
		}
		return check.Pass()
	}
	return check.Fail(fl.msg)
}

func (m *machine) fail(t *rapid.T, key, detail string, a answer) {
	rec.Fail(t, "TestPropSequential", key, detail, map[string]any{"history": m.hist, "request": a.Path, "status": a.Code, "answer": a.Raw})
}

func (m *machine) checkStarted(t *rapid.T, a answer) {
	s := string(a.Fields["started"])
	if m.started == "" {
		m.started = s
	} else if s != m.started {
		m.fail(t, "started-changed", fmt.Sprintf("\"started\" was %s, now %s", m.started, s), a)
	}
}

func (m *machine) getReady(t *rapid.T, path string) {
	a := get(m.h, path)
	m.log("GET %s -> %d", path, a.Code)
	rec.Eval()
	want := m.expectReady()
	var notReady []expect
	for _, e := range want {
		if !e.Pass {
			notReady = append(notReady, e)
		}
	}
	// classes / non-trivial rule
	nGates, unreadied := 0, 0
	for _, e := range m.ready {
		nGates++
		if e.unreadied && !e.ready {
			unreadied++
		}
	}
	rec.Class(fmt.Sprintf("seq:ready:gates=%d", min(nGates, 5)))
	if len(notReady) == 0 {
		rec.Class("seq:ready:expect-200")
	} else {
		rec.Class("seq:ready:expect-503")
	}
	if nGates >= 3 && unreadied >= 1 {
		rec.Class("seq:ready:>=3-gates-with-unreadied")
		rec.NonTrivial("ready|" + strings.Join(m.hist, "\n"))
	}
	if rec.WantSample() && nGates >= 3 && unreadied >= 1 {
		rec.Sample(map[string]any{"history": append([]string(nil), m.hist...), "answer": a.Raw})
	}

	if p := envelopeProblem(a, false); p != "" {
		m.fail(t, "ready-envelope", p, a)
	}
	m.checkStarted(t, a)
	if len(notReady) == 0 {
		if a.Code != 200 {
			m.fail(t, "ready-not-200", fmt.Sprintf("every one of the %d registered gates is ready, answered %d", len(want), a.Code), a)
		}
		if a.Status != "ready" {
			m.fail(t, "ready-body-status", "200 with body status "+a.Status, a)
		}
		if a.HasChk {
			m.fail(t, "ready-200-lists-checks", "200 /ready carries a checks field (documented: omitted)", a)
		}
		return
	}
	if a.Code != 503 {
		m.fail(t, "not-ready-not-503", fmt.Sprintf("%d gate(s) not ready, answered %d", len(notReady), a.Code), a)
	}
	if a.Status != "starting" {
		m.fail(t, "ready-body-status", "503 with body status "+a.Status, a)
	}
	if d := matchMultiset(notReady, a.Checks); d != "" {
		m.fail(t, "not-ready-list-wrong", "the 503 /ready must list exactly the gates that are not ready: "+d, a)
	}
}

func (m *machine) getHealth(t *rapid.T, path string) {
	a := get(m.h, path)
	m.log("GET %s -> %d", path, a.Code)
	rec.Eval()
	want := m.expectHealth()
	failing := 0
	msgs := map[string]bool{}
	for _, e := range want {
		if !e.Pass {
			failing++
			msgs[e.Msg] = true
		}
	}
	rec.Class(fmt.Sprintf("seq:health:checks=%d", min(len(want), 5)))
	rec.Class(fmt.Sprintf("seq:health:failing=%d", min(failing, 3)))
	for _, e := range m.health {
		rec.Class("seq:health:kind:" + e.kind)
	}
	if failing >= 2 && len(msgs) >= 2 {
		rec.Class("seq:health:>=2-failing-different-messages")
		rec.NonTrivial("health|" + strings.Join(m.hist, "\n"))
	}

	if p := envelopeProblem(a, true); p != "" {
		m.fail(t, "health-envelope", p, a)
	}
	if d := matchMultiset(want, a.Checks); d != "" {
		m.fail(t, "health-list-wrong", "/health must list every registered check with its status and message: "+d, a)
	}
	if failing == 0 {
		if a.Code != 200 {
			m.fail(t, "healthy-not-200", fmt.Sprintf("all %d checks pass, answered %d", len(want), a.Code), a)
		}
		if a.Status != "pass" || a.Message != "healthy" {
			m.fail(t, "health-body-status", fmt.Sprintf("200 with status %q message %q", a.Status, a.Message), a)
		}
		return
	}
	if a.Code != 503 {
		m.fail(t, "unhealthy-not-503", fmt.Sprintf("%d check(s) fail, answered %d", failing, a.Code), a)
	}
	if a.Status != "fail" {
		m.fail(t, "health-body-status", "503 with body status "+a.Status, a)
	}
	if wantMsg, ok := topMessageOK(a); !ok {
		m.fail(t, "health-message-not-first-failing", fmt.Sprintf("top-level message %q, the first failing check listed has %q", a.Message, wantMsg), a)
	}
}

func TestPropSequential(t *testing.T) {
	rec.Assume("scheduler-pulse threshold semantics are exercised with margins (next run 10 min / 2 h in the past against a 1 h threshold, 30 min in the future): SchedulerPulseCheck's clock cannot be injected from outside its package")
	rec.Assume("freshness staleness is exercised with a 1 h budget (fresh) and a negative budget (every completed probe is stale)")
	rec.Check(t, 6000, 120000, func(t *rapid.T) {
		m := &machine{h: ihttp.NewHealthReadyHandler(nil)}
		n := rapid.IntRange(10, 45).Draw(t, "steps")
		for i := 0; i < n; i++ {
			m.step(t, i)
		}
		// always end with both endpoints
		m.getReady(t, "/ready")
		m.getHealth(t, "/health")
	})
}
