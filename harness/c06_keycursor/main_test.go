package c06_keycursor

import (
	"runtime"
	"testing"

	"verifharness/internal/ev"
)

func TestMain(m *testing.M) {
	// The work is dominated by creating small TSM files (2 MB of writer buffers each); more Ps
	// only add scheduler/GC wake-ups.
	runtime.GOMAXPROCS(2)
	ev.Main(m)
}
