// C06 — Multi-file block reads return the exact newest-wins merge.
//
// Generator: a directory of 1..30 TSM files written with tsm1.TSMWriter that hold one target key
// (plus decoy keys before/after it) with arbitrarily overlapping blocks across files, per-file
// tombstones (applied before FileStore.Open or through the open readers), five value types,
// three timestamp regimes (small around zero, nanosecond-scale, models.Min/MaxNanoTime extremes).
// Observation: FileStore.KeyCursor(key, t, asc) read to exhaustion exactly as the engine's
// cursors do (Read, then Next+Read until an empty block), scalar Read<T>Block and array
// Read<T>ArrayBlock, both directions, several seek times per layout.
// Oracle: reference merge in the harness (fold files in path order, later file wins, each file's
// tombstones applied to that file's points only), filtered to ts>=t (asc) / ts<=t (desc).
package c06_keycursor

import (
	"context"
	"fmt"
	"os"
	"path/filepath"
	"testing"

	"github.com/influxdata/influxdb/v2/models"
	"github.com/influxdata/influxdb/v2/tsdb"
	"github.com/influxdata/influxdb/v2/tsdb/engine/tsm1"
	"pgregory.net/rapid"

	"verifharness/internal/ev"
	"verifharness/internal/fix"
	"verifharness/internal/scratch"
)

const prop = "C06"

var rec = ev.For(prop, "exploration",
	"case = (TSM file layout of one key: 1-30 files, blocks, tombstones, value type, timestamp regime) x (seek time, direction, scalar|array form); "+
		"non-trivial = at least 3 files hold live blocks of the key that pairwise overlap in time, at least one tombstone removes some but not all points of a block, and the seek time lies strictly inside a block; "+
		"distinct by canonical rendering of layout, seek, direction and form")

type obs struct {
	T int64 `json:"t"`
	V any   `json:"v"`
}

// readBlocks drains a KeyCursor following the protocol of the engine's cursors
// (array_cursor.gen.go / iterator.gen.go): read the current block, then Next()+read until a
// read returns no values. Buffers are reused between calls as the callers do.
func readBlocks(kc *tsm1.KeyCursor, typ string, array bool, limit int) ([][]obs, error) {
	var read func() ([]obs, error)
	switch {
	case typ == "float" && !array:
		var buf []tsm1.FloatValue
		read = func() ([]obs, error) {
			vs, err := kc.ReadFloatBlock(&buf)
			out := make([]obs, 0, len(vs))
			for _, v := range vs {
				out = append(out, obs{v.UnixNano(), v.Value()})
			}
			return out, err
		}
	case typ == "integer" && !array:
		var buf []tsm1.IntegerValue
		read = func() ([]obs, error) {
			vs, err := kc.ReadIntegerBlock(&buf)
			out := make([]obs, 0, len(vs))
			for _, v := range vs {
				out = append(out, obs{v.UnixNano(), v.Value()})
			}
			return out, err
		}
	case typ == "unsigned" && !array:
		var buf []tsm1.UnsignedValue
		read = func() ([]obs, error) {
			vs, err := kc.ReadUnsignedBlock(&buf)
			out := make([]obs, 0, len(vs))
			for _, v := range vs {
				out = append(out, obs{v.UnixNano(), v.Value()})
			}
			return out, err
		}
	case typ == "string" && !array:
		var buf []tsm1.StringValue
		read = func() ([]obs, error) {
			vs, err := kc.ReadStringBlock(&buf)
			out := make([]obs, 0, len(vs))
			for _, v := range vs {
				out = append(out, obs{v.UnixNano(), v.Value()})
			}
			return out, err
		}
	case typ == "boolean" && !array:
		var buf []tsm1.BooleanValue
		read = func() ([]obs, error) {
			vs, err := kc.ReadBooleanBlock(&buf)
			out := make([]obs, 0, len(vs))
			for _, v := range vs {
				out = append(out, obs{v.UnixNano(), v.Value()})
			}
			return out, err
		}
	case typ == "float":
		buf := tsdb.NewFloatArrayLen(8)
		read = func() ([]obs, error) {
			a, err := kc.ReadFloatArrayBlock(buf)
			if err != nil || a == nil {
				return nil, err
			}
			if len(a.Timestamps) != len(a.Values) {
				return nil, fmt.Errorf("array block with %d timestamps and %d values", len(a.Timestamps), len(a.Values))
			}
			out := make([]obs, 0, len(a.Timestamps))
			for i := range a.Timestamps {
				out = append(out, obs{a.Timestamps[i], a.Values[i]})
			}
			return out, nil
		}
	case typ == "integer":
		buf := tsdb.NewIntegerArrayLen(8)
		read = func() ([]obs, error) {
			a, err := kc.ReadIntegerArrayBlock(buf)
			if err != nil || a == nil {
				return nil, err
			}
			if len(a.Timestamps) != len(a.Values) {
				return nil, fmt.Errorf("array block with %d timestamps and %d values", len(a.Timestamps), len(a.Values))
			}
			out := make([]obs, 0, len(a.Timestamps))
			for i := range a.Timestamps {
				out = append(out, obs{a.Timestamps[i], a.Values[i]})
			}
			return out, nil
		}
	case typ == "unsigned":
		buf := tsdb.NewUnsignedArrayLen(8)
		read = func() ([]obs, error) {
			a, err := kc.ReadUnsignedArrayBlock(buf)
			if err != nil || a == nil {
				return nil, err
			}
			if len(a.Timestamps) != len(a.Values) {
				return nil, fmt.Errorf("array block with %d timestamps and %d values", len(a.Timestamps), len(a.Values))
			}
			out := make([]obs, 0, len(a.Timestamps))
			for i := range a.Timestamps {
				out = append(out, obs{a.Timestamps[i], a.Values[i]})
			}
			return out, nil
		}
	case typ == "string":
		buf := tsdb.NewStringArrayLen(8)
		read = func() ([]obs, error) {
			a, err := kc.ReadStringArrayBlock(buf)
			if err != nil || a == nil {
				return nil, err
			}
			if len(a.Timestamps) != len(a.Values) {
				return nil, fmt.Errorf("array block with %d timestamps and %d values", len(a.Timestamps), len(a.Values))
			}
			out := make([]obs, 0, len(a.Timestamps))
			for i := range a.Timestamps {
				out = append(out, obs{a.Timestamps[i], a.Values[i]})
			}
			return out, nil
		}
	default:
		buf := tsdb.NewBooleanArrayLen(8)
		read = func() ([]obs, error) {
			a, err := kc.ReadBooleanArrayBlock(buf)
			if err != nil || a == nil {
				return nil, err
			}
			if len(a.Timestamps) != len(a.Values) {
				return nil, fmt.Errorf("array block with %d timestamps and %d values", len(a.Timestamps), len(a.Values))
			}
			out := make([]obs, 0, len(a.Timestamps))
			for i := range a.Timestamps {
				out = append(out, obs{a.Timestamps[i], a.Values[i]})
			}
			return out, nil
		}
	}
	var blocks [][]obs
	for n := 0; ; n++ {
		if n > limit {
			return blocks, fmt.Errorf("cursor still returns blocks after %d reads", n)
		}
		b, err := read()
		if err != nil {
			return blocks, err
		}
		if len(b) == 0 {
			return blocks, nil
		}
		blocks = append(blocks, b)
		kc.Next()
	}
}

// shapeError checks what holds for every returned block irrespective of content: strictly
// ascending inside, and consecutive blocks moving strictly forward (asc) / backward (desc).
func shapeError(blocks [][]obs, asc bool) string {
	for i, b := range blocks {
		for k := 1; k < len(b); k++ {
			if b[k].T <= b[k-1].T {
				return fmt.Sprintf("block %d is not strictly ascending at position %d (%d after %d)", i, k, b[k].T, b[k-1].T)
			}
		}
		if i > 0 {
			p := blocks[i-1]
			if asc && b[0].T <= p[len(p)-1].T {
				return fmt.Sprintf("block %d starts at %d, not after the end %d of block %d", i, b[0].T, p[len(p)-1].T, i-1)
			}
			if !asc && b[len(b)-1].T >= p[0].T {
				return fmt.Sprintf("block %d ends at %d, not before the start %d of block %d", i, b[len(b)-1].T, p[0].T, i-1)
			}
		}
	}
	return ""
}

// flatten renders the blocks in traversal order (descending cursors walk each block backwards).
func flatten(blocks [][]obs, asc bool) []obs {
	var out []obs
	for _, b := range blocks {
		if asc {
			out = append(out, b...)
		} else {
			for i := len(b) - 1; i >= 0; i-- {
				out = append(out, b[i])
			}
		}
	}
	return out
}

// diffKey names the kind of disagreement between got and want (want has unique timestamps).
func diffKey(got []obs, want []pt, typ string) (string, string) {
	wantAt := map[int64]int{}
	for _, p := range want {
		wantAt[p.T] = p.V
	}
	seen := map[int64]int{}
	for _, o := range got {
		seen[o.T]++
		if _, ok := wantAt[o.T]; !ok {
			return "unexpected-point", fmt.Sprintf("returned t=%d v=%v which is not live at or beyond the seek time", o.T, o.V)
		}
		if seen[o.T] > 1 {
			return "duplicate-point", fmt.Sprintf("t=%d returned %d times", o.T, seen[o.T])
		}
	}
	for _, p := range want {
		if seen[p.T] == 0 {
			return "lost-point", fmt.Sprintf("live point t=%d v=%v not returned", p.T, typed(typ, p.V))
		}
	}
	for i := range want {
		if got[i].T != want[i].T {
			return "wrong-order", fmt.Sprintf("position %d holds t=%d, want t=%d", i, got[i].T, want[i].T)
		}
	}
	for i := range want {
		if got[i].V != typed(typ, want[i].V) {
			return "wrong-value", fmt.Sprintf("t=%d returned %v, newest live value is %v", got[i].T, got[i].V, typed(typ, want[i].V))
		}
	}
	return "", ""
}

// staleByCyclicOrder decides whether a mismatch is exactly known finding
// keycursor-cyclic-block-order: same timestamps in the same order; every differing value is a
// LIVE (not tombstoned) version of that timestamp held by an OLDER file than the newest one; the
// cursor sorts more than 12 block locations for this key (sort.Sort leaves insertion sort, which
// never moves a block across one it overlaps); and the comparator is cyclic on exactly those blocks.
func staleByCyclicOrder(fs *tsm1.FileStore, l layout, vers map[int64][]version, t int64, asc bool, got []obs, want []pt) (bool, string) {
	if len(got) != len(want) || len(got) == 0 {
		return false, ""
	}
	diff := 0
	for i := range got {
		if got[i].T != want[i].T {
			return false, ""
		}
		if got[i].V == typed(l.Typ, want[i].V) {
			continue
		}
		vs := vers[got[i].T]
		older := false
		for _, v := range vs[:len(vs)-1] {
			if typed(l.Typ, v.V) == got[i].V {
				older = true
			}
		}
		if !older {
			return false, ""
		}
		diff++
	}
	if diff == 0 {
		return false, ""
	}
	blocks := keyBlocks(fs, []byte(keyTarget), t, asc)
	if len(blocks) <= 12 {
		return false, ""
	}
	cyc, w := fix.CyclicOrder(blocks, asc)
	if !cyc {
		return false, ""
	}
	return true, fmt.Sprintf("%d stale value(s); %d block locations; comparator cycle %s[%d,%d] < %s[%d,%d] < %s[%d,%d] < first",
		diff, len(blocks), w[0].File, w[0].Min, w[0].Max, w[1].File, w[1].Min, w[1].Max, w[2].File, w[2].Min, w[2].Max)
}

// keyBlocks mirrors FileStore.locations (same logic as fix.KeyBlocks, but asking the already
// open readers): the block locations a KeyCursor for (key, t, direction) sorts, in file order.
func keyBlocks(fs *tsm1.FileStore, key []byte, t int64, asc bool) []fix.Block {
	var out []fix.Block
	for _, r := range fs.Files() {
		tombs := r.TombstoneRange(key)
	ENTRIES:
		for _, e := range r.Entries(key) {
			for _, ts := range tombs {
				if ts.Min <= e.MinTime && ts.Max >= e.MaxTime {
					continue ENTRIES
				}
			}
			if (asc && e.MaxTime < t) || (!asc && e.MinTime > t) {
				continue
			}
			out = append(out, fix.Block{File: filepath.Base(r.Path()), Min: e.MinTime, Max: e.MaxTime})
		}
	}
	return out
}

// layoutFacts derives the class labels / non-trivial rule inputs of a layout.
type layoutFacts struct {
	overlap3     bool // >=3 files with pairwise-overlapping live blocks
	overlap2     bool
	dupTs        bool // a timestamp live in >=2 files
	partialTomb  bool // a tombstone removing some but not all points of a block
	fullTomb     bool // a tombstone covering a whole block
	anyTomb      bool
	blocks       int
	filesWithKey int
}

func facts(l layout, vers map[int64][]version) layoutFacts {
	var f layoutFacts
	f.blocks = l.totalBlocks()
	type iv struct {
		file     int
		min, max int64
	}
	var ivs []iv
	for i, fl := range l.Files {
		if len(fl.Blocks) > 0 {
			f.filesWithKey++
		}
		for _, b := range fl.Blocks {
			hit, all := 0, true
			for _, p := range b {
				dead := false
				for _, x := range fl.Tombs {
					if x.hitsTarget() && x.Min <= p.T && p.T <= x.Max {
						dead = true
					}
				}
				if dead {
					hit++
				} else {
					all = false
				}
			}
			if hit > 0 {
				f.anyTomb = true
				if all {
					f.fullTomb = true
				} else {
					f.partialTomb = true
				}
			}
			if !all {
				ivs = append(ivs, iv{i, b[0].T, b[len(b)-1].T})
			}
		}
	}
	ov := func(a, b iv) bool { return a.file != b.file && a.min <= b.max && a.max >= b.min }
	for i := 0; i < len(ivs) && !f.overlap3; i++ {
		for j := i + 1; j < len(ivs) && !f.overlap3; j++ {
			if !ov(ivs[i], ivs[j]) {
				continue
			}
			f.overlap2 = true
			for k := j + 1; k < len(ivs); k++ {
				if ov(ivs[i], ivs[k]) && ov(ivs[j], ivs[k]) {
					f.overlap3 = true
					break
				}
			}
		}
	}
	for _, vs := range vers {
		if len(vs) > 1 {
			f.dupTs = true
			break
		}
	}
	return f
}

func seekInsideBlock(l layout, t int64) (strict, boundary bool) {
	for _, f := range l.Files {
		for _, b := range f.Blocks {
			if b[0].T < t && t < b[len(b)-1].T {
				strict = true
			}
			if t == b[0].T || t == b[len(b)-1].T {
				boundary = true
			}
		}
	}
	return
}

type caseJSON struct {
	Layout layout  `json:"layout"`
	Seek   int64   `json:"seek"`
	Asc    bool    `json:"ascending"`
	Array  bool    `json:"array_form"`
	Got    []obs   `json:"got"`
	Want   []obs   `json:"want"`
	Blocks [][]obs `json:"got_blocks,omitempty"`
}

func wantObs(typ string, want []pt) []obs {
	out := make([]obs, 0, len(want))
	for _, p := range want {
		out = append(out, obs{p.T, typed(typ, p.V)})
	}
	return out
}

// checkLayout materialises l and checks the given seeks in both directions and both forms.
// It returns the first violation (key, detail, case) or "" and the number of reads excluded as
// the known finding.
func checkLayout(l layout, seeks []int64, classify bool, onRead func(t int64, asc, array bool, known bool)) (string, string, any, error) {
	dir, err := scratch.Dir("c06-")
	if err != nil {
		return "", "", nil, err
	}
	defer os.RemoveAll(dir)
	fs, err := l.open(dir)
	if err != nil {
		return "", "", nil, err
	}
	defer fs.Close()
	all, vers := l.merged()
	limit := 4*l.totalBlocks() + 8
	for _, t := range seeks {
		for _, asc := range []bool{true, false} {
			want := expect(all, t, asc)
			for _, array := range []bool{false, true} {
				kc := fs.KeyCursor(context.Background(), []byte(keyTarget), t, asc)
				blocks, rerr := readBlocks(kc, l.Typ, array, limit)
				kc.Close()
				got := flatten(blocks, asc)
				cj := caseJSON{Layout: l, Seek: t, Asc: asc, Array: array, Got: got, Want: wantObs(l.Typ, want), Blocks: blocks}
				if rerr != nil {
					return "read-error", rerr.Error(), cj, nil
				}
				if s := shapeError(blocks, asc); s != "" {
					// a misordered result may still be the known finding only if content is otherwise right; it is not: report
					return "block-shape", s, cj, nil
				}
				key, detail := diffKey(got, want, l.Typ)
				known := false
				if key == "wrong-value" && classify && ev.KnownOpen(prop, fix.KeyCursorCyclicKey) {
					known, _ = staleByCyclicOrder(fs, l, vers, t, asc, got, want)
				}
				if onRead != nil {
					onRead(t, asc, array, known)
				}
				if key != "" && !known {
					return key, fmt.Sprintf("seek=%d asc=%v array=%v: %s", t, asc, array, detail), cj, nil
				}
			}
		}
	}
	// the files must be untouched by reading
	for _, f := range l.Files {
		if _, err := os.Stat(filepath.Join(dir, f.name())); err != nil {
			return "file-vanished", err.Error(), l, nil
		}
	}
	return "", "", nil, nil
}

// genSeeks draws n seek times: anywhere in [-2, domain+2], strictly inside a block, on a block
// boundary, or next to a stored point; always within [models.MinNanoTime, models.MaxNanoTime].
func genSeeks(rt *rapid.T, l layout, n int) []int64 {
	var blocks [][]pt
	for _, f := range l.Files {
		blocks = append(blocks, f.Blocks...)
	}
	var seeks []int64
	for i := 0; i < n; i++ {
		kind := rapid.SampledFrom([]string{"any", "inside", "inside", "boundary", "point"}).Draw(rt, "seekkind")
		if len(blocks) == 0 {
			kind = "any"
		}
		var ts int64
		switch kind {
		case "any":
			ts = tsOf(l.Regime, rapid.IntRange(-2, domain+2).Draw(rt, "seek"))
		default:
			b := blocks[rapid.IntRange(0, len(blocks)-1).Draw(rt, "seekblock")]
			switch kind {
			case "inside":
				ts = b[0].T
				if len(b) >= 2 {
					ts = b[rapid.IntRange(0, len(b)-2).Draw(rt, "seekpos")].T + 1
				}
			case "boundary":
				ts = b[0].T
				if rapid.Bool().Draw(rt, "seeklast") {
					ts = b[len(b)-1].T
				}
			default:
				ts = b[rapid.IntRange(0, len(b)-1).Draw(rt, "seekpos")].T
				d := int64(rapid.IntRange(-1, 1).Draw(rt, "seekdelta"))
				if (d < 0 && ts > models.MinNanoTime) || (d > 0 && ts < models.MaxNanoTime) {
					ts += d
				}
			}
		}
		if ts < models.MinNanoTime {
			ts = models.MinNanoTime
		}
		if ts > models.MaxNanoTime {
			ts = models.MaxNanoTime
		}
		seeks = append(seeks, ts)
	}
	return seeks
}

// modelCyclic reports whether the location comparator is cyclic on the layout's live blocks
// (class label only; the known-finding classification asks the real files).
func modelCyclic(l layout) bool {
	var bs []fix.Block
	for _, f := range l.Files {
		live := map[int64]bool{}
		for _, p := range f.live() {
			live[p.T] = true
		}
		for _, b := range f.Blocks {
			any := false
			for _, p := range b {
				any = any || live[p.T]
			}
			if any {
				bs = append(bs, fix.Block{File: f.name(), Min: b[0].T, Max: b[len(b)-1].T})
			}
		}
	}
	c, _ := fix.CyclicOrder(bs, true)
	return c
}

// modelTimeInversion reports whether an insertion sort of the layout's live blocks (file order
// in, ascLocations comparator) leaves two disjoint blocks out of time order, i.e. a block that
// stays behind an overlapping older block although a block further left starts later. Class
// label only: these are the orders a repaired newKeyCursor hands to the read algorithm.
func modelTimeInversion(l layout) bool {
	var bs []fix.Block
	for _, f := range l.Files {
		live := map[int64]bool{}
		for _, p := range f.live() {
			live[p.T] = true
		}
		for _, b := range f.Blocks {
			any := false
			for _, p := range b {
				any = any || live[p.T]
			}
			if any {
				bs = append(bs, fix.Block{File: f.name(), Min: b[0].T, Max: b[len(b)-1].T})
			}
		}
	}
	less := func(a, b fix.Block) bool {
		if a.Min <= b.Max && a.Max >= b.Min {
			return a.File < b.File
		}
		return a.Min < b.Min
	}
	for i := 1; i < len(bs); i++ {
		for j := i; j > 0 && less(bs[j], bs[j-1]); j-- {
			bs[j], bs[j-1] = bs[j-1], bs[j]
		}
	}
	for i := 0; i < len(bs); i++ {
		for j := i + 1; j < len(bs); j++ {
			if bs[i].Min > bs[j].Max {
				return true
			}
		}
	}
	return false
}

// checkLayoutStrict is checkLayout without the known-finding classification.
func checkLayoutStrict(l layout, seeks []int64) (string, string, any, error) {
	return checkLayout(l, seeks, false, nil)
}

func TestPropKeyCursorMerge(t *testing.T) {
	rec.Assume("the harness reference merge (fold files in path order, later file wins on equal timestamps, each file's tombstones remove that file's points only) is the meaning of 'newest-wins merge'")
	rec.Assume("seek times lie within [models.MinNanoTime, models.MaxNanoTime] as every production caller guarantees; within one file a key's blocks are sorted and non-overlapping; one value type per key")
	rec.Assume("cursor protocol as in array_cursor.gen.go/iterator.gen.go: read, then Next()+read until a read returns no values")
	rec.Check(t, 500, 6000, func(rt *rapid.T) {
		l := genLayout(rt)
		seeks := genSeeks(rt, l, 6)
		all, vers := l.merged()
		_ = all
		fc := facts(l, vers)
		lc := l.canon()
		key, detail, cj, err := checkLayout(l, seeks, true, func(ts int64, asc, array bool, known bool) {
			rec.Eval()
			if known {
				rec.ExcludedKnown(fix.KeyCursorCyclicKey)
			}
			strict, boundary := seekInsideBlock(l, ts)
			switch {
			case strict:
				rec.Class("seek:strictly-inside-a-block")
			case boundary:
				rec.Class("seek:on-a-block-boundary")
			default:
				rec.Class("seek:in-a-gap-or-outside")
			}
			if fc.overlap3 && fc.partialTomb && strict {
				rec.NonTrivial(fmt.Sprintf("%s|%d|%v|%v", lc, ts, asc, array))
			}
		})
		if err != nil {
			rt.Fatalf("harness error: %v", err)
		}
		rec.Class("type:" + l.Typ)
		rec.Class("regime:" + l.Regime)
		rec.Class("shape:" + l.Shape)
		switch {
		case fc.blocks == 0:
			rec.Class("blocks:0")
		case fc.blocks <= 12:
			rec.Class("blocks:1-12")
		case modelCyclic(l):
			rec.Class("blocks:13+,comparator-cyclic")
		default:
			rec.Class("blocks:13+,comparator-consistent")
		}
		if modelTimeInversion(l) {
			rec.Class("order:insertion-sorted-blocks-not-in-time-order")
		}
		if fc.overlap3 {
			rec.Class("overlap:>=3-files-pairwise")
		} else if fc.overlap2 {
			rec.Class("overlap:2-files")
		} else {
			rec.Class("overlap:none")
		}
		if fc.dupTs {
			rec.Class("dup-timestamp-across-files")
		}
		if fc.partialTomb {
			rec.Class("tomb:partial-block")
		}
		if fc.fullTomb {
			rec.Class("tomb:whole-block")
		}
		if !fc.anyTomb {
			rec.Class("tomb:none-effective")
		}
		if l.LiveTombs {
			rec.Class("tomb-path:live-readers")
		} else {
			rec.Class("tomb-path:loaded-at-open")
		}
		if rec.WantSample() && fc.overlap3 && fc.partialTomb {
			rec.Sample(map[string]any{"layout": l, "seeks": seeks})
		}
		if key != "" {
			rec.Fail(rt, "TestPropKeyCursorMerge", key, detail, cj)
		}
	})
}
