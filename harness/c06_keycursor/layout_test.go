package c06_keycursor

import (
	"context"
	"fmt"
	"math"
	"math/bits"
	"os"
	"path/filepath"
	"sort"
	"strings"

	"github.com/influxdata/influxdb/v2/models"
	"github.com/influxdata/influxdb/v2/tsdb"
	"github.com/influxdata/influxdb/v2/tsdb/engine/tsm1"
	"pgregory.net/rapid"
)

// The layout model: a directory of TSM files that all hold (some blocks of) ONE target key,
// optionally a decoy key sorting before and one sorting after it, and per-file tombstones.
// Within one file the target key's blocks are sorted and non-overlapping (what TSMWriter and
// compaction guarantee); across files anything goes.

const (
	keyBefore = "cpu,host=A#!~#a_before"
	keyTarget = "cpu,host=A#!~#value"
	keyAfter  = "cpu,host=A#!~#z_after"
	domain    = 40 // timestamp indexes 0..domain; seeks -2..domain+2
)

var types = []string{"float", "integer", "unsigned", "string", "boolean"}

type pt struct {
	T int64 `json:"t"`
	V int   `json:"v"` // model value, mapped injectively into the value type (1 bit for booleans)
}

type tomb struct {
	Min  int64  `json:"min"`
	Max  int64  `json:"max"`
	Keys string `json:"keys"` // "target" | "all" | "decoys"
	Kind string `json:"kind"`
	Via  string `json:"via"` // "range" (DeleteRange) | "delete" (Delete: whole key)
}

func (x tomb) hitsTarget() bool { return x.Keys != "decoys" }

type fileSpec struct {
	Gen    int    `json:"gen"`
	Seq    int    `json:"seq"`
	Blocks [][]pt `json:"blocks"` // target key
	Before bool   `json:"before"`
	After  bool   `json:"after"`
	Tombs  []tomb `json:"tombs,omitempty"`
}

func (f fileSpec) name() string { return fmt.Sprintf("%09d-%09d.tsm", f.Gen, f.Seq) }

type layout struct {
	Typ       string     `json:"type"`
	Regime    string     `json:"regime"`
	Shape     string     `json:"shape"`
	LiveTombs bool       `json:"live_tombstones"` // applied through the open FileStore's readers instead of before Open
	Files     []fileSpec `json:"files"`
}

func (l layout) totalBlocks() int {
	n := 0
	for _, f := range l.Files {
		n += len(f.Blocks)
	}
	return n
}

// tsOf maps a domain index to a timestamp, strictly monotone within each regime.
func tsOf(regime string, i int) int64 {
	switch regime {
	case "spread":
		return 1_600_000_000_000_000_000 + int64(i)*1_000_000_007
	case "extreme":
		if i <= 0 {
			return models.MinNanoTime
		}
		if i >= domain {
			return models.MaxNanoTime
		}
		return int64(i-domain/2) * 1000
	default: // "small": crosses zero
		return int64(i - domain/2)
	}
}

// typed maps a model value to the concrete Go value of the layout's type.
func typed(typ string, v int) any {
	switch typ {
	case "float":
		return float64(v) * 0.5
	case "integer":
		return int64(v) - 5000
	case "unsigned":
		return uint64(v)
	case "string":
		return fmt.Sprintf("s%d", v)
	default:
		return bits.OnesCount32(uint32(v)*2654435761)&1 == 1
	}
}

// ---- generator ------------------------------------------------------------------------------

func genBlocks(t *rapid.T, regime string, fileIdx, start, nBlocks, maxPts, maxGap int) [][]pt {
	var out [][]pt
	pos := start
	for b := 0; b < nBlocks && pos <= domain; b++ {
		n := rapid.IntRange(1, maxPts).Draw(t, "npts")
		var blk []pt
		for k := 0; k < n && pos <= domain; k++ {
			blk = append(blk, pt{T: tsOf(regime, pos), V: (fileIdx+1)*100 + pos})
			pos += rapid.IntRange(1, maxGap).Draw(t, "gap")
		}
		out = append(out, blk)
		pos += rapid.IntRange(0, 4).Draw(t, "blockgap")
	}
	return out
}

func genTomb(t *rapid.T, regime string, f fileSpec) tomb {
	kinds := []string{"arbitrary"}
	if len(f.Blocks) > 0 {
		kinds = []string{"block-full", "first-point", "last-point", "half-low", "half-high", "interior", "span", "open-low", "open-high", "everything", "arbitrary", "block-full", "half-low", "half-high"}
	}
	kind := rapid.SampledFrom(kinds).Draw(t, "tombkind")
	x := tomb{Kind: kind, Via: "range"}
	x.Keys = rapid.SampledFrom([]string{"target", "target", "target", "all", "decoys"}).Draw(t, "tombkeys")
	var b []pt
	bi := 0
	if len(f.Blocks) > 0 {
		bi = rapid.IntRange(0, len(f.Blocks)-1).Draw(t, "tombblock")
		b = f.Blocks[bi]
	}
	mid := func(b []pt) int64 { return b[len(b)/2].T }
	switch kind {
	case "block-full":
		x.Min, x.Max = b[0].T, b[len(b)-1].T
	case "first-point":
		x.Min, x.Max = b[0].T, b[0].T
	case "last-point":
		x.Min, x.Max = b[len(b)-1].T, b[len(b)-1].T
	case "half-low":
		x.Min, x.Max = b[0].T, mid(b)
	case "half-high":
		x.Min, x.Max = mid(b), b[len(b)-1].T
	case "interior":
		if len(b) >= 3 {
			x.Min, x.Max = b[1].T, b[len(b)-2].T
		} else {
			x.Min, x.Max = b[0].T, b[0].T
		}
	case "span":
		nb := f.Blocks[(bi+1)%len(f.Blocks)]
		x.Min, x.Max = mid(b), mid(nb)
		if x.Min > x.Max {
			x.Min, x.Max = x.Max, x.Min
		}
	case "open-low":
		x.Min, x.Max = math.MinInt64, mid(b)
	case "open-high":
		x.Min, x.Max = mid(b), math.MaxInt64
	case "everything":
		x.Min, x.Max = math.MinInt64, math.MaxInt64
		x.Via = rapid.SampledFrom([]string{"range", "delete"}).Draw(t, "tombvia")
	default:
		i := rapid.IntRange(-1, domain+1).Draw(t, "tomblo")
		j := rapid.IntRange(i, min(i+rapid.IntRange(0, 12).Draw(t, "tomblen"), domain+1)).Draw(t, "tombhi")
		x.Min, x.Max = tsOf(regime, i), tsOf(regime, j)
	}
	return x
}

func genLayout(t *rapid.T) layout {
	l := layout{
		Typ:       rapid.SampledFrom(types).Draw(t, "type"),
		Regime:    rapid.SampledFrom([]string{"small", "small", "spread", "extreme"}).Draw(t, "regime"),
		Shape:     rapid.SampledFrom([]string{"few", "few", "few", "few", "mid", "many-random", "many-random", "many-sliding"}).Draw(t, "shape"),
		LiveTombs: rapid.Bool().Draw(t, "livetombs"),
	}
	var nFiles int
	switch l.Shape {
	case "few":
		nFiles = rapid.SampledFrom([]int{1, 2, 3, 3, 4, 4, 5, 5}).Draw(t, "nfiles")
	case "mid":
		nFiles = rapid.IntRange(2, 6).Draw(t, "nfiles")
	default:
		nFiles = rapid.IntRange(7, 30).Draw(t, "nfiles")
	}
	gen, seq := 0, 0
	for i := 0; i < nFiles; i++ {
		if i > 0 && rapid.IntRange(0, 3).Draw(t, "samegen") == 0 {
			seq++
		} else {
			gen += rapid.IntRange(1, 2).Draw(t, "gengap")
			seq = rapid.IntRange(1, 3).Draw(t, "seq")
		}
		f := fileSpec{Gen: gen, Seq: seq}
		switch l.Shape {
		case "few":
			nb := rapid.SampledFrom([]int{0, 1, 1, 2, 2, 3}).Draw(t, "nblocks")
			if nb > 12-l.totalBlocks() {
				nb = 12 - l.totalBlocks() // at most 12 blocks in total: below pdqsort's insertion-sort limit
			}
			f.Blocks = genBlocks(t, l.Regime, i, rapid.IntRange(0, 24).Draw(t, "start"), nb, 6, 3)
		case "mid":
			f.Blocks = genBlocks(t, l.Regime, i, rapid.IntRange(0, 12).Draw(t, "start"), rapid.IntRange(3, 7).Draw(t, "nblocks"), 3, 2)
		case "many-random":
			f.Blocks = genBlocks(t, l.Regime, i, rapid.IntRange(0, domain).Draw(t, "start"), rapid.IntRange(1, 2).Draw(t, "nblocks"), 3, 3)
		default: // many-sliding: file i sits around i*domain/nFiles, overlapping only its neighbours
			start := i*domain/nFiles + rapid.IntRange(-1, 1).Draw(t, "jitter")
			if start < 0 {
				start = 0
			}
			f.Blocks = genBlocks(t, l.Regime, i, start, rapid.IntRange(1, 2).Draw(t, "nblocks"), 3, 2)
		}
		f.Before = rapid.IntRange(0, 2).Draw(t, "before") == 0
		f.After = rapid.IntRange(0, 2).Draw(t, "after") == 0
		if len(f.Blocks) == 0 && !f.Before && !f.After {
			f.Before = true // a TSM file must hold at least one block
		}
		nt := rapid.SampledFrom([]int{0, 0, 0, 1, 1, 2, 3}).Draw(t, "ntombs")
		if l.Shape != "few" {
			nt = rapid.SampledFrom([]int{0, 0, 0, 0, 0, 1, 2}).Draw(t, "ntombs")
		}
		for k := 0; k < nt; k++ {
			f.Tombs = append(f.Tombs, genTomb(t, l.Regime, f))
		}
		l.Files = append(l.Files, f)
	}
	return l
}

// ---- reference model ------------------------------------------------------------------------

// live returns the file's target-key points that survive the file's own tombstones.
func (f fileSpec) live() []pt {
	var out []pt
	for _, b := range f.Blocks {
	P:
		for _, p := range b {
			for _, x := range f.Tombs {
				if x.hitsTarget() && x.Min <= p.T && p.T <= x.Max {
					continue P
				}
			}
			out = append(out, p)
		}
	}
	return out
}

type version struct {
	File int
	V    int
}

// merged folds the files in path order (the slice order); returns the newest-wins content in
// ascending time order and, per timestamp, all live versions oldest first.
func (l layout) merged() ([]pt, map[int64][]version) {
	vers := map[int64][]version{}
	for i, f := range l.Files {
		for _, p := range f.live() {
			vers[p.T] = append(vers[p.T], version{File: i, V: p.V})
		}
	}
	out := make([]pt, 0, len(vers))
	for ts, vs := range vers {
		out = append(out, pt{T: ts, V: vs[len(vs)-1].V})
	}
	sort.Slice(out, func(i, j int) bool { return out[i].T < out[j].T })
	return out, vers
}

// expect filters the merged content for a cursor seeking to t.
func expect(all []pt, t int64, asc bool) []pt {
	var out []pt
	if asc {
		for _, p := range all {
			if p.T >= t {
				out = append(out, p)
			}
		}
		return out
	}
	for i := len(all) - 1; i >= 0; i-- {
		if all[i].T <= t {
			out = append(out, all[i])
		}
	}
	return out
}

// ---- materialisation ------------------------------------------------------------------------

func tombKeys(x tomb) [][]byte {
	switch x.Keys {
	case "target":
		return [][]byte{[]byte(keyTarget)}
	case "decoys":
		return [][]byte{[]byte(keyBefore), []byte(keyAfter)}
	default:
		return [][]byte{[]byte(keyBefore), []byte(keyTarget), []byte(keyAfter)}
	}
}

type deleter interface {
	DeleteRange(keys [][]byte, min, max int64) error
	Delete(keys [][]byte) error
}

func applyTombs(r deleter, f fileSpec) error {
	for _, x := range f.Tombs {
		var err error
		if x.Via == "delete" {
			err = r.Delete(tombKeys(x))
		} else {
			err = r.DeleteRange(tombKeys(x), x.Min, x.Max)
		}
		if err != nil {
			return err
		}
	}
	return nil
}

func writeFile(dir string, typ string, f fileSpec) error {
	fd, err := os.Create(filepath.Join(dir, f.name()))
	if err != nil {
		return err
	}
	w, err := tsm1.NewTSMWriter(fd)
	if err != nil {
		fd.Close()
		return err
	}
	if f.Before {
		if err := w.Write([]byte(keyBefore), tsm1.Values{tsm1.NewValue(-7, int64(-777)), tsm1.NewValue(7, int64(777))}); err != nil {
			return err
		}
	}
	for _, b := range f.Blocks {
		vals := make(tsm1.Values, 0, len(b))
		for _, p := range b {
			vals = append(vals, tsm1.NewValue(p.T, typed(typ, p.V)))
		}
		if err := w.Write([]byte(keyTarget), vals); err != nil {
			return err
		}
	}
	if f.After {
		if err := w.Write([]byte(keyAfter), tsm1.Values{tsm1.NewValue(-9, "decoy"), tsm1.NewValue(9, "decoy")}); err != nil {
			return err
		}
	}
	if err := w.WriteIndex(); err != nil {
		return err
	}
	return w.Close()
}

// open writes the layout into dir and returns an opened FileStore over it.
func (l layout) open(dir string) (*tsm1.FileStore, error) {
	for _, f := range l.Files {
		if err := writeFile(dir, l.Typ, f); err != nil {
			return nil, fmt.Errorf("write %s: %w", f.name(), err)
		}
		if !l.LiveTombs && len(f.Tombs) > 0 {
			fd, err := os.Open(filepath.Join(dir, f.name()))
			if err != nil {
				return nil, err
			}
			r, err := tsm1.NewTSMReader(fd)
			if err != nil {
				fd.Close()
				return nil, err
			}
			if err := applyTombs(r, f); err != nil {
				r.Close()
				return nil, err
			}
			if err := r.Close(); err != nil {
				return nil, err
			}
		}
	}
	fs := tsm1.NewFileStore(dir, tsdb.EngineTags{})
	if err := fs.Open(context.Background()); err != nil {
		return nil, err
	}
	if l.LiveTombs {
		byName := map[string]tsm1.TSMFile{}
		for _, r := range fs.Files() {
			byName[filepath.Base(r.Path())] = r
		}
		for _, f := range l.Files {
			if len(f.Tombs) == 0 {
				continue
			}
			r := byName[f.name()]
			if r == nil {
				fs.Close()
				return nil, fmt.Errorf("file %s not in file store", f.name())
			}
			if err := applyTombs(r, f); err != nil {
				fs.Close()
				return nil, err
			}
		}
	}
	return fs, nil
}

func (l layout) canon() string {
	var sb strings.Builder
	fmt.Fprintf(&sb, "%s/%s/%v|", l.Typ, l.Regime, l.LiveTombs)
	for _, f := range l.Files {
		fmt.Fprintf(&sb, "%d-%d:%v%v", f.Gen, f.Seq, f.Before, f.After)
		for _, b := range f.Blocks {
			sb.WriteByte('[')
			for _, p := range b {
				fmt.Fprintf(&sb, "%d=%d,", p.T, p.V)
			}
			sb.WriteByte(']')
		}
		for _, x := range f.Tombs {
			fmt.Fprintf(&sb, "x%d..%d/%s/%s", x.Min, x.Max, x.Keys, x.Via)
		}
		sb.WriteByte(';')
	}
	return sb.String()
}
