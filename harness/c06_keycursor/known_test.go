package c06_keycursor

import (
	"fmt"
	"testing"

	"github.com/influxdata/influxdb/v2/models"

	"verifharness/internal/fix"
)

// knownCyclicLayout is the KeyCursor-level form of known finding keycursor-cyclic-block-order
// (first established through the engine in C01): 13 TSM files, one block of the key each, written
// directly with TSMWriter, no tombstones. File 13 (newest) holds value 1300 at t=MIN+1; files 7
// and 9 hold older values for the same timestamp.
func knownCyclicLayout() layout {
	m := models.MinNanoTime + 1
	blocks := [][]int64{{1}, {10}, {0}, {100}, {20}, {120}, {m}, {0}, {m, 10}, {150}, {30}, {40}, {m}}
	l := layout{Typ: "integer", Regime: "raw", Shape: "known"}
	for i, b := range blocks {
		f := fileSpec{Gen: i + 1, Seq: 1}
		var blk []pt
		for _, ts := range b {
			blk = append(blk, pt{T: ts, V: (i + 1) * 100})
		}
		f.Blocks = [][]pt{blk}
		l.Files = append(l.Files, f)
	}
	return l
}

// TestKnown_keycursor_cyclic_block_order re-establishes the finding with nothing but TSMWriter,
// FileStore.Open and FileStore.KeyCursor: an ascending cursor from MinNanoTime over the 13 files
// returns an older file's value at MIN+1 although the newest file (13) holds that timestamp.
func TestKnown_keycursor_cyclic_block_order(t *testing.T) {
	l := knownCyclicLayout()
	key, detail, cj, err := checkLayoutStrict(l, []int64{models.MinNanoTime})
	if err != nil {
		t.Fatal(err)
	}
	reproduced := key != ""
	what := fmt.Sprintf("13 TSM files with one block of key %q each (timestamps 1,10,0,100,20,120,MIN+1,0,{MIN+1,10},150,30,40,MIN+1; value = 100*file number): "+
		"an ascending KeyCursor from MinNanoTime returns an older file's value at MIN+1 instead of 1300 from file 13 "+
		"(ascLocations.Less is not transitive on these 13 locations, sort.Sort leaves an older overlapping block after the newest one) [%s: %s]", keyTarget, key, detail)
	rec.Known(t, "TestKnown_keycursor_cyclic_block_order", fix.KeyCursorCyclicKey, reproduced, what, cj)
}
