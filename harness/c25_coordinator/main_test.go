package c25_coordinator

import (
	"testing"

	"verifharness/internal/ev"
)

func TestMain(m *testing.M) { ev.Main(m) }
