package c25_coordinator

import (
	"context"
	"fmt"
	"regexp"
	"sort"
	"sync"
	"time"

	"github.com/influxdata/influxdb/v2/kit/platform"
	"github.com/influxdata/influxdb/v2/task/backend/scheduler"
	"github.com/influxdata/influxdb/v2/task/taskmodel"
)

// ---------------------------------------------------------------------------------------------
// fakeTaskService: the in-harness task store. It mirrors the bookkeeping of kv.Service
// (createTask / updateTask in /repo/kv/task.go) without going through Flux: the task options are
// carried in TaskCreate.Flux as `option task = {name: "x", every: 1h, offset: 3s}` and are read by
// three regular expressions; TaskUpdate.Options is applied field by field with the replacement
// rules of TaskUpdate.updateFlux (every replaces cron and vice versa, a zero offset removes it).
// Every method returns copies, as the KV store does (it unmarshals a fresh value per call).

type fakeTaskService struct {
	taskmodel.TaskService // the remaining methods are not used by the code under test (nil => panic if they were)

	mu       sync.Mutex
	tasks    map[platform.ID]*taskmodel.Task
	nextID   platform.ID
	clock    time.Time // advances one second per mutating call; CreatedAt/UpdatedAt come from here
	pageSize int       // page size of FindTasks when the filter has no limit
	findCall int
}

func newFakeTaskService(pageSize int) *fakeTaskService {
	return &fakeTaskService{
		tasks:    map[platform.ID]*taskmodel.Task{},
		nextID:   1,
		clock:    time.Date(2020, 4, 1, 0, 0, 0, 0, time.UTC),
		pageSize: pageSize,
	}
}

var (
	reEvery  = regexp.MustCompile(`every:\s*([0-9a-z]+)`)
	reCron   = regexp.MustCompile(`cron:\s*"([^"]*)"`)
	reOffset = regexp.MustCompile(`offset:\s*([0-9a-z]+)`)
	reName   = regexp.MustCompile(`name:\s*"([^"]*)"`)
)

func fluxFor(name, every, cron string, offset time.Duration) string {
	s := fmt.Sprintf(`option task = {name: %q`, name)
	if every != "" {
		s += ", every: " + every
	}
	if cron != "" {
		s += fmt.Sprintf(", cron: %q", cron)
	}
	if offset != 0 {
		s += ", offset: " + offset.String()
	}
	return s + `} from(bucket:"b") |> range(start:-1h)`
}

func (f *fakeTaskService) tick() time.Time {
	f.clock = f.clock.Add(time.Second)
	return f.clock
}

func cp(t *taskmodel.Task) *taskmodel.Task { c := *t; return &c }

func (f *fakeTaskService) CreateTask(ctx context.Context, tc taskmodel.TaskCreate) (*taskmodel.Task, error) {
	if err := tc.Validate(); err != nil {
		return nil, err
	}
	f.mu.Lock()
	defer f.mu.Unlock()
	if tc.Status == "" {
		tc.Status = string(taskmodel.TaskActive)
	}
	createdAt := f.tick().Truncate(time.Second).UTC()
	t := &taskmodel.Task{
		ID: f.nextID, Type: tc.Type, OrganizationID: tc.OrganizationID, Organization: tc.Organization,
		OwnerID: tc.OwnerID, Description: tc.Description, Status: tc.Status, Flux: tc.Flux,
		CreatedAt: createdAt, LatestCompleted: createdAt, LatestScheduled: createdAt,
	}
	f.nextID++
	if m := reName.FindStringSubmatch(tc.Flux); m != nil {
		t.Name = m[1]
	}
	if m := reEvery.FindStringSubmatch(tc.Flux); m != nil {
		t.Every = m[1]
	}
	if m := reCron.FindStringSubmatch(tc.Flux); m != nil {
		t.Cron = m[1]
	}
	if m := reOffset.FindStringSubmatch(tc.Flux); m != nil {
		d, err := time.ParseDuration(m[1])
		if err != nil {
			return nil, taskmodel.ErrTaskTimeParse(err)
		}
		t.Offset = d
	}
	if t.Every == "" && t.Cron == "" {
		return nil, fmt.Errorf("fake task service: neither every nor cron in %q", tc.Flux)
	}
	f.tasks[t.ID] = t
	return cp(t), nil
}

func (f *fakeTaskService) FindTaskByID(ctx context.Context, id platform.ID) (*taskmodel.Task, error) {
	f.mu.Lock()
	defer f.mu.Unlock()
	t, ok := f.tasks[id]
	if !ok {
		return nil, taskmodel.ErrTaskNotFound
	}
	return cp(t), nil
}

func (f *fakeTaskService) FindTasks(ctx context.Context, filter taskmodel.TaskFilter) ([]*taskmodel.Task, int, error) {
	f.mu.Lock()
	defer f.mu.Unlock()
	f.findCall++
	ids := make([]platform.ID, 0, len(f.tasks))
	for id := range f.tasks {
		ids = append(ids, id)
	}
	sort.Slice(ids, func(i, j int) bool { return ids[i] < ids[j] })
	limit := filter.Limit
	if limit <= 0 {
		limit = f.pageSize
	}
	out := []*taskmodel.Task{}
	for _, id := range ids {
		if filter.After != nil && id <= *filter.After {
			continue
		}
		if filter.Status != nil && f.tasks[id].Status != *filter.Status {
			continue
		}
		if len(out) == limit {
			break
		}
		out = append(out, cp(f.tasks[id]))
	}
	return out, len(out), nil
}

func (f *fakeTaskService) UpdateTask(ctx context.Context, id platform.ID, upd taskmodel.TaskUpdate) (*taskmodel.Task, error) {
	f.mu.Lock()
	defer f.mu.Unlock()
	t, ok := f.tasks[id]
	if !ok {
		return nil, taskmodel.ErrTaskNotFound
	}
	updatedAt := f.tick().UTC()
	if !upd.Options.IsZero() {
		if !upd.Options.Every.IsZero() && upd.Options.Cron != "" {
			return nil, fmt.Errorf("cannot specify both cron and every")
		}
		if upd.Options.Name != "" {
			t.Name = upd.Options.Name
		}
		if !upd.Options.Every.IsZero() {
			t.Every, t.Cron = upd.Options.Every.String(), ""
		}
		if upd.Options.Cron != "" {
			t.Cron, t.Every = upd.Options.Cron, ""
		}
		t.UpdatedAt = updatedAt
	}
	if upd.Options.Offset != nil {
		var off time.Duration
		if !upd.Options.Offset.IsZero() {
			d, err := time.ParseDuration(upd.Options.Offset.String())
			if err != nil {
				return nil, taskmodel.ErrTaskTimeParse(err)
			}
			off = d
		}
		t.Offset = off
		t.UpdatedAt = updatedAt
	}
	if upd.Options.Offset != nil || !upd.Options.IsZero() {
		t.Flux = fluxFor(t.Name, t.Every, t.Cron, t.Offset)
	}
	if upd.Description != nil {
		t.Description = *upd.Description
		t.UpdatedAt = updatedAt
	}
	if upd.Status != nil && t.Status != *upd.Status {
		t.Status = *upd.Status
		t.UpdatedAt = updatedAt
		if t.Status == taskmodel.TaskStatusActive {
			tr := updatedAt.Truncate(time.Second).UTC()
			t.LatestCompleted, t.LatestScheduled = tr, tr
		}
	}
	if upd.LatestCompleted != nil {
		if u := *upd.LatestCompleted; !u.IsZero() && u.After(t.LatestCompleted) {
			t.LatestCompleted = u
		}
	}
	if upd.LatestScheduled != nil {
		if upd.LatestScheduled.After(t.LatestScheduled) {
			t.LatestScheduled = *upd.LatestScheduled
		}
	}
	return cp(t), nil
}

func (f *fakeTaskService) DeleteTask(ctx context.Context, id platform.ID) error {
	f.mu.Lock()
	defer f.mu.Unlock()
	if _, ok := f.tasks[id]; !ok {
		return taskmodel.ErrTaskNotFound
	}
	delete(f.tasks, id)
	return nil
}

// snapshot returns copies of all stored tasks, ordered by id.
func (f *fakeTaskService) snapshot() []*taskmodel.Task {
	f.mu.Lock()
	defer f.mu.Unlock()
	out := make([]*taskmodel.Task, 0, len(f.tasks))
	for _, t := range f.tasks {
		out = append(out, cp(t))
	}
	sort.Slice(out, func(i, j int) bool { return out[i].ID < out[j].ID })
	return out
}

// ---------------------------------------------------------------------------------------------
// recordingScheduler: the scheduler the coordinator talks to. It keeps the set of scheduled ids
// with a snapshot of what the Schedulable reported at Schedule time (Schedule inserts or
// replaces, Release removes), exactly the contract of scheduler.Scheduler.

type scheduled struct {
	sched scheduler.Schedule
	off   time.Duration
	last  time.Time
}

type recordingScheduler struct {
	mu            sync.Mutex
	set           map[scheduler.ID]scheduled
	strictRelease bool  // Release of an unknown id answers ErrTaskNotClaimed (the coordinator tolerates it)
	failSchedule  error // when non-nil the next Schedule call fails with it (once)
	calls         []string
}

func newRecordingScheduler(strict bool) *recordingScheduler {
	return &recordingScheduler{set: map[scheduler.ID]scheduled{}, strictRelease: strict}
}

func (r *recordingScheduler) Schedule(s scheduler.Schedulable) error {
	r.mu.Lock()
	defer r.mu.Unlock()
	if err := r.failSchedule; err != nil {
		r.failSchedule = nil
		r.calls = append(r.calls, fmt.Sprintf("schedule(%d)=err", s.ID()))
		return err
	}
	r.set[s.ID()] = scheduled{sched: s.Schedule(), off: s.Offset(), last: s.LastScheduled()}
	r.calls = append(r.calls, fmt.Sprintf("schedule(%d)", s.ID()))
	return nil
}

func (r *recordingScheduler) Release(id scheduler.ID) error {
	r.mu.Lock()
	defer r.mu.Unlock()
	r.calls = append(r.calls, fmt.Sprintf("release(%d)", id))
	if _, ok := r.set[id]; !ok {
		if r.strictRelease {
			return taskmodel.ErrTaskNotClaimed
		}
		return nil
	}
	delete(r.set, id)
	return nil
}

func (r *recordingScheduler) ids() []scheduler.ID {
	r.mu.Lock()
	defer r.mu.Unlock()
	out := make([]scheduler.ID, 0, len(r.set))
	for id := range r.set {
		out = append(out, id)
	}
	sort.Slice(out, func(i, j int) bool { return out[i] < out[j] })
	return out
}

func (r *recordingScheduler) get(id scheduler.ID) (scheduled, bool) {
	r.mu.Lock()
	defer r.mu.Unlock()
	s, ok := r.set[id]
	return s, ok
}
