// C25 — Only active tasks are scheduled.
//
// Generator: a history of create / update / delete / restart operations over a handful of tasks,
// issued through middleware.New(fakeTaskService, coordinator.NewCoordinator(log, recordingScheduler,
// fakeExecutor)). create draws the status ("" = default active, active, inactive), an every or cron
// spec and an offset; update draws any subset of {status, every, cron, offset, description};
// restart builds a fresh scheduler + coordinator over the same task store and runs
// backend.NotifyCoordinatorOfExisting (the store pages with a small page size so that paging is
// exercised with few tasks).
//
// Oracle (after every operation): the ids held by the recording scheduler are exactly the ids of
// the stored tasks whose status is "active", and for each of them the recorded Schedulable has the
// task's latest schedule (scheduler.Schedule compared through Next at probe times against an
// independently parsed schedule of the latest cron/every) and its latest offset.
package c25_coordinator

import (
	"context"
	"errors"
	"fmt"
	"sort"
	"strings"
	"testing"
	"time"

	"github.com/influxdata/influxdb/v2/kit/platform"
	"github.com/influxdata/influxdb/v2/task/backend"
	"github.com/influxdata/influxdb/v2/task/backend/coordinator"
	"github.com/influxdata/influxdb/v2/task/backend/executor"
	"github.com/influxdata/influxdb/v2/task/backend/middleware"
	"github.com/influxdata/influxdb/v2/task/backend/scheduler"
	"github.com/influxdata/influxdb/v2/task/options"
	"github.com/influxdata/influxdb/v2/task/taskmodel"
	"go.uber.org/zap"
	"pgregory.net/rapid"

	"verifharness/internal/ev"
)

const keyInactiveCreate = "inactive-task-scheduled-on-create"

var rec = ev.For("C25", "exploration",
	"case = history of create/update/delete/restart operations through the coordinating task service; non-trivial = the history contains a create with status inactive, an inactive->active update, a schedule (every/cron/offset) change of an active task, and a delete of an existing task; distinct by the canonical rendering of the operation list")

// ---- fake executor (only needed to construct the coordinator) -----------------------------------

type nopExecutor struct{}

func (nopExecutor) ManualRun(ctx context.Context, id platform.ID, runID platform.ID) (executor.Promise, error) {
	return nil, errors.New("not used")
}
func (nopExecutor) ScheduleManualRun(ctx context.Context, id platform.ID, runID platform.ID) error {
	return nil
}
func (nopExecutor) Cancel(ctx context.Context, runID platform.ID) error { return nil }

// ---- operations ---------------------------------------------------------------------------------

type spec struct {
	Every string `json:"every,omitempty"`
	Cron  string `json:"cron,omitempty"`
}

var specPool = []spec{
	{Every: "1s"}, {Every: "5s"}, {Every: "1m"}, {Every: "1h"}, {Every: "90s"},
	{Cron: "* * * * *"}, {Cron: "*/7 * * * * *"}, {Cron: "0 */5 * * * *"}, {Cron: "30 2 * * *"},
}

var offsetPool = []time.Duration{0, 3 * time.Second, 90 * time.Second}

type op struct {
	Kind     string  `json:"kind"` // create | update | delete | restart
	Slot     int     `json:"slot,omitempty"`
	Status   *string `json:"status,omitempty"`
	Spec     *spec   `json:"spec,omitempty"`
	Offset   *int64  `json:"offset_ns,omitempty"`
	Desc     bool    `json:"desc,omitempty"`
	FailSch  bool    `json:"fail_schedule,omitempty"` // create only: the scheduler rejects the Schedule call
	PageSize int     `json:"page,omitempty"`          // restart only
}

func (o op) String() string {
	var b strings.Builder
	b.WriteString(o.Kind)
	if o.Kind != "restart" && o.Kind != "create" {
		fmt.Fprintf(&b, "#%d", o.Slot)
	}
	if o.Status != nil {
		fmt.Fprintf(&b, " status=%q", *o.Status)
	}
	if o.Spec != nil {
		fmt.Fprintf(&b, " every=%s cron=%q", o.Spec.Every, o.Spec.Cron)
	}
	if o.Offset != nil {
		fmt.Fprintf(&b, " offset=%s", time.Duration(*o.Offset))
	}
	if o.Desc {
		b.WriteString(" desc")
	}
	if o.FailSch {
		b.WriteString(" failsch")
	}
	if o.PageSize != 0 {
		fmt.Fprintf(&b, " page=%d", o.PageSize)
	}
	return b.String()
}

func strp(s string) *string { return &s }

// pickSlot draws a slot: mostly one of the existing tasks, sometimes any slot ever created
// (deleted tasks, failed creates) or an id that never existed (slot == len(slots)).
func pickSlot(t *rapid.T, slots []*mtask) int {
	var live []int
	for i, m := range slots {
		if m.exists {
			live = append(live, i)
		}
	}
	if len(live) > 0 && rapid.IntRange(0, 7).Draw(t, "anySlot") != 0 {
		return rapid.SampledFrom(live).Draw(t, "slot")
	}
	return rapid.IntRange(0, len(slots)).Draw(t, "slotAny")
}

func genOp(t *rapid.T, slots []*mtask) op {
	live := 0
	for _, m := range slots {
		if m.exists {
			live++
		}
	}
	kinds := []string{"create", "update", "update", "update", "update", "update", "update", "delete", "delete", "restart"}
	if live < 3 {
		kinds = append(kinds, "create", "create")
	}
	if live == 0 {
		kinds = []string{"create"}
	}
	o := op{Kind: rapid.SampledFrom(kinds).Draw(t, "kind")}
	switch o.Kind {
	case "create":
		st := rapid.SampledFrom([]string{"", "active", "inactive", "inactive"}).Draw(t, "status")
		o.Status = &st
		sp := rapid.SampledFrom(specPool).Draw(t, "spec")
		o.Spec = &sp
		off := int64(rapid.SampledFrom(offsetPool).Draw(t, "offset"))
		o.Offset = &off
		o.FailSch = rapid.IntRange(0, 15).Draw(t, "failsch") == 0
	case "update":
		o.Slot = pickSlot(t, slots)
		what := rapid.SampledFrom([]string{"status", "status", "status", "spec", "spec", "offset", "status+spec", "desc", "none", "spec+offset"}).Draw(t, "what")
		if strings.Contains(what, "status") {
			o.Status = strp(rapid.SampledFrom([]string{"active", "inactive"}).Draw(t, "status"))
		}
		if strings.Contains(what, "spec") {
			sp := rapid.SampledFrom(specPool).Draw(t, "spec")
			o.Spec = &sp
		}
		if strings.Contains(what, "offset") {
			off := int64(rapid.SampledFrom(offsetPool).Draw(t, "offset"))
			o.Offset = &off
		}
		o.Desc = what == "desc"
	case "delete":
		o.Slot = pickSlot(t, slots)
	case "restart":
		o.PageSize = rapid.IntRange(1, 3).Draw(t, "page")
	}
	return o
}

// ---- system under test + model ------------------------------------------------------------------

type mtask struct {
	id      platform.ID
	exists  bool
	active  bool
	every   string
	cron    string
	offset  time.Duration
	tainted bool // created with status inactive and neither activated, deleted nor restarted since
}

type sut struct {
	store  *fakeTaskService
	sch    *recordingScheduler
	svc    *middleware.CoordinatingTaskService
	strict bool
	slots  []*mtask // creation order; slot i was created by the i-th successful or failed create
}

func (s *sut) wire() {
	s.sch = newRecordingScheduler(s.strict)
	coord := coordinator.NewCoordinator(zap.NewNop(), s.sch, nopExecutor{})
	s.svc = middleware.New(s.store, coord)
}

func newSUT(strict bool, page int) *sut {
	s := &sut{store: newFakeTaskService(page), strict: strict}
	s.wire()
	return s
}

var probeTimes = []time.Time{
	time.Date(2020, 4, 1, 0, 0, 0, 0, time.UTC),
	time.Date(2020, 4, 1, 0, 0, 1, 0, time.UTC),
	time.Date(2021, 12, 31, 23, 59, 59, 0, time.UTC),
	time.Date(2024, 2, 29, 2, 29, 58, 0, time.UTC),
	time.Date(2026, 9, 22, 13, 4, 55, 0, time.UTC),
}

func effCron(every, cron string) string {
	if cron != "" {
		return cron
	}
	return "@every " + every
}

// sameSchedule compares a recorded schedule with the one the latest spec denotes.
func sameSchedule(got scheduler.Schedule, every, cron string) (bool, string) {
	want, _, err := scheduler.NewSchedule(effCron(every, cron), probeTimes[0])
	if err != nil {
		return false, "harness: spec does not parse: " + err.Error()
	}
	for _, p := range probeTimes {
		g, gerr := got.Next(p)
		w, werr := want.Next(p)
		if (gerr != nil) != (werr != nil) || !g.Equal(w) {
			return false, fmt.Sprintf("Next(%s) = %s (err %v), the latest spec %q gives %s (err %v)",
				p.Format(time.RFC3339), g.Format(time.RFC3339), gerr, effCron(every, cron), w.Format(time.RFC3339), werr)
		}
	}
	return true, ""
}

type finding struct {
	key    string
	detail string
}

// check compares the scheduler set with the stored tasks. knownExcluded reports whether an
// inactive-on-create task was found scheduled (and tolerated because the finding is open).
func (s *sut) check() (f *finding, knownExcluded bool) {
	stored := s.store.snapshot()
	want := map[scheduler.ID]*taskmodel.Task{}
	for _, t := range stored {
		if t.Status == string(taskmodel.TaskActive) {
			want[scheduler.ID(t.ID)] = t
		}
	}
	tainted := map[scheduler.ID]bool{}
	for _, m := range s.slots {
		if m.exists && m.tainted && !m.active {
			tainted[scheduler.ID(m.id)] = true
		}
	}
	// harness self-check: the model and the fake store agree on existence and status
	for _, m := range s.slots {
		_, inStore := func() (*taskmodel.Task, bool) {
			for _, t := range stored {
				if t.ID == m.id {
					return t, true
				}
			}
			return nil, false
		}()
		if inStore != m.exists {
			return &finding{"harness-model-store-mismatch", fmt.Sprintf("task %d exists: model %v, store %v", m.id, m.exists, inStore)}, false
		}
		if m.exists {
			if _, act := want[scheduler.ID(m.id)]; act != m.active {
				return &finding{"harness-model-store-mismatch", fmt.Sprintf("task %d active: model %v, store %v", m.id, m.active, act)}, false
			}
		}
	}
	got := s.sch.ids()
	for _, id := range got {
		if _, ok := want[id]; ok {
			continue
		}
		if tainted[id] {
			if ev.KnownOpen("C25", keyInactiveCreate) {
				knownExcluded = true
				continue
			}
			return &finding{keyInactiveCreate, fmt.Sprintf("task %d was created with status inactive and is scheduled", id)}, false
		}
		exists := false
		for _, t := range stored {
			if scheduler.ID(t.ID) == id {
				exists = true
			}
		}
		if exists {
			return &finding{"inactive-task-scheduled", fmt.Sprintf("task %d has status inactive but is in the scheduler set %v", id, got)}, knownExcluded
		}
		return &finding{"deleted-task-scheduled", fmt.Sprintf("task %d does not exist but is in the scheduler set %v", id, got)}, knownExcluded
	}
	ids := make([]scheduler.ID, 0, len(want))
	for id := range want {
		ids = append(ids, id)
	}
	sort.Slice(ids, func(i, j int) bool { return ids[i] < ids[j] })
	for _, id := range ids {
		t := want[id]
		sc, ok := s.sch.get(id)
		if !ok {
			return &finding{"active-task-not-scheduled", fmt.Sprintf("task %d is active but not in the scheduler set %v", id, got)}, knownExcluded
		}
		if same, why := sameSchedule(sc.sched, t.Every, t.Cron); !same {
			return &finding{"stale-schedule", fmt.Sprintf("task %d: scheduled with a schedule whose %s", id, why)}, knownExcluded
		}
		if sc.off != t.Offset {
			return &finding{"stale-offset", fmt.Sprintf("task %d: scheduled with offset %s, latest offset is %s", id, sc.off, t.Offset)}, knownExcluded
		}
	}
	return nil, knownExcluded
}

var errInjected = errors.New("injected scheduler failure")

// apply executes one operation against the system and the model. It returns a class label.
func (s *sut) apply(o op) (class string, f *finding) {
	ctx := context.Background()
	switch o.Kind {
	case "create":
		every, cron := o.Spec.Every, o.Spec.Cron
		off := time.Duration(*o.Offset)
		if o.FailSch {
			s.sch.mu.Lock()
			s.sch.failSchedule = errInjected
			s.sch.mu.Unlock()
		}
		tc := taskmodel.TaskCreate{
			Flux: fluxFor(fmt.Sprintf("t%d", len(s.slots)), every, cron, off), Status: *o.Status,
			OrganizationID: 1, OwnerID: 2,
		}
		t, err := s.svc.CreateTask(ctx, tc)
		s.sch.mu.Lock()
		consumed := o.FailSch && s.sch.failSchedule == nil
		s.sch.failSchedule = nil
		s.sch.mu.Unlock()
		active := *o.Status != "inactive"
		if consumed {
			// the Schedule call failed: CreateTask must report the error and remove the task again
			if err == nil {
				return "create:schedule-error", &finding{"create-swallowed-schedule-error", "CreateTask returned nil although the scheduler rejected the task"}
			}
			// (if it were left behind, the set comparison below reports it as an existing task)
			m := &mtask{}
			if t != nil {
				m.id = t.ID
				if _, ferr := s.store.FindTaskByID(ctx, t.ID); ferr == nil {
					m.exists, m.active, m.every, m.cron, m.offset = true, active, every, cron, off
				}
			}
			s.slots = append(s.slots, m)
			return "create:schedule-error", nil
		}
		if err != nil {
			return "create", &finding{"create-failed", fmt.Sprintf("CreateTask(%s) failed: %v", o, err)}
		}
		s.slots = append(s.slots, &mtask{id: t.ID, exists: true, active: active, every: every, cron: cron, offset: off, tainted: !active})
		if active {
			return "create:active", nil
		}
		return "create:inactive", nil

	case "update":
		var id platform.ID = 0xdead0000
		var m *mtask
		if o.Slot < len(s.slots) {
			m = s.slots[o.Slot]
			id = m.id
		}
		upd := taskmodel.TaskUpdate{Status: o.Status}
		if o.Spec != nil {
			if o.Spec.Every != "" {
				upd.Options.Every = *options.MustParseDuration(o.Spec.Every)
			} else {
				upd.Options.Cron = o.Spec.Cron
			}
		}
		if o.Offset != nil {
			upd.Options.Offset = options.MustParseDuration(time.Duration(*o.Offset).String())
		}
		if o.Desc {
			upd.Description = strp("described")
		}
		_, err := s.svc.UpdateTask(ctx, id, upd)
		if m == nil || !m.exists {
			if err == nil {
				return "update:missing", &finding{"update-of-missing-task-succeeded", fmt.Sprintf("UpdateTask(%d) of a task that does not exist returned nil", id)}
			}
			return "update:missing", nil
		}
		if err != nil {
			return "update", &finding{"update-failed", fmt.Sprintf("UpdateTask(%d, %s) failed: %v", id, o, err)}
		}
		was := m.active
		specChange := false
		if o.Spec != nil {
			ne, nc := o.Spec.Every, o.Spec.Cron
			specChange = ne != m.every || nc != m.cron
			m.every, m.cron = ne, nc
		}
		if o.Offset != nil {
			specChange = specChange || time.Duration(*o.Offset) != m.offset
			m.offset = time.Duration(*o.Offset)
		}
		if o.Status != nil {
			m.active = *o.Status == "active"
		}
		if m.active {
			m.tainted = false
		}
		switch {
		case !was && m.active:
			return "update:activate", nil
		case was && !m.active:
			return "update:deactivate", nil
		case was && specChange:
			return "update:spec-while-active", nil
		case !was && specChange:
			return "update:spec-while-inactive", nil
		case was:
			return "update:active-other", nil
		default:
			return "update:inactive-other", nil
		}

	case "delete":
		var id platform.ID = 0xdead0000
		var m *mtask
		if o.Slot < len(s.slots) {
			m = s.slots[o.Slot]
			id = m.id
		}
		err := s.svc.DeleteTask(ctx, id)
		if m == nil || !m.exists {
			if err == nil {
				return "delete:missing", &finding{"delete-of-missing-task-succeeded", fmt.Sprintf("DeleteTask(%d) of a task that does not exist returned nil", id)}
			}
			return "delete:missing", nil
		}
		if err != nil {
			return "delete", &finding{"delete-failed", fmt.Sprintf("DeleteTask(%d) failed: %v", id, err)}
		}
		m.exists, m.tainted = false, false
		if m.active {
			return "delete:active", nil
		}
		return "delete:inactive", nil

	case "restart":
		s.store.mu.Lock()
		s.store.pageSize = o.PageSize
		s.store.mu.Unlock()
		s.sch = newRecordingScheduler(s.strict)
		coord := coordinator.NewCoordinator(zap.NewNop(), s.sch, nopExecutor{})
		if err := backend.NotifyCoordinatorOfExisting(ctx, zap.NewNop(), s.store, coord); err != nil {
			return "restart", &finding{"restart-failed", fmt.Sprintf("NotifyCoordinatorOfExisting failed: %v", err)}
		}
		s.svc = middleware.New(s.store, coord)
		n := 0
		for _, m := range s.slots {
			m.tainted = false
			if m.exists {
				n++
			}
		}
		if n > o.PageSize {
			return "restart:multi-page", nil
		}
		return "restart:single-page", nil
	}
	return "?", &finding{"harness-unknown-op", o.Kind}
}

func TestPropOnlyActiveScheduled(t *testing.T) {
	rec.Assume("the in-harness fake task store (fake_test.go) mirrors kv.Service's create/update bookkeeping (default status active, every/cron replace each other, LatestCompleted moves forward only); the KV store itself is not exercised because it parses Flux")
	rec.Assume("schedules are compared through Schedule.Next at 5 probe instants against scheduler.NewSchedule of the task's latest cron/every string (the cron library is trusted)")
	rec.Check(t, 250000, 2000000, func(t *rapid.T) {
		strict := rapid.Bool().Draw(t, "strictRelease")
		s := newSUT(strict, rapid.IntRange(1, 3).Draw(t, "page"))
		n := rapid.IntRange(3, 24).Draw(t, "nops")
		var ops []op
		var canon strings.Builder
		sawCreateInactive, sawActivate, sawSpecActive, sawDelete := false, false, false, false
		excluded := false
		for i := 0; i < n; i++ {
			o := genOp(t, s.slots)
			ops = append(ops, o)
			canon.WriteString(o.String())
			canon.WriteByte(';')
			class, f := s.apply(o)
			rec.Class("op:" + class)
			switch class {
			case "create:inactive":
				sawCreateInactive = true
			case "update:activate":
				sawActivate = true
			case "update:spec-while-active":
				sawSpecActive = true
			case "delete:active", "delete:inactive":
				sawDelete = true
			}
			if f == nil {
				var ex bool
				f, ex = s.check()
				excluded = excluded || ex
			}
			if f != nil {
				if strings.HasPrefix(f.key, "harness-") {
					t.Fatalf("harness defect: %s: %s", f.key, f.detail)
				}
				rec.Fail(t, "TestPropOnlyActiveScheduled", f.key,
					fmt.Sprintf("after op %d (%s): %s; scheduler calls %v", i, o, f.detail, s.sch.calls),
					map[string]any{"strict_release": strict, "ops": ops})
			}
		}
		rec.Eval()
		if excluded {
			rec.ExcludedKnown(keyInactiveCreate)
			rec.Class("history:known-inactive-create-tolerated")
		}
		if sawCreateInactive && sawActivate && sawSpecActive && sawDelete {
			rec.NonTrivial(canon.String())
			rec.Class("history:non-trivial")
		}
		if rec.WantSample() && n >= 6 {
			rec.Sample(map[string]any{"strict_release": strict, "ops": ops})
		}
	})
}

// TestKnown_inactive_task_scheduled_on_create: a task created with status "inactive" through the
// coordinating task service is handed to the scheduler (Coordinator.TaskCreated schedules
// unconditionally), although after a restart the same task would not be scheduled.
func TestKnown_inactive_task_scheduled_on_create(t *testing.T) {
	s := newSUT(false, 3)
	st := "inactive"
	sp := spec{Every: "1h"}
	var off int64
	o := op{Kind: "create", Status: &st, Spec: &sp, Offset: &off}
	if _, f := s.apply(o); f != nil {
		t.Fatalf("setup: %s: %s", f.key, f.detail)
	}
	id := scheduler.ID(s.slots[0].id)
	_, scheduledAfterCreate := s.sch.get(id)
	calls := append([]string(nil), s.sch.calls...)
	// the same store after a restart: the inactive task is (correctly) skipped
	if _, f := s.apply(op{Kind: "restart", PageSize: 3}); f != nil {
		t.Fatalf("setup: %s: %s", f.key, f.detail)
	}
	_, scheduledAfterRestart := s.sch.get(id)
	rec.Known(t, "TestKnown_inactive_task_scheduled_on_create", keyInactiveCreate, scheduledAfterCreate,
		fmt.Sprintf("CreateTask with status inactive (every 1h) -> scheduler calls %v: the inactive task %d is in the scheduler set (after a restart over the same store it is scheduled: %v)", calls, id, scheduledAfterRestart),
		map[string]any{"ops": []op{o}})
}
