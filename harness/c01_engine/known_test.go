package c01_engine

import (
	"encoding/json"
	"os"
	"testing"

	"verifharness/internal/fix"
	"verifharness/internal/gen"
	"verifharness/internal/model"
)

// TestKnown_keycursor_cyclic_block_order: 13 single-point writes to ONE series field, each
// followed by a snapshot (13 TSM files, no compaction, no restart), the last one overwriting a
// timestamp written twice before. The block-location comparator KeyCursor sorts with (overlapping
// blocks by file path, others by min time) is not transitive on these 13 blocks, sort.Sort
// (pdqsort beyond 12 elements) puts an older file's block after the newest one, and the merge
// lets the older value win: a plain read returns 100 where 151 was written last.
func TestKnown_keycursor_cyclic_block_order(t *testing.T) {
	b, err := os.ReadFile("testdata/known_keycursor_cyclic.json")
	if err != nil {
		t.Fatal(err)
	}
	var rc replayCase
	if err := json.Unmarshal(b, &rc); err != nil {
		t.Fatal(err)
	}
	err = ReplayOps(rc.Ops, false)
	what := "13 one-point writes to m0,host=a field fi, each snapshotted to its own TSM file (timestamps 1,10,0,100,20,120,MIN+3,0,{MIN+3,10},150,30,40,MIN+3): the final read returns the older value 100 at MIN+3 instead of the last written 151 (KeyCursor sorts block locations with a non-transitive comparator; see testdata/known_keycursor_cyclic.json)"
	detail := ""
	if err != nil {
		detail = err.Error()
	}
	rec.Known(t, "TestKnown_keycursor_cyclic_block_order", fix.KeyCursorCyclicKey, err != nil, what, map[string]any{"ops": rc.Ops, "mismatch": detail})
}

// TestKnown_full_plan_skips_generation: with the shard considered cold (so that the planner's
// full plan is due), 8 snapshots + a level-1 compaction (-> 000000008-000000002), 8 more
// snapshots overwriting the same point (generations 9..16, which the same planning round hands
// to the level-1 plan and therefore holds), one more snapshot (17). The full plan then skips the
// held generations and merges {8-2, 17-1} into 000000017-000000002, which sorts after
// generations 9..16: the value written first (8) overrides the value written last (108).
func TestKnown_full_plan_skips_generation(t *testing.T) {
	w := func(ts int64, v int64) op {
		return op{Kind: "write", Points: []gen.WPoint{{Series: "m0,host=a", T: ts, Fields: map[string]model.Val{"fi": {K: model.Integer, I: v}}}}}
	}
	ops := []op{{Kind: "config", Arg: "cold"}}
	for i := 1; i <= 8; i++ {
		ops = append(ops, w(0, int64(i)), op{Kind: "snapshot"})
	}
	ops = append(ops, op{Kind: "compact", Arg: "level1"})
	for i := 1; i <= 8; i++ {
		ops = append(ops, w(0, int64(100+i)), op{Kind: "snapshot"})
	}
	ops = append(ops, w(10, 1), op{Kind: "snapshot"}, op{Kind: "compact", Arg: "full"})
	err := replayOps(ops, false, true)
	detail := ""
	if err != nil {
		detail = err.Error()
	}
	rec.Known(t, "TestKnown_full_plan_skips_generation", fix.FullPlanSkipsKey, err != nil,
		"cold shard: 8 snapshots of m0,host=a fi@0 (values 1..8), level-1 compaction, 8 more snapshots overwriting fi@0 (101..108), one snapshot of fi@10, then one planning round whose full plan merges generations {8,17} around the held generations 9..16: a read of fi@0 returns 8 instead of 108",
		map[string]any{"ops": ops, "mismatch": detail})
}
