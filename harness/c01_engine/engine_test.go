// C01 — Read-your-writes with last-write-wins across flushes and compactions.
//
// A rapid state machine over a real tsdb.Store/Shard/tsm1.Engine (tsi1 index, WAL on, background
// loops off, schedule owned through Engine.WriteSnapshot and the verif-only VerifCompactStep):
// write / bulk write / snapshot / compact(level1..3, full, forced full, optimize) / reopen, with
// generated reads after every step and a full scan in both directions at the end, compared with
// the last-write-wins point model.
package c01_engine

import (
	"fmt"
	"os"
	"strings"
	"testing"
	"time"

	"github.com/influxdata/influxdb/v2/models"
	"github.com/influxdata/influxdb/v2/pkg/verifhook"
	"github.com/influxdata/influxdb/v2/toml"
	"github.com/influxdata/influxdb/v2/tsdb"
	"pgregory.net/rapid"

	"verifharness/internal/ev"
	"verifharness/internal/fix"
	"verifharness/internal/gen"
	"verifharness/internal/model"
	"verifharness/internal/scratch"
)

var rec = ev.For("C01", "exploration",
	"case = one generated history (write/bulk/snapshot/compact/reopen steps over 3 series x 5 typed fields x a 24-slot timestamp grid plus extremes) with reads after every step; non-trivial = the history overwrites a (series,field,timestamp) that was already in a TSM file, a compaction that merged >=2 files ran after that overwrite, and a read covered it; distinct by the rendered op list")

type op struct {
	Kind   string       `json:"kind"`
	Points []gen.WPoint `json:"points,omitempty"`
	Arg    string       `json:"arg,omitempty"`
	N      int          `json:"n,omitempty"`
}

func renderOps(ops []op) string {
	var sb strings.Builder
	for _, o := range ops {
		sb.WriteString(o.Kind)
		if o.Arg != "" {
			sb.WriteString(":" + o.Arg)
			if o.Kind == "compact" {
				fmt.Fprintf(&sb, "(%d files)", o.N)
			}
		}
		for _, p := range o.Points {
			fmt.Fprintf(&sb, "[%s@%d", p.Series, p.T)
			for _, f := range gen.Fields {
				if v, ok := p.Fields[f.Name]; ok {
					fmt.Fprintf(&sb, " %s=%s", f.Name, v)
				}
			}
			sb.WriteString("]")
		}
		sb.WriteString(";")
	}
	return sb.String()
}

type machine struct {
	t       *rapid.T
	f       *fix.ShardFix
	m       *model.Store
	ops     []op
	seq     int
	inTSM   map[string]bool // series|field|ts present in some TSM file
	inCache map[string]bool // series|field|ts written since the last snapshot
	// non-trivial tracking
	overwroteTSM     bool
	compactAfterOver bool
	// tainted: a step matched an open known finding that invalidates later reads; the rest of the
	// history is not executed/checked (counted under excluded_known)
	tainted bool
}

func pkey(s, f string, ts int64) string { return fmt.Sprintf("%s|%s|%d", s, f, ts) }

func (mc *machine) fail(key, detail string) {
	rec.Fail(mc.t, "TestPropEngineHistory", key, detail+"\nhistory: "+renderOps(mc.ops), map[string]any{"ops": mc.ops})
}

func (mc *machine) write(pts []gen.WPoint, kind string) {
	var mp []models.Point
	for _, p := range pts {
		x, err := p.ToModelsPoint()
		if err != nil {
			mc.t.Fatalf("harness bug: cannot build point %+v: %v", p, err)
		}
		mp = append(mp, x)
	}
	mc.ops = append(mc.ops, op{Kind: kind, Points: pts})
	if err := mc.f.Write(mp); err != nil {
		mc.fail("write-rejected", fmt.Sprintf("WritePoints returned %v for a well-formed batch", err))
	}
	for _, p := range pts {
		for fn, v := range p.Fields {
			k := pkey(p.Series, fn, p.T)
			if mc.inTSM[k] {
				mc.overwroteTSM = true
				mc.compactAfterOver = false
			}
			mc.inCache[k] = true
			mc.m.Write(p.Series, fn, p.T, v)
		}
	}
}

func (mc *machine) checkRead(series, field string, lo, hi int64, asc bool, alsoQL bool) {
	want := mc.m.Range(series, field, lo, hi, asc)
	got, err := mc.f.Read(series, field, lo, hi, asc)
	if err != nil {
		mc.fail("read-error", fmt.Sprintf("cursor read %s %s [%d,%d] asc=%v: %v", series, field, lo, hi, asc, err))
	}
	if !model.EqualPoints(got, want) {
		if mc.knownCyclic(series, field, lo, hi, asc, got, want) {
			return
		}
		mc.fail("read-mismatch", fmt.Sprintf("cursor read %s %s [%d,%d] asc=%v\n got:  %s\n want: %s", series, field, lo, hi, asc, model.Render(got), model.Render(want)))
	}
	if alsoQL {
		got2, err := mc.f.ReadInfluxQL(series, field, gen.FieldKind(field), lo, hi, asc)
		if err != nil {
			mc.fail("iterator-read-error", fmt.Sprintf("iterator read %s %s [%d,%d] asc=%v: %v", series, field, lo, hi, asc, err))
		}
		if !model.EqualPoints(got2, want) && !mc.knownCyclic(series, field, lo, hi, asc, got2, want) {
			mc.fail("iterator-read-mismatch", fmt.Sprintf("InfluxQL iterator read %s %s [%d,%d] asc=%v\n got:  %s\n want: %s", series, field, lo, hi, asc, model.Render(got2), model.Render(want)))
		}
		rec.Class("read:via-influxql-iterator")
	}
	if len(want) > 0 {
		rec.Class("read:non-empty")
		mixed, tsm, cache := false, false, false
		for _, p := range want {
			k := pkey(series, field, p.T)
			if mc.inTSM[k] {
				tsm = true
			}
			if mc.inCache[k] {
				cache = true
			}
		}
		mixed = tsm && cache
		if mixed {
			rec.Class("read:spans-cache-and-tsm")
		}
		if !asc {
			rec.Class("read:descending")
		}
	} else {
		rec.Class("read:empty")
	}
}

// knownCyclic classifies a mismatch as exactly the open known finding keycursor-cyclic-block-order
// (see fix.StaleByCyclicOrder); it suppresses nothing once the finding is no longer listed open.
func (mc *machine) knownCyclic(series, field string, lo, hi int64, asc bool, got, want []model.Point) bool {
	if !ev.KnownOpen("C01", fix.KeyCursorCyclicKey) {
		return false
	}
	if ok, _ := fix.StaleByCyclicOrder(mc.f.DataDir(), mc.m, series, field, lo, hi, asc, got, want); ok {
		rec.ExcludedKnown(fix.KeyCursorCyclicKey)
		return true
	}
	return false
}

// doCompact runs one planner-driven compaction step and classifies its outcome.
func (mc *machine) doCompact(kind string) {
	before := mc.f.TSMFiles()
	g, err := mc.f.CompactGroup(kind)
	n := len(g)
	mc.ops = append(mc.ops, op{Kind: "compact", Arg: kind, N: n})
	if err != nil {
		mc.fail("compact-error", fmt.Sprintf("compaction step %s: %v", kind, err))
	}
	if nc, skipped := fix.NonContiguous(g, before); nc && ev.KnownOpen("C01", fix.FullPlanSkipsKey) {
		// the planner handed out a group that skips generation `skipped` (held by the level plans of
		// the same planning round): known finding; everything after this step may legitimately
		// read stale values, so this history ends here
		_ = skipped
		rec.ExcludedKnown(fix.FullPlanSkipsKey)
		rec.Class("step:compact-noncontiguous-group(known):" + kind)
		mc.tainted = true
		return
	}
	if n >= 2 {
		rec.Class("step:compact-merged:" + kind)
		if mc.overwroteTSM {
			mc.compactAfterOver = true
		}
	} else {
		rec.Class("step:compact-noop")
	}
}

func (mc *machine) fullScan() {
	for _, s := range gen.SeriesKeys {
		for _, f := range gen.Fields {
			for _, asc := range []bool{true, false} {
				mc.checkRead(s, f.Name, models.MinNanoTime, models.MaxNanoTime, asc, asc)
			}
		}
	}
}

func runHistory(t *rapid.T, steps func(mc *machine)) {
	dir, err := scratch.Dir("c01-")
	if err != nil {
		t.Fatalf("tempdir: %v", err)
	}
	defer os.RemoveAll(dir)
	f := &fix.ShardFix{Root: dir}
	cold := rapid.Bool().Draw(t, "fullCompactionAlwaysCold")
	if cold {
		// CompactFullWriteColdDuration ~ 0: the planner treats the shard as cold, so the non-forced
		// full and optimize plans become reachable without waiting hours
		f.Tweak = func(o *tsdb.EngineOptions) { o.Config.CompactFullWriteColdDuration = toml.Duration(1) }
		rec.Class("history:cold-full-compaction-enabled")
	}
	if err := f.Open(); err != nil {
		t.Fatalf("fixture: %v", err)
	}
	defer f.Close()
	mc := &machine{t: t, f: f, m: model.NewStore(), inTSM: map[string]bool{}, inCache: map[string]bool{}}
	if cold {
		mc.ops = append(mc.ops, op{Kind: "config", Arg: "cold"})
	}
	steps(mc)
	if !mc.tainted {
		mc.fullScan()
	}
	rec.Eval()
	if mc.overwroteTSM && mc.compactAfterOver {
		rec.NonTrivial(renderOps(mc.ops))
		rec.Class("history:non-trivial")
		if rec.WantSample() {
			rec.Sample(map[string]any{"ops": renderOps(mc.ops)})
		}
	}
	if mc.overwroteTSM {
		rec.Class("history:overwrote-tsm-resident-point")
	}
}

func (mc *machine) actions() map[string]func(*rapid.T) {
	return map[string]func(*rapid.T){
		"write": func(t *rapid.T) {
			if mc.tainted {
				return
			}
			mc.write(gen.Batch(t, "w", 12, &mc.seq), "write")
			rec.Class("step:write")
		},
		"snapshot": func(t *rapid.T) {
			if mc.tainted {
				return
			}
			mc.ops = append(mc.ops, op{Kind: "snapshot"})
			if err := mc.f.Snapshot(); err != nil {
				mc.fail("snapshot-error", fmt.Sprintf("WriteSnapshot: %v", err))
			}
			for k := range mc.inCache {
				mc.inTSM[k] = true
			}
			mc.inCache = map[string]bool{}
			rec.Class("step:snapshot")
		},
		// a write (overwrites included) and a full scan while a cache snapshot is in progress: the
		// values of the pending snapshot and the newer hot values are both in the cache
		"writeInSnapshotWindow": func(t *rapid.T) {
			if mc.tainted {
				return
			}
			pts := gen.Batch(t, "sw", 12, &mc.seq)
			mc.ops = append(mc.ops, op{Kind: "snapshotWindow:begin"})
			before := make([]string, 0, len(mc.inCache))
			for k := range mc.inCache {
				before = append(before, k)
			}
			root := mc.f.Root
			reachedCh, release, fired := make(chan struct{}, 1), make(chan struct{}), false
			verifhook.Set(func(name, detail string) {
				if name != "tsm1.snapshot.after-cache-snapshot" || !strings.HasPrefix(detail, root) || fired {
					return
				}
				fired = true
				reachedCh <- struct{}{}
				<-release
			})
			done := make(chan error, 1)
			go func() { done <- mc.f.Snapshot() }()
			reached := false
			select {
			case <-reachedCh:
				reached = true
			case err := <-done:
				done <- err
			case <-time.After(30 * time.Second):
				rec.Inconclusive("snapshot did not reach the hook point within 30s")
			}
			mc.write(pts, "write")
			if reached {
				mc.fullScan()
			}
			close(release)
			if err := <-done; err != nil {
				mc.fail("snapshot-error", fmt.Sprintf("WriteSnapshot around a concurrent write: %v", err))
			}
			verifhook.Set(nil)
			mc.ops = append(mc.ops, op{Kind: "snapshotWindow:end"})
			for _, k := range before {
				mc.inTSM[k] = true
			}
			if reached {
				rec.Class("step:write-and-scan-inside-snapshot-window")
			}
			mc.fullScan()
		},
		"compact": func(t *rapid.T) {
			if mc.tainted {
				return
			}
			kind := rapid.SampledFrom([]string{"level1", "level1", "level2", "level3", "full", "forcefull", "optimize"}).Draw(t, "kind")
			mc.doCompact(kind)
		},
		"reopen": func(t *rapid.T) {
			if mc.tainted {
				return
			}
			mc.ops = append(mc.ops, op{Kind: "reopen"})
			if err := mc.f.Reopen(); err != nil {
				mc.fail("reopen-error", fmt.Sprintf("close/open: %v", err))
			}
			rec.Class("step:reopen")
		},
		"": func(t *rapid.T) {
			if mc.tainted {
				return
			}
			for i := 0; i < 3; i++ {
				s := rapid.SampledFrom(gen.SeriesKeys).Draw(t, "rs")
				f := rapid.SampledFrom(gen.Fields).Draw(t, "rf")
				lo, hi := gen.Range(t, "rr")
				asc := rapid.Bool().Draw(t, "asc")
				mc.checkRead(s, f.Name, lo, hi, asc, i == 0)
			}
		},
	}
}

func TestPropEngineHistory(t *testing.T) {
	rec.Assume("reads are issued inside [models.MinNanoTime, models.MaxNanoTime] (what every production caller clamps to)")
	rec.Assume("snapshot/compaction placement is owned by the harness (Engine.WriteSnapshot, VerifCompactStep through the real planner/compactor/FileStore.Replace); the background ticker loop itself is not exercised in this test")
	rec.Assume("duplicates of one (series,field,timestamp) inside a single batch count as written in batch order")
	rec.CheckSteps(t, 120, 1200, 40, func(t *rapid.T) {
		runHistory(t, func(mc *machine) {
			acts := mc.actions()
			// rapid picks actions uniformly: alias the cheap, state-building ones so that the
			// expensive close/open is ~1/8 of the steps
			acts["write2"], acts["write3"] = acts["write"], acts["write"]
			acts["snapshot2"], acts["compact2"] = acts["snapshot"], acts["compact"]
			// bias towards runs of write+snapshot so that the planner's level thresholds are reached
			pre := rapid.SampledFrom([]int{0, 0, 0, 3, 8, 9, 13, 16, 17, 24, 33}).Draw(t, "presnaps")
			for i := 0; i < pre; i++ {
				acts["write"](t)
				acts["snapshot"](t)
			}
			t.Repeat(acts)
		})
	})
}

// TestPropEngineBulk pushes one key well past 1000 points (multi-block merge paths in cursors and
// compactions), overwrites a slice of it after a snapshot, compacts and reads back.
func TestPropEngineBulk(t *testing.T) {
	rec.Check(t, 6, 80, func(t *rapid.T) {
		runHistory(t, func(mc *machine) {
			series := rapid.SampledFrom(gen.SeriesKeys).Draw(t, "series")
			f := rapid.SampledFrom(gen.Fields).Draw(t, "field")
			rounds := rapid.IntRange(2, 4).Draw(t, "rounds")
			for r := 0; r < rounds; r++ {
				start := int64(rapid.IntRange(0, 1500).Draw(t, "start"))
				n := rapid.IntRange(600, 1400).Draw(t, "n")
				step := int64(rapid.IntRange(1, 3).Draw(t, "stride"))
				pts := make([]gen.WPoint, 0, n)
				for i := 0; i < n; i++ {
					mc.seq++
					pts = append(pts, gen.WPoint{Series: series, T: 1000 + start + int64(i)*step, Fields: map[string]model.Val{f.Name: gen.Value(t, "v", f.Kind, mc.seq)}})
				}
				// ops for bulk are summarised (points omitted from the rendered history to keep it small)
				var mp []models.Point
				for _, p := range pts {
					x, _ := p.ToModelsPoint()
					mp = append(mp, x)
				}
				mc.ops = append(mc.ops, op{Kind: "bulk", Arg: fmt.Sprintf("%s/%s start=%d n=%d stride=%d", series, f.Name, 1000+start, n, step)})
				if err := mc.f.Write(mp); err != nil {
					mc.fail("write-rejected", fmt.Sprintf("bulk WritePoints: %v", err))
				}
				for _, p := range pts {
					k := pkey(p.Series, f.Name, p.T)
					if mc.inTSM[k] {
						mc.overwroteTSM = true
						mc.compactAfterOver = false
					}
					mc.inCache[k] = true
					mc.m.Write(p.Series, f.Name, p.T, p.Fields[f.Name])
				}
				acts := mc.actions()
				if rapid.Bool().Draw(t, "snap") || r == 0 {
					acts["snapshot"](t)
				}
				if rapid.Bool().Draw(t, "cmp") {
					acts["compact"](t)
				}
				lo := int64(rapid.IntRange(900, 4000).Draw(t, "lo"))
				hi := lo + int64(rapid.IntRange(0, 3000).Draw(t, "span"))
				mc.checkRead(series, f.Name, lo, hi, rapid.Bool().Draw(t, "asc"), false)
			}
			rec.Class("history:bulk(>1000 points per key)")
			mc.doCompact("forcefull")
		})
	})
}
