package c01_engine

import (
	"encoding/json"
	"os"
	"testing"
)

// TestShrinkHelper (developer tool, not part of the check): greedy delta-debugging of a saved op
// list; VERIF_REPLAY = input JSON, VERIF_SHRINK_OUT = output JSON.
func TestShrinkHelper(t *testing.T) {
	in, out := os.Getenv("VERIF_REPLAY"), os.Getenv("VERIF_SHRINK_OUT")
	if in == "" || out == "" {
		t.Skip("developer tool")
	}
	b, _ := os.ReadFile(in)
	var rc replayCase
	if err := json.Unmarshal(b, &rc); err != nil {
		t.Fatal(err)
	}
	ops := rc.Ops
	if len(rc.Violations) > 0 {
		ops = rc.Violations[0].Case.Ops
	}
	fails := func(o []op) bool { return ReplayOps(o, false) != nil }
	if !fails(ops) {
		t.Fatal("input does not fail")
	}
	for changed := true; changed; {
		changed = false
		// drop points one at a time
		for i := 0; i < len(ops); i++ {
			for j := 0; j < len(ops[i].Points); j++ {
				cand := cloneOps(ops)
				cand[i].Points = append(cand[i].Points[:j:j], cand[i].Points[j+1:]...)
				if fails(cand) {
					ops, changed = cand, true
					j--
				}
			}
		}
		// drop fields
		for i := range ops {
			for j := range ops[i].Points {
				for fn := range ops[i].Points[j].Fields {
					if len(ops[i].Points[j].Fields) == 1 {
						break
					}
					cand := cloneOps(ops)
					delete(cand[i].Points[j].Fields, fn)
					if fails(cand) {
						ops, changed = cand, true
					}
				}
			}
		}
		// drop ops that are not snapshots following a non-empty write... try every op
		for i := 0; i < len(ops); i++ {
			cand := append(cloneOps(ops[:i]), cloneOps(ops[i+1:])...)
			if fails(cand) {
				ops, changed = cand, true
				i--
			}
		}
	}
	ob, _ := json.MarshalIndent(map[string]any{"ops": ops}, "", " ")
	os.WriteFile(out, ob, 0o644)
	t.Logf("shrunk to %d ops: %s", len(ops), renderOps(ops))
}

func cloneOps(in []op) []op {
	b, _ := json.Marshal(in)
	var out []op
	json.Unmarshal(b, &out)
	return out
}
