package c01_engine

import (
	"encoding/json"
	"fmt"
	"os"
	"testing"

	"github.com/influxdata/influxdb/v2/models"
	"github.com/influxdata/influxdb/v2/toml"
	"github.com/influxdata/influxdb/v2/tsdb"

	"verifharness/internal/fix"
	"verifharness/internal/gen"
	"verifharness/internal/model"
	"verifharness/internal/scratch"
)

// plainT adapts *testing.T to the machine's failure path without rapid.
type replayCase struct {
	Violations []struct {
		Test string `json:"test"`
		Case struct {
			Ops []op `json:"ops"`
		} `json:"case"`
	} `json:"violations"`
	Ops []op `json:"ops"`
}

// ReplayOps executes a saved op list against a fresh shard and returns the first mismatch.
func ReplayOps(ops []op, verbose bool) error { return replayOps(ops, verbose, false) }

func replayOps(ops []op, verbose, skipKnown bool) error {
	dir, err := scratch.Dir("c01-replay-")
	if err != nil {
		return err
	}
	defer os.RemoveAll(dir)
	f := &fix.ShardFix{Root: dir}
	if len(ops) > 0 && ops[0].Kind == "config" && ops[0].Arg == "cold" {
		f.Tweak = func(o *tsdb.EngineOptions) { o.Config.CompactFullWriteColdDuration = toml.Duration(1) }
	}
	if err := f.Open(); err != nil {
		return err
	}
	defer f.Close()
	m := model.NewStore()
	scan := func(step int, o op) error {
		for _, s := range gen.SeriesKeys {
			for _, fd := range gen.Fields {
				for _, asc := range []bool{true, false} {
					want := m.Range(s, fd.Name, models.MinNanoTime, models.MaxNanoTime, asc)
					got, err := f.Read(s, fd.Name, models.MinNanoTime, models.MaxNanoTime, asc)
					if err != nil {
						return fmt.Errorf("step %d (%s %s): read error %v", step, o.Kind, o.Arg, err)
					}
					if !model.EqualPoints(got, want) {
						if ok, why := fix.StaleByCyclicOrder(f.DataDir(), m, s, fd.Name, models.MinNanoTime, models.MaxNanoTime, asc, got, want); ok && skipKnown {
							if verbose {
								fmt.Printf("step %d: known cyclic-order mismatch on %s %s asc=%v (%s)\n", step, s, fd.Name, asc, why)
							}
							continue
						}
						blocks, _ := fix.KeyBlocks(f.DataDir(), []byte(s+"#!~#"+fd.Name), models.MinNanoTime, asc)
						fmt.Printf("blocks: %+v\n", blocks)
						return fmt.Errorf("step %d (%s %s): %s %s asc=%v\n got:  %s\n want: %s\n files: %v", step, o.Kind, o.Arg, s, fd.Name, asc, model.Render(got), model.Render(want), f.TSMFiles())
					}
				}
			}
		}
		return nil
	}
	extra := func(step int) {
		if os.Getenv("VERIF_REPLAY_EXTRA") == "" {
			return
		}
		var sk, fk string
		var lo, hi int64
		fmt.Sscanf(os.Getenv("VERIF_REPLAY_EXTRA"), "%s %s %d %d", &sk, &fk, &lo, &hi)
		want := m.Range(sk, fk, lo, hi, true)
		got, _ := f.Read(sk, fk, lo, hi, true)
		if !model.EqualPoints(got, want) {
			ok, why := fix.StaleByCyclicOrder(f.DataDir(), m, sk, fk, lo, hi, true, got, want)
			blocks, _ := fix.KeyBlocks(f.DataDir(), []byte(sk+"#!~#"+fk), lo, true)
			fmt.Printf("step %d EXTRA mismatch known=%v %s\n got %s\n want %s\n blocks %+v\n", step, ok, why, model.Render(got), model.Render(want), blocks)
		}
	}
	for i, o := range ops {
		extra(i)
		switch o.Kind {
		case "write":
			var mp []models.Point
			for _, p := range o.Points {
				x, err := p.ToModelsPoint()
				if err != nil {
					return err
				}
				mp = append(mp, x)
				for fn, v := range p.Fields {
					m.Write(p.Series, fn, p.T, v)
				}
			}
			if err := f.Write(mp); err != nil {
				return fmt.Errorf("step %d: write: %v", i, err)
			}
		case "snapshot", "snapshotWindow:end": // (a replay runs the window's snapshot after its write)
			if err := f.Snapshot(); err != nil {
				return fmt.Errorf("step %d: snapshot: %v", i, err)
			}
		case "compact":
			n, err := f.Compact(o.Arg)
			if err != nil {
				return fmt.Errorf("step %d: compact: %v", i, err)
			}
			if verbose {
				fmt.Printf("step %d compact %s merged %d files -> %v\n", i, o.Arg, n, f.TSMFiles())
			}
		case "reopen":
			if err := f.Reopen(); err != nil {
				return fmt.Errorf("step %d: reopen: %v", i, err)
			}
		}
		if err := scan(i, o); err != nil {
			return err
		}
	}
	return nil
}

// TestReplay re-executes a saved case (VERIF_REPLAY = a violations JSON written by the driver, or
// a file {"ops": [...]}) without rapid.
func TestReplay(t *testing.T) {
	p := os.Getenv("VERIF_REPLAY")
	if p == "" {
		t.Skip("VERIF_REPLAY not set")
	}
	b, err := os.ReadFile(p)
	if err != nil {
		t.Fatal(err)
	}
	var rc replayCase
	if err := json.Unmarshal(b, &rc); err != nil {
		t.Fatal(err)
	}
	ops := rc.Ops
	if len(rc.Violations) > 0 {
		ops = rc.Violations[0].Case.Ops
	}
	if err := replayOps(ops, true, os.Getenv("VERIF_REPLAY_SKIP_KNOWN") != ""); err != nil {
		t.Fatalf("VIOLATION-CANDIDATE property=C01: %v", err)
	}
}
