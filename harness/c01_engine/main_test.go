package c01_engine

import (
	"testing"

	"verifharness/internal/ev"
)

func TestMain(m *testing.M) { ev.Main(m) }
