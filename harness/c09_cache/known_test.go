package c09_cache

import (
	"fmt"
	"sync"
	"testing"

	"github.com/influxdata/influxdb/v2/tsdb"
	"github.com/influxdata/influxdb/v2/tsdb/engine/tsm1"
)

// TestKnown_size_stale_after_read_dedup: sequential, deterministic.
func TestKnown_size_stale_after_read_dedup(t *testing.T) {
	c := tsm1.NewCache(0, tsdb.EngineTags{})
	k := "k"
	_ = c.WriteMulti(map[string][]tsm1.Value{k: {tsm1.NewIntegerValue(1, 1)}})
	_ = c.WriteMulti(map[string][]tsm1.Value{k: {tsm1.NewIntegerValue(1, 2)}})
	before := c.Size()          // 33: two values of 16 bytes + key
	vals := c.Values([]byte(k)) // deduplicates the hot entry: one value left
	afterRead := c.Size()
	c.Delete([][]byte{[]byte(k)})
	afterDelete, keys := c.Size(), len(c.Keys())
	reproduced := len(vals) == 1 && keys == 0 && afterDelete != 0
	rec.Known(t, "TestKnown_size_stale_after_read_dedup", knownReadDedup, reproduced,
		fmt.Sprintf("WriteMulti{k:[1:a]}; WriteMulti{k:[1:b]} -> Size()=%d; Values(k) returns %d value, Size()=%d; Delete([k]) -> Keys()=[] but Size()=%d (want 0)", before, len(vals), afterRead, afterDelete),
		map[string]any{"ops": []string{"WriteMulti{k:[1:1]}", "WriteMulti{k:[1:2]}", "Values(k)", "Delete([k])", "Size()"}, "size": afterDelete})
}

// TestKnown_write_lost_to_concurrent_delete: the schedule is forced without hooks by making the
// window wide: entry.add checks the type of every value BEFORE taking the entry lock, so a
// WriteMulti of N values to an existing key spends O(N) between fetching the entry from the
// store and appending to it; Cache.Size() jumps just before that, which the deleting goroutine
// waits for.
//
//	k holds [1]            W = WriteMulti{k: N x (ts 5)}      D = DeleteRange([k], 1, 1)
//	W: size += 16N; e := store[k]; (type loop over N values ...)
//	D:                                   filter(e,1,1) empties e -> store.remove(k); size -= 16+len(k)
//	W:                                                                   ... e.add -> appended to the orphaned entry; returns nil
//
// Afterwards Values(k) is empty although ts 5 is outside [1,1], and Size() = 16N with no key held.
func TestKnown_write_lost_to_concurrent_delete(t *testing.T) {
	const N = 400_000
	reproduced := false
	var detail string
	for attempt := 0; attempt < 10 && !reproduced; attempt++ {
		c := tsm1.NewCache(0, tsdb.EngineTags{})
		k := "k"
		_ = c.WriteMulti(map[string][]tsm1.Value{k: {tsm1.NewIntegerValue(1, 1)}})
		base := c.Size()
		big := make([]tsm1.Value, N)
		v := tsm1.NewIntegerValue(5, 7)
		for i := range big {
			big[i] = v
		}
		var wg sync.WaitGroup
		var werr error
		wg.Add(1)
		go func() {
			defer wg.Done()
			werr = c.WriteMulti(map[string][]tsm1.Value{k: big})
		}()
		for c.Size() == base { // W has accounted its bytes and is about to fetch the entry
		}
		c.DeleteRange([][]byte{[]byte(k)}, 1, 1)
		wg.Wait()
		size := c.Size() // before the read below (which would deduplicate)
		vals := c.Values([]byte(k))
		held, _ := accounted(c)
		if werr == nil && len(vals) == 0 {
			reproduced = true
			detail = fmt.Sprintf("k holds [ts 1]; WriteMulti{k: %d x (ts 5)} returned nil concurrently with DeleteRange([k],1,1); afterwards Values(k) = [] (ts 5 was acknowledged and is outside the deleted range), Keys() = %d keys, Size() = %d but the held keys and values account for %d", N, len(c.Keys()), size, held)
		}
	}
	rec.Known(t, "TestKnown_write_lost_to_concurrent_delete", knownDeleteRaces, reproduced, detail,
		map[string]any{"schedule": "W: size+=16N, e:=store[k], type loop | D: filter empties e, store.remove(k) | W: e.add on orphaned entry"})
}

// TestKnown_read_truncated_by_concurrent_growth: Cache.Values sizes its result buffer from
// e.count() and copies e.values under a second acquisition of the entry lock; the allocation of
// the buffer in between is O(count), which makes the window wide for a large entry:
//
//	k holds ts 10..N+9 (sorted)     R = Values(k)     W = WriteMulti{k:[ts 1]}   D = DeleteRange([k],0,0)
//	R: e.deduplicate(); sz := e.count() = N; make(Values, N) ...
//	W:                                     append ts 1 (entry now unsorted, N+1 values)
//	D:                                     filter: sorts the entry -> [1, 10, ..., N+9]; nothing in [0,0]
//	R: copy(buf, e.values) copies the first N values: ts N+9 is cut off
//
// R misses ts N+9, which was written before R started and never deleted.
func TestKnown_read_truncated_by_concurrent_growth(t *testing.T) {
	const N = 30_000
	reproduced := false
	var detail string
	c := tsm1.NewCache(0, tsdb.EngineTags{})
	k := "k"
	base := make([]tsm1.Value, N)
	for i := range base {
		base[i] = tsm1.NewIntegerValue(int64(10+i), 1)
	}
	_ = c.WriteMulti(map[string][]tsm1.Value{k: base})
	maxTs := int64(10 + N - 1)
	spin := 0
	for attempt := 0; attempt < 60 && !reproduced; attempt++ {
		var got tsm1.Values
		var wg sync.WaitGroup
		started := make(chan struct{})
		wg.Add(1)
		go func() {
			defer wg.Done()
			close(started)
			got = c.Values([]byte(k))
		}()
		<-started
		// vary the delay between the start of the read and the write+sort
		for i := 0; i < (attempt%30)*1500; i++ {
			spin++
		}
		_ = c.WriteMulti(map[string][]tsm1.Value{k: {tsm1.NewIntegerValue(int64(-attempt-1), 2)}})
		c.DeleteRange([][]byte{[]byte(k)}, 0, 0)
		wg.Wait()
		if len(got) > 0 && got[len(got)-1].UnixNano() != maxTs {
			reproduced = true
			detail = fmt.Sprintf("k holds ts 10..%d; Values(k) concurrent with WriteMulti{k:[ts %d]} and DeleteRange([k],0,0) returned %d values ending at ts %d: ts %d (written before the read started, never deleted) is missing", maxTs, -attempt-1, len(got), got[len(got)-1].UnixNano(), maxTs)
		}
	}
	_ = spin
	rec.Known(t, "TestKnown_read_truncated_by_concurrent_growth", knownReadTruncated, reproduced, detail,
		map[string]any{"schedule": "R: sz:=e.count(); make(sz) | W: append smaller ts | D: filter sorts entry | R: copy first sz values"})
}

// TestKnown_first_use_init_race: Cache.init() publishes "initialised" (CAS on initializedCount)
// BEFORE it installs the ring under Cache.mu; a second goroutine's init() returns immediately
// and its WriteMulti fetches the emptyStore placeholder, whose write() accepts and drops
// everything. The same window re-opens after every Cache.Free() (idle shards are freed every
// 10 s by Store.monitorShards).
func TestKnown_first_use_init_race(t *testing.T) {
	const G = 8
	reproduced := false
	var detail string
	for iter := 0; iter < 6000 && !reproduced; iter++ {
		c := tsm1.NewCache(0, tsdb.EngineTags{})
		start := make(chan struct{})
		errs := make([]error, G)
		var wg sync.WaitGroup
		for g := 0; g < G; g++ {
			wg.Add(1)
			go func(g int) {
				defer wg.Done()
				<-start
				errs[g] = c.WriteMulti(map[string][]tsm1.Value{fmt.Sprintf("k%d", g): {tsm1.NewIntegerValue(1, int64(g))}})
			}(g)
		}
		close(start)
		wg.Wait()
		acked := 0
		for _, e := range errs {
			if e == nil {
				acked++
			}
		}
		if n := len(c.Keys()); n != acked {
			held, _ := accounted(c)
			reproduced = true
			detail = fmt.Sprintf("%d goroutines each WriteMulti one key into a fresh cache (iteration %d): %d writes returned nil, only %d keys are held; Size() = %d, held keys and values account for %d", G, iter, acked, n, c.Size(), held)
		}
	}
	rec.Known(t, "TestKnown_first_use_init_race", knownInitRace, reproduced, detail,
		map[string]any{"schedule": "A: init() CAS 0->1 | B: init() returns; store := c.store (emptyStore); emptyStore.write drops values, returns nil | A: c.store = newring()"})
}

const knownReadStaleSnapshot = "read-combines-cleared-snapshot-with-later-write"

// Cache.Values(k) looks up the hot and the snapshot entry under Cache.mu and reads their values
// after releasing it: a ClearSnapshot(true) followed by a WriteMulti to k in between gives a
// result that holds the (cleared) snapshot's values together with the later write, a union that
// never existed. Found by the porcupine-checked histories under heavy machine load (1 of ~250000
// histories); here the window is widened by an unsorted 30000-value snapshot entry, which the
// read sorts after releasing the lock.
func TestKnown_read_combines_cleared_snapshot_with_later_write(t *testing.T) {
	const N = 30_000
	reproduced := false
	var detail string
	k := "k"
	base := make([]tsm1.Value, N)
	for i := range base {
		base[i] = tsm1.NewIntegerValue(int64(10+N-i), 1) // descending: the entry needs sorting
	}
	spin := 0
	for attempt := 0; attempt < 200 && !reproduced; attempt++ {
		c := tsm1.NewCache(0, tsdb.EngineTags{})
		_ = c.WriteMulti(map[string][]tsm1.Value{k: base})
		if _, err := c.Snapshot(); err != nil {
			t.Fatal(err)
		}
		_ = c.WriteMulti(map[string][]tsm1.Value{k: {tsm1.NewIntegerValue(1, 2)}})
		var got tsm1.Values
		var wg sync.WaitGroup
		started := make(chan struct{})
		wg.Add(1)
		go func() {
			defer wg.Done()
			close(started)
			got = c.Values([]byte(k))
		}()
		<-started
		for i := 0; i < (attempt%40)*2000; i++ {
			spin++
		}
		c.ClearSnapshot(true)
		_ = c.WriteMulti(map[string][]tsm1.Value{k: {tsm1.NewIntegerValue(2, 3)}})
		wg.Wait()
		hasSnap, hasLater := false, false
		for _, v := range got {
			switch {
			case v.UnixNano() >= 10:
				hasSnap = true
			case v.UnixNano() == 2:
				hasLater = true
			}
		}
		if hasSnap && hasLater {
			reproduced = true
			detail = fmt.Sprintf("snapshot holds ts 11..%d of k, hot holds ts 1; Values(k) concurrent with ClearSnapshot(true); WriteMulti{k:[ts 2]} returned %d values holding the snapshot's values AND ts 2 (written after the snapshot was cleared)", 10+N, len(got))
		}
	}
	_ = spin
	rec.Known(t, "TestKnown_read_combines_cleared_snapshot_with_later_write", knownReadStaleSnapshot, reproduced, detail,
		map[string]any{"schedule": "R: look up hot+snapshot entries, release Cache.mu | C: ClearSnapshot(true) | W: append to the hot entry | R: copy snapshot entry, copy hot entry"})
}
