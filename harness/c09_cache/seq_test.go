package c09_cache

import (
	"errors"
	"fmt"
	"math"
	"sort"
	"strings"
	"testing"

	"github.com/influxdata/influxdb/v2/models"
	"github.com/influxdata/influxdb/v2/tsdb"
	"github.com/influxdata/influxdb/v2/tsdb/engine/tsm1"
	"pgregory.net/rapid"

	"verifharness/internal/ev"
)

const (
	knownReadDedup     = "size-stale-after-read-dedup"
	knownDeleteRaces   = "write-lost-to-concurrent-delete"
	knownReadTruncated = "read-truncated-by-concurrent-growth"
	knownInitRace      = "first-use-init-race"
)

var seqKeys = []string{"k", "m#!~#f", "cpu,host=a#!~#value", "a-rather-long-measurement-name,region=west,host=b#!~#fld"}

var modelTypes = []models.FieldType{0, models.Float, models.Integer, models.Unsigned, models.Boolean, models.String}

func wantFieldType(t byte) models.FieldType {
	switch t {
	case tFloat:
		return models.Float
	case tInt:
		return models.Integer
	case tUint:
		return models.Unsigned
	case tBool:
		return models.Boolean
	default:
		return models.String
	}
}

func isLimitErr(err error) bool {
	return err != nil && strings.HasPrefix(err.Error(), "cache-max-memory-size exceeded")
}

func genTs(t *rapid.T, label string) int64 {
	switch rapid.IntRange(0, 39).Draw(t, label+"-kind") {
	case 0:
		return math.MinInt64
	case 1:
		return math.MaxInt64
	case 2:
		return math.MaxInt64 - 1
	default:
		return int64(rapid.IntRange(0, 7).Draw(t, label))
	}
}

// seqMachine drives one real cache and the model side by side.
type seqMachine struct {
	c      *tsm1.Cache
	m      *seqModel
	snapH  *tsm1.Cache // handle returned by the last successful Snapshot()
	nextID int
	log    []string

	// facts for the non-trivial rule and the class histogram
	sawOverwriteOfSnapshot, sawLimitReject, sawConflictOneKey, sawRetrySnapshot, sawHotDup bool
}

func (s *seqMachine) logf(format string, a ...any) { s.log = append(s.log, fmt.Sprintf(format, a...)) }

func (s *seqMachine) fail(t *rapid.T, key, detail string) {
	rec.Fail(t, "TestPropCacheSequential", key, detail, map[string]any{"limit": s.m.limit, "ops": s.log})
}

func (s *seqMachine) checkValues(t *rapid.T, k string, why string) {
	want := s.m.values(k)
	gotV := s.c.Values([]byte(k))
	got, ok := fromValues(gotV)
	if !ok {
		s.fail(t, "values-foreign", fmt.Sprintf("%s: Values(%q) returned a value that was never written: %v", why, k, gotV))
	}
	s.logf("values(%q)=%s", k, fmtTVs(got))
	if !eqTVs(got, want) {
		s.fail(t, "values-mismatch", fmt.Sprintf("%s: Values(%q) = %s, want dedup(snapshot ++ hot) = %s", why, k, fmtTVs(got), fmtTVs(want)))
	}
}

func (s *seqMachine) checkSize(t *rapid.T, why string) {
	got, want := s.c.Size(), s.m.wantSize()
	if got != want {
		key := "size-mismatch"
		s.fail(t, key, fmt.Sprintf("%s: Size() = %d, accounted size of what is held = %d (hot %d + read-dedup bytes %d + snapshot %d)",
			why, got, want, s.m.heldHot(), s.m.driftHot, s.m.snapSize))
	}
}

func (s *seqMachine) checkKeys(t *rapid.T) {
	got := s.c.Keys()
	gs := make([]string, len(got))
	for i, k := range got {
		gs[i] = string(k)
	}
	if !sort.StringsAreSorted(gs) {
		s.fail(t, "keys-unsorted", fmt.Sprintf("Keys() = %q is not sorted", gs))
	}
	seen := map[string]bool{}
	for _, k := range gs {
		if seen[k] {
			s.fail(t, "keys-duplicate", fmt.Sprintf("Keys() = %q repeats %q", gs, k))
		}
		seen[k] = true
		if s.m.hot[k] == nil && s.m.snap[k] == nil {
			s.fail(t, "keys-unknown", fmt.Sprintf("Keys() = %q lists %q which holds no values", gs, k))
		}
	}
	for k := range s.m.hot {
		if !seen[k] {
			s.fail(t, "keys-missing", fmt.Sprintf("Keys() = %q misses hot key %q", gs, k))
		}
	}
}

func (s *seqMachine) write(t *rapid.T) {
	nk := rapid.IntRange(1, 3).Draw(t, "nkeys")
	perm := rapid.Permutation(seqKeys).Draw(t, "keys")[:nk]
	type kw struct {
		k        string
		vals     []tv
		conflict bool
	}
	var kws []kw
	for _, k := range perm {
		var typ byte
		wantConflict := false
		if h := s.m.hot[k]; h != nil {
			typ = h.typ
			wantConflict = rapid.IntRange(0, 4).Draw(t, "conflict") == 0
		} else if sn := s.m.snap[k]; sn != nil {
			// the statement is silent on a type that differs from the snapshot's only: keep it
			typ = sn.typ
		} else {
			typ = byte(rapid.IntRange(1, 5).Draw(t, "type"))
		}
		n := rapid.IntRange(1, 4).Draw(t, "nvals")
		vals := make([]tv, n)
		for i := range vals {
			s.nextID++
			vals[i] = tv{T: genTs(t, "ts"), Typ: typ, V: normPayload(typ, s.nextID)}
		}
		if wantConflict {
			other := byte(rapid.IntRange(1, 4).Draw(t, "othertype"))
			if other >= typ {
				other++
			}
			// either the whole slice or (mixed slice) just one element has the other type
			from := 0
			if n > 1 && rapid.Bool().Draw(t, "mixed") {
				from = rapid.IntRange(1, n-1).Draw(t, "mixedfrom")
			}
			for i := from; i < n; i++ {
				vals[i].Typ = other
				vals[i].V = normPayload(other, vals[i].V)
			}
		}
		kws = append(kws, kw{k: k, vals: vals})
	}

	// expected outcome
	var lo, hi uint64 = s.m.wantSize(), s.m.wantSize()
	anyConflict, anyStored := false, false
	for i := range kws {
		kws[i].conflict = s.m.conflicts(kws[i].k, kws[i].vals)
		sz := sizeOfAll(kws[i].vals)
		hi += sz
		if kws[i].conflict {
			anyConflict = true
			continue
		}
		anyStored = true
		lo += sz
		if s.m.hot[kws[i].k] == nil {
			hi += uint64(len(kws[i].k))
		}
	}
	mustReject := s.m.limit > 0 && lo > s.m.limit
	mustAccept := s.m.limit == 0 || hi <= s.m.limit

	arg := map[string][]tsm1.Value{}
	var desc []string
	for _, w := range kws {
		arg[w.k] = toValues(w.vals)
		desc = append(desc, fmt.Sprintf("%q:%s", w.k, fmtTVs(w.vals)))
	}
	before := map[string][]tv{}
	for _, k := range seqKeys {
		before[k] = s.m.peek(k)
	}
	err := s.c.WriteMulti(arg)
	s.logf("write{%s} -> %v", strings.Join(desc, " "), err)

	switch {
	case isLimitErr(err):
		if mustAccept {
			s.fail(t, "limit-rejects-fitting-write", fmt.Sprintf("WriteMulti rejected by the limit (%v) although size %d + everything the write could add = %d <= limit %d", err, s.m.wantSize(), hi, s.m.limit))
		}
		s.sawLimitReject = true
		rec.Class("seq:write:limit-rejected")
		// nothing of the write may be stored
		for _, k := range seqKeys {
			want := before[k]
			got, _ := fromValues(s.c.Values([]byte(k)))
			_ = s.m.values(k) // same physical side effect on the model
			if !eqTVs(got, want) {
				s.fail(t, "limit-reject-stored-values", fmt.Sprintf("after a write rejected by the limit Values(%q) = %s, before it was %s", k, fmtTVs(got), fmtTVs(want)))
			}
		}
		s.checkSize(t, "after limit-rejected write")
		return
	case mustReject:
		s.fail(t, "limit-not-enforced", fmt.Sprintf("WriteMulti returned %v although size %d + storable values = %d > limit %d", err, s.m.wantSize(), lo, s.m.limit))
	}
	// accepted (possibly partially)
	for _, w := range kws {
		if w.conflict {
			continue
		}
		// overwrite-of-snapshot fact
		if sn := s.m.snap[w.k]; sn != nil {
			for _, v := range w.vals {
				for _, o := range sn.raw {
					if o.T == v.T {
						s.sawOverwriteOfSnapshot = true
					}
				}
			}
		}
		if h := s.m.hot[w.k]; h != nil {
			for _, v := range w.vals {
				for _, o := range h.raw {
					if o.T == v.T {
						s.sawHotDup = true
					}
				}
			}
		}
		s.m.store(w.k, w.vals)
	}
	if anyConflict {
		if !errors.Is(err, tsdb.ErrFieldTypeConflict) {
			s.fail(t, "conflict-not-reported", fmt.Sprintf("WriteMulti returned %v, want ErrFieldTypeConflict for the conflicting key", err))
		}
		rec.Class("seq:write:type-conflict")
		if anyStored {
			s.sawConflictOneKey = true
		}
	} else if err != nil {
		s.fail(t, "write-unexpected-error", fmt.Sprintf("WriteMulti returned %v for a write without type conflict that fits the limit", err))
	} else {
		rec.Class("seq:write:ok")
	}
	// the keys of this write: conflicting ones unchanged, the others stored
	for _, w := range kws {
		s.checkValues(t, w.k, "after write")
	}
}

func (s *seqMachine) deleteRange(t *rapid.T) {
	nk := rapid.IntRange(1, 3).Draw(t, "nkeys")
	keys := append([]string(nil), rapid.Permutation(seqKeys).Draw(t, "keys")[:nk]...)
	sort.Strings(keys)
	bk := make([][]byte, len(keys))
	for i, k := range keys {
		bk[i] = []byte(k)
	}
	if rapid.IntRange(0, 4).Draw(t, "full") == 0 {
		s.c.Delete(bk)
		s.m.deleteRange(keys, math.MinInt64, math.MaxInt64)
		s.logf("delete%q", keys)
		rec.Class("seq:delete:full")
		return
	}
	a, b := genTs(t, "min"), genTs(t, "max")
	if a > b {
		a, b = b, a
	}
	s.c.DeleteRange(bk, a, b)
	s.m.deleteRange(keys, a, b)
	s.logf("deleteRange%q[%d,%d]", keys, a, b)
	rec.Class("seq:delete:range")
}

func (s *seqMachine) snapshot(t *rapid.T) {
	h, err := s.c.Snapshot()
	kind := s.m.snapshot()
	s.logf("snapshot -> %v (%s)", err, kind)
	rec.Class("seq:snapshot:" + kind)
	if kind == "inprogress" {
		if err != tsm1.ErrSnapshotInProgress {
			s.fail(t, "snapshot-not-exclusive", fmt.Sprintf("Snapshot() while one is in progress returned %v", err))
		}
		return
	}
	if err != nil || h == nil {
		s.fail(t, "snapshot-error", fmt.Sprintf("Snapshot() returned %v", err))
	}
	if kind == "retry" {
		s.sawRetrySnapshot = true
	}
	s.snapH = h
	s.checkSnapshotHandle(t)
}

// checkSnapshotHandle compares the handed-out snapshot with the model's snapshot content.
func (s *seqMachine) checkSnapshotHandle(t *rapid.T) {
	h := s.snapH
	if got := h.Size(); got != s.m.snapSize {
		s.fail(t, "snapshot-size", fmt.Sprintf("snapshot.Size() = %d, want the size saved when it was taken %d", got, s.m.snapSize))
	}
	var gs []string
	for _, k := range h.Keys() {
		gs = append(gs, string(k))
	}
	ws := sortedKeys(s.m.snap)
	if strings.Join(gs, "\x00") != strings.Join(ws, "\x00") {
		s.fail(t, "snapshot-keys", fmt.Sprintf("snapshot.Keys() = %q, want %q", gs, ws))
	}
	for _, k := range ws {
		s.m.snap[k].dedupHeld()
		got, _ := fromValues(h.Values([]byte(k)))
		if want := s.m.snap[k].raw; !eqTVs(got, want) {
			s.fail(t, "snapshot-content", fmt.Sprintf("snapshot.Values(%q) = %s, want %s", k, fmtTVs(got), fmtTVs(want)))
		}
	}
}

func (s *seqMachine) clearSnapshot(t *rapid.T) {
	if !s.m.snapshotting {
		t.Skip("no snapshot in progress") // caller protocol: only the snapshotter clears
	}
	ok := rapid.IntRange(0, 2).Draw(t, "success") != 0
	s.c.ClearSnapshot(ok)
	s.m.clearSnapshot(ok)
	s.logf("clearSnapshot(%v)", ok)
	rec.Class(fmt.Sprintf("seq:clear:%v", ok))
}

func (s *seqMachine) dedupSnapshot(t *rapid.T) {
	if !s.m.snapshotting || s.snapH == nil {
		t.Skip("no snapshot handle")
	}
	s.snapH.Deduplicate() // what the engine does right after Snapshot()
	for _, e := range s.m.snap {
		e.dedupHeld()
	}
	s.logf("snapshot.Deduplicate()")
	s.checkSnapshotHandle(t)
}

func (s *seqMachine) readType(t *rapid.T) {
	k := rapid.SampledFrom(seqKeys).Draw(t, "key")
	got, err := s.c.Type([]byte(k))
	s.logf("type(%q) -> %v %v", k, got, err)
	var want byte
	if h := s.m.hot[k]; h != nil {
		want = h.typ
	} else if sn := s.m.snap[k]; sn != nil {
		want = sn.typ
	}
	if want == 0 {
		if err == nil {
			s.fail(t, "type-of-absent-key", fmt.Sprintf("Type(%q) = %v for a key that holds no values", k, got))
		}
		return
	}
	if err != nil || got != wantFieldType(want) {
		s.fail(t, "type-mismatch", fmt.Sprintf("Type(%q) = %v, %v; want %v", k, got, err, wantFieldType(want)))
	}
}

func TestPropCacheSequential(t *testing.T) {
	countDrift := ev.KnownOpen("C09", knownReadDedup)
	rec.Assume("sequential machine: caller protocol of the engine is respected — ClearSnapshot only while a snapshot is in progress, every key of a WriteMulti map has >=1 value, DeleteRange gets unique keys and min<=max; the snapshot's share of Size() is the size saved when the snapshot was taken (Cache.snapshotSize), not re-measured after the snapshot is deduplicated")
	rec.CheckSteps(t, 3000, 100000, 40, func(t *rapid.T) {
		var limit uint64
		if rapid.IntRange(0, 4).Draw(t, "limited") != 0 {
			limit = uint64(rapid.IntRange(60, 1200).Draw(t, "limit"))
		}
		s := &seqMachine{c: tsm1.NewCache(limit, tsdb.EngineTags{}), m: newSeqModel(limit, countDrift)}
		t.Repeat(map[string]func(*rapid.T){
			"write":     s.write,
			"write2":    s.write,
			"write3":    s.write,
			"delete":    s.deleteRange,
			"snapshot":  s.snapshot,
			"clear":     s.clearSnapshot,
			"dedupsnap": s.dedupSnapshot,
			"values": func(t *rapid.T) {
				s.checkValues(t, rapid.SampledFrom(seqKeys).Draw(t, "key"), "read")
			},
			"type": s.readType,
			"": func(t *rapid.T) {
				s.checkSize(t, "after "+lastOf(s.log))
				s.checkKeys(t)
			},
		})
		// final full scan
		for _, k := range seqKeys {
			s.checkValues(t, k, "final scan")
		}
		s.checkSize(t, "final")

		rec.Eval()
		if s.m.drift() > 0 || s.sawHotDup {
			rec.Class("seq:history:hot-duplicate-timestamps")
		}
		if s.m.drift() > 0 && countDrift {
			// Size() was compared with held + read-dedup bytes, i.e. exactly the listed signature
			rec.ExcludedKnown(knownReadDedup)
		}
		for name, b := range map[string]bool{"overwrite-of-snapshot-ts": s.sawOverwriteOfSnapshot, "limit-reject": s.sawLimitReject,
			"conflict-one-key-of-map": s.sawConflictOneKey, "snapshot-retry-after-failure": s.sawRetrySnapshot} {
			if b {
				rec.Class("seq:history:" + name)
			}
		}
		if s.sawOverwriteOfSnapshot && s.sawLimitReject {
			rec.Class("seq:history:non-trivial")
			rec.NonTrivial("seq|" + strings.Join(s.log, "|"))
		}
		if rec.WantSample() && s.sawOverwriteOfSnapshot && s.sawLimitReject {
			rec.Sample(map[string]any{"harness": "sequential", "limit": limit, "ops": s.log})
		}
	})
}

func lastOf(log []string) string {
	if len(log) == 0 {
		return "start"
	}
	return log[len(log)-1]
}

var _ = modelTypes
