package c09_cache

import (
	"math"
	"sync"
	"testing"

	"github.com/influxdata/influxdb/v2/tsdb"
	"github.com/influxdata/influxdb/v2/tsdb/engine/tsm1"
)

func TestProbeOrphan(t *testing.T) {
	for iter := 0; iter < 20; iter++ {
		c := tsm1.NewCache(0, tsdb.EngineTags{})
		k := "k"
		if err := c.WriteMulti(map[string][]tsm1.Value{k: {tsm1.NewIntegerValue(1, 1)}}); err != nil {
			t.Fatal(err)
		}
		base := c.Size()
		const N = 2_000_000
		big := make([]tsm1.Value, N)
		v := tsm1.NewIntegerValue(5, 7)
		for i := range big {
			big[i] = v
		}
		var wg sync.WaitGroup
		wg.Add(1)
		go func() {
			defer wg.Done()
			if err := c.WriteMulti(map[string][]tsm1.Value{k: big}); err != nil {
				t.Error(err)
			}
		}()
		for c.Size() == base {
		}
		c.DeleteRange([][]byte{[]byte(k)}, 1, 1)
		wg.Wait()
		vals := c.Values([]byte(k))
		t.Logf("iter %d: values=%d size=%d keys=%d", iter, len(vals), c.Size(), len(c.Keys()))
	}
	_ = math.MaxInt64
}
