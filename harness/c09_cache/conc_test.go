package c09_cache

import (
	"errors"
	"fmt"
	"hash/fnv"
	"math"
	"runtime"
	"sort"
	"strings"
	"sync"
	"sync/atomic"
	"testing"
	"time"

	"github.com/anishathalye/porcupine"
	"github.com/influxdata/influxdb/v2/tsdb"
	"github.com/influxdata/influxdb/v2/tsdb/engine/tsm1"
	"pgregory.net/rapid"

	"verifharness/internal/ev"
)

// ---------------------------------------------------------------------------------------------
// workload

// keys of the concurrent workload: fixed value type per key, except conflictKey whose writes
// draw their type (so that type conflicts arise); conflictKey is only written by single-key maps
// so that the per-key outcome of every write is known.
var concKeys = []string{"a", "m#!~#f", "cpu,host=a#!~#v"}
var concTypes = map[string]byte{"a": tInt, "m#!~#f": tFloat, "cpu,host=a#!~#v": tString}

const conflictKey = "kc#!~#x"

// sentinelBase: in the "sentinel" profile every written slice carries one value with a unique
// timestamp >= sentinelBase, outside every partial delete range, so that DeleteRange's filter
// never empties an entry (see profile comment in genWorkload).
const sentinelBase = 1000

type cop struct {
	Kind    string          `json:"kind"` // W D V S C
	Keys    []string        `json:"keys,omitempty"`
	Vals    map[string][]tv `json:"vals,omitempty"`
	Min     int64           `json:"min,omitempty"`
	Max     int64           `json:"max,omitempty"`
	Success bool            `json:"success,omitempty"`
	Yield   int             `json:"yield,omitempty"`
}

func (o *cop) String() string {
	switch o.Kind {
	case "W":
		var parts []string
		for _, k := range o.Keys {
			parts = append(parts, fmt.Sprintf("%q:%s", k, fmtTVs(o.Vals[k])))
		}
		return "W{" + strings.Join(parts, " ") + "}"
	case "D":
		if o.Min == math.MinInt64 && o.Max == math.MaxInt64 {
			return fmt.Sprintf("Delete%q", o.Keys)
		}
		return fmt.Sprintf("D%q[%d,%d]", o.Keys, o.Min, o.Max)
	case "V":
		return fmt.Sprintf("V(%q)", o.Keys[0])
	case "S":
		return "S"
	default:
		return fmt.Sprintf("C(%v)", o.Success)
	}
}

// crec is one executed operation with its recorded interval and result.
type crec struct {
	G, I      int
	Op        *cop
	Call, Ret int64
	Outcome   string // W: ok|conflict|limit|other:<err>; S: ok|inprogress|other
	Vals      []tv   // V
	Foreign   bool   // a returned value was never written
	Snap      string // S ok: canonical content of the handed-out snapshot
}

func (r *crec) String() string {
	s := fmt.Sprintf("g%d#%d [%d,%d] %s", r.G, r.I, r.Call, r.Ret, r.Op)
	switch r.Op.Kind {
	case "W":
		s += " -> " + r.Outcome
	case "S":
		s += " -> " + r.Outcome
		if r.Outcome == "ok" {
			s += " {" + r.Snap + "}"
		}
	case "V":
		s += " -> " + fmtTVs(r.Vals)
	}
	return s
}

type workload struct {
	Limit   uint64 `json:"limit"`
	Exact   bool   `json:"unique_key_ts"`
	Profile string `json:"profile"` // sentinel | keymutex
	PreInit bool   `json:"pre_initialized"`
	// Lockstep: the goroutines meet at a spin barrier before their i-th operation, so that the
	// i-th operations start within a few instructions of each other
	Lockstep bool     `json:"lockstep"`
	Keys     []string `json:"keys"`
	Threads  [][]*cop `json:"threads"`
}

// genWorkload draws the per-goroutine op lists.
//
// Two profiles keep the race detector quiet about one unsynchronised field of the unchanged
// tree (entry.vtype is read without the entry lock in entry.add and written under it when the
// entry is empty; two writers meeting on an entry that DeleteRange has just filtered empty is
// a reported data race, part of known finding write-lost-to-concurrent-delete):
//   - "sentinel": concurrent writers on one key are allowed, but no partial DeleteRange can
//     empty an entry (every written slice carries a timestamp no partial range covers);
//   - "keymutex": any DeleteRange, but the harness serialises the writers of one key.
//
// Both restrictions exist only while that finding is open (restrict); otherwise the profile is
// "free": concurrent writers on one key AND deletes that empty entries.
func genWorkload(t *rapid.T, restrict bool) *workload {
	w := &workload{}
	w.Exact = rapid.Bool().Draw(t, "uniqueTs")
	w.Profile = rapid.SampledFrom([]string{"sentinel", "keymutex"}).Draw(t, "profile")
	if !restrict {
		w.Profile = "free"
	}
	w.Lockstep = rapid.IntRange(0, 3).Draw(t, "lockstep") != 0
	if rapid.IntRange(0, 3).Draw(t, "limited") == 0 {
		w.Limit = uint64(rapid.IntRange(80, 500).Draw(t, "limit"))
	}
	nk := rapid.IntRange(2, 3).Draw(t, "nkeys")
	w.Keys = append([]string(nil), concKeys[:nk]...)
	useConflict := rapid.IntRange(0, 2).Draw(t, "useConflictKey") == 0
	allKeys := append([]string(nil), w.Keys...)
	if useConflict {
		allKeys = append(allKeys, conflictKey)
	}
	g := rapid.IntRange(2, 6).Draw(t, "goroutines")
	total := rapid.IntRange(g*2, 24).Draw(t, "ops")
	id := 0
	nextTs := map[string]int64{}
	ts := func(k string) int64 {
		if w.Exact {
			nextTs[k]++
			return nextTs[k] - 1
		}
		return int64(rapid.IntRange(0, 5).Draw(t, "ts"))
	}
	maxTs := int64(5)
	if w.Exact {
		maxTs = 14
	}
	mkVals := func(k string, typ byte) []tv {
		n := rapid.IntRange(1, 3).Draw(t, "nvals")
		vs := make([]tv, n)
		for i := range vs {
			id++
			vs[i] = tv{T: ts(k), Typ: typ, V: normPayload(typ, id)}
		}
		if w.Profile == "sentinel" {
			id++
			vs = append(vs, tv{T: sentinelBase + int64(id), Typ: typ, V: normPayload(typ, id)})
		}
		if len(vs) > 1 && rapid.Bool().Draw(t, "unsorted") {
			vs[0], vs[len(vs)-1] = vs[len(vs)-1], vs[0]
		}
		return vs
	}
	w.Threads = make([][]*cop, g)
	for i := 0; i < total; i++ {
		gi := i % g
		o := &cop{Yield: rapid.IntRange(0, 3).Draw(t, "yield")}
		switch kind := rapid.IntRange(0, 19).Draw(t, "kind"); {
		case kind < 8: // write
			o.Kind = "W"
			o.Vals = map[string][]tv{}
			if useConflict && rapid.IntRange(0, 3).Draw(t, "toConflictKey") == 0 {
				typ := rapid.SampledFrom([]byte{tInt, tInt, tBool}).Draw(t, "ctype")
				o.Keys = []string{conflictKey}
				o.Vals[conflictKey] = mkVals(conflictKey, typ)
			} else {
				n := rapid.IntRange(1, 2).Draw(t, "wkeys")
				ks := append([]string(nil), rapid.Permutation(w.Keys).Draw(t, "wkeyset")[:n]...)
				sort.Strings(ks)
				o.Keys = ks
				for _, k := range ks {
					o.Vals[k] = mkVals(k, concTypes[k])
				}
			}
		case kind < 12: // delete
			o.Kind = "D"
			n := rapid.IntRange(1, 2).Draw(t, "dkeys")
			ks := append([]string(nil), rapid.Permutation(allKeys).Draw(t, "dkeyset")[:n]...)
			sort.Strings(ks)
			o.Keys = ks
			if rapid.IntRange(0, 3).Draw(t, "full") == 0 {
				o.Min, o.Max = math.MinInt64, math.MaxInt64
			} else {
				a := int64(rapid.IntRange(0, int(maxTs)).Draw(t, "dmin"))
				b := int64(rapid.IntRange(0, int(maxTs)).Draw(t, "dmax"))
				if a > b {
					a, b = b, a
				}
				o.Min, o.Max = a, b
			}
		case kind < 16: // read
			o.Kind = "V"
			o.Keys = []string{rapid.SampledFrom(allKeys).Draw(t, "vkey")}
		case kind < 18:
			o.Kind = "S"
		default:
			o.Kind = "C"
			o.Success = rapid.IntRange(0, 3).Draw(t, "success") != 0
		}
		w.Threads[gi] = append(w.Threads[gi], o)
	}
	return w
}

// ---------------------------------------------------------------------------------------------
// execution

func snapContent(h *tsm1.Cache) (string, bool) {
	var parts []string
	ok := true
	for _, k := range h.Keys() {
		vs, good := fromValues(h.Values(k))
		ok = ok && good
		parts = append(parts, fmt.Sprintf("%s=%s", k, fmtTVs(vs)))
	}
	return strings.Join(parts, ";"), ok
}

type runResult struct {
	recs   []*crec
	holder *tsm1.Cache // snapshot still in progress at the end (nil if none)
	c      *tsm1.Cache
}

// runWorkload executes the threads on real goroutines. engineMu reproduces the one exclusion
// the engine provides around the cache: Cache.Snapshot() runs under the engine's write lock,
// Cache.WriteMulti under its read lock (engine.go WritePoints / WriteSnapshot); deletes,
// snapshot clears and reads take no engine lock.
func runWorkload(w *workload) *runResult {
	c := tsm1.NewCache(w.Limit, tsdb.EngineTags{})
	if w.PreInit {
		// the store is allocated lazily by the first operation: do that before the goroutines
		// start (known finding first-use-init-race)
		c.Delete([][]byte{[]byte("\x00never-written")})
	}
	var clock atomic.Int64
	var engineMu sync.RWMutex
	keyMu := map[string]*sync.Mutex{conflictKey: {}}
	for _, k := range concKeys {
		keyMu[k] = &sync.Mutex{}
	}
	var holderMu sync.Mutex
	var holder *tsm1.Cache
	var holderG = -1
	var ready atomic.Int32 // spin barrier: all goroutines leave it within a few instructions of each other
	rounds := 0
	for _, th := range w.Threads {
		if len(th) > rounds {
			rounds = len(th)
		}
	}
	arrived := make([]atomic.Int32, rounds)
	expect := make([]int32, rounds)
	for _, th := range w.Threads {
		for i := range th {
			expect[i]++
		}
	}
	out := make([][]*crec, len(w.Threads))
	var wg sync.WaitGroup
	for gi := range w.Threads {
		wg.Add(1)
		go func(gi int) {
			defer wg.Done()
			ready.Add(1)
			for int(ready.Load()) < len(w.Threads) {
				runtime.Gosched()
			}
			for i, o := range w.Threads[gi] {
				if w.Lockstep {
					arrived[i].Add(1)
					for arrived[i].Load() < expect[i] {
						runtime.Gosched()
					}
				}
				for y := 0; y < o.Yield; y++ {
					runtime.Gosched()
				}
				r := &crec{G: gi, I: i, Op: o}
				switch o.Kind {
				case "W":
					arg := make(map[string][]tsm1.Value, len(o.Keys))
					for _, k := range o.Keys {
						arg[k] = toValues(o.Vals[k])
					}
					if w.Profile == "keymutex" {
						for _, k := range o.Keys { // sorted: no deadlock
							keyMu[k].Lock()
						}
					}
					engineMu.RLock()
					r.Call = clock.Add(1)
					err := c.WriteMulti(arg)
					r.Ret = clock.Add(1)
					engineMu.RUnlock()
					if w.Profile == "keymutex" {
						for _, k := range o.Keys {
							keyMu[k].Unlock()
						}
					}
					switch {
					case err == nil:
						r.Outcome = "ok"
					case errors.Is(err, tsdb.ErrFieldTypeConflict):
						r.Outcome = "conflict"
					case isLimitErr(err):
						r.Outcome = "limit"
					default:
						r.Outcome = "other:" + err.Error()
					}
				case "D":
					bk := make([][]byte, len(o.Keys))
					for j, k := range o.Keys {
						bk[j] = []byte(k)
					}
					r.Call = clock.Add(1)
					c.DeleteRange(bk, o.Min, o.Max)
					r.Ret = clock.Add(1)
				case "V":
					r.Call = clock.Add(1)
					vs := c.Values([]byte(o.Keys[0]))
					r.Ret = clock.Add(1)
					var ok bool
					r.Vals, ok = fromValues(vs)
					r.Foreign = !ok
				case "S":
					engineMu.Lock()
					r.Call = clock.Add(1)
					h, err := c.Snapshot()
					r.Ret = clock.Add(1)
					engineMu.Unlock()
					switch {
					case err == nil && h != nil:
						r.Outcome = "ok"
						holderMu.Lock()
						holder, holderG = h, gi
						holderMu.Unlock()
						var ok bool
						r.Snap, ok = snapContent(h)
						r.Foreign = !ok
					case err == tsm1.ErrSnapshotInProgress:
						r.Outcome = "inprogress"
					default:
						r.Outcome = fmt.Sprintf("other:%v", err)
					}
				case "C":
					// caller protocol: only the goroutine whose Snapshot() succeeded clears it
					holderMu.Lock()
					mine := holder != nil && holderG == gi
					holderMu.Unlock()
					if !mine {
						continue
					}
					r.Call = clock.Add(1)
					c.ClearSnapshot(o.Success)
					r.Ret = clock.Add(1)
					holderMu.Lock()
					holder, holderG = nil, -1
					holderMu.Unlock()
				}
				out[gi] = append(out[gi], r)
			}
		}(gi)
	}
	wg.Wait()
	res := &runResult{c: c, holder: holder}
	for _, rs := range out {
		res.recs = append(res.recs, rs...)
	}
	sort.Slice(res.recs, func(i, j int) bool { return res.recs[i].Call < res.recs[j].Call })
	return res
}

// ---------------------------------------------------------------------------------------------
// porcupine model (logical content only: sizes are checked at quiescence)

type pent struct {
	typ  byte
	vals []tv // sorted by timestamp, one per timestamp
}

type pstate struct {
	hot, snap    map[string]pent
	snapshotting bool
	// only under relaxation: a snapshot without keys is kept for retry because the size saved
	// with it was positive (size drift of a known finding)
	retainedEmpty bool
	canon         string
}

func canonMap(m map[string]pent) string {
	ks := make([]string, 0, len(m))
	for k := range m {
		ks = append(ks, k)
	}
	sort.Strings(ks)
	var parts []string
	for _, k := range ks {
		parts = append(parts, fmt.Sprintf("%s=%s", k, fmtTVs(m[k].vals)))
	}
	return strings.Join(parts, ";")
}

func mkState(hot, snap map[string]pent, snapshotting, retainedEmpty bool) *pstate {
	return &pstate{hot: hot, snap: snap, snapshotting: snapshotting, retainedEmpty: retainedEmpty,
		canon: fmt.Sprintf("H{%s}S{%s}%v%v", canonMap(hot), canonMap(snap), snapshotting, retainedEmpty)}
}

func cloneMap(m map[string]pent) map[string]pent {
	n := make(map[string]pent, len(m)+1)
	for k, v := range m {
		n[k] = v
	}
	return n
}

type pin struct {
	kind     string // Wk D V S Ck Cfin
	key      string
	vals     []tv
	keys     []string
	min      int64
	max      int64
	success  bool
	racy     bool // Wk whose interval overlaps a DeleteRange naming the same key
	racyRead bool // V whose interval overlaps a WriteMulti naming the same key
	limited  bool
	desc     string
}

type pout struct {
	outcome string
	vals    []tv
	snap    string
}

// relax selects the behaviours of OPEN known findings that the relaxed model admits on top of
// the statement (used only to classify a history the strict model rejected).
type relax struct {
	dropRacyWrite bool // write-lost-to-concurrent-delete: the values of a racy Wk may vanish
	sizeDrift     bool // ...or size-stale-after-read-dedup: an empty snapshot may be kept for retry
	freeRacyRead  bool // read-truncated-by-concurrent-growth: a racy V may return a partial view
}

func (r relax) any() bool { return r.dropRacyWrite || r.sizeDrift || r.freeRacyRead }

// pstep returns the possible next states (more than one only under relaxation).
func pstep(st *pstate, in *pin, out *pout, rx relax) []*pstate {
	switch in.kind {
	case "Wk":
		h, exists := st.hot[in.key]
		conflict := false
		if exists {
			for _, v := range in.vals {
				if v.Typ != h.typ {
					conflict = true
				}
			}
		}
		switch out.outcome {
		case "limit":
			// the decision itself is checked by the sequential machine; here: no effect
			if !in.limited {
				return nil
			}
			return []*pstate{st}
		case "conflict":
			if !conflict {
				return nil
			}
			return []*pstate{st}
		case "ok":
			var res []*pstate
			if !conflict {
				nh := cloneMap(st.hot)
				typ := in.vals[0].Typ
				if exists {
					typ = h.typ
				}
				nh[in.key] = pent{typ: typ, vals: dedup(append(append([]tv(nil), h.vals...), in.vals...))}
				res = append(res, mkState(nh, st.snap, st.snapshotting, st.retainedEmpty))
			}
			if rx.dropRacyWrite && in.racy {
				res = append(res, st) // the acknowledged values of this key are dropped
			}
			return res
		}
		return nil
	case "D":
		nh := cloneMap(st.hot)
		for _, k := range in.keys {
			h, ok := nh[k]
			if !ok {
				continue
			}
			rest := exclude(h.vals, in.min, in.max)
			if len(rest) == 0 {
				delete(nh, k)
			} else {
				nh[k] = pent{typ: h.typ, vals: rest}
			}
		}
		return []*pstate{mkState(nh, st.snap, st.snapshotting, st.retainedEmpty)}
	case "V":
		if rx.freeRacyRead && in.racyRead {
			return []*pstate{st}
		}
		var all []tv
		all = append(all, st.snap[in.key].vals...)
		all = append(all, st.hot[in.key].vals...)
		if !eqTVs(dedup(all), out.vals) {
			return nil
		}
		return []*pstate{st}
	case "S":
		if st.snapshotting {
			if out.outcome != "inprogress" {
				return nil
			}
			return []*pstate{st}
		}
		if out.outcome != "ok" {
			return nil
		}
		var res []*pstate
		switch {
		case len(st.snap) > 0 || st.retainedEmpty:
			// failed snapshot handed out again, unchanged
			res = append(res, mkState(st.hot, st.snap, true, st.retainedEmpty))
		default:
			res = append(res, mkState(map[string]pent{}, st.hot, true, false))
			if rx.sizeDrift && len(st.hot) == 0 {
				res = append(res, mkState(map[string]pent{}, st.hot, true, true))
			}
		}
		var ok []*pstate
		for _, ns := range res {
			if canonMap(ns.snap) == out.snap {
				ok = append(ok, ns)
			}
		}
		return ok
	case "Ck": // ClearSnapshot(true) empties the snapshot store partition by partition
		if !st.snapshotting {
			return nil
		}
		if _, ok := st.snap[in.key]; !ok {
			return []*pstate{st}
		}
		nsn := cloneMap(st.snap)
		delete(nsn, in.key)
		return []*pstate{mkState(st.hot, nsn, true, st.retainedEmpty)}
	case "Cfin":
		if !st.snapshotting {
			return nil
		}
		if in.success {
			return []*pstate{mkState(st.hot, map[string]pent{}, false, false)}
		}
		return []*pstate{mkState(st.hot, st.snap, false, st.retainedEmpty)}
	}
	return nil
}

func hashStr(s string) uint64 {
	h := fnv.New64a()
	h.Write([]byte(s))
	return h.Sum64()
}

func mkModel(rx relax) porcupine.Model {
	if !rx.any() {
		return porcupine.Model{
			Init: func() interface{} { return mkState(map[string]pent{}, map[string]pent{}, false, false) },
			Step: func(state, input, output interface{}) (bool, interface{}) {
				ns := pstep(state.(*pstate), input.(*pin), output.(*pout), rx)
				if len(ns) == 0 {
					return false, state
				}
				return true, ns[0]
			},
			Equal:             func(a, b interface{}) bool { return a.(*pstate).canon == b.(*pstate).canon },
			Hash:              func(a interface{}) uint64 { return hashStr(a.(*pstate).canon) },
			DescribeOperation: func(input, output interface{}) string { return input.(*pin).desc },
		}
	}
	nm := porcupine.NondeterministicModel{
		Init: func() []interface{} {
			return []interface{}{mkState(map[string]pent{}, map[string]pent{}, false, false)}
		},
		Step: func(state, input, output interface{}) []interface{} {
			ns := pstep(state.(*pstate), input.(*pin), output.(*pout), rx)
			res := make([]interface{}, len(ns))
			for i, s := range ns {
				res[i] = s
			}
			return res
		},
		Equal: func(a, b interface{}) bool { return a.(*pstate).canon == b.(*pstate).canon },
	}
	return nm.ToModel()
}

func overlap(a, b *crec) bool { return a.Call <= b.Ret && b.Call <= a.Ret }

func hasKey(ks []string, k string) bool {
	for _, x := range ks {
		if x == k {
			return true
		}
	}
	return false
}

// buildHistory turns the recorded operations into porcupine operations. A multi-key WriteMulti
// becomes one sub-operation per key and ClearSnapshot(true) one per key plus a final one, all
// with the interval of the call: neither is atomic across keys and the statement does not ask
// for that.
func buildHistory(w *workload, recs []*crec, allKeys []string) (ops []porcupine.Operation, racyBytes []uint64, racyReads int) {
	for _, r := range recs {
		add := func(in *pin, out *pout) {
			in.desc = r.String()
			ops = append(ops, porcupine.Operation{ClientId: r.G, Input: in, Call: r.Call, Output: out, Return: r.Ret})
		}
		switch r.Op.Kind {
		case "W":
			for _, k := range r.Op.Keys {
				in := &pin{kind: "Wk", key: k, vals: r.Op.Vals[k], limited: w.Limit > 0}
				for _, d := range recs {
					if d.Op.Kind == "D" && hasKey(d.Op.Keys, k) && overlap(r, d) {
						in.racy = true
					}
				}
				if in.racy && r.Outcome == "ok" {
					racyBytes = append(racyBytes, sizeOfAll(in.vals))
				}
				add(in, &pout{outcome: r.Outcome})
			}
		case "D":
			add(&pin{kind: "D", keys: r.Op.Keys, min: r.Op.Min, max: r.Op.Max}, &pout{})
		case "V":
			in := &pin{kind: "V", key: r.Op.Keys[0]}
			for _, o := range recs {
				if o.Op.Kind == "W" && hasKey(o.Op.Keys, in.key) && overlap(r, o) {
					in.racyRead = true
				}
			}
			if in.racyRead {
				racyReads++
			}
			add(in, &pout{vals: r.Vals})
		case "S":
			add(&pin{kind: "S"}, &pout{outcome: r.Outcome, snap: r.Snap})
		case "C":
			if r.Op.Success {
				for _, k := range allKeys {
					add(&pin{kind: "Ck", key: k}, &pout{})
				}
			}
			add(&pin{kind: "Cfin", success: r.Op.Success}, &pout{})
		}
	}
	return ops, racyBytes, racyReads
}

// subsetSum reports whether d is the sum of a non-empty subset of xs.
func subsetSum(xs []uint64, d uint64) bool {
	if len(xs) > 20 {
		xs = xs[:20]
	}
	for mask := 1; mask < 1<<len(xs); mask++ {
		var s uint64
		for i, x := range xs {
			if mask&(1<<i) != 0 {
				s += x
			}
		}
		if s == d {
			return true
		}
	}
	return false
}

func accounted(h *tsm1.Cache) (uint64, bool) {
	var n uint64
	ok := true
	for _, k := range h.Keys() {
		vs, good := fromValues(h.Values(k))
		ok = ok && good
		n += uint64(len(k)) + sizeOfAll(vs)
	}
	return n, ok
}

func porcupineTimeout() time.Duration {
	if ev.Thorough() {
		return 10 * time.Second
	}
	return 5 * time.Second
}

const concTest = "TestPropCacheConcurrent"

func TestPropCacheConcurrent(t *testing.T) {
	rec.Assume("concurrent harness: Cache.Snapshot() is never concurrent with Cache.WriteMulti (the engine calls them under its write/read lock; the harness uses an RWMutex the same way) and ClearSnapshot is called only by the goroutine whose Snapshot() succeeded; recorded intervals use a process-wide atomic counter; a multi-key WriteMulti and ClearSnapshot(true) are checked per key (no cross-key atomicity is demanded); the limit DECISION is only checked sequentially, concurrently a limit rejection must have no effect and must be possible at all; Cache.Free/SetMaxSize are not part of the mix")
	openDelete := ev.KnownOpen("C09", knownDeleteRaces)
	openDedup := ev.KnownOpen("C09", knownReadDedup)
	openTrunc := ev.KnownOpen("C09", knownReadTruncated)
	openInit := ev.KnownOpen("C09", knownInitRace)
	strict := mkModel(relax{})
	rec.Check(t, 5000, 100000, func(t *rapid.T) {
		w := genWorkload(t, openDelete)
		w.PreInit = openInit
		if openInit {
			rec.ExcludedKnown(knownInitRace) // excluded by construction: the store is allocated before the goroutines start
		}
		res := runWorkload(w)
		allKeys := append([]string(nil), w.Keys...)
		allKeys = append(allKeys, conflictKey)
		caseJSON := func() any {
			var h []string
			for _, r := range res.recs {
				h = append(h, r.String())
			}
			return map[string]any{"workload": w, "history": h}
		}
		rec.Eval()
		rec.Class("conc:profile:" + w.Profile)

		ops, racyBytes, racyReads := buildHistory(w, res.recs, allKeys)

		// --- direct checks on single results
		writtenBefore := func(r *crec) uint64 { // upper bound of what writes invoked before r returned can account
			var n uint64
			for _, o := range res.recs {
				if o.Op.Kind == "W" && o != r && o.Call < r.Ret {
					for _, k := range o.Op.Keys {
						n += sizeOfAll(o.Op.Vals[k]) + uint64(len(k))
					}
				}
			}
			return n
		}
		for _, r := range res.recs {
			if r.Foreign {
				rec.Fail(t, concTest, "foreign-value", "a read returned a value that was never written: "+r.String(), caseJSON())
			}
			if r.Op.Kind == "W" {
				switch {
				case strings.HasPrefix(r.Outcome, "other"):
					rec.Fail(t, concTest, "write-unexpected-error", r.String(), caseJSON())
				case r.Outcome == "conflict" && r.Op.Keys[0] != conflictKey:
					rec.Fail(t, concTest, "conflict-without-conflicting-type", "type conflict reported for keys that are only ever written with one type: "+r.String(), caseJSON())
				case r.Outcome == "limit":
					rec.Class("conc:write:limit-rejected")
					var added uint64
					for _, k := range r.Op.Keys {
						added += sizeOfAll(r.Op.Vals[k])
					}
					// with a write racing a delete of its key the size is transiently (and, by the
					// known finding, permanently) off: the bound below only holds without such a race
					if w.Limit == 0 || (len(racyBytes) == 0 && writtenBefore(r)+added <= w.Limit) {
						rec.Fail(t, concTest, "limit-rejects-fitting-write",
							fmt.Sprintf("%s rejected by limit %d although all writes invoked before it returned account for at most %d bytes and it adds %d", r, w.Limit, writtenBefore(r), added), caseJSON())
					}
				}
			}
			if r.Op.Kind == "S" && strings.HasPrefix(r.Outcome, "other") {
				rec.Fail(t, concTest, "snapshot-error", r.String(), caseJSON())
			}
		}

		// --- quiescent size
		total := res.c.Size()
		h := res.holder
		if h == nil {
			var err error
			if h, err = res.c.Snapshot(); err != nil {
				rec.Fail(t, concTest, "quiescent-snapshot-error", fmt.Sprintf("Snapshot() at quiescence with no snapshot in progress: %v", err), caseJSON())
			}
		}
		snapAcc, ok1 := accounted(h)
		res.c.ClearSnapshot(true)
		hotSize := res.c.Size()
		hotAcc, ok2 := accounted(res.c)
		if !ok1 || !ok2 {
			rec.Fail(t, concTest, "foreign-value", "quiescent scan found a value that was never written", caseJSON())
		}

		// duplicates of a (key,ts) may still be held un-deduplicated (accounted, rightly) or have
		// been dropped by a read without being subtracted (known finding size-stale-after-read-dedup)
		var dupSlack uint64
		if !w.Exact {
			type kt struct {
				k string
				t int64
			}
			groups := map[kt][]uint64{}
			for _, r := range res.recs {
				if r.Op.Kind == "W" && r.Outcome == "ok" {
					for _, k := range r.Op.Keys {
						for _, v := range r.Op.Vals[k] {
							groups[kt{k, v.T}] = append(groups[kt{k, v.T}], sizeOf(v))
						}
					}
				}
			}
			for _, g := range groups {
				if len(g) > 1 {
					sort.Slice(g, func(i, j int) bool { return g[i] < g[j] })
					for _, x := range g[1:] {
						dupSlack += x
					}
				}
			}
		}
		sizeKnown := false
		checkPart := func(name string, got, acc uint64) {
			if got >= acc && got-acc <= dupSlack {
				return
			}
			if got > acc && openDelete && len(racyBytes) > 0 {
				d := got - acc
				if dupSlack == 0 && subsetSum(racyBytes, d) {
					sizeKnown = true
					return
				}
				if dupSlack > 0 {
					var mx uint64
					for _, x := range racyBytes {
						mx += x
					}
					if d <= dupSlack+mx {
						sizeKnown = true
						return
					}
				}
			}
			rec.Fail(t, concTest, "quiescent-size-mismatch",
				fmt.Sprintf("after all goroutines joined: %s share of Size() = %d, accounted size of the keys and values it holds = %d (allowed surplus for duplicate timestamps: %d)", name, got, acc, dupSlack), caseJSON())
		}
		checkPart("hot", hotSize, hotAcc)
		checkPart("snapshot", total-hotSize, snapAcc)
		if w.Exact {
			rec.Class("conc:size-check:exact")
		} else {
			rec.Class("conc:size-check:bracket")
		}

		// --- linearizability of the recorded history
		switch porcupine.CheckOperationsTimeout(strict, ops, porcupineTimeout()) {
		case porcupine.Ok:
			rec.Class("conc:porcupine:ok")
		case porcupine.Unknown:
			rec.Class("conc:porcupine:unknown(timeout)")
		case porcupine.Illegal:
			// is it exactly the behaviour of an open known finding?
			full := relax{
				dropRacyWrite: openDelete && len(racyBytes) > 0,
				sizeDrift:     (openDelete && len(racyBytes) > 0) || (openDedup && !w.Exact),
				freeRacyRead:  openTrunc && racyReads > 0,
			}
			explained := false
			if full.any() {
				switch porcupine.CheckOperationsTimeout(mkModel(full), ops, porcupineTimeout()) {
				case porcupine.Ok:
					explained = true
				case porcupine.Unknown:
					explained = true
					rec.Class("conc:porcupine:relaxed-unknown(timeout)")
				}
			}
			if !explained {
				rec.Fail(t, concTest, "not-linearizable",
					"the recorded history of WriteMulti/DeleteRange/Values/Snapshot/ClearSnapshot has no linearization under the newest-wins snapshot+hot model (nor under the behaviours of the open known findings)", caseJSON())
			}
			// attribute: which single relaxations suffice / are necessary
			attributed := false
			try := func(rx relax, key string) {
				if rx.any() && porcupine.CheckOperationsTimeout(mkModel(rx), ops, porcupineTimeout()) == porcupine.Ok {
					rec.ExcludedKnown(key)
					rec.Class("conc:history:explained-only-by:" + key)
					attributed = true
				}
			}
			try(relax{freeRacyRead: full.freeRacyRead}, knownReadTruncated)
			if !attributed {
				try(relax{dropRacyWrite: full.dropRacyWrite, sizeDrift: full.dropRacyWrite}, knownDeleteRaces)
			}
			if !attributed {
				try(relax{sizeDrift: openDedup && !w.Exact}, knownReadDedup)
			}
			if !attributed {
				rec.ExcludedKnown("several-known-findings-combined")
				rec.Class("conc:history:explained-only-by:combination")
			}
		}
		if sizeKnown {
			rec.ExcludedKnown(knownDeleteRaces)
			rec.Class("conc:history:size-surplus-of-racing-write(known)")
		}

		// --- classes / non-trivial rule
		ovSameKey, ovWithDelete := 0, false
		var pairs []string
		for i, a := range res.recs {
			for _, b := range res.recs[i+1:] {
				if a.G == b.G || !overlap(a, b) {
					continue
				}
				for _, k := range allKeys {
					if touches(a, k) && touches(b, k) {
						ovSameKey++
						pairs = append(pairs, fmt.Sprintf("%d.%d~%d.%d", a.G, a.I, b.G, b.I))
						if a.Op.Kind == "D" || b.Op.Kind == "D" {
							ovWithDelete = true
						}
						break
					}
				}
			}
		}
		rec.ClassN("conc:overlapping-same-key-pairs", ovSameKey)
		if len(racyBytes) > 0 {
			rec.Class("conc:history:write-overlaps-delete-of-its-key")
		}
		if racyReads > 0 {
			rec.Class("conc:history:read-overlaps-write-of-its-key")
		}
		if w.Limit > 0 {
			rec.Class("conc:history:limited")
		}
		if ovSameKey >= 1 && ovWithDelete {
			rec.Class("conc:history:non-trivial")
			var sb strings.Builder
			for gi, th := range w.Threads {
				fmt.Fprintf(&sb, "g%d:", gi)
				for _, o := range th {
					sb.WriteString(o.String())
					sb.WriteByte(',')
				}
			}
			sort.Strings(pairs)
			rec.NonTrivial("conc|" + sb.String() + "|" + strings.Join(pairs, ","))
			if rec.WantSample() {
				rec.Sample(caseJSON())
			}
		} else {
			rec.Class("conc:history:no-overlap-with-delete")
		}
	})
}

// touches reports whether the operation reads or writes key k.
func touches(r *crec, k string) bool {
	switch r.Op.Kind {
	case "W", "D", "V":
		return hasKey(r.Op.Keys, k)
	default: // snapshot / clear touch every key
		return true
	}
}
