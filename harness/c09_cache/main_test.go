package c09_cache

import (
	"testing"

	"verifharness/internal/ev"
)

func TestMain(m *testing.M) { ev.Main(m) }
