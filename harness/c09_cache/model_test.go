// C09 — Cache behaves as a size-bounded newest-wins map under concurrency.
//
// This file holds the value domain and the PHYSICAL sequential model used by the state machine
// (seq_test.go). The model keeps, per hot/snapshot entry, the values in the order and
// multiplicity in which they are held (duplicates of a timestamp stay until something
// deduplicates the entry), because the statement's "accounted size of the values and keys
// actually held" is a statement about what is held, not about what was ever written.
package c09_cache

import (
	"fmt"
	"math"
	"sort"
	"strings"

	"github.com/influxdata/influxdb/v2/tsdb/engine/tsm1"

	"verifharness/internal/ev"
)

var rec = ev.For("C09", "exploration",
	"sequential: generated histories of WriteMulti/Snapshot/ClearSnapshot/DeleteRange/Delete/Values/Type/Keys on one tsm1.Cache with a small limit; non-trivial = the snapshot holds a (key,ts) that the hot store then overwrites AND a write is rejected by the limit; "+
		"concurrent: generated per-goroutine op lists run on real goroutines under -race; non-trivial = >=2 operations on the same key whose recorded call/return intervals overlap, one of them a DeleteRange; distinct by canonical rendering of the op list (plus, for concurrent, the set of overlapping pairs)")

// value types (the cache's own numbering is private; this is the harness' numbering)
const (
	tFloat byte = iota + 1
	tInt
	tUint
	tBool
	tString
)

var typeNames = map[byte]string{tFloat: "float", tInt: "int", tUint: "uint", tBool: "bool", tString: "string"}

// tv is one model value: timestamp, type and an integer payload mapped injectively into the
// value type (booleans keep one bit).
type tv struct {
	T   int64
	Typ byte
	V   int
}

func (x tv) String() string { return fmt.Sprintf("%d:%s%d", x.T, typeNames[x.Typ][:1], x.V) }

func normPayload(typ byte, v int) int {
	if typ == tBool {
		return v & 1
	}
	return v
}

// strPayload renders a string payload; the length varies with v so that sizes differ.
func strPayload(v int) string { return fmt.Sprintf("s%d", v) + strings.Repeat("x", v%5) }

func toValue(x tv) tsm1.Value {
	switch x.Typ {
	case tFloat:
		return tsm1.NewFloatValue(x.T, float64(x.V)*0.5)
	case tInt:
		return tsm1.NewIntegerValue(x.T, int64(x.V))
	case tUint:
		return tsm1.NewUnsignedValue(x.T, uint64(x.V))
	case tBool:
		return tsm1.NewBooleanValue(x.T, x.V&1 == 1)
	default:
		return tsm1.NewStringValue(x.T, strPayload(x.V))
	}
}

func toValues(xs []tv) []tsm1.Value {
	out := make([]tsm1.Value, len(xs))
	for i, x := range xs {
		out[i] = toValue(x)
	}
	return out
}

// fromValue decodes a Value returned by the cache; ok=false when it is not one of ours.
func fromValue(v tsm1.Value) (tv, bool) {
	switch x := v.(type) {
	case tsm1.FloatValue:
		f := x.RawValue() * 2
		if f != math.Trunc(f) {
			return tv{}, false
		}
		return tv{x.UnixNano(), tFloat, int(f)}, true
	case tsm1.IntegerValue:
		return tv{x.UnixNano(), tInt, int(x.RawValue())}, true
	case tsm1.UnsignedValue:
		return tv{x.UnixNano(), tUint, int(x.RawValue())}, true
	case tsm1.BooleanValue:
		b := 0
		if x.RawValue() {
			b = 1
		}
		return tv{x.UnixNano(), tBool, b}, true
	case tsm1.StringValue:
		var n int
		s := x.RawValue()
		if _, err := fmt.Sscanf(strings.TrimRight(s, "x"), "s%d", &n); err != nil || strPayload(n) != s {
			return tv{}, false
		}
		return tv{x.UnixNano(), tString, n}, true
	}
	return tv{}, false
}

func fromValues(vs tsm1.Values) ([]tv, bool) {
	out := make([]tv, 0, len(vs))
	for _, v := range vs {
		x, ok := fromValue(v)
		if !ok {
			return nil, false
		}
		out = append(out, x)
	}
	return out, true
}

// sizeOf is the documented size of one value ("bytes necessary to represent the value and its
// timestamp"): 8 for the timestamp plus 8 (float/int/uint), 1 (bool) or the string length.
func sizeOf(x tv) uint64 {
	switch x.Typ {
	case tBool:
		return 9
	case tString:
		return 8 + uint64(len(strPayload(x.V)))
	default:
		return 16
	}
}

func sizeOfAll(xs []tv) uint64 {
	var n uint64
	for _, x := range xs {
		n += sizeOf(x)
	}
	return n
}

// dedup returns xs sorted by timestamp keeping, per timestamp, the LAST element in slice order
// (newest wins).
func dedup(xs []tv) []tv {
	out := append([]tv(nil), xs...)
	sort.SliceStable(out, func(i, j int) bool { return out[i].T < out[j].T })
	w := 0
	for i := 0; i < len(out); i++ {
		if w > 0 && out[w-1].T == out[i].T {
			out[w-1] = out[i]
			continue
		}
		out[w] = out[i]
		w++
	}
	return out[:w]
}

func exclude(xs []tv, min, max int64) []tv {
	out := xs[:0:0]
	for _, x := range xs {
		if x.T >= min && x.T <= max {
			continue
		}
		out = append(out, x)
	}
	return out
}

func eqTVs(a, b []tv) bool {
	if len(a) != len(b) {
		return false
	}
	for i := range a {
		if a[i] != b[i] {
			return false
		}
	}
	return true
}

func fmtTVs(xs []tv) string {
	var sb strings.Builder
	sb.WriteByte('[')
	for i, x := range xs {
		if i > 0 {
			sb.WriteByte(' ')
		}
		sb.WriteString(x.String())
	}
	sb.WriteByte(']')
	return sb.String()
}

// ---------------------------------------------------------------------------------------------
// physical sequential model

// ment is one entry as held: values in held order (possibly with duplicate timestamps).
type ment struct {
	typ byte
	raw []tv
}

func (e *ment) size() uint64 { return sizeOfAll(e.raw) }

// dedupHeld deduplicates the held values in place and returns the number of bytes dropped.
func (e *ment) dedupHeld() uint64 {
	before := e.size()
	e.raw = dedup(e.raw)
	return before - e.size()
}

type seqModel struct {
	limit        uint64
	hot, snap    map[string]*ment
	snapshotting bool
	snapSize     uint64 // size saved when the snapshot was taken; counted by Size() until cleared
	// bytes dropped from hot entries by a read (Values) that deduplicated them: the
	// implementation does not subtract them (known finding size-stale-after-read-dedup)
	driftHot, driftSnap uint64
	countDrift          bool
}

func newSeqModel(limit uint64, countDrift bool) *seqModel {
	return &seqModel{limit: limit, hot: map[string]*ment{}, snap: map[string]*ment{}, countDrift: countDrift}
}

// held is the accounted size of what the hot store holds: values as held plus key lengths.
func (m *seqModel) heldHot() uint64 {
	var n uint64
	for k, e := range m.hot {
		n += uint64(len(k)) + e.size()
	}
	return n
}

// wantSize is the size the cache must report: what the hot store holds plus the size saved for
// the snapshot. While the known finding size-stale-after-read-dedup is open (countDrift), the
// bytes a read dropped from hot entries stay accounted.
func (m *seqModel) wantSize() uint64 {
	n := m.heldHot() + m.snapSize
	if m.countDrift {
		n += m.driftHot
	}
	return n
}

func (m *seqModel) drift() uint64 { return m.driftHot + m.driftSnap }

func sortedKeys(mm map[string]*ment) []string {
	ks := make([]string, 0, len(mm))
	for k := range mm {
		ks = append(ks, k)
	}
	sort.Strings(ks)
	return ks
}

// values is the statement's read: deduplicated union of snapshot and hot, hot winning. It also
// applies the physical side effect of the read (both entries get deduplicated as held).
func (m *seqModel) values(k string) []tv {
	var all []tv
	if s := m.snap[k]; s != nil {
		s.dedupHeld()
		all = append(all, s.raw...)
	}
	if h := m.hot[k]; h != nil {
		m.driftHot += h.dedupHeld()
		all = append(all, h.raw...)
	}
	return dedup(all)
}

// peek is values without the physical side effect.
func (m *seqModel) peek(k string) []tv {
	var all []tv
	if s := m.snap[k]; s != nil {
		all = append(all, s.raw...)
	}
	if h := m.hot[k]; h != nil {
		all = append(all, h.raw...)
	}
	return dedup(all)
}

// conflicts reports whether writing vals to key k is a type conflict with the hot entry.
func (m *seqModel) conflicts(k string, vals []tv) bool {
	h := m.hot[k]
	if h == nil {
		return false
	}
	for _, v := range vals {
		if v.Typ != h.typ {
			return true
		}
	}
	return false
}

// store applies an accepted write of one key.
func (m *seqModel) store(k string, vals []tv) {
	h := m.hot[k]
	if h == nil {
		m.hot[k] = &ment{typ: vals[0].Typ, raw: append([]tv(nil), vals...)}
		return
	}
	h.raw = append(h.raw, vals...)
}

func (m *seqModel) deleteRange(keys []string, min, max int64) {
	for _, k := range keys {
		h := m.hot[k]
		if h == nil {
			continue
		}
		if min == math.MinInt64 && max == math.MaxInt64 {
			delete(m.hot, k)
			continue
		}
		h.raw = exclude(dedup(h.raw), min, max)
		if len(h.raw) == 0 {
			delete(m.hot, k)
		}
	}
}

// snapshot returns "inprogress", "retry" (a failed snapshot is handed out again) or "fresh".
func (m *seqModel) snapshot() string {
	if m.snapshotting {
		return "inprogress"
	}
	m.snapshotting = true
	if m.snapSize > 0 {
		return "retry"
	}
	sizeNow := m.wantSize()
	m.snap, m.hot = m.hot, map[string]*ment{}
	m.snapSize = sizeNow
	m.driftSnap, m.driftHot = m.driftHot, 0
	return "fresh"
}

func (m *seqModel) clearSnapshot(success bool) {
	m.snapshotting = false
	if success {
		m.snap = map[string]*ment{}
		m.snapSize = 0
		m.driftSnap = 0
	}
}
