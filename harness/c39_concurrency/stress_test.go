package c39_concurrency

import (
	"context"
	"fmt"
	"io"
	"os"
	"sync"
	"sync/atomic"
	"testing"
	"time"

	"github.com/influxdata/influxdb/v2/models"

	"verifharness/internal/fix"
	"verifharness/internal/scratch"
)

// stressTailMiss: one overwriting writer, several full-range readers, optional snapshotter.
// Returns a description of the first read that misses a point acknowledged before it began.
func stressTailMiss(d time.Duration, readers int, snapshots bool) (string, error) {
	dir, err := scratch.Dir("c39-stress-")
	if err != nil {
		return "", err
	}
	defer os.RemoveAll(dir)
	f := &fix.ShardFix{Root: dir, Background: true}
	if err := f.Open(); err != nil {
		return "", err
	}
	defer f.Close()
	var ackedMax atomic.Int64 // all ts < ackedMax are acknowledged
	var stop atomic.Bool
	var wg sync.WaitGroup
	var mu sync.Mutex
	what := ""
	wg.Add(1)
	go func() {
		defer wg.Done()
		next, ver := int64(0), int64(0)
		for i := 0; !stop.Load(); i++ {
			var mp []models.Point
			ver++
			mp = append(mp, point("m0,host=w0", next*10, ver))
			if next > 3 {
				ver++
				mp = append(mp, point("m0,host=w0", (int64(i*7)%next)*10, ver)) // overwrite an older timestamp
			}
			if err := f.Store.WriteToShard(context.Background(), fix.ShardID, mp); err != nil {
				return
			}
			next++
			ackedMax.Store(next)
		}
	}()
	if snapshots {
		wg.Add(1)
		go func() {
			defer wg.Done()
			for !stop.Load() {
				time.Sleep(40 * time.Millisecond)
				if e, err := f.Engine(); err == nil {
					_ = e.WriteSnapshot()
				}
			}
		}()
	}
	if os.Getenv("VERIF_STRESS_BACKUP") != "" {
		wg.Add(1)
		go func() {
			defer wg.Done()
			for !stop.Load() {
				time.Sleep(60 * time.Millisecond)
				if sh := f.Store.Shard(fix.ShardID); sh != nil {
					_ = sh.Backup(io.Discard, "", time.Time{})
				}
			}
		}()
	}
	if os.Getenv("VERIF_STRESS_DELETER") != "" {
		wg.Add(1)
		go func() {
			defer wg.Done()
			n := int64(0)
			for !stop.Load() {
				_ = f.Store.WriteToShard(context.Background(), fix.ShardID, []models.Point{point(deleterSeries, n*10, n+1)})
				n++
				if n%3 == 0 {
					_ = f.Store.Shard(fix.ShardID).DeleteSeriesRange(context.Background(), fix.NewSeriesIter([]string{deleterSeries}), (n-2)*10, n*10)
				}
			}
		}()
	}
	for r := 0; r < readers; r++ {
		wg.Add(1)
		go func() {
			defer wg.Done()
			for !stop.Load() {
				want := ackedMax.Load()
				got, err := fix.ReadShard(f.Store.Shard(fix.ShardID), "m0,host=w0", "fi", models.MinNanoTime, models.MaxNanoTime, true)
				if err != nil {
					continue
				}
				have := map[int64]bool{}
				for _, p := range got {
					have[p.T/10] = true
				}
				for ts := int64(0); ts < want; ts++ {
					if !have[ts] {
						mu.Lock()
						if what == "" {
							what = fmt.Sprintf("a full-range read returned %d points and lacks ts=%d although all %d timestamps below %d had been acknowledged before the read began", len(got), ts*10, want, want*10)
						}
						mu.Unlock()
						stop.Store(true)
						return
					}
				}
			}
		}()
	}
	time.Sleep(d)
	stop.Store(true)
	wg.Wait()
	return what, nil
}

func TestStressTailMiss(t *testing.T) {
	if os.Getenv("VERIF_PROBE") == "" {
		t.Skip()
	}
	for _, snaps := range []bool{false, true} {
		what, err := stressTailMiss(6*time.Second, 3, snaps)
		t.Logf("snapshots=%v: %q err=%v", snaps, what, err)
	}
}
