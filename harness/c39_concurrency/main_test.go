package c39_concurrency

import (
	"testing"

	"verifharness/internal/ev"
)

func TestMain(m *testing.M) { ev.Main(m) }
