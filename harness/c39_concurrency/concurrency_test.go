// C39 — Concurrent shard operations stay race-free and consistent.
//
// Generated concurrent workloads on a real shard with the engine's own background snapshot and
// compaction loops enabled, run under the race detector: overwriting writers (each owns a
// series), range readers (cursor path and InfluxQL iterator path, both directions), a
// writer-deleter (owns a series, unique timestamps, alternates writes and range deletes), a
// snapshotter / full-compaction scheduler, a backup-to-discard goroutine, and optionally a
// closer that closes the store mid-run. Every operation is stamped with an invocation and a
// response tick of one global atomic counter; every read is checked with an interval rule that is
// sound for any serial order consistent with those stamps.
package c39_concurrency

import (
	"context"
	"fmt"
	"io"
	"os"
	"os/exec"
	"path/filepath"
	"runtime"
	"sort"
	"strings"
	"sync"
	"sync/atomic"
	"testing"
	"time"

	"github.com/influxdata/influxdb/v2/models"
	"github.com/influxdata/influxdb/v2/pkg/verifhook"
	"github.com/influxdata/influxdb/v2/toml"
	"github.com/influxdata/influxdb/v2/tsdb"
	"github.com/influxdata/influxdb/v2/tsdb/engine/tsm1"
	"go.uber.org/zap"
	"go.uber.org/zap/zapcore"
	"pgregory.net/rapid"

	"verifharness/internal/eng"
	"verifharness/internal/ev"
	"verifharness/internal/fix"
	"verifharness/internal/model"
	"verifharness/internal/scratch"
)

var rec = ev.For("C39", "exploration",
	"case = one generated concurrent workload (1-3 overwriting writers, 1-3 readers, a writer-deleter, snapshotter/compaction scheduler, backup, optional mid-run close) executed once under -race with the engine's background loops on; every read is checked against the interval rule; non-trivial = >=1 snapshot commit and >=1 compaction commit happened during the run (counted at hook points) and >=1 read overlapped a write; distinct by the generated workload parameters plus the observed event counts")

const windowKey = "delete-during-snapshot-window"
const closeDeleteKey = "close-vs-delete-deadlock"
const staleReadKey = "transient-stale-read"

// ---- stamped history ------------------------------------------------------------------------

type wop struct {
	inv, resp int64
	pts       map[int64]int64 // ts -> version
	err       error
}

type dop struct {
	inv, resp int64
	isDelete  bool
	lo, hi    int64
	pts       map[int64]int64
	err       error
}

type rop struct {
	diag      string
	inv, resp int64
	series    string
	lo, hi    int64
	asc, ql   bool
	got       []model.Point
	err       error
}

type workload struct {
	Writers      int     `json:"writers"`
	Readers      int     `json:"readers"`
	WriterOps    int     `json:"writer_ops"`
	Batch        int     `json:"batch"`
	OverwritePct int     `json:"overwrite_pct"`
	DeleterOps   int     `json:"deleter_ops"`
	ReaderOps    int     `json:"reader_ops"`
	Snapshots    int     `json:"snapshots"`
	Backups      int     `json:"backups"`
	CloseMidRun  bool    `json:"close_mid_run"`
	Procs        int     `json:"gomaxprocs"`
	Yields       [][]int `json:"-"`
	Choices      [][]int `json:"-"`
}

func writerSeries(i int) string { return fmt.Sprintf("m0,host=w%d", i) }

const deleterSeries = "m1,host=d"

func point(series string, ts, v int64) models.Point {
	name, tags := models.ParseKeyBytes([]byte(series))
	p, err := models.NewPoint(string(name), tags, models.Fields{"fi": v}, time.Unix(0, ts))
	if err != nil {
		panic(err)
	}
	return p
}

type run struct {
	t     *rapid.T
	w     workload
	f     *fix.ShardFix
	clock atomic.Int64
	mu    sync.Mutex
	wops  [][]wop
	dops  []dop
	rops  []rop
	// snapshot windows in clock ticks: [begin, end]; end == 0 while open
	winMu                       sync.Mutex
	windows                     [][2]int64
	snapCommits, compactCommits atomic.Int64
	hung, slow                  bool
	ackMu                       sync.Mutex
	acked                       []map[int64]int64 // per overwriting writer: ts -> latest acknowledged version (online diagnostics)
	panics                      atomic.Int64
	logbuf                      *safeBuf
	closedAt, closeDone         atomic.Int64
	newFields                   atomic.Int64
}

func (r *run) tick() int64 { return r.clock.Add(1) }

type safeBuf struct {
	mu sync.Mutex
	b  []byte
}

func (s *safeBuf) Write(p []byte) (int, error) {
	s.mu.Lock()
	s.b = append(s.b, p...)
	s.mu.Unlock()
	return len(p), nil
}
func (s *safeBuf) String() string { s.mu.Lock(); defer s.mu.Unlock(); return string(s.b) }

func yield(code int) {
	switch {
	case code == 0:
	case code < 4:
		runtime.Gosched()
	default:
		time.Sleep(time.Duration(code*100) * time.Microsecond)
	}
}

func (r *run) guard(name string, f func()) {
	defer func() {
		if p := recover(); p != nil {
			r.panics.Add(1)
			buf := make([]byte, 1<<14)
			n := runtime.Stack(buf, false)
			rec.Violate("TestPropConcurrentWorkload", "panic", fmt.Sprintf("goroutine %s panicked: %v\n%s", name, p, buf[:n]), r.w)
		}
	}()
	f()
}

func runWorkload(t *rapid.T, w workload) *run {
	dir, err := scratch.Dir("c39-")
	if err != nil {
		t.Fatalf("scratch: %v", err)
	}
	var logbuf safeBuf
	// the engine's log is always kept: schedule-dependent failures cannot be replayed, the log and
	// the post-mortem of the files are what a report can carry
	enc := zapcore.NewConsoleEncoder(zap.NewDevelopmentEncoderConfig())
	logger := zap.New(zapcore.NewCore(enc, zapcore.AddSync(&logbuf), zapcore.InfoLevel))
	f := &fix.ShardFix{Root: dir, Background: true, Logger: logger, Tweak: func(o *tsdb.EngineOptions) {
		o.Config.CacheSnapshotWriteColdDuration = toml.Duration(150 * time.Millisecond)
		o.Config.CompactFullWriteColdDuration = toml.Duration(400 * time.Millisecond)
	}}
	if err := f.Open(); err != nil {
		t.Fatalf("fixture: %v", err)
	}
	r := &run{t: t, w: w, f: f, wops: make([][]wop, w.Writers), logbuf: &logbuf}
	for i := 0; i < w.Writers; i++ {
		r.acked = append(r.acked, map[int64]int64{})
	}
	old := runtime.GOMAXPROCS(w.Procs)
	defer runtime.GOMAXPROCS(old)
	root := f.Root
	verifhook.Set(func(name, detail string) {
		if !strings.HasPrefix(detail, root) {
			return
		}
		switch name {
		case "tsm1.snapshot.begin":
			r.winMu.Lock()
			r.windows = append(r.windows, [2]int64{r.tick(), 0})
			r.winMu.Unlock()
		case "tsm1.snapshot.after-clear":
			r.winMu.Lock()
			for i := len(r.windows) - 1; i >= 0; i-- {
				if r.windows[i][1] == 0 {
					r.windows[i][1] = r.tick()
					break
				}
			}
			r.winMu.Unlock()
		case "tsm1.snapshot.after-replace":
			r.snapCommits.Add(1)
		case "tsm1.compact.after-replace":
			r.compactCommits.Add(1)
		}
	})
	defer verifhook.Set(nil)

	noFullSchedule := false
	var wg sync.WaitGroup
	var stop atomic.Bool // set by the snapshotter when its schedule (incl. the final compaction linger) is over
	gi := 0
	next := func() ([]int, []int) {
		y, c := w.Yields[gi%len(w.Yields)], w.Choices[gi%len(w.Choices)]
		gi++
		return y, c
	}
	// overwriting writers
	for i := 0; i < w.Writers; i++ {
		i := i
		ys, cs := next()
		wg.Add(1)
		go func() {
			defer wg.Done()
			r.guard(fmt.Sprintf("writer%d", i), func() {
				series := writerSeries(i)
				nextTs, version := int64(0), int64(0)
				for op := 0; op < w.WriterOps || (!stop.Load() && op < 4*w.WriterOps); op++ {
					yield(ys[op%len(ys)])
					if op >= w.WriterOps {
						time.Sleep(2 * time.Millisecond)
					}
					pts := map[int64]int64{}
					var mp []models.Point
					for b := 0; b < w.Batch; b++ {
						version++
						ts := nextTs
						c := cs[(op*7+b)%len(cs)]
						if nextTs > 0 && c%100 < w.OverwritePct {
							ts = int64(c) % nextTs // overwrite an earlier own timestamp
						} else {
							nextTs++
						}
						if _, dup := pts[ts]; dup {
							continue // keep one version per ts per batch (unambiguous oracle)
						}
						pts[ts] = version
						mp = append(mp, point(series, ts*10, version))
					}
					if len(mp) > 0 && cs[op%len(cs)]%6 == 0 {
						// every so often the batch also introduces a new field (the shard saves its field
						// set change while the write is in progress); the oracle reads "fi" only
						name, tags := models.ParseKeyBytes([]byte(series))
						if p, err := models.NewPoint(string(name), tags, models.Fields{fmt.Sprintf("n%d_%d", i, op): int64(op)}, mp[0].Time()); err == nil {
							mp = append(mp, p)
							r.newFields.Add(1)
						}
					}
					o := wop{inv: r.tick(), pts: pts}
					o.err = r.f.Store.WriteToShard(context.Background(), fix.ShardID, mp)
					o.resp = r.tick()
					if o.err == nil {
						r.ackMu.Lock()
						for ts, v := range pts {
							r.acked[i][ts] = v
						}
						r.ackMu.Unlock()
					}
					r.mu.Lock()
					r.wops[i] = append(r.wops[i], o)
					r.mu.Unlock()
				}
			})
		}()
	}
	// writer-deleter: unique timestamps, alternates writes and deletes of its own series
	{
		ys, cs := next()
		wg.Add(1)
		go func() {
			defer wg.Done()
			r.guard("deleter", func() {
				nextTs := int64(0)
				for op := 0; op < w.DeleterOps; op++ {
					yield(ys[op%len(ys)])
					c := cs[op%len(cs)]
					if op%3 == 2 && nextTs > 0 {
						lo := int64(c) % nextTs
						hi := lo + int64(c%7)
						o := dop{inv: r.tick(), isDelete: true, lo: lo, hi: hi}
						sh := r.f.Store.Shard(fix.ShardID)
						if sh == nil {
							o.err = fmt.Errorf("shard gone")
						} else {
							o.err = sh.DeleteSeriesRange(context.Background(), fix.NewSeriesIter([]string{deleterSeries}), lo*10, hi*10)
						}
						o.resp = r.tick()
						r.mu.Lock()
						r.dops = append(r.dops, o)
						r.mu.Unlock()
						continue
					}
					pts := map[int64]int64{}
					var mp []models.Point
					for b := 0; b < 1+c%4; b++ {
						pts[nextTs] = nextTs + 1
						mp = append(mp, point(deleterSeries, nextTs*10, nextTs+1))
						nextTs++
					}
					o := dop{inv: r.tick(), pts: pts}
					o.err = r.f.Store.WriteToShard(context.Background(), fix.ShardID, mp)
					o.resp = r.tick()
					r.mu.Lock()
					r.dops = append(r.dops, o)
					r.mu.Unlock()
				}
			})
		}()
	}
	// readers
	for i := 0; i < w.Readers; i++ {
		i := i
		ys, cs := next()
		wg.Add(1)
		go func() {
			defer wg.Done()
			r.guard(fmt.Sprintf("reader%d", i), func() {
				for op := 0; op < w.ReaderOps || (!stop.Load() && op < 4*w.ReaderOps); op++ {
					yield(ys[op%len(ys)])
					if op >= w.ReaderOps {
						time.Sleep(3 * time.Millisecond)
					}
					c := cs[op%len(cs)]
					series := deleterSeries
					if c%(w.Writers+1) < w.Writers {
						series = writerSeries(c % (w.Writers + 1))
					}
					lo, hi := models.MinNanoTime, models.MaxNanoTime
					if c%3 == 0 {
						lo = int64(c%50) * 10
						hi = lo + int64(c%400)
					}
					o := rop{series: series, lo: lo, hi: hi, asc: c%2 == 0, ql: c%5 == 0 && series != deleterSeries}
					var before map[int64]int64
					if series != deleterSeries && lo == models.MinNanoTime {
						var wi int
						fmt.Sscanf(series, "m0,host=w%d", &wi)
						r.ackMu.Lock()
						before = make(map[int64]int64, len(r.acked[wi]))
						for ts, v := range r.acked[wi] {
							before[ts] = v
						}
						r.ackMu.Unlock()
					}
					o.inv = r.tick()
					sh := r.f.Store.Shard(fix.ShardID)
					if sh == nil {
						o.err = fmt.Errorf("shard gone")
					} else if o.ql {
						o.got, o.err = r.f.ReadInfluxQL(series, "fi", model.Integer, lo, hi, o.asc)
					} else {
						o.got, o.err = fix.ReadShard(sh, series, "fi", lo, hi, o.asc)
					}
					o.resp = r.tick()
					if before != nil && o.err == nil {
						o.diag = r.diagnoseMissing(series, before, o.got)
					}
					r.mu.Lock()
					r.rops = append(r.rops, o)
					r.mu.Unlock()
				}
			})
		}()
	}
	// snapshotter / compaction scheduler
	{
		ys, cs := next()
		wg.Add(1)
		go func() {
			defer wg.Done()
			r.guard("snapshotter", func() {
				defer stop.Store(true)
				for op := 0; op < w.Snapshots; op++ {
					time.Sleep(time.Duration(40+ys[op%len(ys)]*10) * time.Millisecond)
					e, err := r.f.Engine()
					if err != nil {
						return
					}
					if cs[op%len(cs)]%4 == 0 && !noFullSchedule {
						_ = e.ScheduleFullCompaction()
					} else {
						_ = e.WriteSnapshot()
					}
				}
				// ask for a full compaction and stay around for more than one tick of the engine's
				// 1-second compaction loop, so that a compaction runs while readers and writers are busy
				if e, err := r.f.Engine(); err == nil && !noFullSchedule {
					_ = e.ScheduleFullCompaction()
				}
				time.Sleep(1300 * time.Millisecond)
			})
		}()
	}
	// backup to a discard writer
	{
		ys, _ := next()
		wg.Add(1)
		go func() {
			defer wg.Done()
			r.guard("backup", func() {
				for op := 0; op < w.Backups; op++ {
					yield(ys[op%len(ys)] + 40)
					if sh := r.f.Store.Shard(fix.ShardID); sh != nil {
						_ = sh.Backup(io.Discard, "", time.Time{})
					}
				}
			})
		}()
	}
	// enabler: re-enables the (enabled) shard now and then, as Store.SetShardEnabled does; it has no
	// effect on the data but takes the shard's exclusive lock, like Close, between the writers' steps
	{
		ys, _ := next()
		wg.Add(1)
		go func() {
			defer wg.Done()
			r.guard("enabler", func() {
				for n := 0; !stop.Load() && n < 400; n++ {
					yield(ys[n%len(ys)] + 5)
					if sh := r.f.Store.Shard(fix.ShardID); sh != nil {
						sh.SetEnabled(true)
						r.tick()
					}
					time.Sleep(time.Millisecond)
				}
			})
		}()
	}
	// optional closer
	if w.CloseMidRun {
		ys, _ := next()
		wg.Add(1)
		go func() {
			defer wg.Done()
			r.guard("closer", func() {
				time.Sleep(time.Duration(300+ys[0]*40) * time.Millisecond)
				r.closedAt.Store(r.tick())
				_ = r.f.Store.Close()
				r.closeDone.Store(r.tick())
			})
		}()
	}
	done := make(chan struct{})
	go func() { wg.Wait(); close(done) }()
	// Watchdog on PROGRESS, not on duration: every operation stamps the logical clock when it is
	// invoked and when it returns; a workload is hung when no stamp was taken for 60 s. A workload
	// that keeps making progress on a busy machine is waited for (up to 15 min, then inconclusive).
	last, lastChange, start := r.clock.Load(), time.Now(), time.Now()
wait:
	for {
		select {
		case <-done:
			break wait
		case <-time.After(5 * time.Second):
		}
		if now := r.clock.Load(); now != last {
			last, lastChange = now, time.Now()
		}
		stalled := time.Since(lastChange) > 60*time.Second
		if stalled || time.Since(start) > 15*time.Minute {
			buf := make([]byte, 1<<22)
			n := runtime.Stack(buf, true)
			dump := fmt.Sprintf("/tmp/c39-watchdog-%d.txt", time.Now().UnixNano())
			_ = os.WriteFile(dump, buf[:n], 0o644)
			fmt.Fprintf(os.Stderr, "C39 WATCHDOG: stalled=%v after %s; goroutine dump written to %s\nworkload: %+v\n", stalled, time.Since(start).Round(time.Second), dump, w)
			r.hung, r.slow = stalled, !stalled
			break wait
		}
	}
	return r
}

// diagnoseMissing is an online aid (not an oracle): if a full-range read lacks a timestamp that was
// acknowledged before the read began, it immediately looks at where that point is.
func (r *run) diagnoseMissing(series string, before map[int64]int64, got []model.Point) string {
	have := make(map[int64]bool, len(got))
	for _, p := range got {
		have[p.T/10] = true
	}
	for ts, v := range before {
		if have[ts] {
			continue
		}
		var sb strings.Builder
		fmt.Fprintf(&sb, "online diagnosis: ts=%d (version %d) acknowledged before the read began is missing from it; ", ts*10, v)
		if e, err := r.f.Engine(); err == nil {
			key := []byte(series + "#!~#fi")
			inCache := false
			for _, cv := range e.Cache.Values(key) {
				if cv.UnixNano() == ts*10 {
					inCache = true
				}
			}
			fmt.Fprintf(&sb, "in cache now=%v; ", inCache)
		}
		if sh := r.f.Store.Shard(fix.ShardID); sh != nil {
			again, err := fix.ReadShard(sh, series, "fi", models.MinNanoTime, models.MaxNanoTime, true)
			found := false
			for _, p := range again {
				if p.T == ts*10 {
					found = true
				}
			}
			fmt.Fprintf(&sb, "immediate re-read finds it=%v (err=%v, %d points vs %d); ", found, err, len(again), len(got))
		}
		fmt.Fprintf(&sb, "tsm files now=%d", len(r.f.TSMFiles()))
		fmt.Fprintln(os.Stderr, "C39 DIAG:", sb.String())
		return sb.String()
	}
	return ""
}

// postMortem describes, for a writer series whose final state is wrong, where every version of
// the timestamps lives (TSM files in name order, tombstones, cache), the stamped history of the
// writes / snapshots, and the tail of the engine log.
func (r *run) postMortem(series string, wi int) string {
	var sb strings.Builder
	key := []byte(series + "#!~#fi")
	files, _ := filepath.Glob(filepath.Join(r.f.DataDir(), "*"))
	sort.Strings(files)
	for _, fn := range files {
		st, _ := os.Stat(fn)
		if st == nil {
			continue
		}
		fmt.Fprintf(&sb, "file %s %d bytes", filepath.Base(fn), st.Size())
		if strings.HasSuffix(fn, ".tsm") {
			if fd, err := os.Open(fn); err == nil {
				if tr, err := tsm1.NewTSMReader(fd); err == nil {
					vs, err := tr.ReadAll(key)
					fmt.Fprintf(&sb, " key values (err=%v):", err)
					for _, v := range vs {
						fmt.Fprintf(&sb, " %d=%v", v.UnixNano(), v.Value())
					}
					fmt.Fprintf(&sb, " tombstones=%v", tr.TombstoneRange(key))
					tr.Close()
				} else {
					fd.Close()
				}
			}
		}
		sb.WriteString("\n")
	}
	if e, err := r.f.Engine(); err == nil {
		fmt.Fprintf(&sb, "cache after reopen:")
		for _, v := range e.Cache.Values(key) {
			fmt.Fprintf(&sb, " %d=%v", v.UnixNano(), v.Value())
		}
		sb.WriteString("\n")
	}
	wal, _ := filepath.Glob(filepath.Join(r.f.WALDir(), "*"))
	fmt.Fprintf(&sb, "wal files: %v\n", wal)
	fmt.Fprintf(&sb, "writes of this series (inv,resp: points):")
	for _, w := range r.wops[wi] {
		fmt.Fprintf(&sb, " [%d,%d:", w.inv, w.resp)
		for ts, v := range w.pts {
			fmt.Fprintf(&sb, " %d=%d", ts*10, v)
		}
		sb.WriteString("]")
	}
	r.winMu.Lock()
	fmt.Fprintf(&sb, "\nsnapshot windows (begin,end stamps): %v\n", r.windows)
	r.winMu.Unlock()
	lg := r.logbuf.String()
	if len(lg) > 30000 {
		lg = lg[len(lg)-30000:]
	}
	fmt.Fprintf(&sb, "engine log (tail):\n%s", lg)
	return sb.String()
}

// ---- oracle ---------------------------------------------------------------------------------

func (r *run) checkOverwriterRead(o rop, wi int) (string, bool) {
	ws := r.wops[wi]
	must := map[int64]int64{} // ts -> latest version completed before the read began
	may := map[int64]int64{}  // ts -> latest version started before the read ended
	written := map[int64]map[int64]bool{}
	for _, w := range ws {
		for ts, v := range w.pts {
			if w.inv < o.resp {
				if v > may[ts] {
					may[ts] = v
				}
				if written[ts] == nil {
					written[ts] = map[int64]bool{}
				}
				written[ts][v] = true
			}
			if w.resp < o.inv && w.err == nil && v > must[ts] {
				must[ts] = v
			}
		}
	}
	seen := map[int64]bool{}
	for i, p := range o.got {
		if i > 0 {
			if (o.asc && o.got[i-1].T >= p.T) || (!o.asc && o.got[i-1].T <= p.T) {
				return fmt.Sprintf("points not strictly ordered at index %d: %s", i, model.Render(o.got)), false
			}
		}
		if p.T < o.lo || p.T > o.hi {
			return fmt.Sprintf("point %d outside the requested range", p.T), false
		}
		ts := p.T / 10
		seen[ts] = true
		if p.T%10 != 0 || !written[ts][p.V.I] {
			return fmt.Sprintf("returned %d=%d, which no write invoked before the read returned ever wrote", p.T, p.V.I), false
		}
		if p.V.I < must[ts] {
			return fmt.Sprintf("returned %d=%d but version %d was acknowledged before the read began (stale read)", p.T, p.V.I, must[ts]), false
		}
	}
	for ts, v := range must {
		if ts*10 >= o.lo && ts*10 <= o.hi && !seen[ts] {
			return fmt.Sprintf("point %d (version %d acknowledged before the read began) missing", ts*10, v), false
		}
	}
	return "", true
}

// staleRead reports whether a read that fails the interval rule would pass it had it begun
// earlier, i.e. whether it shows exactly a past state of the series (all returned versions valid
// for that earlier moment, nothing invented, nothing missing that was acknowledged by then). It
// returns how many acknowledged writes the read lags behind.
func (r *run) staleRead(o rop, wi int) (int, bool) {
	var resps []int64
	for _, w := range r.wops[wi] {
		if w.err == nil && w.resp < o.inv {
			resps = append(resps, w.resp)
		}
	}
	sort.Slice(resps, func(i, j int) bool { return resps[i] > resps[j] })
	for i, c := range resps {
		if i >= 200 {
			break
		}
		o2 := o
		o2.inv = c // writes whose response is >= c are no longer mandatory
		if _, ok := r.checkOverwriterRead(o2, wi); ok {
			return i + 1, true
		}
	}
	return 0, false
}

// deleterStates returns, per timestamp, the set of allowed observations of a read of the
// writer-deleter's series: the state after each prefix O_1..O_k for k0 <= k <= k1.
func (r *run) checkDeleterRead(o rop, suspect map[int64]bool) (string, bool, int) {
	ops := r.dops
	k0, k1 := 0, 0
	for i, d := range ops {
		if d.resp < o.inv {
			k0 = i + 1
		}
		if d.inv < o.resp {
			k1 = i + 1
		}
	}
	state := map[int64]int64{}
	allowedPresent := map[int64]map[int64]bool{}
	allowedAbsent := map[int64]bool{}
	everWritten := map[int64]bool{}
	firstWritten := map[int64]int{} // ts -> 1-based index of the op that first wrote it
	snap := func() {
		for ts := range everWritten {
			if v, ok := state[ts]; ok {
				if allowedPresent[ts] == nil {
					allowedPresent[ts] = map[int64]bool{}
				}
				allowedPresent[ts][v] = true
			} else {
				allowedAbsent[ts] = true
			}
		}
	}
	for i, d := range ops[:k1] {
		if d.isDelete {
			for ts := range state {
				if ts >= d.lo && ts <= d.hi {
					delete(state, ts)
				}
			}
		} else {
			for ts, v := range d.pts {
				state[ts] = v
				if !everWritten[ts] {
					firstWritten[ts] = i + 1
				}
				everWritten[ts] = true
			}
		}
		if i+1 >= k0 {
			snap()
		}
	}
	// a timestamp first written by an op after the k0-th is absent in the earliest allowed prefix
	for ts := range everWritten {
		if firstWritten[ts] > k0 {
			allowedAbsent[ts] = true
		}
	}
	excluded := 0
	seen := map[int64]bool{}
	for i, p := range o.got {
		if i > 0 && ((o.asc && o.got[i-1].T >= p.T) || (!o.asc && o.got[i-1].T <= p.T)) {
			return fmt.Sprintf("points not strictly ordered: %s", model.Render(o.got)), false, 0
		}
		ts := p.T / 10
		seen[ts] = true
		if p.T%10 != 0 || !everWritten[ts] || p.V.I != ts+1 {
			return fmt.Sprintf("returned %d=%d, which was never written", p.T, p.V.I), false, 0
		}
		if !allowedPresent[ts][p.V.I] {
			if suspect[ts] && ev.KnownOpen("C39", windowKey) {
				excluded++
				continue
			}
			return fmt.Sprintf("returned %d although every serial order of the operations that could have taken effect has it deleted", p.T), false, 0
		}
	}
	for ts := range everWritten {
		if ts*10 < o.lo || ts*10 > o.hi || seen[ts] {
			continue
		}
		if !allowedAbsent[ts] {
			return fmt.Sprintf("point %d missing although it was acknowledged before the read began and no delete covering it had been invoked", ts*10), false, 0
		}
	}
	return "", true, excluded
}

// suspects: timestamps deleted by a delete whose interval overlaps a snapshot window (the open
// known finding delete-during-snapshot-window): they may stay readable.
func (r *run) suspects() (map[int64]bool, int64) {
	out := map[int64]bool{}
	firstTaint := int64(1 << 62)
	r.winMu.Lock()
	windows := append([][2]int64(nil), r.windows...)
	r.winMu.Unlock()
	for _, d := range r.dops {
		if !d.isDelete {
			continue
		}
		for _, w := range windows {
			end := w[1]
			if end == 0 {
				end = 1 << 62
			}
			if d.inv <= end && d.resp >= w[0] {
				for ts := d.lo; ts <= d.hi; ts++ {
					out[ts] = true
				}
				if d.inv < firstTaint {
					firstTaint = d.inv
				}
			}
		}
	}
	return out, firstTaint
}

func (r *run) verify() {
	fail := func(key, detail string, o rop) {
		if o.diag != "" {
			detail += "\n" + o.diag
		}
		rec.Fail(r.t, "TestPropConcurrentWorkload", key, fmt.Sprintf("%s\nread: series=%s range=[%d,%d] asc=%v influxql=%v inv=%d resp=%d\nworkload: %+v", detail, o.series, o.lo, o.hi, o.asc, o.ql, o.inv, o.resp, r.w),
			map[string]any{"workload": r.w, "read": map[string]any{"series": o.series, "lo": o.lo, "hi": o.hi, "asc": o.asc, "inv": o.inv, "resp": o.resp, "got": model.Render(o.got)}})
	}
	if r.panics.Load() > 0 {
		r.t.Fatalf("VIOLATION-CANDIDATE property=C39 key=panic: a workload goroutine panicked (see recorded violation)")
	}
	susp, firstTaint := r.suspects()
	closed := r.closedAt.Load()
	overlapping := 0
	for _, o := range r.rops {
		if o.err != nil {
			if closed == 0 || o.resp < closed {
				fail("read-error", fmt.Sprintf("read failed although the shard was open: %v", o.err), o)
			}
			rec.Class("read:error-after-close")
			continue
		}
		if closed != 0 && o.resp > closed {
			// a read that overlaps or follows the close and did not fail: results are still checked
			rec.Class("read:succeeded-around-close")
			if cd := r.closeDone.Load(); o.ql && (cd == 0 || o.inv < cd) && o.series != deleterSeries && ev.KnownOpen("C39", emptyAtCloseKey) {
				// open known finding, exact signature: an InfluxQL iterator created while Store.Close is
				// running reports success although points are missing from it (all of them when the
				// index was closed first, some of them when TSM files were): only missing points are
				// tolerated, a wrong or deleted value is not
				var wi int
				fmt.Sscanf(o.series, "m0,host=w%d", &wi)
				if msg, ok := r.checkOverwriterRead(o, wi); !ok && strings.HasSuffix(strings.SplitN(msg, "\n", 2)[0], "missing") {
					rec.ExcludedKnown(emptyAtCloseKey)
					rec.Class("read:influxql-incomplete-while-closing(known)")
					continue
				}
			}
		}
		if o.series == deleterSeries {
			if o.resp >= firstTaint && ev.KnownOpen("C39", windowKey) {
				// a delete of this series overlapped an in-progress snapshot (open known finding): deleted
				// points may stay readable and, if the engine concluded the series was empty, its field
				// schema may be gone so that live points are invisible; reads after that are not judged
				rec.ExcludedKnown(windowKey)
				rec.Class("read:deleter-series-not-judged(known window)")
				continue
			}
			rec.Class("read:deleter-series-judged")
			msg, ok, ex := r.checkDeleterRead(o, susp)
			if ex > 0 {
				rec.ExcludedKnown(windowKey)
			}
			if !ok {
				fail("inconsistent-read-deleter-series", msg, o)
			}
			continue
		}
		var wi int
		fmt.Sscanf(o.series, "m0,host=w%d", &wi)
		if msg, ok := r.checkOverwriterRead(o, wi); !ok {
			if lag, stale := r.staleRead(o, wi); stale && ev.KnownOpen("C39", staleReadKey) {
				// open known finding: the read is exactly a PAST state of the series (it would be correct
				// had it begun `lag` acknowledged writes earlier) — a transient stale read
				rec.ExcludedKnown(staleReadKey)
				rec.ClassN("read:stale-by-acknowledged-writes", lag)
				continue
			}
			fail("inconsistent-read", msg, o)
		}
		for _, w := range r.wops[wi] {
			if w.inv < o.resp && w.resp > o.inv {
				overlapping++
				break
			}
		}
	}
	// writes and deletes must not fail while the shard is open
	for i, ws := range r.wops {
		for _, w := range ws {
			if w.err != nil && (closed == 0 || w.resp < closed) {
				rec.Fail(r.t, "TestPropConcurrentWorkload", "write-error", fmt.Sprintf("writer %d: WriteToShard failed while the shard was open: %v", i, w.err), r.w)
			}
		}
	}
	for _, d := range r.dops {
		if d.err != nil && (closed == 0 || d.resp < closed) {
			rec.Fail(r.t, "TestPropConcurrentWorkload", "delete-or-write-error", fmt.Sprintf("writer-deleter op failed while the shard was open: %v", d.err), r.w)
		}
	}
	// quiescent check before the restart (only when the store was not closed mid-run)
	if closed == 0 {
		q := r.tick()
		for i := range r.wops {
			got, err := r.f.Read(writerSeries(i), "fi", models.MinNanoTime, models.MaxNanoTime, true)
			o := rop{inv: q, resp: q + 1, series: writerSeries(i), lo: models.MinNanoTime, hi: models.MaxNanoTime, asc: true, got: got, err: err}
			if err != nil {
				fail("read-error", fmt.Sprintf("quiescent read: %v", err), o)
			}
			if msg, ok := r.checkOverwriterRead(o, i); !ok {
				fail("inconsistent-quiescent-state", msg, o)
			}
		}
	}
	// everything joined; reopen and compare with the final model
	if err := r.f.Reopen(); err != nil {
		rec.Fail(r.t, "TestPropConcurrentWorkload", "reopen-error", fmt.Sprintf("close/open after the workload: %v", err), r.w)
	}
	final := r.tick()
	for i := range r.wops {
		for _, asc := range []bool{true, false} {
			got, err := r.f.Read(writerSeries(i), "fi", models.MinNanoTime, models.MaxNanoTime, asc)
			o := rop{inv: final, resp: final + 1, series: writerSeries(i), lo: models.MinNanoTime, hi: models.MaxNanoTime, asc: asc, got: got, err: err}
			if err != nil {
				fail("read-error", fmt.Sprintf("final read: %v", err), o)
			}
			if closed != 0 {
				// writes overlapping the close may or may not have been applied: the interval rule with
				// inv=final treats exactly the acknowledged ones as mandatory
			}
			if msg, ok := r.checkOverwriterRead(o, i); !ok {
				if os.Getenv("VERIF_C39_LOG") != "" {
					os.WriteFile(os.Getenv("VERIF_C39_LOG"), []byte(r.logbuf.String()), 0o644)
				}
				o.diag = r.postMortem(writerSeries(i), i)
				fail("inconsistent-final-state", msg, o)
			}
		}
	}
	got, err := r.f.Read(deleterSeries, "fi", models.MinNanoTime, models.MaxNanoTime, true)
	o := rop{inv: final, resp: final + 1, series: deleterSeries, lo: models.MinNanoTime, hi: models.MaxNanoTime, asc: true, got: got, err: err}
	if err == nil && !(o.resp >= firstTaint && ev.KnownOpen("C39", windowKey)) {
		msg, ok, ex := r.checkDeleterRead(o, susp)
		if ex > 0 {
			rec.ExcludedKnown(windowKey)
		}
		if !ok {
			fail("inconsistent-final-state-deleter-series", msg, o)
		}
	}
	r.f.Close()
	rec.Eval()
	snaps, comps := r.snapCommits.Load(), r.compactCommits.Load()
	rec.ClassN("event:snapshot-commits", int(snaps))
	rec.ClassN("event:compaction-commits", int(comps))
	rec.ClassN("event:reads", len(r.rops))
	rec.ClassN("event:reads-overlapping-a-write", overlapping)
	if r.w.CloseMidRun {
		rec.Class("workload:close-mid-run")
	}
	if snaps > 0 && comps > 0 && overlapping > 0 {
		rec.Class("workload:non-trivial")
		rec.NonTrivial(fmt.Sprintf("%+v|s%d|c%d|o%d|r%d", r.w, snaps, comps, overlapping, len(r.rops)))
		if rec.WantSample() {
			rec.Sample(map[string]any{"workload": r.w, "snapshot_commits": snaps, "compaction_commits": comps, "reads": len(r.rops), "reads_overlapping_writes": overlapping})
		}
	}
}

func TestPropConcurrentWorkload(t *testing.T) {
	rec.Assume("interleavings are sampled (one execution per generated workload), not enumerated; a schedule-dependent failure is reported with the recorded history and may not reproduce")
	rec.Assume("the writer-deleter uses unique timestamps so that a delete applied file by file cannot legitimately expose an older version")
	rec.Assume("a timestamp deleted by a delete that overlaps an in-progress cache snapshot may stay readable while known finding delete-during-snapshot-window is open (counted under excluded_known)")
	rec.Check(t, 6, 80, func(t *rapid.T) {
		w := workload{
			Writers: rapid.IntRange(1, 3).Draw(t, "writers"), Readers: rapid.IntRange(1, 3).Draw(t, "readers"),
			WriterOps: rapid.IntRange(30, 120).Draw(t, "writerOps"), Batch: rapid.IntRange(1, 12).Draw(t, "batch"),
			OverwritePct: rapid.SampledFrom([]int{0, 10, 30, 60}).Draw(t, "overwritePct"),
			DeleterOps:   rapid.IntRange(10, 90).Draw(t, "deleterOps"), ReaderOps: rapid.IntRange(30, 150).Draw(t, "readerOps"),
			Snapshots: rapid.IntRange(6, 16).Draw(t, "snapshots"), Backups: rapid.IntRange(0, 3).Draw(t, "backups"),
			CloseMidRun: rapid.IntRange(0, 4).Draw(t, "closeMidRun") == 0,
			Procs:       rapid.SampledFrom([]int{2, 4, 16}).Draw(t, "gomaxprocs"),
		}
		for g := 0; g < 12; g++ {
			w.Yields = append(w.Yields, rapid.SliceOfN(rapid.IntRange(0, 12), 16, 16).Draw(t, "yields"))
			w.Choices = append(w.Choices, rapid.SliceOfN(rapid.IntRange(0, 9999), 64, 64).Draw(t, "choices"))
		}
		if off := os.Getenv("VERIF_C39_OFF"); off != "" { // developer knob for bisecting a failure
			if strings.Contains(off, "backup") {
				w.Backups = 0
			}
			if strings.Contains(off, "deleter") {
				w.DeleterOps = 0
			}
			if strings.Contains(off, "snap") {
				w.Snapshots = 0
			}
			if strings.Contains(off, "close") {
				w.CloseMidRun = false
			}
			if strings.Contains(off, "readers") {
				w.ReaderOps = 0
			}
		}
		if w.CloseMidRun && ev.KnownOpen("C39", closeDeleteKey) {
			// open known finding: Shard close deadlocks with an in-flight delete (the delete retains the
			// index file set and then needs Index.mu; Close holds Index.mu and waits for the file set).
			// Excluded by construction: no deleter in workloads that close mid-run.
			w.DeleterOps = 0
			rec.ExcludedKnown(closeDeleteKey)
		}
		if force := os.Getenv("VERIF_C39_FORCE"); force != "" {
			w.CloseMidRun = strings.Contains(force, "close")
		}
		if hangVerdict != "" {
			rec.Fail(t, "TestPropConcurrentWorkload", "hang", hangVerdict, nil)
		}
		r := runWorkload(t, w)
		if r.slow {
			rec.Inconclusive("a workload was still making progress after 15 minutes (machine too busy); not judged")
			return
		}
		if r.hung {
			// A hang is reported as a violation only if it reproduces: the same workload is run
			// twice more (schedules differ, so this is a heuristic in the cautious direction).
			again := 0
			for i := 0; i < 2; i++ {
				if r2 := runWorkload(t, w); r2.hung {
					again++
				} else {
					r2.f.Close()
					os.RemoveAll(r2.f.Root)
				}
			}
			if again == 2 {
				// leaked goroutines of a deadlocked engine make every further execution in this process
				// slow or hung as well: remember the verdict so that rapid's re-runs of the property (to
				// confirm and to shrink) fail at once with the same report
				hangVerdict = fmt.Sprintf("no operation of the workload started or returned for 60 s in 3 of 3 executions (goroutine dumps under /tmp/c39-watchdog-*.txt): %+v", w)
				rec.Fail(t, "TestPropConcurrentWorkload", "hang", fmt.Sprintf("no operation of the workload started or returned for 60 s in 3 of 3 executions (goroutine dumps under /tmp/c39-watchdog-*.txt): %+v", w), w)
			}
			rec.Inconclusive(fmt.Sprintf("a workload stalled for 60 s once and finished on re-execution (%d of 2 re-executions hung)", again))
			return
		}
		defer os.RemoveAll(r.f.Root)
		defer r.f.Close()
		r.verify()
	})
}

func TestKnown_delete_during_snapshot_window(t *testing.T) {
	mc := eng.New("C39", rec, func(key, detail string, c any) {
		rec.Fail(t, "TestKnown_delete_during_snapshot_window", key, detail, c)
	}, t.Fatalf)
	defer mc.Close()
	s := "m1,host=d"
	if err := mc.F.Write([]models.Point{point(s, 10, 1), point(s, 20, 2)}); err != nil {
		t.Fatal(err)
	}
	snapErr, delErr, reached := mc.RunDeleteInSnapshotWindow([]string{s}, 0, 15)
	if snapErr != nil || delErr != nil || !reached {
		t.Fatalf("harness: snapErr=%v delErr=%v reached=%v", snapErr, delErr, reached)
	}
	after, _ := mc.F.Read(s, "fi", 0, 100, true)
	rec.Known(t, "TestKnown_delete_during_snapshot_window", windowKey, len(after) != 1,
		fmt.Sprintf("a range delete [0,15] of m1,host=d that runs to completion while a cache snapshot is in progress (between Cache.Snapshot() and its commit) leaves the deleted point @10 readable: read after both completed returns %s — no serial order of the completed write, delete and snapshot produces that", model.Render(after)), nil)
}

// TestHelperCloseVsDelete runs in a child process (see TestKnown_close_vs_delete_deadlock): a
// delete that removes the last data of a series is held (hook point) after its WAL entry was
// written, i.e. while it still retains the index file set and before it updates the index and
// the field set; Store.Close is started; the delete is released.
func TestHelperCloseVsDelete(t *testing.T) {
	if os.Getenv("VERIF_C39_HELPER") == "" {
		t.Skip("helper for TestKnown_close_vs_delete_deadlock")
	}
	dir, err := scratch.Dir("c39-known-")
	if err != nil {
		t.Fatal(err)
	}
	defer os.RemoveAll(dir)
	f := &fix.ShardFix{Root: dir, Background: true}
	if err := f.Open(); err != nil {
		t.Fatal(err)
	}
	if err := f.Store.WriteToShard(context.Background(), fix.ShardID, []models.Point{point(deleterSeries, 10, 1)}); err != nil {
		t.Fatal(err)
	}
	reached, release := make(chan struct{}, 1), make(chan struct{})
	armed := atomic.Bool{}
	verifhook.Set(func(name, detail string) {
		if name == "tsm1.wal.after-write" && strings.HasPrefix(detail, dir) && armed.CompareAndSwap(true, false) {
			reached <- struct{}{}
			<-release
		}
	})
	armed.Store(true)
	delDone, closeDone := make(chan error, 1), make(chan error, 1)
	go func() {
		delDone <- f.Store.Shard(fix.ShardID).DeleteSeriesRange(context.Background(), fix.NewSeriesIter([]string{deleterSeries}), models.MinNanoTime, models.MaxNanoTime)
	}()
	select {
	case <-reached:
	case <-time.After(10 * time.Second):
		fmt.Println("HELPER-RESULT: harness-problem delete did not reach the hook")
		return
	}
	go func() { closeDone <- f.Store.Close() }()
	time.Sleep(500 * time.Millisecond) // let Close get into Index.Close
	close(release)
	finished := 0
	timeout := time.After(8 * time.Second)
	for finished < 2 {
		select {
		case err := <-delDone:
			fmt.Printf("HELPER-NOTE: delete returned %v\n", err)
			finished++
		case err := <-closeDone:
			fmt.Printf("HELPER-NOTE: close returned %v\n", err)
			finished++
		case <-timeout:
			fmt.Printf("HELPER-RESULT: deadlock %d of 2 calls returned within 8s\n", finished)
			os.Stdout.Sync()
			os.Exit(0) // stuck goroutines cannot be joined
		}
	}
	fmt.Println("HELPER-RESULT: both-returned")
}

// TestKnown_close_vs_delete_deadlock runs the scenario in a child process because its two known
// outcomes are a deadlock (Close holds tsi1 Index.mu and waits in LogFile.Close for the file set
// the delete retains; the delete waits for Index.mu in DropSeries) or a process-killing panic
// ("send on closed channel": the delete saves field-set changes after Close shut the change
// manager down). Both come from Close not waiting for / excluding an in-flight delete.
func TestKnown_close_vs_delete_deadlock(t *testing.T) {
	cmd := exec.Command(os.Args[0], "-test.run=^TestHelperCloseVsDelete$", "-test.count=1", "-test.timeout=60s")
	cmd.Env = append(os.Environ(), "VERIF_C39_HELPER=1", "VERIF_PARTS=")
	out, _ := cmd.CombinedOutput()
	o := string(out)
	switch {
	case strings.Contains(o, "HELPER-RESULT: deadlock"):
		rec.Known(t, "TestKnown_close_vs_delete_deadlock", closeDeleteKey, true,
			"Store.Close started while a range delete of the only point of m1,host=d is between its WAL write and its index update: neither call returns within 8 s (Close holds tsi1 Index.mu and waits in LogFile.Close for the file set the delete retains; the delete waits for Index.mu in DropSeries)", nil)
	case strings.Contains(o, "send on closed channel"):
		rec.Known(t, "TestKnown_close_vs_delete_deadlock", closeDeleteKey, true,
			"Store.Close started while a range delete of the only point of m1,host=d is between its WAL write and its index update: the process dies with 'panic: send on closed channel' in measurementFieldSetChangeMgr.RequestSave (the delete saves field-set changes after Close shut the change manager down)", nil)
	case strings.Contains(o, "HELPER-RESULT: both-returned"):
		rec.Known(t, "TestKnown_close_vs_delete_deadlock", closeDeleteKey, false, "", nil)
	default:
		rec.Inconclusive("close-vs-delete helper process gave no verdict: " + o[max(0, len(o)-400):])
	}
}

// TestKnown_transient_stale_read re-runs the workload in which the generated search first met
// the finding (1 overwriting writer with batches of one new and sometimes one overwritten
// timestamp, 3 readers, a writer-deleter on another series, 10 snapshots, 1 backup, GOMAXPROCS 4)
// up to 3 times and reports whether a read returned a past state of the writer's series.
func TestKnown_transient_stale_read(t *testing.T) {
	mk := func(seed int) workload {
		w := workload{Writers: 1, Readers: 3, WriterOps: 95, Batch: 2, OverwritePct: 30, DeleterOps: 53, ReaderOps: 105, Snapshots: 10, Backups: 1, Procs: 4}
		for g := 0; g < 12; g++ {
			ys, cs := make([]int, 16), make([]int, 64)
			for i := range ys {
				ys[i] = (i*7 + g*3 + seed) % 13
			}
			for i := range cs {
				cs[i] = (i*i*31 + g*977 + seed*131 + i*7919) % 10000
			}
			w.Yields, w.Choices = append(w.Yields, ys), append(w.Choices, cs)
		}
		return w
	}
	what := ""
	rapid.Check(t, func(rt *rapid.T) {
		// rapid.T is only used as the failure sink of runWorkload; nothing is drawn
		for attempt := 0; attempt < 2 && what == ""; attempt++ {
			r := runWorkload(rt, mk(attempt))
			if r.hung {
				return
			}
			for _, o := range r.rops {
				if o.err != nil || o.series == deleterSeries {
					continue
				}
				if _, ok := r.checkOverwriterRead(o, 0); !ok {
					if lag, stale := r.staleRead(o, 0); stale {
						what = fmt.Sprintf("a read of m0,host=w0 (ticks %d..%d, %d points) returned the series as it was %d acknowledged writes earlier: it lacks timestamps whose writes had returned before the read was invoked; %s", o.inv, o.resp, len(o.got), lag, o.diag)
						break
					}
				}
			}
			r.f.Close()
			os.RemoveAll(r.f.Root)
		}
	})
	rec.Known(t, "TestKnown_transient_stale_read", staleReadKey, what != "", what, nil)
}

var _ = sort.Ints

const zombieKey = "compactions-enabled-on-closed-engine"

// Store.WriteToShard re-enables compactions of an idle shard (Shard.SetCompactionsEnabled(true))
// after it has fetched the shard and its engine without holding a lock across the call. If the
// shard is closed in between, Engine.SetCompactionsEnabled(true) runs on the CLOSED engine and
// starts its cache-snapshot and compaction goroutines again: the closed engine keeps writing TSM
// files into the shard directory and removing WAL segments, also after the shard was re-opened
// (found by the concurrent workloads: a re-opened shard served a state that lacked acknowledged
// writes, its WAL segments had been removed by the old engine). The same happens when a delete
// that is still running re-enables level compactions after Close (enableLevelCompactions(true)).
// Reproducer: the engine call of the racing writer is made directly after Close returned.
func TestKnown_compactions_enabled_on_closed_engine(t *testing.T) {
	dir, err := scratch.Dir("c39-")
	if err != nil {
		t.Fatal(err)
	}
	defer os.RemoveAll(dir)
	f := &fix.ShardFix{Root: dir, Background: true, Tweak: func(o *tsdb.EngineOptions) {
		o.Config.CacheSnapshotWriteColdDuration = toml.Duration(100 * time.Millisecond)
	}}
	if err := f.Open(); err != nil {
		t.Fatal(err)
	}
	if err := f.Store.WriteToShard(context.Background(), fix.ShardID, []models.Point{point(writerSeries(0), 10, 1)}); err != nil {
		t.Fatal(err)
	}
	e, err := f.Engine()
	if err != nil {
		t.Fatal(err)
	}
	walBefore, _ := filepath.Glob(filepath.Join(f.WALDir(), "*.wal"))
	if err := f.Store.Close(); err != nil {
		t.Fatal(err)
	}
	tsmAtClose := len(f.TSMFiles())
	e.SetCompactionsEnabled(true) // what the writer that raced with Close does next
	deadline := time.Now().Add(3 * time.Second)
	reproduced := false
	var detail string
	for time.Now().Before(deadline) && !reproduced {
		time.Sleep(200 * time.Millisecond)
		walNow, _ := filepath.Glob(filepath.Join(f.WALDir(), "*.wal"))
		if n := len(f.TSMFiles()); n > tsmAtClose || len(walNow) < len(walBefore) {
			reproduced = true
			detail = fmt.Sprintf("after Store.Close() returned: %d TSM files and WAL segments %v; %s after Engine.SetCompactionsEnabled(true) on the closed engine: %d TSM files, WAL segments %v — the closed engine snapshotted its cache into the shard directory and removed the WAL", tsmAtClose, base(walBefore), time.Since(deadline.Add(-3*time.Second)).Round(100*time.Millisecond), n, base(walNow))
		}
	}
	e.SetCompactionsEnabled(false)
	rec.Known(t, "TestKnown_compactions_enabled_on_closed_engine", zombieKey, reproduced, detail, nil)
}

func base(paths []string) []string {
	out := make([]string, len(paths))
	for i, p := range paths {
		out[i] = filepath.Base(p)
	}
	return out
}

// hangVerdict is set once a workload stalled three times in a row (see TestPropConcurrentWorkload).
var hangVerdict string

const emptyAtCloseKey = "influxql-read-during-close-returns-empty"

const staleSetKey = "stale-series-id-set-cached-during-series-creation"

// tsi1.Index.TagValueSeriesIDIterator reads the series id set of a tag value from the partitions
// and puts it into the tag value cache afterwards; a series created in between updates only sets
// that are cached already. The stale set (without the new series) is then served to every index
// lookup by that tag value: the acknowledged series is invisible to InfluxQL / storage reads
// with a tag predicate until the cache entry is evicted. Found by the concurrent workloads
// (early reads of a writer's series returning nothing); here a new series is created per
// round while two readers query its tag value.
func TestKnown_stale_series_id_set_cached_during_series_creation(t *testing.T) {
	dir, err := scratch.Dir("c39-")
	if err != nil {
		t.Fatal(err)
	}
	defer os.RemoveAll(dir)
	f := &fix.ShardFix{Root: dir, Background: true}
	if err := f.Open(); err != nil {
		t.Fatal(err)
	}
	defer f.Close()
	reproduced := false
	var detail string
	for k := 0; k < 500 && !reproduced; k++ {
		s := fmt.Sprintf("m0,host=n%d", k)
		var stop atomic.Bool
		var wg sync.WaitGroup
		for r := 0; r < 2; r++ {
			wg.Add(1)
			go func() {
				defer wg.Done()
				for !stop.Load() {
					f.ReadInfluxQL(s, "fi", model.Integer, -1000, 1000, true)
				}
			}()
		}
		if err := f.Store.WriteToShard(context.Background(), fix.ShardID, []models.Point{point(s, 10, 1)}); err != nil {
			t.Fatal(err)
		}
		stop.Store(true)
		wg.Wait()
		got, err := f.ReadInfluxQL(s, "fi", model.Integer, -1000, 1000, true)
		if err == nil && len(got) == 0 {
			cur, _ := f.Read(s, "fi", -1000, 1000, true)
			again, _ := f.ReadInfluxQL(s, "fi", model.Integer, -1000, 1000, true)
			reproduced = true
			detail = fmt.Sprintf("round %d: the write creating series %s was acknowledged while two readers queried host=n%d; afterwards (no concurrency) SELECT fi WHERE host='n%d' returns %d points, again %d points, the cursor read by series key returns %d", k, s, k, k, len(got), len(again), len(cur))
		}
	}
	rec.Known(t, "TestKnown_stale_series_id_set_cached_during_series_creation", staleSetKey, reproduced, detail, nil)
}

// An InfluxQL iterator created while Store.Close() is running can report success with no
// points although the series holds acknowledged points: the engine finds the measurement
// missing in the index that is being closed (Index.MeasurementExists on closed partitions) and
// returns no iterators instead of an error. No serial order of the read and the close gives an
// empty success (before the close the points are there, after it the read fails with "engine is
// closed"). Reproducer: readers loop on SELECT while the store is closed.
func TestKnown_influxql_read_during_close_returns_empty(t *testing.T) {
	reproduced := false
	var detail string
	for round := 0; round < 40 && !reproduced; round++ {
		dir, err := scratch.Dir("c39-")
		if err != nil {
			t.Fatal(err)
		}
		f := &fix.ShardFix{Root: dir, Background: true}
		if err := f.Open(); err != nil {
			t.Fatal(err)
		}
		s := writerSeries(0)
		if err := f.Store.WriteToShard(context.Background(), fix.ShardID, []models.Point{point(s, 10, 1)}); err != nil {
			t.Fatal(err)
		}
		var wg sync.WaitGroup
		var stop atomic.Bool
		var empty atomic.Int64
		for r := 0; r < 4; r++ {
			wg.Add(1)
			go func() {
				defer wg.Done()
				for !stop.Load() {
					got, err := f.ReadInfluxQL(s, "fi", model.Integer, -1000, 1000, true)
					if err == nil && len(got) == 0 {
						empty.Add(1)
					}
					if err != nil {
						return
					}
				}
			}()
		}
		time.Sleep(time.Duration(round%5) * time.Millisecond)
		_ = f.Store.Close()
		stop.Store(true)
		wg.Wait()
		if n := empty.Load(); n > 0 {
			reproduced = true
			detail = fmt.Sprintf("round %d: %s holds 1 acknowledged point; while Store.Close() ran, %d SELECTs of it returned success with 0 points (before the close they return the point, after it an error)", round, s, n)
		}
		os.RemoveAll(dir)
	}
	rec.Known(t, "TestKnown_influxql_read_during_close_returns_empty", emptyAtCloseKey, reproduced, detail, nil)
}
